#!/usr/bin/env python3
"""Translator: the *shape* of `StdLock::apply` in crates/lock/src/lib.rs
    -> Lean `Essential/Gen/Lock.lean`   (step list of `apply`: acquire / call / release)
    -> Rust `harness-loom/src/lock_gen.rs` (the real source with std's sync primitives
       replaced by loom's, so that loom can enumerate the interleavings of the real code).

What is recognised.  The body of `apply` must be a straight-line block whose statements are
each one of

  F(&mut G)                     the closure called on a guard *temporary*; the temporary lives
  let x = F(&mut G);            until the end of the statement, i.e. until after F returned
                                                              => acquire, call, release
  let [mut] g = G;              a named guard                 => acquire  (released by drop(g) /
                                                                 at the end of the block)
  F(&mut g) / F(&mut *g) / let x = F(&mut v);                 => call
  let x = G.clone(); / let x = *G; / *G = e;                  => acquire, release
  drop(g);                                                    => release
  x                             (tail: a plain variable)      => nothing

where F is the closure parameter of `apply` and G is `self.<field>.lock().expect("..")` or
`self.<field>.lock().unwrap()` with <field> the struct's `Mutex<T>` field.  Anything else
(control flow, other synchronisation objects, `unsafe`, unknown statements) is *not* guessed
at: the step list is emitted as `[]`.  In every case other than [acquire, call, release]
the Lean theorem `shape_is_lock_call_unlock` fails, which is the signal that the
correspondence between the source and the proved model is broken.

Always exits 0 (a shape that is not recognised is a verdict for the proof audit, not a tool
failure); prints one status line.
"""
import os, re, sys

ROOT = os.path.dirname(os.path.dirname(os.path.abspath(__file__)))
REPO = os.environ.get("VERIF_REPO", "/repo")
SRC = os.path.join(REPO, "crates", "lock", "src", "lib.rs")
LEAN_OUT = os.path.join(ROOT, "lean", "Essential", "Gen", "Lock.lean")
LOOM_OUT = os.path.join(ROOT, "harness-loom", "src", "lock_gen.rs")


def strip_comments(src, keep_strings=True):
    """remove // and /* */ comments (string literals respected)"""
    out, i, n = [], 0, len(src)
    while i < n:
        c = src[i]
        if c == '"':
            j = i + 1
            while j < n and src[j] != '"':
                j += 2 if src[j] == "\\" else 1
            out.append(src[i:j + 1])
            i = j + 1
        elif src.startswith("//", i):
            j = src.find("\n", i)
            i = n if j < 0 else j
        elif src.startswith("/*", i):
            depth, j = 1, i + 2
            while j < n and depth:
                if src.startswith("/*", j):
                    depth += 1; j += 2
                elif src.startswith("*/", j):
                    depth -= 1; j += 2
                else:
                    j += 1
            i = j
        elif c == "'" and re.match(r"'(\\.|[^\\'])'", src[i:i + 4]):
            m = re.match(r"'(\\.|[^\\'])'", src[i:i + 4])
            out.append(m.group(0)); i += len(m.group(0))
        else:
            out.append(c); i += 1
    return "".join(out)


def matching(src, i, open_="{", close="}"):
    """index just after the bracket matching src[i] (string literals respected)"""
    depth, n = 0, len(src)
    while i < n:
        c = src[i]
        if c == '"':
            i += 1
            while i < n and src[i] != '"':
                i += 2 if src[i] == "\\" else 1
        elif c == open_:
            depth += 1
        elif c == close:
            depth -= 1
            if depth == 0:
                return i + 1
        i += 1
    raise ValueError("unbalanced")


def split_statements(body):
    """top-level `;`-separated statements of a block body; last element is the tail ('' if none)"""
    parts, cur, depth, i, n = [], [], 0, 0, len(body)
    while i < n:
        c = body[i]
        if c == '"':
            j = i + 1
            while j < n and body[j] != '"':
                j += 2 if body[j] == "\\" else 1
            cur.append(body[i:j + 1]); i = j + 1
            continue
        if c in "([{":
            depth += 1
        elif c in ")]}":
            depth -= 1
        if c == ";" and depth == 0:
            parts.append("".join(cur)); cur = []
        else:
            cur.append(c)
        i += 1
    parts.append("".join(cur))
    return parts


def norm(s):
    s = re.sub(r"\s+", " ", s.strip())
    s = re.sub(r" ?([^\w\s\"]) ?", r"\1", s)   # no blanks around punctuation
    return s


def analyse(src):
    """-> (steps or None, usesStdMutex, note)"""
    code = strip_comments(src)
    has_unsafe = re.search(r"\bunsafe\b", re.sub(r"#!?\[[^\]]*\]", "", code)) is not None
    # --- the struct and its Mutex field
    m = re.search(r"\bstruct\s+StdLock\s*<\s*(\w+)\s*>\s*\{", code)
    if not m:
        return None, False, "struct StdLock<T> not found"
    tparam = m.group(1)
    end = matching(code, m.end() - 1)
    fields = [f.strip() for f in code[m.end():end - 1].split(",") if f.strip()]
    imports_mutex = re.search(r"\buse\s+std::sync::(Mutex\b|\{[^}]*\bMutex\b[^}]*\})", code) is not None
    mutex_fields, other_fields = [], []
    for f in fields:
        fm = re.match(r"(?:pub(?:\([^)]*\))?\s+)?(\w+)\s*:\s*(.+)$", f, re.S)
        if not fm:
            return None, False, f"field not understood: {f!r}"
        ty = norm(fm.group(2))
        if ty == f"std::sync::Mutex<{tparam}>" or (imports_mutex and ty == f"Mutex<{tparam}>"):
            mutex_fields.append(fm.group(1))
        else:
            other_fields.append(fm.group(1))
    uses_std = len(mutex_fields) == 1 and not has_unsafe
    # --- fn apply
    m = re.search(r"\bfn\s+apply\b", code)
    if not m:
        return None, uses_std, "fn apply not found"
    p0 = code.index("(", m.end())
    p1 = matching(code, p0, "(", ")")
    params = norm(code[p0 + 1:p1 - 1])
    pm = re.match(r"&self,(\w+):impl FnOnce\(&mut " + re.escape(tparam) + r"\)->(\w+),?$", params)
    if not pm:
        return None, uses_std, f"signature of apply not understood: ({params})"
    F = pm.group(1)
    b0 = code.index("{", p1)
    b1 = matching(code, b0)
    stmts = split_statements(code[b0 + 1:b1 - 1])
    tail = norm(stmts[-1])
    stmts = [norm(s) for s in stmts[:-1] if s.strip()]
    if len(mutex_fields) != 1:
        return None, uses_std, f"expected exactly one Mutex<{tparam}> field, found {mutex_fields}"
    fld = mutex_fields[0]
    G = r"self\." + re.escape(fld) + r"\.lock\(\)\.(?:expect\(\"[^\"]*\"\)|unwrap\(\))"
    LET = r"(?:let (?:mut )?(?P<x>\w+)(?::[^=]+)?=)"
    steps, guards, notes = [], [], []

    def one(s, is_tail):
        mm = re.fullmatch(LET + "?" + F + r"\(&mut " + G + r"\)", s)
        if mm:
            steps.extend(["acquire", "call", "release"]); return True
        mm = re.fullmatch(LET + G, s)
        if mm and not is_tail:
            steps.append("acquire"); guards.append(mm.group("x")); return True
        mm = re.fullmatch(LET + "?" + F + r"\(&mut(?: |\*)(?P<v>\w+)\)", s)
        if mm:
            steps.append("call")
            if mm.group("v") not in guards:
                notes.append(f"closure runs on `{mm.group('v')}`, which is not a live guard")
            return True
        if re.fullmatch(LET + r"(?:" + G + r"\.clone\(\)|\*" + G + r")", s) and not is_tail:
            steps.extend(["acquire", "release"]); return True
        if re.fullmatch(r"\*" + G + r"=[^=].*", s) and not is_tail:
            steps.extend(["acquire", "release"]); return True
        mm = re.fullmatch(r"(?:std::mem::|core::mem::|mem::)?drop\((\w+)\)", s)
        if mm and mm.group(1) in guards:
            guards.remove(mm.group(1)); steps.append("release"); return True
        if is_tail and re.fullmatch(r"\w*", s):
            return True
        return False

    for s in stmts:
        if not one(s, False):
            return None, uses_std, f"statement of apply not understood: {s[:80]!r}"
    if not one(tail, True):
        return None, uses_std, f"tail expression of apply not understood: {tail[:80]!r}"
    steps.extend("release" for _ in guards)          # named guards die at the end of the block
    if other_fields:
        notes.append(f"extra fields {other_fields}")
    return steps, uses_std, "; ".join(notes) or "recognised"


def loom_source(src):
    """the real source with std sync/thread/hint paths replaced by loom's, inner attributes and
    doc comments stripped (it becomes a non-root module of the loom crate)"""
    out = []
    for line in src.split("\n"):
        st = line.lstrip()
        if st.startswith("#![") or st.startswith("//!") or st.startswith("///"):
            continue
        out.append(line)
    text = "\n".join(out)
    text = re.sub(r"\b(?:std|core)::sync::", "loom::sync::", text)
    text = re.sub(r"\bstd::thread::", "loom::thread::", text)
    text = re.sub(r"\b(?:std|core)::hint::", "loom::hint::", text)
    return ("// GENERATED by gen/lock_from_rust.py from crates/lock/src/lib.rs "
            "(std sync primitives -> loom). Do not edit.\n" + text.lstrip("\n"))


def write_if_changed(path, text):
    try:
        if open(path).read() == text:
            return False
    except FileNotFoundError:
        pass
    os.makedirs(os.path.dirname(path), exist_ok=True)
    open(path, "w").write(text)
    return True


def main():
    try:
        src = open(SRC).read()
    except OSError as ex:
        src = ""
        steps, uses_std, note = None, False, f"cannot read {SRC}: {ex}"
    else:
        try:
            steps, uses_std, note = analyse(src)
        except Exception as ex:           # unbalanced braces etc.
            steps, uses_std, note = None, False, f"not parseable: {ex}"
    lean_steps = "[" + ", ".join("." + s for s in (steps or [])) + "]"
    esc = note.replace("\\", "\\\\").replace('"', '\\"')
    L = ["-- GENERATED by gen/lock_from_rust.py from crates/lock/src/lib.rs. Do not edit.",
         "namespace Essential.LockGen\n",
         "/-- what `StdLock::apply` does with the mutex, one constructor per kind of step -/",
         "inductive Step | acquire | call | release",
         "deriving Repr, DecidableEq\n",
         "/-- the steps of `apply` in program order, as extracted from the source",
         "(`[]`: the body is not of a form the translator understands) -/",
         f"def applyShape : List Step := {lean_steps}\n",
         "/-- the struct has exactly one `std::sync::Mutex<T>` field, `apply` locks that field, and",
         "the crate contains no `unsafe` -/",
         f"def usesStdMutex : Bool := {'true' if uses_std else 'false'}\n",
         f'def note : String := "{esc}"\n',
         "end Essential.LockGen"]
    c1 = write_if_changed(LEAN_OUT, "\n".join(L) + "\n")
    c2 = write_if_changed(LOOM_OUT, loom_source(src)) if src else False
    print(f"lock: applyShape={lean_steps} usesStdMutex={uses_std} note={note!r} changed={c1 or c2}")


if __name__ == "__main__":
    main()
    sys.exit(0)
