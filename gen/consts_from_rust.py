#!/usr/bin/env python3
"""Translator: limit / size constants scraped from the Rust sources -> Lean `Essential/Gen/Consts.lean`.

Each constant is located by a regular expression in a named file; the right-hand side is a
literal or a product/shift of literals (with `_` separators, `as usize` casts and type
suffixes allowed).  A constant that can no longer be found is emitted as `0` together with
a note in `missing`, which makes the dependent theorems fail (reported by the audit).
"""
import json, os, re, sys

ROOT = os.path.dirname(os.path.dirname(os.path.abspath(__file__)))
REPO = os.environ.get("VERIF_REPO", "/repo")

CONSTS = [
    # lean name, file, regex with one group = expression
    ("stackSizeLimit", "crates/vm/src/stack.rs", r"pub const SIZE_LIMIT: usize = ([^;]+);"),
    ("memorySizeLimit", "crates/vm/src/memory.rs", r"pub const SIZE_LIMIT: usize = ([^;]+);"),
    ("maxComputeDepth", "crates/vm/src/compute.rs", r"pub const MAX_COMPUTE_DEPTH: usize = ([^;]+);"),
    ("maxPredicateData", "crates/check/src/solution.rs", r"pub const MAX_PREDICATE_DATA: u32 = ([^;]+);"),
    ("maxSolutions", "crates/check/src/solution.rs", r"pub const MAX_SOLUTIONS: usize = ([^;]+);"),
    ("maxStateMutations", "crates/check/src/solution.rs", r"pub const MAX_STATE_MUTATIONS: usize = ([^;]+);"),
    ("maxValueSize", "crates/check/src/solution.rs", r"pub const MAX_VALUE_SIZE: usize = ([^;]+);"),
    ("maxKeySize", "crates/check/src/solution.rs", r"pub const MAX_KEY_SIZE: usize = ([^;]+);"),
    ("maxPredicates", "crates/check/src/predicate.rs", r"pub const MAX_PREDICATES: usize = ([^;]+);"),
    ("maxNodes", "crates/types/src/predicate.rs", r"pub const MAX_NODES: u16 = ([^;]+);"),
    ("maxEdges", "crates/types/src/predicate.rs", r"pub const MAX_EDGES: u16 = ([^;]+);"),
    ("nodeSizeBytes", "crates/types/src/predicate/encode.rs", r"const NODE_SIZE_BYTES: usize = ([^;]+);"),
    ("effKeyRange", "crates/asm/src/effects.rs", r"const KeyRange = ([^;]+);"),
    ("effKeyRangeExtern", "crates/asm/src/effects.rs", r"const KeyRangeExtern = ([^;]+);"),
    ("effThisAddress", "crates/asm/src/effects.rs", r"const ThisAddress = ([^;]+);"),
    ("effThisContractAddress", "crates/asm/src/effects.rs", r"const ThisContractAddress = ([^;]+);"),
    ("effPostKeyRange", "crates/asm/src/effects.rs", r"const PostKeyRange = ([^;]+);"),
    ("effPostKeyRangeExtern", "crates/asm/src/effects.rs", r"const PostKeyRangeExtern = ([^;]+);"),
]

def evaluate(expr):
    e = expr.strip()
    e = re.sub(r"\bas\s+\w+", "", e)
    e = re.sub(r"(?<=\d)_(?=\d)", "", e)
    e = re.sub(r"(\d)(usize|u64|u32|u16|u8|i64)\b", r"\1", e)
    if not re.fullmatch(r"[0-9xXa-fA-F\s\*\+\-<>\(\)]+", e):
        raise ValueError(expr)
    return int(eval(e, {"__builtins__": {}}))

def resolve(expr, src):
    """a literal expression, or a named constant of the same file (`const NAME: T = <literal expr>;`)"""
    e = expr.strip()
    try:
        return evaluate(e)
    except ValueError:
        pass
    if e in ("Gas::MAX", "u64::MAX"):
        return (1 << 64) - 1
    m = re.fullmatch(r"(?:Self::|self::)?([A-Z][A-Z0-9_]*)", e)
    if m:
        d = re.search(r"const %s\s*:\s*[\w:]+\s*=\s*([^;]+);" % m.group(1), src)
        if d:
            return resolve(d.group(1), src)
    raise ValueError(expr)


def check_gas(name):
    """the gas settings `run_program` (crates/check) gives every program: cost per op and total limit.
    `GasLimit::UNLIMITED` is resolved through its definition in crates/vm/src/lib.rs."""
    src = open(os.path.join(REPO, "crates/check/src/solution.rs")).read()
    body = src[src.index("fn run_program"):]
    if name == "checkGasCost":
        m = re.search(r"let gas_cost = \|_: &asm::Op\| ([^;]+);", body)
        return resolve(m.group(1), src)
    m = re.search(r"let gas_limit = ([^;]+);", body)
    e = " ".join(m.group(1).split())
    vm = open(os.path.join(REPO, "crates/vm/src/lib.rs")).read()
    unl = re.search(r"pub const UNLIMITED: Self = Self \{([^}]*)\}", vm).group(1)
    unl_total = resolve(re.search(r"total:\s*([^,]+),", unl).group(1), vm)
    if e == "GasLimit::UNLIMITED":
        return unl_total
    m2 = re.fullmatch(r"GasLimit \{(.*)\}", e)
    if m2:
        t = re.search(r"total:\s*([^,}]+)", m2.group(1))
        if t:
            return resolve(t.group(1), src)
        if "..GasLimit::UNLIMITED" in m2.group(1):
            return unl_total
    raise ValueError(e)


def main():
    vals, missing = {}, []
    for name in ("checkGasCost", "checkGasLimit"):
        try:
            vals[name] = check_gas(name)
        except Exception as ex:
            vals[name] = 0
            missing.append(f"{name} (crates/check/src/solution.rs run_program): {ex}")
    for name, f, rx in CONSTS:
        try:
            src = open(os.path.join(REPO, f)).read()
            m = re.search(rx, src)
            vals[name] = evaluate(m.group(1))
        except Exception as ex:  # not found / not a literal expression
            vals[name] = 0
            missing.append(f"{name} ({f}): {ex}")
    L = ["-- GENERATED by gen/consts_from_rust.py from the Rust sources. Do not edit.",
         "namespace Essential.Consts\n"]
    for name, _, _ in CONSTS:
        L.append(f"def {name} : Nat := {vals[name]}")
    L.append("/-- `run_program`: gas cost of every op and the total gas limit given to each program -/")
    L.append(f"def checkGasCost : Nat := {vals['checkGasCost']}")
    L.append(f"def checkGasLimit : Nat := {vals['checkGasLimit']}")
    L.append("\nend Essential.Consts")
    text = "\n".join(L) + "\n"
    path = f"{ROOT}/lean/Essential/Gen/Consts.lean"
    changed = True
    try:
        changed = open(path).read() != text
    except FileNotFoundError:
        pass
    if changed:
        os.makedirs(os.path.dirname(path), exist_ok=True)
        open(path, "w").write(text)
    json.dump({"values": vals, "missing": missing}, open(f"{ROOT}/gen/.consts.json", "w"))
    print(f"consts: {len(vals)} values, missing={missing}, changed={changed}")

if __name__ == "__main__":
    main()
