#!/usr/bin/env python3
"""Translator: limit / size constants scraped from the Rust sources -> Lean `Essential/Gen/Consts.lean`.

Each constant is located by a regular expression in a named file; the right-hand side is a
literal or a product/shift of literals (with `_` separators, `as usize` casts and type
suffixes allowed).  A constant that can no longer be found is emitted as `0` together with
a note in `missing`, which makes the dependent theorems fail (reported by the audit).
"""
import json, os, re, sys

ROOT = os.path.dirname(os.path.dirname(os.path.abspath(__file__)))
REPO = os.environ.get("VERIF_REPO", "/repo")

CONSTS = [
    # lean name, file, regex with one group = expression
    ("stackSizeLimit", "crates/vm/src/stack.rs", r"pub const SIZE_LIMIT: usize = ([^;]+);"),
    ("memorySizeLimit", "crates/vm/src/memory.rs", r"pub const SIZE_LIMIT: usize = ([^;]+);"),
    ("maxComputeDepth", "crates/vm/src/compute.rs", r"pub const MAX_COMPUTE_DEPTH: usize = ([^;]+);"),
    ("maxPredicateData", "crates/check/src/solution.rs", r"pub const MAX_PREDICATE_DATA: u32 = ([^;]+);"),
    ("maxSolutions", "crates/check/src/solution.rs", r"pub const MAX_SOLUTIONS: usize = ([^;]+);"),
    ("maxStateMutations", "crates/check/src/solution.rs", r"pub const MAX_STATE_MUTATIONS: usize = ([^;]+);"),
    ("maxValueSize", "crates/check/src/solution.rs", r"pub const MAX_VALUE_SIZE: usize = ([^;]+);"),
    ("maxKeySize", "crates/check/src/solution.rs", r"pub const MAX_KEY_SIZE: usize = ([^;]+);"),
    ("maxPredicates", "crates/check/src/predicate.rs", r"pub const MAX_PREDICATES: usize = ([^;]+);"),
    ("maxNodes", "crates/types/src/predicate.rs", r"pub const MAX_NODES: u16 = ([^;]+);"),
    ("maxEdges", "crates/types/src/predicate.rs", r"pub const MAX_EDGES: u16 = ([^;]+);"),
    ("nodeSizeBytes", "crates/types/src/predicate/encode.rs", r"const NODE_SIZE_BYTES: usize = ([^;]+);"),
    ("effKeyRange", "crates/asm/src/effects.rs", r"const KeyRange = ([^;]+);"),
    ("effKeyRangeExtern", "crates/asm/src/effects.rs", r"const KeyRangeExtern = ([^;]+);"),
    ("effThisAddress", "crates/asm/src/effects.rs", r"const ThisAddress = ([^;]+);"),
    ("effThisContractAddress", "crates/asm/src/effects.rs", r"const ThisContractAddress = ([^;]+);"),
    ("effPostKeyRange", "crates/asm/src/effects.rs", r"const PostKeyRange = ([^;]+);"),
    ("effPostKeyRangeExtern", "crates/asm/src/effects.rs", r"const PostKeyRangeExtern = ([^;]+);"),
]

def evaluate(expr):
    e = expr.strip()
    e = re.sub(r"\bas\s+\w+", "", e)
    e = re.sub(r"(?<=\d)_(?=\d)", "", e)
    e = re.sub(r"(\d)(usize|u64|u32|u16|u8|i64)\b", r"\1", e)
    if not re.fullmatch(r"[0-9xXa-fA-F\s\*\+\-<>\(\)]+", e):
        raise ValueError(expr)
    return int(eval(e, {"__builtins__": {}}))

def resolve(expr, src):
    """a literal expression, or a named constant of the same file (`const NAME: T = <literal expr>;`)"""
    e = expr.strip()
    try:
        return evaluate(e)
    except ValueError:
        pass
    if e in ("Gas::MAX", "u64::MAX"):
        return (1 << 64) - 1
    m = re.fullmatch(r"(?:Self::|self::)?([A-Z][A-Z0-9_]*)", e)
    if m:
        d = re.search(r"const %s\s*:\s*[\w:]+\s*=\s*([^;]+);" % m.group(1), src)
        if d:
            return resolve(d.group(1), src)
    raise ValueError(expr)


def split_args(text):
    """top-level comma separated arguments of a call, `text` starting right after the opening parenthesis"""
    args, depth, cur = [], 0, ""
    for ch in text:
        if ch in "([{":
            depth += 1
        elif ch in ")]}":
            if depth == 0:
                args.append(cur.strip())
                return args
            depth -= 1
        if ch == "," and depth == 0:
            args.append(cur.strip())
            cur = ""
        else:
            cur += ch
    raise ValueError("unterminated call")


def check_gas(name):
    """the gas settings `run_program` (crates/check) gives every program: cost per op and total limit, read off the arguments
    of the `exec*` call (cost = 4th, limit = 5th argument of `exec_ops` / `exec_bytecode` / `exec`), identifiers resolved
    through `let` bindings of the function and constants of the file; `GasLimit::UNLIMITED` through its definition in
    crates/vm/src/lib.rs."""
    src = open(os.path.join(REPO, "crates/check/src/solution.rs")).read()
    body = src[src.index("fn run_program"):]
    nxt = re.search(r"\n(pub )?(async )?fn ", body[10:])
    if nxt:
        body = body[:nxt.start() + 10]
    call = re.search(r"\.(exec_ops|exec_bytecode|exec)\s*\(", body)
    args = split_args(body[call.end():])

    def unlet(e):
        e = " ".join(e.split()).lstrip("&").strip()
        for _ in range(4):
            m = re.fullmatch(r"[a-z_][a-z0-9_]*", e)
            if not m:
                break
            d = re.search(r"let (?:mut )?%s(?:\s*:\s*[^=;]+)?\s*=\s*([^;]+);" % e, body)
            if not d:
                break
            e = " ".join(d.group(1).split()).lstrip("&").strip()
        return e

    if name == "checkGasCost":
        e = unlet(args[3])
        m = re.fullmatch(r"(?:move\s+)?\|[^|]*\|\s*(?:->\s*[\w:]+\s*)?\{?\s*([^{};]+?)\s*\}?", e)
        return resolve(m.group(1), src)
    e = unlet(args[4])
    vm = open(os.path.join(REPO, "crates/vm/src/lib.rs")).read()
    unl = re.search(r"pub const UNLIMITED: Self = Self \{([^}]*)\}", vm).group(1)
    unl_total = resolve(re.search(r"total:\s*([^,]+),", unl).group(1), vm)
    if e in ("GasLimit::UNLIMITED", "vm::GasLimit::UNLIMITED", "essential_vm::GasLimit::UNLIMITED"):
        return unl_total
    m2 = re.fullmatch(r"(?:\w+::)*GasLimit \{(.*)\}", e)
    if m2:
        t = re.search(r"total:\s*([^,}]+)", m2.group(1))
        if t:
            return resolve(t.group(1), src)
        if "UNLIMITED" in m2.group(1):
            return unl_total
    raise ValueError(e)


def main():
    vals, missing = {}, []
    for name in ("checkGasCost", "checkGasLimit"):
        try:
            vals[name] = check_gas(name)
        except Exception as ex:
            vals[name] = 0
            missing.append(f"{name} (crates/check/src/solution.rs run_program): {ex}")
    for name, f, rx in CONSTS:
        try:
            src = open(os.path.join(REPO, f)).read()
            m = re.search(rx, src)
            vals[name] = evaluate(m.group(1))
        except Exception as ex:  # not found / not a literal expression
            vals[name] = 0
            missing.append(f"{name} ({f}): {ex}")
    L = ["-- GENERATED by gen/consts_from_rust.py from the Rust sources. Do not edit.",
         "namespace Essential.Consts\n"]
    for name, _, _ in CONSTS:
        L.append(f"def {name} : Nat := {vals[name]}")
    L.append("/-- `run_program`: gas cost of every op and the total gas limit given to each program -/")
    L.append(f"def checkGasCost : Nat := {vals['checkGasCost']}")
    L.append(f"def checkGasLimit : Nat := {vals['checkGasLimit']}")
    L.append("\nend Essential.Consts")
    text = "\n".join(L) + "\n"
    path = f"{ROOT}/lean/Essential/Gen/Consts.lean"
    changed = True
    try:
        changed = open(path).read() != text
    except FileNotFoundError:
        pass
    if changed:
        os.makedirs(os.path.dirname(path), exist_ok=True)
        open(path, "w").write(text)
    json.dump({"values": vals, "missing": missing}, open(f"{ROOT}/gen/.consts.json", "w"))
    print(f"consts: {len(vals)} values, missing={missing}, changed={changed}")

if __name__ == "__main__":
    main()
