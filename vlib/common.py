"""Shared machinery of check.py: build, audit, correspondence run, verdict, evidence."""
import fcntl, hashlib, json, os, random, re, subprocess, sys, time

ROOT = os.path.dirname(os.path.dirname(os.path.abspath(__file__)))
REPO = os.environ.get("VERIF_REPO", "/repo")
LEAN = os.path.join(ROOT, "lean")
HARNESS = os.path.join(ROOT, "harness")
ALLOWED_AXIOMS = {"propext", "Classical.choice", "Quot.sound"}
ENV = dict(os.environ, CARGO_NET_OFFLINE="true")

I64_MIN, I64_MAX = -(1 << 63), (1 << 63) - 1


def sh(cmd, cwd=None, timeout=None, env=None, input=None):
    p = subprocess.run(cmd, cwd=cwd, shell=isinstance(cmd, str), stdout=subprocess.PIPE,
                       stderr=subprocess.STDOUT, timeout=timeout, env=env or ENV, input=input, text=True)
    return p.returncode, p.stdout


class BuildLock:
    def __enter__(self):
        self.f = open(os.path.join(ROOT, ".build.lock"), "w")
        fcntl.flock(self.f, fcntl.LOCK_EX)
        return self

    def __exit__(self, *a):
        fcntl.flock(self.f, fcntl.LOCK_UN)
        self.f.close()


# ---------------------------------------------------------------------------------------
# build: translators, lake, cargo

def run_translators(log):
    for t in ("spec_from_yaml.py", "consts_from_rust.py", "lock_from_rust.py"):
        p = os.path.join(ROOT, "gen", t)
        if os.path.exists(p):
            rc, out = sh([sys.executable, p])
            log.append(f"[translator {t}] rc={rc} {out.strip()}")
            if rc != 0:
                return False
    return True


def theorem_spans(path):
    """[(name, first_line, last_line)] for every `theorem` in a Lean file."""
    out, cur = [], None
    lines = open(path).read().split("\n")
    ns = []
    for i, l in enumerate(lines, 1):
        m = re.match(r"^namespace\s+(\S+)", l)
        if m:
            ns.append(m.group(1))
        m = re.match(r"^(?:@\[[^\]]*\]\s*)?(?:private\s+|protected\s+)?(theorem|lemma|def|example|instance|abbrev|structure|inductive)\b\s*(\S*)", l)
        if m:
            if cur:
                out.append((cur[0], cur[1], i - 1))
                cur = None
            if m.group(1) == "theorem":
                cur = (".".join(ns + [m.group(2)]), i)
        if re.match(r"^end\s+\S+", l) and cur:
            out.append((cur[0], cur[1], i - 1))
            cur = None
    if cur:
        out.append((cur[0], cur[1], len(lines)))
    return out


def lake_build(targets, log):
    """Returns (ok, failing {file: [lines]})."""
    rc, out = sh(["lake", "build"] + targets, cwd=LEAN, timeout=3000)
    log.append(f"[lake build {' '.join(targets)}] rc={rc}")
    fails = {}
    if rc != 0:
        log.append(out[-6000:])
        for m in re.finditer(r"error: (\S+?\.lean):(\d+):(\d+):", out):
            fails.setdefault(m.group(1), []).append(int(m.group(2)))
        if not fails:
            fails["<build>"] = [0]
    return rc == 0, fails


def module_path(mod):
    return os.path.join(LEAN, mod.replace(".", "/") + ".lean")


def audit(prop, modules, log, recheck=False):
    """Build the property modules and audit every theorem in them.
    Returns (obligations:[name], broken:{name: reason}).  With `recheck` (thorough tier) the compiled modules are
    re-checked by `leanchecker`, the toolchain's independent checker of .olean files."""
    obligations, broken = [], {}
    spans = {}
    for mod in modules:
        sp = theorem_spans(module_path(mod))
        spans[mod] = sp
        obligations += [n for n, _, _ in sp]
    ok, fails = lake_build(modules, log)
    if not ok:
        # attribute errors to theorems of the property files; errors elsewhere break everything
        attributed = False
        for mod in modules:
            rel = mod.replace(".", "/") + ".lean"
            for f, lines in fails.items():
                if f.endswith(rel):
                    for ln in lines:
                        for n, a, b in spans[mod]:
                            if a <= ln <= b:
                                broken[n] = f"proof fails at {rel}:{ln}"
                                attributed = True
        other = [f for f in fails if not any(f.endswith(m.replace(".", "/") + ".lean") for m in modules)]
        if other or not attributed:
            for n in obligations:
                broken.setdefault(n, "dependency does not build: " + ", ".join(other or ["?"]))
        return obligations, broken
    # axioms audit
    names = obligations
    src = ["import Lean"] + [f"import {m}" for m in modules] + [
        "open Lean in", "run_cmd do",
        "  for n in [" + ", ".join("`" + n for n in names) + "] do",
        "    let env ← getEnv",
        "    if !env.contains n then IO.println s!\"AUDIT {n} missing\" else",
        "    let ax ← Lean.collectAxioms n",
        "    IO.println s!\"AUDIT {n} {ax.toList}\""]
    os.makedirs(os.path.join(LEAN, ".audit"), exist_ok=True)
    ap = os.path.join(LEAN, ".audit", f"Audit_{prop}.lean")
    open(ap, "w").write("\n".join(src) + "\n")
    rc, out = sh(["lake", "env", "lean", ap], cwd=LEAN, timeout=1200)
    seen = set()
    for l in out.split("\n"):
        m = re.match(r"AUDIT (\S+) (.*)", l)
        if not m:
            continue
        n, rest = m.group(1), m.group(2)
        seen.add(n)
        if rest == "missing":
            broken[n] = "missing"
            continue
        axs = set(re.findall(r"[A-Za-z_][\w\.]*", rest))
        extra = axs - ALLOWED_AXIOMS
        if "sorryAx" in axs:
            broken[n] = "sorry"
        elif extra:
            broken[n] = "extra-axiom " + ",".join(sorted(extra))
    for n in names:
        if n not in seen:
            broken[n] = "audit did not report (rc=%d)" % rc
    if rc != 0:
        log.append(out[-3000:])
    # source grep for forbidden constructs
    rc, out = sh(r"grep -rnE 'sorry|admit|^axiom |native_decide|bv_decide|implemented_by|unsafe |maxHeartbeats 0' "
                 r"--include=*.lean Essential | grep -v '^[^:]*:[0-9]*:\s*--' | grep -v '/Gen/' || true", cwd=LEAN)
    bad = [l for l in out.split("\n") if l.strip() and not re.search(r":\s*(--|/-)", l)]
    if bad:
        for n in obligations:
            broken.setdefault(n, "forbidden construct in sources: " + bad[0][:120])
    if recheck and not broken:
        rc, out = sh(["lake", "env", "leanchecker"] + list(modules), cwd=LEAN, timeout=3000)
        log.append(f"[leanchecker {' '.join(modules)}] rc={rc}")
        if rc != 0:
            log.append(out[-2000:])
            for n in obligations:
                broken.setdefault(n, "leanchecker rejects the compiled module (rc=%d)" % rc)
    return obligations, broken


def cargo_build(log, release=False):
    lock_src = os.path.join(REPO, "Cargo.lock")
    lock_dst = os.path.join(HARNESS, "Cargo.lock")
    try:
        if open(lock_src).read() != (open(lock_dst).read() if os.path.exists(lock_dst) else None):
            open(lock_dst, "w").write(open(lock_src).read())
    except FileNotFoundError:
        pass
    cmd = ["cargo", "build", "--offline"] + (["--release"] if release else [])
    rc, out = sh(cmd, cwd=HARNESS, timeout=3000)
    log.append(f"[{' '.join(cmd)}] rc={rc}")
    if rc != 0 and ("linking with" in out or "undefined hidden symbol" in out or "incremental" in out):
        # a corrupted incremental / link cache of the harness itself (e.g. after an interrupted build) is not a property of
        # /repo: drop the harness' own artifacts and build once more
        sh(["cargo", "clean", "-p", "harness", "--offline"] + (["--release"] if release else []), cwd=HARNESS, timeout=600)
        rc, out = sh(cmd, cwd=HARNESS, timeout=3000)
        log.append(f"[{' '.join(cmd)} (after cleaning the harness artifacts)] rc={rc}")
    if rc != 0:
        log.append(out[-4000:])
    return rc == 0


def driver_build(log):
    rc, out = sh(["lake", "build", "driver"], cwd=LEAN, timeout=3000)
    log.append(f"[lake build driver] rc={rc}")
    if rc != 0:
        log.append(out[-4000:])
    return rc == 0


HARNESS_BIN = os.path.join(HARNESS, "target", "debug", "harness")
HARNESS_REL = os.path.join(HARNESS, "target", "release", "harness")
DRIVER_BIN = os.path.join(LEAN, ".lake", "build", "bin", "driver")


# ---------------------------------------------------------------------------------------
# running cases

def run_bin(binpath, lines, timeout=240, env=None):
    """Feed `lines` (with ids) to a line-protocol binary; returns {id: output}.  `timeout` is a per-case limit: if the
    process dies (abort) or gives no answer for `timeout` seconds (timeout), the case in flight is marked `abort` /
    `timeout` and the run continues after it.  A run that keeps answering is never cut short."""
    import select, threading
    res = {}
    pending = list(lines)
    while pending:
        proc = subprocess.Popen([binpath], stdin=subprocess.PIPE, stdout=subprocess.PIPE,
                                stderr=subprocess.DEVNULL, env=env or ENV)
        data = ("\n".join(pending) + "\n").encode()

        def feed(p=proc, d=data):
            try:
                p.stdin.write(d)
                p.stdin.close()
            except (BrokenPipeError, OSError):
                pass
        th = threading.Thread(target=feed, daemon=True)
        th.start()
        got, buf, timed_out = 0, b"", False
        fd = proc.stdout.fileno()
        while True:
            r, _, _ = select.select([fd], [], [], timeout)
            if not r:
                timed_out = True
                proc.kill()
                break
            chunk = os.read(fd, 1 << 16)
            if not chunk:
                break
            buf += chunk
            *full, buf = buf.split(b"\n")
            for l in full:
                l = l.decode(errors="replace")
                if not l.strip():
                    continue
                i, _, r_ = l.partition(" ")
                res[i] = r_
                got += 1
        proc.wait()
        if not timed_out and proc.returncode == 0 and got >= len(pending):
            break
        if got < len(pending):
            cid = pending[got].split(" ", 1)[0]
            res[cid] = "timeout" if timed_out else "abort"
            pending = pending[got + 1:]
        else:
            break
    return res


def run_guarded(binpath, line, mem_bytes=3 << 30, timeout=6):
    """One case in its own process under an address-space limit and a time limit (inputs the model marks as exhausting
    memory).  -> the output line, or `killed` when the process was stopped by the limits / an allocation failure."""
    import resource

    def limits():
        resource.setrlimit(resource.RLIMIT_AS, (mem_bytes, mem_bytes))
    try:
        p = subprocess.run([binpath], input=line + "\n", stdout=subprocess.PIPE, stderr=subprocess.DEVNULL, text=True,
                           timeout=timeout, preexec_fn=limits, env=ENV)
    except subprocess.TimeoutExpired:
        return "killed"
    for l in p.stdout.split("\n"):
        if l.strip():
            return l.partition(" ")[2]
    return "killed"


class Rng(random.Random):
    pass


def case_ids(cases):
    return [f"{i} {c}" for i, c in enumerate(cases)]


# ---------------------------------------------------------------------------------------
# known findings

def load_known():
    p = os.path.join(ROOT, "known_findings.json")
    if not os.path.exists(p):
        return []
    return json.load(open(p)).get("known", [])


def match_known(prop, kind, case, detail, known):
    for k in known:
        if k["property"] != prop or k.get("kind", kind) != kind:
            continue
        if re.search(k["match"], case + " => " + detail):
            return k
    return None


# ---------------------------------------------------------------------------------------
# evidence

def write_evidence(prop, tier, seed, coverage, assumptions, wall, violations):
    os.makedirs(os.path.join(ROOT, "evidence"), exist_ok=True)
    ev = {"property_id": prop, "tier": tier, "seed": seed, "level": "proof", "coverage": coverage,
          "assumptions": assumptions, "wall_s": round(wall, 2), "violations": violations}
    json.dump(ev, open(os.path.join(ROOT, "evidence", f"{prop}.json"), "w"), indent=1)


def write_replay(prop, name, payload):
    d = os.path.join(ROOT, "replays", prop)
    os.makedirs(d, exist_ok=True)
    p = os.path.join(d, name)
    json.dump(payload, open(p, "w"), indent=1)
    return p
