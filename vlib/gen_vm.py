"""Case generators for the VM family (`prog` lines)."""
from .common import I64_MIN, I64_MAX
from .gen_asm import spec_rows, enc_op, hx, BOUNDARY_WORDS

U64_MAX = (1 << 64) - 1
STACK_LIMIT = 4096
MEM_LIMIT = 10240

_rows = None
_by_short = None


def rows():
    global _rows, _by_short
    if _rows is None:
        _rows = spec_rows()
        _by_short = {r["short"]: r for r in _rows}
        for r in _rows:
            _by_short[r["name"]] = r
    return _rows


def op(short, w=0):
    rows()
    return (_by_short[short], w)


def P(w):
    return op("PUSH", w)


def prog_bytes(ops):
    return b"".join(enc_op(r, w) for r, w in ops)


def L(ws):
    return f"{len(ws)}" + "".join(f" {w}" for w in ws)


def LL(lists):
    return f"{len(lists)}" + "".join(" " + L(l) for l in lists)


def sol_tok(s):
    c, p, data, muts = s
    return f"{hx(c)} {hx(p)} {LL(data)} {len(muts)}" + "".join(f" {L(k)} {L(v)}" for k, v in muts)


def entry_tok(e):
    view, contract, key, n, res = e
    if isinstance(res, int):
        r = f"e {res}"
    else:
        r = "v " + LL(res)
    return f"{view} {hx(contract)} {L(key)} {n} {r}"


ADDR_A = bytes(range(32))
ADDR_B = bytes([0xAA] * 32)
ADDR_C = bytes([0xFF] * 31 + [0x01])
DEFAULT_SOLS = [(ADDR_A, ADDR_B, [], [])]


def case(ops=None, mode="ops", raw=None, pc=0, stack=(), mem=(), pm=(), rep=(), index=0, sols=None,
         entries=(), eds=(), secps=(), cost=(1, ()), limit=U64_MAX, maxb=4096):
    sols = DEFAULT_SOLS if sols is None else sols
    bs = raw if raw is not None else prog_bytes(ops)
    parts = ["prog", mode, hx(bs), str(pc), L(list(stack)), L(list(mem)), LL([list(m) for m in pm]),
             f"{len(rep)}" + "".join(f" {u} {n} {loc}" for u, n, loc in rep),
             str(index), f"{len(sols)}" + "".join(" " + sol_tok(s) for s in sols),
             f"{len(entries)}" + "".join(" " + entry_tok(e) for e in entries),
             f"{len(eds)}" + "".join(f" {hx(a)} {hx(b)} {hx(c)} {r}" for a, b, c, r in eds),
             f"{len(secps)}" + "".join(f" {hx(h)} {hx(s)} {i} {r}" for h, s, i, r in secps),
             f"{cost[0]} {len(cost[1])}" + "".join(f" {o} {c}" for o, c in cost[1]),
             str(limit), str(maxb)]
    return " ".join(parts)


def word(rng):
    r = rng.random()
    if r < 0.45:
        return rng.choice(BOUNDARY_WORDS)
    if r < 0.85:
        return rng.randrange(-4, 12)
    return rng.randrange(I64_MIN, I64_MAX + 1)


def small(rng, hi=8):
    return rng.randrange(0, hi)


def rand_stack(rng, n=None):
    if n is None:
        n = rng.choice([0, 1, 2, 3, 5, 8, 13])
    return [word(rng) if rng.random() < 0.5 else small(rng) for _ in range(n)]


BIN_OPS = ["ADD", "SUB", "MUL", "DIV", "MOD", "SHL", "SHR", "SHRI", "EQ", "GT", "LT", "GTE", "LTE", "AND", "OR",
           "BAND", "BOR"]


def all_shorts():
    return [r["short"] for r in rows()]


def random_program(rng, n, alphabet=None, loops=False):
    """A mostly-valid random program: operands are pushed before ops that need them."""
    rows()
    shorts = alphabet or [s for s in all_shorts() if s not in ("COM", "COME", "REP", "REPE", "JMPIF", "HLT", "HLTIF")]
    out = []
    for _ in range(n):
        s = rng.choice(shorts)
        r = rng.random()
        if s == "PUSH":
            out.append(P(word(rng)))
        elif r < 0.6:
            # feed it plausible operands
            if s in BIN_OPS:
                out += [P(word(rng)), P(word(rng) if rng.random() < 0.5 else small(rng, 70)), op(s)]
            elif s in ("DUPF", "SWAPI", "LODS", "LOD", "FREE", "ALOC", "RES", "NOT", "PNCIF", "PDLEN", "LODP"):
                out += [P(small(rng, 6)), op(s)]
            elif s in ("STOS", "STO"):
                out += [P(word(rng)), P(small(rng, 6)), op(s)]
            elif s in ("SEL",):
                out += [P(word(rng)), P(word(rng)), P(small(rng, 3)), op(s)]
            elif s in ("LODR", "LODPR"):
                out += [P(small(rng, 5)), P(small(rng, 5)), op(s)]
            elif s in ("DROP",):
                out += [P(small(rng, 4)), op(s)]
            elif s in ("EQRA", "SLTR"):
                k = small(rng, 3)
                out += [P(small(rng, 3)) for _ in range(2 * k)] + [P(k)] + ([P(small(rng, 3))] if s == "SLTR" else []) + [op(s)]
            elif s == "STOR":
                k = small(rng, 3)
                out += [P(word(rng)) for _ in range(k)] + [P(k), P(small(rng, 5)), op(s)]
            elif s == "PDATA":
                out += [P(small(rng, 3)), P(small(rng, 3)), P(small(rng, 3)), op(s)]
            elif s == "SHA2":
                k = small(rng, 3)
                out += [P(word(rng)) for _ in range(k)] + [P(max(0, 8 * k - small(rng, 8))), op(s)]
            elif s in ("KRNG", "PKRNG"):
                k = small(rng, 3)
                out += [P(small(rng, 4)) for _ in range(k)] + [P(k), P(small(rng, 3)), P(small(rng, 4)), op(s)]
            else:
                out.append(op(s))
        else:
            out.append(op(s))
    return out


def smoke_cases(rng, n):
    cases = []
    for _ in range(n):
        ops = random_program(rng, rng.randrange(1, 14))
        st = rand_stack(rng)
        mem = rand_stack(rng, rng.choice([0, 0, 2, 5]))
        sols = [(ADDR_A, ADDR_B, [[1, 2, 3], [], [7]], [([1], [2])]), (ADDR_C, ADDR_A, [[9]], [])]
        pm = [[5, 6, 7]] if rng.random() < 0.2 else []
        cases.append(case(ops, stack=st, mem=mem, pm=pm, sols=sols, index=rng.randrange(2),
                          mode=rng.choice(["ops", "ops", "bytes", "eval"])))
    return cases
