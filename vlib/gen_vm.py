"""Case generators for the VM family (`prog` lines)."""
from .common import I64_MIN, I64_MAX
from .gen_asm import spec_rows, enc_op, hx, BOUNDARY_WORDS

U64_MAX = (1 << 64) - 1
STACK_LIMIT = 4096
MEM_LIMIT = 10240

_rows = None
_by_short = None


def rows():
    global _rows, _by_short
    if _rows is None:
        _rows = spec_rows()
        _by_short = {r["short"]: r for r in _rows}
        for r in _rows:
            _by_short[r["name"]] = r
    return _rows


def op(short, w=0):
    rows()
    return (_by_short[short], w)


def P(w):
    return op("PUSH", w)


def prog_bytes(ops):
    return b"".join(enc_op(r, w) for r, w in ops)


def L(ws):
    return f"{len(ws)}" + "".join(f" {w}" for w in ws)


def LL(lists):
    return f"{len(lists)}" + "".join(" " + L(l) for l in lists)


def sol_tok(s):
    c, p, data, muts = s
    return f"{hx(c)} {hx(p)} {LL(data)} {len(muts)}" + "".join(f" {L(k)} {L(v)}" for k, v in muts)


def entry_tok(e):
    view, contract, key, n, res = e
    if isinstance(res, int):
        r = f"e {res}"
    else:
        r = "v " + LL(res)
    return f"{view} {hx(contract)} {L(key)} {n} {r}"


ADDR_A = bytes(range(32))
ADDR_B = bytes([0xAA] * 32)
ADDR_C = bytes([0xFF] * 31 + [0x01])
DEFAULT_SOLS = [(ADDR_A, ADDR_B, [], [])]


def case(ops=None, mode="ops", raw=None, pc=0, stack=(), mem=(), pm=(), rep=(), index=0, sols=None,
         entries=(), eds=(), secps=(), cost=(1, ()), limit=U64_MAX, maxb=4096, halt=False):
    sols = DEFAULT_SOLS if sols is None else sols
    bs = raw if raw is not None else prog_bytes(ops)
    parts = ["prog", mode, hx(bs), ("h" if halt else "") + str(pc), L(list(stack)), L(list(mem)), LL([list(m) for m in pm]),
             f"{len(rep)}" + "".join(f" {u} {n} {loc}" for u, n, loc in rep),
             str(index), f"{len(sols)}" + "".join(" " + sol_tok(s) for s in sols),
             f"{len(entries)}" + "".join(" " + entry_tok(e) for e in entries),
             f"{len(eds)}" + "".join(f" {hx(a)} {hx(b)} {hx(c)} {r}" for a, b, c, r in eds),
             f"{len(secps)}" + "".join(f" {hx(h)} {hx(s)} {i} {r}" for h, s, i, r in secps),
             f"{cost[0]} {len(cost[1])}" + "".join(f" {o} {c}" for o, c in cost[1]),
             str(limit), str(maxb)]
    return " ".join(parts)


def word(rng):
    r = rng.random()
    if r < 0.45:
        return rng.choice(BOUNDARY_WORDS)
    if r < 0.85:
        return rng.randrange(-4, 12)
    return rng.randrange(I64_MIN, I64_MAX + 1)


def small(rng, hi=8):
    return rng.randrange(0, hi)


def rand_stack(rng, n=None):
    if n is None:
        n = rng.choice([0, 1, 2, 3, 5, 8, 13])
    return [word(rng) if rng.random() < 0.5 else small(rng) for _ in range(n)]


BIN_OPS = ["ADD", "SUB", "MUL", "DIV", "MOD", "SHL", "SHR", "SHRI", "EQ", "GT", "LT", "GTE", "LTE", "AND", "OR",
           "BAND", "BOR"]


def all_shorts():
    return [r["short"] for r in rows()]


def random_program(rng, n, alphabet=None, loops=False):
    """A mostly-valid random program: operands are pushed before ops that need them."""
    rows()
    shorts = alphabet or [s for s in all_shorts() if s not in ("COM", "COME", "REP", "REPE", "JMPIF", "HLT", "HLTIF")]
    out = []
    for _ in range(n):
        s = rng.choice(shorts)
        r = rng.random()
        if s == "PUSH":
            out.append(P(word(rng)))
        elif r < 0.6:
            # feed it plausible operands
            if s in BIN_OPS:
                out += [P(word(rng)), P(word(rng) if rng.random() < 0.5 else small(rng, 70)), op(s)]
            elif s in ("DUPF", "SWAPI", "LODS", "LOD", "FREE", "ALOC", "RES", "NOT", "PNCIF", "DLEN", "LODP"):
                out += [P(small(rng, 6)), op(s)]
            elif s in ("STOS", "STO"):
                out += [P(word(rng)), P(small(rng, 6)), op(s)]
            elif s in ("SEL",):
                out += [P(word(rng)), P(word(rng)), P(small(rng, 3)), op(s)]
            elif s in ("LODR", "LODPR"):
                out += [P(small(rng, 5)), P(small(rng, 5)), op(s)]
            elif s in ("DROP",):
                out += [P(small(rng, 4)), op(s)]
            elif s in ("EQRA", "SLTR"):
                k = small(rng, 3)
                out += [P(small(rng, 3)) for _ in range(2 * k)] + [P(k)] + ([P(small(rng, 3))] if s == "SLTR" else []) + [op(s)]
            elif s == "STOR":
                k = small(rng, 3)
                out += [P(word(rng)) for _ in range(k)] + [P(k), P(small(rng, 5)), op(s)]
            elif s == "DATA":
                out += [P(small(rng, 3)), P(small(rng, 3)), P(small(rng, 3)), op(s)]
            elif s == "SHA2":
                k = small(rng, 3)
                out += [P(word(rng)) for _ in range(k)] + [P(max(0, 8 * k - small(rng, 8))), op(s)]
            elif s in ("KRNG", "PKRNG"):
                k = small(rng, 3)
                out += [P(small(rng, 4)) for _ in range(k)] + [P(k), P(small(rng, 3)), P(small(rng, 4)), op(s)]
            else:
                out.append(op(s))
        else:
            out.append(op(s))
    return out


def smoke_cases(rng, n):
    cases = []
    for _ in range(n):
        ops = random_program(rng, rng.randrange(1, 14))
        st = rand_stack(rng)
        mem = rand_stack(rng, rng.choice([0, 0, 2, 5]))
        sols = [(ADDR_A, ADDR_B, [[1, 2, 3], [], [7]], [([1], [2])]), (ADDR_C, ADDR_A, [[9]], [])]
        pm = [[5, 6, 7]] if rng.random() < 0.2 else []
        cases.append(case(ops, stack=st, mem=mem, pm=pm, sols=sols, index=rng.randrange(2),
                          mode=rng.choice(["ops", "ops", "bytes", "eval"])))
    return cases


def as_oracle(c, fam):
    assert c.startswith("prog ")
    return fam + c[4:]


RICH_SOLS = [(ADDR_A, ADDR_B, [[1, 2, 3], [], [7]], [([1], [2])]), (ADDR_C, ADDR_A, [[9]], [])]


def control_soup(rng, n):
    """random control-flow programs under a small gas limit: loops re-entered by backward jumps, jumps into and out of loop
    bodies, RepeatEnd / RepeatCounter without a loop, halts — every interaction of the control-flow ops"""
    rows()
    out = []
    for _ in range(n):
        ops_ = []
        for _ in range(rng.randrange(3, 14)):
            r = rng.random()
            if r < 0.2:
                ops_ += [P(rng.choice([1, 2, 3])), P(rng.choice([0, 1])), op("REP")]
            elif r < 0.35:
                ops_.append(op("REPE"))
            elif r < 0.5:
                ops_.append(op("REPC"))
            elif r < 0.72:
                ops_ += [P(rng.choice([-9, -6, -5, -4, -3, -2, 2, 3, 4, 5])), P(rng.choice([0, 1, 1])), op("JMPIF")]
            elif r < 0.78:
                ops_ += [P(rng.choice([0, 1])), op("HLTIF")]
            elif r < 0.88:
                ops_.append(op("POP"))
            else:
                ops_.append(P(rng.choice([0, 1, 2])))
        out.append(case(ops_, stack=[rng.choice([0, 1])] * rng.choice([0, 1, 3]), limit=rng.choice([60, 150, 400])))
    return out


def compute_corner_cases():
    """Compute children that end *before* the Compute op (backward jump to a Halt the parent skipped), children that read the
    same range through both state views, children that fail (the parent Vm must be left as it was found)"""
    ents = std_entries()
    ext = list(struct_words(ADDR_C))
    out = []
    for b in (1, 2, 3):
        # parent jumps over a Halt (index 3) / a ComputeEnd; the children jump back to it and stop there, before the Compute op
        out.append(case([P(2), P(1), op("JMPIF"), op("HLT"), P(b), op("COM"), op("POP"), P(-6), P(1), op("JMPIF"), op("COME")], sols=RICH_SOLS))
        out.append(case([P(2), P(1), op("JMPIF"), op("COME"), P(b), op("COM"), op("POP"), P(-6), P(1), op("JMPIF"), op("COME"), P(9)], sols=RICH_SOLS))
        out.append(case([P(3), P(1), op("JMPIF"), P(1), op("HLTIF"), P(b), op("COM"), op("POP"), P(-7), P(1), op("JMPIF"), op("COME"), P(9)], sols=RICH_SOLS))
        # only child 0 goes back, the others run on
        out.append(case([P(2), P(1), op("JMPIF"), op("HLT"), P(b), op("COM"), P(0), op("EQ"), P(-8), op("SWAP"), op("JMPIF"), P(1), op("ALOC"), op("POP"), op("COME")], sols=RICH_SOLS))
        # reads of one range through both views inside a child, in both orders
        for s1, s2 in (("KRNG", "PKRNG"), ("PKRNG", "KRNG"), ("KREX", "PKREX"), ("PKRNG", "PKRNG")):
            def a_(s_, addr):
                return [P(w) for w in ((ext if s_.endswith("EX") else []) + [1, 1, 2, addr])]
            body = [op("POP"), P(30), op("ALOC"), op("POP")] + a_(s1, 0) + [op(s1)] + a_(s2, 12) + [op(s2), op("COME")]
            out.append(case([P(b), op("COM")] + body, stack=[], sols=RICH_SOLS, entries=ents))
        # failing children: afterwards nothing of the attempt may remain on the Vm
        out.append(case([P(b), op("COM"), op("POP"), op("POP"), op("COME")], sols=RICH_SOLS))
        out.append(case([P(1), op("ALOC"), op("POP"), P(b), op("COM"), op("DUP"), P(b - 1), op("EQ"), op("PNCIF"), op("COME"), P(0), op("LODP")], sols=RICH_SOLS))
    return out


def pex_race_cases(breadths=(2, 8), slot_words=2000, slots=10, nsols=2):
    """Compute children that all execute PredicateExists as their first access op, on a solution set whose pre-image takes
    a while to hash: the per-VM cache of the hashes is initialised while several children are running"""
    import hashlib
    big = [(ADDR_A, ADDR_B, [[(7 * i + j) % 1000 for j in range(slot_words)] for i in range(slots)], []),
           (ADDR_C, ADDR_A, [[i] * slot_words for i in range(slots)], [])]
    # further solutions are only data for PredicateExists (distinct predicate data, so distinct pre-images)
    big += [(ADDR_A, ADDR_C, [[(k + 3 * i + j) % 997 for j in range(slot_words)] for i in range(slots)], []) for k in range(nsols - 2)]
    def pre(s_):
        ws = []
        for slot in s_[2]:
            ws += [len(slot)] + list(slot)
        ws += struct_words(s_[0]) + struct_words(s_[1])
        return b"".join((w & ((1 << 64) - 1)).to_bytes(8, "big") for w in ws)
    h = struct_words(hashlib.sha256(pre(big[1])).digest())
    miss = struct_words(hashlib.sha256(b"nope").digest())
    out = []
    for b in breadths:
        for hw in (h, miss):
            body = [op("POP")] + [P(w) for w in hw] + [op("PEX"), P(1), op("ALOC"), op("STO"), op("COME")]
            out.append(case([P(b), op("COM")] + body, stack=[], sols=big, limit=U64_MAX))
    return out


def std_entries():
    """state table: distinct answers for pre/post, own/extern contract, a few keys and counts"""
    es = []
    for view in (0, 1):
        for contract in (ADDR_A, ADDR_C):
            for key in ([], [0], [1], [1, 2], [I64_MAX]):
                for n in (0, 1, 2, 3):
                    tag = view * 1000 + (0 if contract == ADDR_A else 500) + len(key) * 10 + n
                    vals = [[tag + j] * (j % 3) for j in range(n)]
                    es.append((view, contract, key, n, vals))
    es.append((0, ADDR_A, [9], 1, 7))            # an error
    es.append((1, ADDR_A, [9], 1, [[1, 2, 3, 4, 5, 6, 7, 8, 9, 10]]))
    es.append((0, ADDR_A, [8], 2, [[1], [2], [3]]))   # more values than requested
    es.append((0, ADDR_A, [7], 3, [[1]]))             # fewer values than requested
    return es


C05_ALPHABET = ["POP", "DUP", "DUPF", "SWAP", "SWAPI", "SEL", "SLTR", "REP", "REPE", "RES", "LODS", "STOS", "DROP",
                "EQ", "EQRA", "EQST", "NOT", "ADD", "SUB", "MUL", "DIV", "MOD", "SHL", "SHR", "SHRI", "BAND",
                "ALOC", "FREE", "LOD", "STO", "LODR", "STOR", "JMPIF", "HLTIF", "PNCIF", "HLT", "REPC", "DATA",
                "DLEN", "DSLT", "THIS", "THISC", "PEX", "SHA2", "KRNG", "KREX", "PKRNG", "PKREX", "COM", "COME",
                "LODP", "LODPR"]
C05_PUSHES = [I64_MIN, -1, 0, 1, 2, 3, 63, 64, 4096, I64_MAX]


PER_YIELDS = [0, 1, 2, 3, 4095, 4096, 4097, 1 << 32, (1 << 63), (1 << 64) - 1]


def yield_oracles(rng, cases, k):
    """`GasLimit::per_yield` is a public field of the limit given to every execution and has no observable effect: a sample of the
    cases is re-run with unusual values (0, 1, around the default, u64::MAX) and must give what the default gives"""
    pick = rng.sample(cases, min(k, len(cases)))
    return [f"o_yield {len(PER_YIELDS)} " + " ".join(map(str, PER_YIELDS)) + " " + c for c in pick if c.startswith("prog ")]


def c05_cases(rng, tier):
    rows()
    cases = []
    ents = std_entries()
    alpha = [op(s) for s in C05_ALPHABET if s in _by_short] + [P(w) for w in C05_PUSHES]
    # (a) bounded-exhaustive short programs over boundary constants, from two initial stacks
    init_stacks = [[], [I64_MIN, 1, 2, 1]]
    for a in alpha:
        for st in init_stacks:
            cases.append(case([a], stack=st, sols=RICH_SOLS, entries=ents, mem=[5, 6]))
    pairs = [(a, b) for a in alpha for b in alpha]
    if tier == "quick":
        pairs = rng.sample(pairs, 900)
    for a, b in pairs:
        cases.append(case([a, b], stack=[3, I64_MIN, 1], sols=RICH_SOLS, entries=ents, mem=[5, 6]))
    ntriples = 600 if tier == "quick" else 40000
    for _ in range(ntriples):
        ops3 = [rng.choice(alpha) for _ in range(3)]
        cases.append(case(ops3, stack=rng.choice([[], [1, 1], [2, 0, 1], [I64_MAX, I64_MIN, 1, 1]]),
                          sols=RICH_SOLS, entries=ents, mem=rng.choice([[], [1, 2, 3]])))
    # (b) states at the limits
    full = [1] * STACK_LIMIT
    almost = [1] * (STACK_LIMIT - 1)
    for s in ("DUP", "DUPF", "RES", "LODS", "THIS", "THISC", "SHA2", "DATA", "DSLT", "REPC", "LODR", "PEX", "ALOC", "COM", "SWAP", "ADD", "SEL"):
        for st in (full, almost, [0] * (STACK_LIMIT - 3) + [0, 0, 0], [1] * (STACK_LIMIT - 5) + [0, 0, 3, 0, 0]):
            cases.append(case([op(s)], stack=st, sols=RICH_SOLS, entries=ents, mem=[1, 2, 3, 4], rep=[(1, 5, 0)]))
    for w in (0, 1, 2, 4095, 4096, 4097, I64_MAX):
        cases.append(case([P(w), op("RES")], stack=[], sols=RICH_SOLS))
        cases.append(case([P(w), op("RES")], stack=[0], sols=RICH_SOLS))
    bigmem = [0] * MEM_LIMIT
    for w in (0, 1, 2, 10239, 10240, 10241, I64_MAX, -1):
        cases.append(case([P(w), op("ALOC")], mem=[], sols=RICH_SOLS))
        cases.append(case([P(w), op("ALOC")], mem=bigmem[:-1], sols=RICH_SOLS))
        cases.append(case([P(w), op("ALOC")], mem=bigmem, sols=RICH_SOLS))
    # repeat stack at its limit
    slots = [(1, 3, 0)] * STACK_LIMIT
    cases.append(case([P(2), P(1), op("REP")], rep=slots, sols=RICH_SOLS))
    cases.append(case([P(2), P(0), op("REP")], rep=slots[:-1], sols=RICH_SOLS))
    cases.append(case([op("REPE"), op("REPC")], rep=slots, sols=RICH_SOLS))
    # nested compute / compute filling memory / parent stack full
    cases.append(case([P(2), op("COM"), P(2), op("COM"), op("COME")], sols=RICH_SOLS))
    cases.append(case([P(3), op("COM"), P(4000), op("ALOC"), op("COME")], sols=RICH_SOLS, mem=[1] * 100))
    cases.append(case([P(2), op("COM"), P(5000), op("ALOC"), op("COME")], sols=RICH_SOLS, mem=[1] * 100))
    cases.append(case([P(2), op("COM"), P(5), op("COME")], stack=full[:-1], sols=RICH_SOLS))
    # crypto ops on messages around typical fixed buffer sizes (totality only)
    for ln in (255, 256, 257, 1016, 1023, 1024, 1025, 1031, 1032, 1033, 2047, 2048, 2049, 4095, 4096, 4097, 8191, 8193):
        data = bytes((3 * i + ln) & 0xFF for i in range(ln))
        cases.append(case([op("SHA2")], stack=[9] + words_of_bytes(data) + [ln], sols=RICH_SOLS))
        cases.append(case([op("VRFYED")], stack=[6] + words_of_bytes(data) + [ln] + [1] * 8 + [2] * 4, sols=RICH_SOLS))
    # the stack grown *by the program* to just below the limit (its allocation then has spare capacity), then one more op
    for grow in ([P(3000), op("RES"), P(1093), op("RES")], [P(2048), op("RES"), P(2045), op("RES")], [P(4093), op("RES")]):
        for fill in (0, 1, 2, 3):
            pre = grow + [P(1)] * fill
            for tail in ([op("DUP")], [op("DUP"), op("DUP")], [P(0), op("DUPF")], [P(3), op("RES")], [P(0), P(3), op("LODR")],
                         [op("THIS")], [op("THISC")], [P(0), P(0), P(3), op("DATA")], [P(8), op("SHA2")], [P(0), op("LODS")],
                         [P(1), P(1), P(1), op("PUSH") if False else P(1)], [op("REPC")], [P(2), P(1), op("SWAP"), op("DUP"), op("DUP"), op("DUP")]):
                cases.append(case(pre + tail, sols=RICH_SOLS, entries=ents, mem=[1, 2, 3, 4], rep=[(1, 5, 0)]))
    cases += compute_corner_cases()
    cases += control_soup(rng, 150 if tier == "quick" else 5000)
    # parent memory + children's memories around the limit (each side alone within it)
    for pm in (0, 1, 240, 241, MEM_LIMIT - 1, MEM_LIMIT):
        for b in (1, 2):
            for ca in (0, 1, 5000, 5120):
                cases.append(case([P(b), op("COM"), P(ca), op("ALOC"), op("POP"), op("COME")], sols=RICH_SOLS, mem=[1] * pm))
    for b in (-1, 0, 1, 2, 7, 4097, 1 << 40, I64_MAX, I64_MIN):
        cases.append(case([P(b), op("COM"), op("HLT")], sols=RICH_SOLS))
    # jump distances incl. i64 extremes
    for d in (I64_MIN, I64_MIN + 1, -3, -1, 0, 1, 2, I64_MAX):
        for c in (0, 1, 2):
            cases.append(case([P(0), P(d), P(c), op("JMPIF"), P(7)], sols=RICH_SOLS))
    # gas arithmetic near the edge of u64
    for cost in (0, 1, 1 << 62, U64_MAX):
        for lim in (0, 1, 1 << 63, U64_MAX):
            cases.append(case([P(3), op("COM"), P(1), op("POP"), op("COME"), op("HLT")], sols=RICH_SOLS, cost=(cost, ()), limit=lim))
    # (c) long random programs
    n = 300 if tier == "quick" else 20000
    for _ in range(n):
        ops_ = random_program(rng, rng.randrange(5, 60), alphabet=[s for s in C05_ALPHABET if s not in ("COM", "COME", "HLT", "JMPIF", "REP", "REPE")] + ["PUSH"] * 8)
        cases.append(case(ops_, stack=rand_stack(rng), mem=rand_stack(rng, rng.choice([0, 3, 9])), sols=RICH_SOLS, entries=ents,
                          index=rng.randrange(2), pm=[[4, 5]] if rng.random() < 0.2 else []))
    # raw byte strings as bytecode
    for _ in range(100 if tier == "quick" else 5000):
        raw = bytes(rng.choice([r["opcode"] for r in _rows] + [rng.randrange(256)]) for _ in range(rng.randrange(1, 20)))
        cases.append(case(raw=raw, mode="bytes", stack=rand_stack(rng), sols=RICH_SOLS, entries=ents))
    cases += op1_cases(rng, tier)
    oracles = [as_oracle(c, "o_steps") for c in cases]
    oracles += yield_oracles(rng, cases, 150 if tier == "quick" else 3000)
    return cases, oracles


POOL = BOUNDARY_WORDS
SMALLPOOL = [I64_MIN, -1, 0, 1, 2, 3, 4, 5, 63, 64, 4096, 10240, I64_MAX]


def enc_set(items):
    """[[elems..]..] -> words of the set encoding: each item `elems.., len`, whole thing followed by total length"""
    ws = []
    for it in items:
        ws += list(it) + [len(it)]
    return ws + [len(ws)]


def op1_cases(rng, tier):
    """Every Stack/Pred/Alu/Memory/ParentMemory op x boundary operand tuples x stack/memory shapes."""
    rows()
    cs = []
    bases = [[], [7, -8]]

    def add(o, stack, **kw):
        cs.append(case([o] if not isinstance(o, list) else o, stack=stack, sols=RICH_SOLS, **kw))

    # binary ALU / Pred ops: the full boundary grid
    for s in BIN_OPS:
        for a in POOL:
            for b in POOL:
                add(op(s), bases[(a + b) & 1] + [a, b])
        add(op(s), [])
        add(op(s), [1])
        add(op(s), [1] * STACK_LIMIT)
    for a in POOL:
        add(op("NOT"), [a])
        add(op("NOT"), [5, a])
    add(op("NOT"), [])
    # Push / Pop / Dup / Swap at sizes 0,1,2,limit-1,limit
    for n in (0, 1, 2, STACK_LIMIT - 1, STACK_LIMIT):
        st = list(range(n))
        for w in (I64_MIN, -1, 0, I64_MAX):
            add(P(w), st)
        for s in ("POP", "DUP", "SWAP"):
            add(op(s), st)
    # DupFrom / SwapIndex / Load(stack) : index grid x shapes
    for shape in ([], [11], [11, 22, 33], [1, 2, 3, 4, 5, 6]):
        for ix in POOL:
            add(op("DUPF"), shape + [ix])
            add(op("SWAPI"), shape + [ix])
            add(op("LODS"), shape + [ix])
            add(op("STOS"), shape + [99, ix])
            add(op("DROP"), shape + [ix])
            add(op("RES"), shape + [ix])
    for n in (4090, 4094, 4095):
        for ln in (0, 1, 2, 5, 6, 7):
            add(op("RES"), [3] * n + [ln])
    # Select
    for c in POOL:
        add(op("SEL"), [10, 20, c])
        add(op("SEL"), [20, c])
        add(op("SEL"), [c])
    # SelectRange / EqRange : arrays of length k with every kind of length word and condition
    for k in (0, 1, 2, 3):
        for extra in ([], [9, 9]):
            a = [100 + i for i in range(k)]
            b = [200 + i for i in range(k)]
            for lw in sorted({k, k + 1, k - 1, 0, -1, 1, 2, I64_MAX, (1 << 62), I64_MIN}):
                for c in (0, 1, 2, -1, I64_MIN):
                    add(op("SLTR"), extra + a + b + [lw, c])
                add(op("EQRA"), extra + a + b + [lw])
                add(op("EQRA"), extra + a + a + [lw])
    add(op("SLTR"), [1])
    add(op("SLTR"), [])
    add(op("EQRA"), [])
    # a long range
    add(op("SLTR"), list(range(2000)) + list(range(5000, 7000)) + [2000, 1])
    add(op("EQRA"), list(range(2000)) + list(range(2000)) + [2000])
    add(op("EQRA"), list(range(2000)) + list(range(1999)) + [7, 2000])
    # EqSet: equal as sets (order, duplicates), unequal, empty elements, malformed encodings
    sets = [[], [[]], [[1]], [[1], [2]], [[2], [1]], [[1], [1]], [[1, 2], [3]], [[3], [1, 2]], [[], [5]], [[5]],
            [[1, 2, 3]], [[1], [2], [3]], [[I64_MIN], [I64_MAX]]]
    for l in sets:
        for r in sets:
            add(op("EQST"), [4] + enc_set(l) + enc_set(r))
    for bad in ([1, -1, 2], [5, 9, 3], [1, 1, 7, 3], [-1], [I64_MAX], [1, 2, I64_MIN, 3], [0, 1, 1, 3]):
        add(op("EQST"), enc_set([[1]]) + bad)
        add(op("EQST"), bad + enc_set([[1]]))
    # large sets (above any small-set fast path: 16, 32, 64, 128, 256 elements) with and without repeated elements on
    # either side, equal / one element missing but another repeated (same count)
    for k in (15, 16, 17, 33, 65, 127, 128, 129, 130, 257):
        base = [[i] for i in range(k)]
        variants = [(base, base), (base, list(reversed(base))), (base, base + [[0]]), (base + [[0]], base),
                    (base, base[:-1] + [[0]]), (base[:-1] + [[0]], base), (base + [[3], [3]], base + [[4]]), (base, base[1:])]
        for l_, r_ in variants:
            if len(enc_set(l_)) + len(enc_set(r_)) + 1 <= STACK_LIMIT:
                add(op("EQST"), [4] + enc_set(l_) + enc_set(r_))
    add(op("EQST"), [])
    add(op("EQST"), [0])
    add(op("EQST"), [0, 0])
    # Memory ops
    mems = [[], [1, 2, 3, 4, 5], [0] * (MEM_LIMIT - 1), [0] * MEM_LIMIT]
    for mem in mems:
        for a in POOL:
            add(op("ALOC"), [5, a], mem=mem)
            add(op("FREE"), [5, a], mem=mem)
            add(op("LOD"), [5, a], mem=mem)
            add(op("STO"), [5, 77, a], mem=mem)
    for mem in ([], [1, 2, 3, 4, 5], [3] * MEM_LIMIT):
        for a in SMALLPOOL:
            for sz in SMALLPOOL:
                add(op("LODR"), [a, sz], mem=mem)
                add(op("LODPR"), [a, sz], pm=[mem])
        for a in SMALLPOOL:
            for k in (0, 1, 2, 5):
                for lw in sorted({k, k + 1, -1, I64_MAX}):
                    add(op("STOR"), [8] + [40 + i for i in range(k)] + [lw, a], mem=mem)
    add(op("LODR"), [0, 4096], mem=[1] * 5000)
    add(op("LODR"), [0, 4095], mem=[1] * 5000, )
    for a in POOL:
        add(op("LODP"), [a], pm=[[9, 8, 7]])
        add(op("LODP"), [a], pm=[])
    add(op("STOR"), [], mem=[1])
    add(op("STOR"), [0], mem=[1])
    add(op("ALOC"), [], mem=[1])
    cs2 = [c for c in cs if c]
    return cs2


def c08_cases(rng, tier):
    cases = op1_cases(rng, tier)
    # short programs over the data ops, long random ones
    data_alpha = ["POP", "DUP", "DUPF", "SWAP", "SWAPI", "SEL", "SLTR", "RES", "LODS", "STOS", "DROP", "EQ", "EQRA", "GT",
                  "LT", "GTE", "LTE", "AND", "OR", "NOT", "EQST", "BAND", "BOR", "ADD", "SUB", "MUL", "DIV", "MOD", "SHL",
                  "SHR", "SHRI", "ALOC", "FREE", "LOD", "STO", "LODR", "STOR", "LODP", "LODPR", "PUSH", "PUSH", "PUSH"]
    # stack / memory grown *by the program* to just below their limits (the allocation then has spare capacity), then one
    # more op: the overflow error must not depend on how the state was reached
    ents = std_entries()
    for grow in ([P(3000), op("RES"), P(1093), op("RES")], [P(2048), op("RES"), P(2045), op("RES")], [P(4093), op("RES")], [P(1), P(4092), op("RES")]):
        for fill in (0, 1, 2, 3):
            pre = grow + [P(1)] * fill
            for tail_ in ([op("DUP")], [op("DUP"), op("DUP")], [P(0), op("DUPF")], [P(3), op("RES")], [P(2), op("RES")], [P(0), P(3), op("LODR")],
                          [P(0), P(2), op("LODR")], [P(0), op("LODS")], [op("SWAP"), op("DUP"), op("DUP")], [P(1), P(1), op("ADD"), op("DUP")]):
                cases.append(case(pre + tail_, sols=RICH_SOLS, entries=ents, mem=[1, 2, 3, 4]))
    for grow in ([P(6000), op("ALOC"), op("POP"), P(4239), op("ALOC"), op("POP")], [P(10239), op("ALOC"), op("POP")]):
        for tail_ in ([P(1), op("ALOC")], [P(2), op("ALOC")], [P(0), op("ALOC"), P(1), op("ALOC")], [P(7), P(10239), op("STO")], [P(7), P(10238), op("STO")],
                      [P(7), P(8), P(2), P(10238), op("STOR")], [P(7), P(8), P(2), P(10237), op("STOR")]):
            cases.append(case(grow + tail_, sols=RICH_SOLS))
    cases += compute_corner_cases()
    # hand-built states with zero, one and several parent memories: LoadParent / LoadParentRange read the innermost one
    for pm_ in ([], [[7]], [[1, 2], [3, 4, 5]], [[1], [], [9, 8]], [[1, 2], []]):
        for a_ in (-1, 0, 1, 2, 3):
            cases.append(case([P(a_), op("LODP")], sols=RICH_SOLS, pm=pm_))
            for ln_ in (0, 1, 2, 4):
                cases.append(case([P(a_), P(ln_), op("LODPR")], sols=RICH_SOLS, pm=pm_))
    n = 1500 if tier == "quick" else 60000
    for _ in range(n):
        ops_ = random_program(rng, rng.randrange(2, 25), alphabet=data_alpha)
        cases.append(case(ops_, stack=rand_stack(rng), mem=rand_stack(rng, rng.choice([0, 3, 9])), sols=RICH_SOLS,
                          pm=[[4, 5, 6]] if rng.random() < 0.3 else []))
    # parent memory is only readable inside Compute children: a Vm must come out of every execution, failed ones included,
    # with the parent memories it went in with (checked step by step on the real Vm)
    return cases, [as_oracle(c, "o_steps") for c in compute_corner_cases()]


def c07_cases(rng, tier):
    rows()
    cases = []
    # straight-line programs with known op counts: limits around the exact total
    line = [P(1), P(2), op("ADD"), P(3), op("MUL"), op("POP")]
    for c in (0, 1, 3, 1 << 20, 1 << 62, U64_MAX // 6, U64_MAX // 6 + 1, U64_MAX):
        tot = c * len(line)
        for lim in sorted({0, 1, max(tot - 1, 0), tot, tot + 1, c, 5 * c, U64_MAX}):
            if 0 <= lim <= U64_MAX:
                cases.append(case(line, cost=(c, ()), limit=lim))
    # per-opcode cost tables
    push_oc, add_oc, com_oc = _by_short["PUSH"]["opcode"], _by_short["ADD"]["opcode"], _by_short["COM"]["opcode"]
    for table in (((push_oc, 0),), ((push_oc, 5), (add_oc, 100)), ((add_oc, U64_MAX),), ((push_oc, 1 << 63), (add_oc, 1 << 63))):
        for lim in (0, 4, 5, 10, 110, 111, 1 << 63, U64_MAX):
            cases.append(case([P(1), P(2), op("ADD")], cost=(1, table), limit=lim))
    # compute: parent + children around the limit, costs near overflow
    for breadth in (1, 2, 3, 50):
        body = [P(1), op("POP")]
        prog = [P(7), op("POP"), P(breadth), op("COM")] + body + [op("COME"), P(9), op("POP")]
        child_ops = len(body) + 1
        parent_ops = 4 + 2        # up to COM, plus the two after COME (children stop at COME)
        for c in (0, 1, 2, 1 << 61, 1 << 62):
            tot = c * (parent_ops + breadth * child_ops)
            for lim in sorted({0, c * 4, max(tot - 1, 0), tot, tot + 1, c * (4 + breadth * child_ops), c * (4 + breadth * child_ops) - 1 if c else 0,
                               U64_MAX}):
                if 0 <= lim <= U64_MAX:
                    cases.append(case(prog, cost=(c, ()), limit=lim, sols=RICH_SOLS))
        for table in (((com_oc, 0),), ((com_oc, U64_MAX),), ((push_oc, 1 << 62),)):
            cases.append(case(prog, cost=(1, table), limit=U64_MAX, sols=RICH_SOLS))
    # children whose gas adds up to just below / exactly / above 2^64 while the parent has spent 0 or 1 (zero-cost prefix)
    pop_oc, come_oc = _by_short["POP"]["opcode"], _by_short["COME"]["opcode"]
    for breadth, per in ((2, 1 << 63), (2, (1 << 63) - 1), (4, 1 << 62), (3, (1 << 64) // 3 + 1), (3, (1 << 64) // 3), (16, 1 << 60), (1, U64_MAX)):
        for push_c in (0, 1):
            for com_c in (0, 1):
                for lim in (U64_MAX, U64_MAX - 1, 1 << 63):
                    table = ((push_oc, push_c), (com_oc, com_c), (come_oc, 0), (pop_oc, per))
                    cases.append(case([P(breadth), op("COM"), op("POP"), op("COME")], cost=(0, table), limit=lim, sols=RICH_SOLS))
    # a Vm whose public `halt` flag is already set when execution starts: it stops after the first Compute, and the children's
    # gas still counts (and is still checked against the limit)
    for breadth in (1, 2, 3):
        prog = [P(7), op("POP"), P(breadth), op("COM"), P(1), op("POP"), op("COME"), P(9), op("POP")]
        for c in (1, 5):
            tot = c * (4 + breadth * 3)
            for lim in sorted({c * 4, tot - 1, tot, tot + 1, U64_MAX}):
                cases.append(case(prog, cost=(c, ()), limit=lim, sols=RICH_SOLS, halt=True))
    cases.append(case(line, halt=True))
    # loops: backward jumps and repeats under small limits
    loop = [P(0), P(1), op("ADD"), op("DUP"), P(5), op("LT"), P(-7), op("SWAP"), op("JMPIF")]
    rep = [P(4), P(1), op("REP"), op("REPC"), op("POP"), op("REPE")]
    for lim in (0, 1, 5, 20, 43, 44, 45, 46, 100, U64_MAX):
        cases.append(case(loop, limit=lim))
        cases.append(case(rep, limit=lim))
        cases.append(case(rep, limit=lim, cost=(2, ((_by_short["REPE"]["opcode"], 0),))))
    # an endless loop is stopped by the limit when costs are positive
    cases.append(case([P(1), P(-1), P(1), op("JMPIF")], limit=10000))
    cases.append(case([P(1), P(-1), P(1), op("JMPIF")], limit=10000, cost=(3, ())))
    n = 400 if tier == "quick" else 30000
    for _ in range(n):
        ops_ = random_program(rng, rng.randrange(2, 30), alphabet=["PUSH", "PUSH", "ADD", "DUP", "POP", "SWAP", "ALOC", "EQ", "NOT", "MUL"])
        if rng.random() < 0.3:
            ops_ = ops_[:3] + [P(rng.choice([1, 2, 5])), op("COM")] + ops_[3:8] + [op("COME")] + ops_[8:]
        c = rng.choice([0, 1, 1, 2, 7, 1 << 62, U64_MAX])
        lim = rng.choice([0, 1, 3, 10, 25, 60, 1 << 63, U64_MAX])
        table = tuple((rng.choice(_rows)["opcode"], rng.choice([0, 1, 9, 1 << 62])) for _ in range(rng.randrange(0, 3)))
        cases.append(case(ops_, stack=rand_stack(rng), cost=(c, table), limit=lim, sols=RICH_SOLS))
    oracles = [as_oracle(c, "o_gas") for c in cases]
    oracles += yield_oracles(rng, cases, 150 if tier == "quick" else 3000)
    return cases, oracles


def c09_cases(rng, tier):
    rows()
    cases = []
    dists = [I64_MIN, I64_MIN + 1, -(1 << 32), -(1 << 32) - 2, -65538, -9, -8, -7, -6, -5, -4, -3, -2, -1, 0, 1, 2, 3, 4, 5, 6, 7, 8, 9, 258, 65538,
             1 << 32, (1 << 32) + 2, I64_MAX - 1, I64_MAX]
    pad = [P(10), op("POP")] * 3          # 6 ops before, so backward jumps have somewhere to land
    tail = [P(20), op("POP")] * 3 + [P(99)]
    for d in dists:
        for c in (0, 1, 2, -1, I64_MIN):
            prog = pad + [P(d), P(c), op("JMPIF")] + tail
            cases.append(case(prog, limit=500, mode="ops"))
    # a jump at pc 0 and at the last pc
    for d in (-1, 0, 1, 2, 3):
        cases.append(case([op("JMPIF"), P(5), P(6)], stack=[d, 1]))
        cases.append(case([P(5), op("JMPIF")], stack=[d, 1]))
    # halt / halt-if / panic-if with every condition
    for c in (0, 1, 2, -1):
        cases.append(case([P(c), op("HLTIF"), P(7)]))
        cases.append(case([P(c), op("PNCIF"), P(7)]))
    cases.append(case([P(1), op("HLT"), P(2)]))
    cases.append(case([op("HLT")]))
    cases.append(case([]))
    cases.append(case([P(1)], pc=5))
    # programs longer than 65536 ops: repeat loops, jumps and a halt beyond the 16-bit boundary (a pc or loop start kept
    # in a narrow integer wraps there)
    filler = [P(0), op("POP")] * 32770            # 65540 ops
    for up in (0, 1):
        cases.append(case(filler + [P(3), P(up), op("REP"), op("REPC"), op("REPE"), P(-7)], limit=U64_MAX))
    cases.append(case(filler + [P(5), P(6), P(-2), P(1), op("JMPIF"), P(9)], limit=70000 * 3))
    cases.append(case(filler + [P(3), P(1), op("JMPIF"), P(7), P(8), P(9)], limit=U64_MAX))
    cases.append(case(filler + [P(1), op("HLTIF"), P(9)], limit=U64_MAX))
    cases.append(case([P(65541), P(1), op("JMPIF")] + filler + [P(9)], limit=U64_MAX))
    # Compute inside a repeat loop: the children continue the parent's loop state (counter readable, RepeatEnd of the enclosing
    # loop reachable), in both counting directions
    for cnt, up in ((1, 1), (2, 0), (3, 1)):
        for b in (1, 2, 3):
            cases.append(case([P(cnt), P(up), op("REP"), P(b), op("COM"), op("REPC"), P(1), op("ALOC"), op("STO"), op("COME"), op("REPE")],
                              stack=[7], sols=RICH_SOLS, limit=100000))
            cases.append(case([P(cnt), P(up), op("REP"), P(b), op("COM"), op("POP"), op("REPE"), op("COME"), op("REPE")],
                              stack=[7], sols=RICH_SOLS, limit=100000))
            cases.append(case([P(cnt), P(up), op("REP"), op("REPC"), P(b), op("COM"), op("POP"), op("REPC"), op("REPC"), op("ADD"), P(1), op("ALOC"), op("STO"),
                               op("COME"), op("POP"), op("REPE")], stack=[7], sols=RICH_SOLS, limit=100000))
    # nested parent loops around a Compute whose children close the inherited inner loop and then use the outer one
    for b in (1, 2, 3):
        for (oc, ou), (ic, iu) in (((2, 1), (1, 1)), ((1, 0), (2, 0)), ((2, 1), (2, 1))):
            body = [op("REPC"), P(1), op("ALOC"), op("STO"), op("REPE"), op("REPC"), P(1), op("ALOC"), op("STO"), op("COME")]
            cases.append(case([P(oc), P(ou), op("REP"), P(ic), P(iu), op("REP"), P(b), op("COM")] + body + [op("REPE"), op("REPE")],
                              stack=[7], sols=RICH_SOLS, limit=1000000))
            body2 = [op("POP"), op("REPE"), op("REPE"), op("REPC"), P(1), op("ALOC"), op("STO"), op("COME")]
            cases.append(case([P(oc), P(ou), op("REP"), P(ic), P(iu), op("REP"), P(b), op("COM")] + body2 + [op("REPE"), op("REPE")],
                              stack=[7], sols=RICH_SOLS, limit=1000000))
    cases += control_soup(rng, 400 if tier == "quick" else 20000)
    # a loop re-entered from its own body (a backward jump to before its Repeat op, taken once thanks to a flag on the stack):
    # the first counter stays pending underneath and is seen again when the inner run is over
    for cnt in (1, 2, 3):
        for up in (0, 1):
            for back in (-7, -5):       # to the pushes of the Repeat arguments / to the Repeat op itself
                pre = [P(cnt), P(up)] if back == -5 else []
                prog = [P(cnt), P(up), op("REP"), P(0), op("SWAP"), P(back), op("SWAP")] + pre + [op("JMPIF"), op("REPC"), op("POP"), op("REPE"),
                        op("REPC"), op("POP"), op("REPE"), P(7)]
                if back == -5:
                    prog = [P(cnt), P(up), op("REP"), P(0), op("SWAP"), P(cnt), op("SWAP"), P(up), op("SWAP"), P(-7), op("SWAP"), op("JMPIF"),
                            op("REPC"), op("POP"), op("REPE"), op("REPC"), op("POP"), op("REPE"), P(7)]
                cases.append(case(prog, stack=[1], limit=2000))
                cases.append(case(prog, stack=[0], limit=2000))
    # counts that would be small if narrowed, under a gas limit that only the narrowed loop could meet
    for n in (258, 65538, (1 << 32) + 2):
        for up in (0, 1):
            cases.append(case([P(n), P(up), op("REP"), op("REPC"), op("POP"), op("REPE"), P(-7)], limit=40))
    # repeat: counts x directions, counter observed, body leaves a trace on the stack
    for n in (I64_MIN, -5, -1, 0, 1, 2, 3, 7, 50):
        for up in (0, 1, 2, -1):
            prog = [P(n), P(up), op("REP"), op("REPC"), op("REPE"), P(-7)]
            cases.append(case(prog, limit=100000))
    # nested loops: inner count x outer count x directions; resume addresses matter
    for no in (0, 1, 2, 3):
        for ni in (-1, 0, 1, 2, 3):
            for uo in (0, 1):
                for ui in (0, 1):
                    prog = [P(no), P(uo), op("REP"), op("REPC"), P(ni), P(ui), op("REP"), op("REPC"), op("REPE"), P(-1), op("REPE"), P(-2)]
                    cases.append(case(prog, limit=100000))
    # loops whose body jumps / halts / drops out
    cases.append(case([P(3), P(1), op("REP"), op("REPC"), P(1), op("EQ"), op("HLTIF"), op("REPE")]))
    cases.append(case([P(3), P(1), op("REP"), P(2), P(1), op("JMPIF"), P(77), op("REPE"), P(5)]))
    cases.append(case([op("REPE")]))
    cases.append(case([op("REPC")]))
    cases.append(case([P(2), P(1), op("REP"), op("REPE"), op("REPE")]))
    cases.append(case([P(2), P(1), op("REP"), op("REPE"), op("REPC")]))
    cases.append(case([P(0), P(0), op("REP"), op("REPE"), op("REPC")]))
    cases.append(case([P(0), P(0), op("REP"), op("REPE"), op("REPE")]))
    cases.append(case([P(2), P(1), op("REP"), P(0), P(0), op("REP"), op("REPE"), op("REPC"), op("POP"), op("REPE"), P(9)]))
    # nesting up to the repeat-stack limit (+1)
    deep = []
    for _ in range(STACK_LIMIT + 1):
        deep += [P(1), P(1), op("REP")]
    cases.append(case(deep, limit=U64_MAX))
    cases.append(case(deep[:-3] + [op("REPE")] * STACK_LIMIT + [P(5)], limit=U64_MAX))
    # evaluation results
    for st in ([], [0], [1], [2], [-1], [5, 1], [5, 0], [1, 7]):
        cases.append(case([], stack=st, mode="eval"))
        cases.append(case([P(3), op("POP")], stack=st, mode="eval"))
    cases.append(case([op("POP")], stack=[], mode="eval"))
    cases.append(case([P(1), op("HLT"), P(0)], mode="eval"))
    n = 300 if tier == "quick" else 20000
    for _ in range(n):
        # random structured control flow: forward jumps and bounded loops only (terminating by construction)
        body = random_program(rng, rng.randrange(0, 6), alphabet=["PUSH", "POP", "DUP", "ADD", "REPC", "SWAP", "NOT"])
        k = rng.choice([-1, 0, 1, 2, 3, 5])
        prog = [P(k), P(rng.choice([0, 1])), op("REP")] + body + [op("REPE")]
        if rng.random() < 0.5:
            prog = [P(rng.randrange(1, 4)), P(rng.choice([0, 1, 1, 2])), op("JMPIF")] + prog
        if rng.random() < 0.3:
            prog = prog + [P(rng.choice([0, 1])), op("HLTIF"), P(4)]
        cases.append(case(prog, stack=rand_stack(rng, rng.choice([0, 2, 4])), limit=5000,
                          mode=rng.choice(["ops", "ops", "eval", "bytes"])))
    # the program of theorem C09.sum_loop_result (entered at the Repeat with [0, n, 1] on the stack): the implementation must give
    # what the theorem predicts for the model — 1 + 3n gas, the sum 0 + … + (n - 1) — and the model must agree case by case
    oracles = []
    sum_prog = [P(0), P(0), P(1), op("REP"), op("REPC"), op("ADD"), op("REPE")]
    for n in (1, 2, 3, 7, 100, 4096, 65537, 1_000_000) + (() if tier == "quick" else (30_000_000,)):
        c = case(sum_prog, pc=3, stack=[0, n, 1])
        exp = f"ok {1 + 3 * n} pc=7 halt=0 st=[{n * (n - 1) // 2}] mem=[] rep=[]"
        oracles.append("o_out x" + exp.encode().hex() + " " + c)
        if n <= 65537:
            cases.append(c)
    return cases, oracles


def c10_cases(rng, tier):
    rows()
    cases = []
    ents = std_entries()
    bodies = {
        "index_mem": [op("DUP"), op("ALOC"), op("POP"), op("COME")],                      # child i allocates i words
        "index_jump": [op("DUP"), P(2), op("LT"), P(3), op("SWAP"), op("JMPIF"), P(1), op("ALOC"), op("POP"), op("COME"), P(2), op("ALOC"), op("COME")],
        "halt_even": [op("DUP"), P(2), op("MOD"), P(0), op("EQ"), op("HLTIF"), P(1), op("ALOC"), op("POP"), op("COME")],
        "err_in_2": [op("DUP"), P(2), op("EQ"), op("PNCIF"), op("COME")],
        "parent_read": [P(0), op("LODP"), op("SWAP"), P(1), op("ALOC"), op("STO"), op("COME")],
        "parent_range": [P(0), P(2), op("LODPR"), P(2), op("ALOC"), op("POP"), P(2), P(0), op("STOR"), op("COME")],
        "nested": [P(2), op("COM"), op("COME"), op("COME")],
        "no_end": [P(1), op("ALOC"), op("POP")],
        "store_index": [P(1), op("ALOC"), op("STO"), op("COME")],
        "big_mem": [P(3000), op("ALOC"), op("POP"), op("COME")],
        "repeat_in_child": [P(2), P(1), op("REP"), op("REPC"), op("POP"), op("REPE"), op("COME")],
        "state_read": [P(2), op("ALOC"), op("POP"), P(0), P(1), P(1), P(0), op("KRNG"), op("COME")],
    }
    for name, body in bodies.items():
        for b in (-1, 0, 1, 2, 3, 4, 7):
            for after in ([], [P(5), op("POP")]):
                prog = [P(b), op("COM")] + body + after
                cases.append(case(prog, stack=[11, 12], mem=[70, 71], sols=RICH_SOLS, entries=ents, limit=200000))
    # compute inside a repeat loop: children inherit the repeat state
    cases.append(case([P(2), P(1), op("REP"), P(2), op("COM"), op("REPC"), P(1), op("ALOC"), op("STO"), op("COME"), op("REPE")],
                      sols=RICH_SOLS, limit=100000))
    # children that leave one of their own repeat loops early (by a jump / by halting), inside a parent loop whose counter
    # they read first; breadths above the number of workers, so that several children share a worker
    for b in (3, 17, 40, 300):
        read = [op("REPC"), P(1), op("ALOC"), op("STO")]
        by_jump = read + [P(5), P(1), op("REP"), P(2), P(1), op("JMPIF"), op("REPE"), op("COME")]
        by_halt = read + [P(5), P(1), op("REP"), op("DUP"), P(2), op("MOD"), op("HLTIF"), op("REPE"), op("COME")]
        counted = read + [P(3), P(0), op("REP"), op("REPC"), P(1), op("ALOC"), op("STO"), P(2), P(1), op("JMPIF"), op("REPE"), op("COME")]
        for body in (by_jump, by_halt, counted):
            for cnt, up in ((1, 1), (2, 0)):
                cases.append(case([P(cnt), P(up), op("REP"), P(b), op("COM")] + body + [op("REPE")], stack=[7], sols=RICH_SOLS, limit=U64_MAX))
    # nested parent loops around a Compute whose children close the inherited inner loop and then use the outer one
    for b in (1, 2, 3):
        for (oc, ou), (ic, iu) in (((2, 1), (1, 1)), ((1, 0), (2, 0)), ((2, 1), (2, 1))):
            body = [op("REPC"), P(1), op("ALOC"), op("STO"), op("REPE"), op("REPC"), P(1), op("ALOC"), op("STO"), op("COME")]
            cases.append(case([P(oc), P(ou), op("REP"), P(ic), P(iu), op("REP"), P(b), op("COM")] + body + [op("REPE"), op("REPE")],
                              stack=[7], sols=RICH_SOLS, limit=1000000))
            body2 = [op("POP"), op("REPE"), op("REPE"), op("REPC"), P(1), op("ALOC"), op("STO"), op("COME")]
            cases.append(case([P(oc), P(ou), op("REP"), P(ic), P(iu), op("REP"), P(b), op("COM")] + body2 + [op("REPE"), op("REPE")],
                              stack=[7], sols=RICH_SOLS, limit=1000000))
    cases += pex_race_cases()
    cases += compute_corner_cases()
    # parent memory x children memory around the limit: each side alone within it, jointly at / above it, children adding nothing
    for pm in (0, 1, 240, 241, MEM_LIMIT - 2, MEM_LIMIT - 1, MEM_LIMIT):
        for b in (1, 2, 3):
            for ca in (0, 1, 2, 5000, 5120):
                cases.append(case([P(b), op("COM"), P(ca), op("ALOC"), op("POP"), op("COME")], sols=RICH_SOLS, mem=[1] * pm))
            # children that only read the parent's memory / use the stack
            cases.append(case([P(b), op("COM"), P(0), op("LODP"), op("POP"), op("COME")], sols=RICH_SOLS, mem=[1] * pm))
    # parent stack at the limit: the child needs one more word for its index
    for sl in (STACK_LIMIT - 2, STACK_LIMIT - 1, STACK_LIMIT):
        cases.append(case([op("COM"), op("POP"), op("COME")], stack=[1] * (sl - 1) + [2], sols=RICH_SOLS))
    # the parent's own halt flag set before the Compute / set by a halting child: the parent stops right after the Compute
    for b in (1, 2, 3):
        for body in ([op("POP"), op("COME")], [P(1), op("ALOC"), op("STO"), op("COME")], [op("HLT")]):
            cases.append(case([P(b), op("COM")] + body + [P(5)], sols=RICH_SOLS, halt=True))
            cases.append(case([P(b), op("COM")] + body + [P(b), op("COM")] + body + [P(5)], sols=RICH_SOLS, halt=True))
    # larger breadths
    for b in (50, 1000, 4097):
        cases.append(case([P(b), op("COM"), P(1), op("ALOC"), op("STO"), op("COME")], sols=RICH_SOLS, limit=U64_MAX, maxb=5000))
        cases.append(case([P(b), op("COM"), P(3), op("ALOC"), op("POP"), op("COME")], sols=RICH_SOLS, limit=U64_MAX, maxb=5000))
    # combined memory exactly at / above the limit
    for per in (1023, 1024, 1025):
        cases.append(case([P(10), op("COM"), P(per), op("ALOC"), op("POP"), op("COME")], sols=RICH_SOLS))
    cases.append(case([P(2), op("COM"), P(5120), op("ALOC"), op("POP"), op("COME")], sols=RICH_SOLS))
    cases.append(case([P(2), op("COM"), P(5120), op("ALOC"), op("POP"), op("COME")], mem=[1], sols=RICH_SOLS))
    # parent stack full / nearly full
    cases.append(case([op("COM"), op("COME")], stack=[1] * (STACK_LIMIT - 1) + [2], sols=RICH_SOLS))
    cases.append(case([op("COM"), op("COME")], stack=[1] * STACK_LIMIT, sols=RICH_SOLS))
    cases.append(case([op("COM"), op("COME")], stack=[], sols=RICH_SOLS))
    n = 200 if tier == "quick" else 10000
    for _ in range(n):
        body = random_program(rng, rng.randrange(1, 8), alphabet=["PUSH", "DUP", "ADD", "ALOC", "STO", "LODP", "POP", "SWAP", "HLTIF", "NOT"])
        prog = random_program(rng, rng.randrange(0, 3), alphabet=["PUSH", "ALOC"]) + [P(rng.choice([1, 2, 3, 5])), op("COM")] + body + [op("COME")] + \
            random_program(rng, rng.randrange(0, 3), alphabet=["PUSH", "POP", "ADD"])
        cases.append(case(prog, stack=rand_stack(rng, rng.choice([0, 2])), mem=rand_stack(rng, rng.choice([0, 3])), sols=RICH_SOLS, limit=100000))
    return cases, []


def c11_cases(rng, tier):
    rows()
    cases, oracles = [], []
    ents = std_entries()
    ext = list(struct_words(ADDR_C))
    keys = [[], [0], [1], [1, 2], [I64_MAX], [9], [8], [7], [5, 5, 5]]
    for s_ in ("KRNG", "PKRNG", "KREX", "PKREX"):
        for key in keys:
            for n in (0, 1, 2, 3, -1, 257, 65537, (1 << 32) + 1, I64_MAX):
                for addr in (0, 1, 3, -1, 50, 65537, (1 << 32) + 1, I64_MAX):
                    for memsz in (0, 4, 12, 40):
                        if rng.random() < (0.25 if tier == "quick" else 1.0) or (addr in (0, 1) and memsz in (12, 40)):
                            st = [33] + (ext if s_.endswith("EX") else []) + key + [len(key), n, addr]
                            c = case([op(s_)], stack=st, mem=[-5] * memsz, sols=RICH_SOLS, entries=ents, index=0)
                            cases.append(c)
                            oracles.append(as_oracle(c, "o_state"))
    # operand underflow / malformed key length
    for s_ in ("KRNG", "KREX"):
        for st in ([], [0], [1, 0], [5, 1, 0], [-1, 1, 0], [1, 2, 3, 9, 1, 0], [1, 2, 1, 1, 0]):
            cases.append(case([op(s_)], stack=st, mem=[0] * 8, sols=RICH_SOLS, entries=ents))
    # several reads in one program: the same contract / key / count asked of the pre- and the post-state view in both
    # orders, and the same read twice (an implementation that remembers answers must remember per view)
    def args(s_, key, n, addr):
        return [P(w) for w in ((ext if s_.endswith("EX") else []) + key + [len(key), n, addr])]
    for s1 in ("KRNG", "PKRNG", "KREX", "PKREX"):
        for s2 in ("KRNG", "PKRNG", "KREX", "PKREX"):
            for key, n in (([1], 2), ([0], 1), ([1, 2], 3), ([I64_MAX], 2), ([9], 1)):
                prog = args(s1, key, n, 0) + [op(s1)] + args(s2, key, n, 20) + [op(s2)]
                c = case(prog, stack=[33], mem=[-5] * 40, sols=RICH_SOLS, entries=ents, index=0)
                cases.append(c)
                oracles.append(as_oracle(c, "o_state"))
    # the same view asked twice for the same first key with the same / a smaller / a larger count (each answer is scripted
    # per count: an implementation that serves the second read from the first one shows), incl. keys whose answers have more
    # or fewer values than requested
    for s1 in ("KRNG", "PKRNG", "KREX", "PKREX"):
        for key in ([1], [1, 2], [8], [7], [0]):
            for n1, n2 in ((3, 2), (2, 2), (2, 3), (3, 1), (1, 3), (2, 0)):
                prog = args(s1, key, n1, 0) + [op(s1)] + args(s1, key, n2, 20) + [op(s1)]
                c = case(prog, stack=[33], mem=[-5] * 44, sols=RICH_SOLS, entries=ents, index=0)
                cases.append(c)
                oracles.append(as_oracle(c, "o_state"))
    # long keys (nothing limits the key of a read to the length a mutation key may have)
    for s_ in ("KRNG", "PKRNG", "KREX", "PKREX"):
        for kl in (999, 1000, 1001, 2048, 4000):
            key = [(i * 7) % 50 for i in range(kl)]
            st = (ext if s_.endswith("EX") else []) + key + [kl, 1, 0]
            if len(st) <= STACK_LIMIT:
                c = case([op(s_)], stack=st, mem=[-5] * 8, sols=RICH_SOLS, entries=ents, index=0)
                cases.append(c)
                oracles.append(as_oracle(c, "o_state"))
    for c in compute_corner_cases():
        cases.append(c)
        oracles.append(as_oracle(c, "o_state"))
    # the other solution's contract (index 1)
    for s_ in ("KRNG", "PKRNG"):
        c = case([op(s_)], stack=[1, 1, 2, 0], mem=[0] * 12, sols=RICH_SOLS, entries=ents, index=1)
        cases.append(c)
        oracles.append(as_oracle(c, "o_state"))
    # one Vm value used for two executions, the second one for the other solution of the set: each read asks for the contract
    # of the solution given to that execution (nothing learnt about "this contract" in the first run may carry over)
    for s1 in ("KRNG", "PKRNG", "KREX", "PKREX"):
        for s2 in ("KRNG", "PKRNG"):
            for i1, i2 in ((0, 1), (1, 0), (0, 0)):
                for key, n in (([1], 2), ([1, 2], 3), ([0], 1)):
                    p1 = args(s1, key, n, 0) + [op(s1)]
                    p2 = args(s2, key, n, 20) + [op(s2)]
                    c = case(p1, stack=[33], mem=[-5] * 44, sols=RICH_SOLS, entries=ents, index=i1)
                    cases.append(f"reuse {i2} {hx(prog_bytes(p2))} " + c)
    return cases, oracles


def struct_words(b32):
    return [int.from_bytes(b32[i:i + 8], "big", signed=True) for i in range(0, 32, 8)]


def words_of_bytes(b):
    """bytes -> i64 words, zero padded to a multiple of 8 (the layout the crypto ops pop)"""
    b = bytes(b) + b"\x00" * ((-len(b)) % 8)
    return [int.from_bytes(b[i:i + 8], "big", signed=True) for i in range(0, len(b), 8)]


def c12_cases(rng, tier):
    from . import common as C
    rows()
    cases = []
    sols = [(ADDR_A, ADDR_B, [[1, 2, 3], [], [7], list(range(50))], []), (ADDR_C, ADDR_A, [[9]], []), (ADDR_A, ADDR_C, [], [])]
    # --- access ops: slot / offset / length grid
    for idx in range(3):
        for s_ in ("THIS", "THISC", "DSLT"):
            cases.append(case([op(s_)], stack=[5], sols=sols, index=idx))
            cases.append(case([op(s_)], stack=[1] * (STACK_LIMIT - 3), sols=sols, index=idx))
            cases.append(case([op(s_)], stack=[1] * (STACK_LIMIT - 4), sols=sols, index=idx))
        for slot in (-1, 0, 1, 2, 3, 4, I64_MAX):
            cases.append(case([op("DLEN")], stack=[8, slot], sols=sols, index=idx))
            for ix in (-1, 0, 1, 2, 3, 49, 50, I64_MAX):
                for ln in (-1, 0, 1, 2, 3, 50, 51, I64_MAX):
                    cases.append(case([op("DATA")], stack=[8, slot, ix, ln], sols=sols, index=idx))
    for st in ([], [0], [0, 0], [1, 1]):
        cases.append(case([op("DATA")], stack=st, sols=sols))
        cases.append(case([op("DLEN")], stack=st[:1], sols=sols))
    cases.append(case([op("DATA")], stack=[1] * (STACK_LIMIT - 40) + [3, 0, 50], sols=sols))
    # --- PredicateExists: hashes of every solution's (data, address) pre-image, and perturbations
    import hashlib
    def pre(s):
        ws = []
        for slot in s[2]:
            ws += [len(slot)] + list(slot)
        ws += struct_words(s[0]) + struct_words(s[1])
        return b"".join((w & ((1 << 64) - 1)).to_bytes(8, "big") for w in ws)
    variants = list(sols) + [(ADDR_A, ADDR_B, [[1, 2, 3], [7]], []), (ADDR_B, ADDR_A, [[1, 2, 3], [], [7], list(range(50))], []),
                             (ADDR_A, ADDR_B, [[1, 2], [3], [], [7], list(range(50))], []), (ADDR_A, ADDR_B, [[]], []), (ADDR_A, ADDR_B, [], [])]
    for v in variants:
        h = hashlib.sha256(pre(v)).digest()
        cases.append(case([op("PEX")], stack=[4] + struct_words(h), sols=sols))
        cases.append(case([op("PEX")], stack=[4] + struct_words(h)[::-1], sols=sols))
        cases.append(case([op("PEX")], stack=[4] + struct_words(h), sols=[(ADDR_A, ADDR_B, [[]], []), (ADDR_A, ADDR_B, [], [])]))
    cases.append(case([op("PEX")], stack=[1, 2, 3], sols=sols))
    cases += pex_race_cases()
    # --- Sha256: all byte lengths 0..200 (every residue mod 8), wrong word counts, negative length
    for ln in range(0, 201 if tier == "thorough" else 72):
        data = bytes((7 * i + ln) & 0xFF for i in range(ln))
        cases.append(case([op("SHA2")], stack=[9] + words_of_bytes(data) + [ln], sols=sols))
    # message lengths around typical fixed buffer sizes (a stack buffer of 2^k bytes / words goes wrong just above it)
    for base in (256, 512, 1024, 2048, 4096, 8192, 8 * 4000):
        for d in (-9, -8, -7, -1, 0, 1, 7, 8, 9, 15, 16):
            ln = base + d
            if ln // 8 + 3 <= STACK_LIMIT and (tier == "thorough" or d in (-8, -1, 0, 1, 7, 8, 9)):
                data = bytes((5 * i + ln) & 0xFF for i in range(ln))
                cases.append(case([op("SHA2")], stack=[9] + words_of_bytes(data) + [ln], sols=sols))
    for ln in (-1, 1, 8, 9, 17, I64_MAX):
        cases.append(case([op("SHA2")], stack=[ln], sols=sols))
        cases.append(case([op("SHA2")], stack=[1, ln], sols=sols))
    # non-zero padding bytes must be ignored
    cases.append(case([op("SHA2")], stack=[-1, 3], sols=sols))
    cases.append(case([op("SHA2")], stack=[1] * (STACK_LIMIT - 2) + [0x0102030405060708, 8], sols=sols))
    # --- signatures: reference vectors come from the sign crate / ed25519-dalek called directly
    q = []
    eds, secs = [], []
    for i in range(6 if tier == "quick" else 40):
        sk = bytes(rng.randrange(1, 256) for _ in range(32))
        msg = bytes(rng.randrange(256) for _ in range(rng.choice([0, 1, 7, 8, 9, 31, 32, 33, 64, 100, 1023, 1024, 1025, 1031, 1032, 2049])))
        h = hashlib.sha256(msg).digest()
        q.append(f"e{i} ed_sign {hx(sk)} {hx(msg)}")
        q.append(f"s{i} secp_sign {hx(sk)} {hx(h)}")
        eds.append((msg,))
        secs.append((h,))
    ans = C.run_bin(C.HARNESS_BIN, q)
    ed_cases, secp_cases = [], []
    for i in range(len(eds)):
        a = ans.get(f"e{i}", "").split(" ")
        if len(a) == 2:
            pk, sig = bytes.fromhex(a[0][1:]), bytes.fromhex(a[1][1:])
            msg = eds[i][0]
            flip = lambda b, k: b[:k] + bytes([b[k] ^ 1]) + b[k + 1:]
            ed_cases += [(pk, sig, msg), (pk, flip(sig, 5), msg), (flip(pk, 3), sig, msg), (pk, sig, msg + b"x"),
                         (pk, sig, msg[:-1]) if msg else (pk, sig, b"y"), (bytes([0xFF] * 32), sig, msg), (bytes(32), sig, msg)]
        a = ans.get(f"s{i}", "").split(" ")
        if len(a) == 3:
            sig, rid, pk = bytes.fromhex(a[0][1:]), int(a[1]), bytes.fromhex(a[2][1:])
            h = secs[i][0]
            secp_cases += [(h, sig, rid), (h, sig, rid ^ 1), (h, sig, 2), (h, sig, 3), (h, sig, 4), (h, sig, -1), (h, sig, 255),
                           (h, sig, rid + (1 << 32)), (h, sig, I64_MIN), (h[::-1], sig, rid), (h, sig[::-1], rid),
                           (h, bytes([0xFF] * 64), rid), (h, bytes(64), rid), (h, sig[:32] + bytes(32), rid),
                           (h, bytes([0xFF] * 32) + sig[32:], rid), (bytes(32), sig, rid)]
    # ed25519 corner cases: the eight small-order points as public key and as R, with s = 0 (plain `verify` accepts some of
    # them for every message; a stricter or laxer verification rule shows here and nowhere else)
    small_order = [bytes.fromhex(h) for h in (
        "0100000000000000000000000000000000000000000000000000000000000000",
        "ecffffffffffffffffffffffffffffffffffffffffffffffffffffffffffff7f",
        "0000000000000000000000000000000000000000000000000000000000000000",
        "0000000000000000000000000000000000000000000000000000000000000080",
        "26e8958fc2b227b045c3f489f2ef98f0d5dfac05d3c63339b13802886d53fc05",
        "26e8958fc2b227b045c3f489f2ef98f0d5dfac05d3c63339b13802886d53fc85",
        "c7176a703d4dd84fba3c0b760d10670f2a2053fa2c39ccc64ec7fd7792ac037a",
        "c7176a703d4dd84fba3c0b760d10670f2a2053fa2c39ccc64ec7fd7792ac03fa")]
    for pk_ in small_order:
        for r_ in small_order[:4] + [small_order[4]]:
            for msg_ in (b"", b"abc"):
                ed_cases.append((pk_, r_ + bytes(32), msg_))
    # non-canonical s (s + L) of a valid signature, and s = L
    L_ = (1 << 252) + 27742317777372353535851937790883648493
    if ed_cases:
        pk0, sig0, msg0 = ed_cases[0]
        s0 = int.from_bytes(sig0[32:], "little")
        if s0 + L_ < 1 << 256:
            ed_cases.append((pk0, sig0[:32] + (s0 + L_).to_bytes(32, "little"), msg0))
        ed_cases.append((pk0, sig0[:32] + L_.to_bytes(32, "little"), msg0))
    ones = lambda n: b"".join((1).to_bytes(8, "big") for _ in range(n))
    secp_cases.append((ones(4), ones(8), 1))
    ed_cases.append((ones(4), ones(8), b""))
    q2 = [f"e{i} ed_verify {hx(pk)} {hx(sig)} {hx(msg)}" for i, (pk, sig, msg) in enumerate(ed_cases)]
    q2 += [f"s{i} secp_recover {hx(h)} {hx(sig)} {max(min(rid, 2**31 - 1), -2**31)}" for i, (h, sig, rid) in enumerate(secp_cases)]
    ans2 = C.run_bin(C.HARNESS_BIN, q2)
    for i, (pk, sig, msg) in enumerate(ed_cases):
        r = ans2.get(f"e{i}")
        if r not in ("0", "1", "2"):
            continue
        st = [6] + words_of_bytes(msg) + [len(msg)] + words_of_bytes(sig) + words_of_bytes(pk)
        cases.append(case([op("VRFYED")], stack=st, sols=sols, eds=[(pk, sig, msg, int(r))]))
    for i, (h, sig, rid) in enumerate(secp_cases):
        r = ans2.get(f"s{i}")
        if not r:
            continue
        tab = []
        if -2**31 <= rid < 2**31 and 0 <= rid <= 3:
            tab = [(h, sig, rid, r if r in ("b", "u") else "k " + r.split(" ")[1])]
        st = [6] + words_of_bytes(h) + words_of_bytes(sig) + [rid]
        cases.append(case([op("RSECP")], stack=st, sols=sols, secps=tab))
    for st in ([], [1] * 12):
        cases.append(case([op("VRFYED")], stack=st, sols=sols))
        cases.append(case([op("RSECP")], stack=st, sols=sols))
    oracles = [as_oracle(c, "o_access") for c in cases]
    # one Vm value used for two executions of the same set, the second one for another solution: addresses, data and
    # slot counts are those of the solution given to each execution
    for s1 in ("THIS", "THISC", "DSLT", "PEXQ"):
        for s2 in ("THIS", "THISC", "DSLT"):
            for i1, i2 in ((0, 1), (1, 2), (2, 0), (1, 1)):
                p1 = ([P(w) for w in struct_words(hashlib.sha256(pre(sols[0])).digest())] + [op("PEX")]) if s1 == "PEXQ" else [op(s1)]
                c = case(p1, stack=[5], sols=sols, index=i1)
                cases.append(f"reuse {i2} {hx(prog_bytes([op(s2), P(0), P(0), P(1), op('DATA')] if i2 != 2 else [op(s2)]))} " + c)
    return cases, oracles
