"""Registry: for every property, its Lean modules, case generators and comparison rules."""
from . import gen_asm

KERNEL = "Lean 4.33 kernel; axioms allowed: propext, Classical.choice, Quot.sound (audited per theorem)"
TIE = "hand-written Lean model tied to /repo by the differential harness (real crates in-process vs compiled Lean driver)"

PROPS = {}

PROPS["C13"] = dict(
    modules=["Essential.Props.C13"],
    gen=gen_asm.c13_cases,
    py_oracle=gen_asm.c13_pinned_oracle,
    model_is_spec=True,
    exhaustive="all 256 opcode bytes x 0..9 trailing bytes; all 62x62 opcode pairs; 62 short constants; bit-walking immediates",
    rule="cases: every opcode byte with 0..9 trailing bytes, all opcode pairs, bit-walking/boundary immediates, random op "
         "sequences and (truncated / corrupted / random) byte strings; non-trivial = distinct case whose implementation "
         "result is a parsed op list of >= 1 op, a serialisation, or a typed error",
    nontrivial=lambda body, out: out not in ("missing", "bad-line", "ok []", "[]", "x"),
    trusted=[KERNEL, "gen/spec_from_yaml.py (asm.yml -> Gen/Spec.lean, own YAML reader)", TIE,
             "harness/src/gen_short.rs references every short::<NAME> constant the spec declares (compile-time check)"],
    assumptions=["a short constant present in Rust but absent from asm.yml cannot be enumerated",
                 "pinned/opcodes.json is the pinned opcode table (taken at the pinned commit)"],
)

PROPS["C15"] = dict(
    modules=["Essential.Props.C15"],
    gen=gen_asm.c15_cases,
    model_is_spec=True,
    exhaustive="every opcode byte at every position of a Push immediate; every single op x all 64 effect subsets; all 64 subsets of effect ops for analyze",
    rule="cases: programs over the full op set with Push immediates containing opcode bytes at each position, all 64 effect "
         "subsets, random programs and raw byte strings; non-trivial = distinct case with a non-empty program",
    nontrivial=lambda body, out: not body.endswith(" x") and not body.endswith(" 0") and out in ("true", "false") or out.isdigit(),
    trusted=[KERNEL, "gen/spec_from_yaml.py, gen/consts_from_rust.py (effect bit values scraped from effects.rs)", TIE],
    assumptions=["the association effect-flag <-> operation is the documented one (effectOf in Model/Asm.lean, effect_of in harness/src/orc_asm.rs)"],
)

PROPS["C14"] = dict(
    modules=["Essential.Props.C14"],
    gen=gen_asm.c14_cases,
    model_is_spec=True,
    exhaustive="every opcode byte followed by 0,1,7,8,9 bytes",
    rule="cases: byte strings (valid, invalid opcode at any position, truncated Push) mapped through owned and borrowed "
         "containers, op(i) for i in 0..n+2, FromIterator; non-trivial = distinct case with >= 1 op or a typed error",
    nontrivial=lambda body, out: out not in ("missing", "bad-line") and not out.startswith("ok [] "),
    trusted=[KERNEL, "gen/spec_from_yaml.py", TIE],
    assumptions=[],
)
