"""Registry: for every property, its Lean modules, case generators and comparison rules."""
from . import gen_asm, gen_vm, gen_types

KERNEL = "Lean 4.33 kernel; axioms allowed: propext, Classical.choice, Quot.sound (audited per theorem)"
TIE = "hand-written Lean model tied to /repo by the differential harness (real crates in-process vs compiled Lean driver)"

PROPS = {}

PROPS["C13"] = dict(
    modules=["Essential.Props.C13"],
    gen=gen_asm.c13_cases,
    py_oracle=gen_asm.c13_pinned_oracle,
    model_is_spec=True,
    exhaustive="all 256 opcode bytes x 0..9 trailing bytes; all 62x62 opcode pairs; 62 short constants; bit-walking immediates",
    rule="cases: every opcode byte with 0..9 trailing bytes, all opcode pairs, bit-walking/boundary immediates, random op "
         "sequences and (truncated / corrupted / random) byte strings; non-trivial = distinct case whose implementation "
         "result is a parsed op list of >= 1 op, a serialisation, or a typed error",
    nontrivial=lambda body, out: out not in ("missing", "bad-line", "ok []", "[]", "x"),
    trusted=[KERNEL, "gen/spec_from_yaml.py (asm.yml -> Gen/Spec.lean, own YAML reader)", TIE,
             "harness/src/gen_short.rs references every short::<NAME> constant the spec declares (compile-time check)"],
    assumptions=["a short constant present in Rust but absent from asm.yml cannot be enumerated",
                 "pinned/opcodes.json is the pinned opcode table (taken at the pinned commit)"],
)

PROPS["C15"] = dict(
    modules=["Essential.Props.C15"],
    gen=gen_asm.c15_cases,
    model_is_spec=True,
    exhaustive="every opcode byte at every position of a Push immediate; every single op x all 64 effect subsets; all 64 subsets of effect ops for analyze",
    rule="cases: programs over the full op set with Push immediates containing opcode bytes at each position, all 64 effect "
         "subsets, random programs and raw byte strings; non-trivial = distinct case with a non-empty program",
    nontrivial=lambda body, out: not body.endswith(" x") and not body.endswith(" 0") and out in ("true", "false") or out.isdigit(),
    trusted=[KERNEL, "gen/spec_from_yaml.py, gen/consts_from_rust.py (effect bit values scraped from effects.rs)", TIE],
    assumptions=["the association effect-flag <-> operation is the documented one (effectOf in Model/Asm.lean, effect_of in harness/src/orc_asm.rs)"],
)

PROPS["C14"] = dict(
    modules=["Essential.Props.C14"],
    gen=gen_asm.c14_cases,
    model_is_spec=True,
    exhaustive="every opcode byte followed by 0,1,7,8,9 bytes",
    rule="cases: byte strings (valid, invalid opcode at any position, truncated Push) mapped through owned and borrowed "
         "containers, op(i) for i in 0..n+2, FromIterator; non-trivial = distinct case with >= 1 op or a typed error",
    nontrivial=lambda body, out: out not in ("missing", "bad-line") and not out.startswith("ok [] "),
    trusted=[KERNEL, "gen/spec_from_yaml.py", TIE],
    assumptions=[],
)


def vm_project(out):
    """property-level projection of a VM result: drop the error variant (keep position)"""
    if out.startswith("err "):
        return " ".join(out.split(" ")[:2])
    return out


def vm_status_project(out):
    """C05's observable in the correspondence: did the run end in a value / typed error, or did it
    panic / abort (the bounds themselves are checked after every step by the o_steps oracle)"""
    t = out.split(" ")[0]
    return t if t in ("panic", "abort", "missing", "bad-line", "fuel") else "total"


def vm_nontrivial(body, out):
    return out.startswith("ok ") or (out.startswith("err ") and not out.startswith("err 0 "))


def vm_classify(body, out):
    t = out.split(" ")
    if t[0] == "err" and len(t) >= 3:
        return "err:" + t[2]
    return t[0]


VM_TRUSTED = [KERNEL, TIE, "gen/spec_from_yaml.py, gen/consts_from_rust.py (limits)",
              "modelled, not verified: rustc/std semantics of checked_*/Vec/slices, rayon's indexed collect, the cryptographic primitives (parameters of the model)"]

PROPS["C05"] = dict(
    modules=["Essential.Props.C05"],
    gen=gen_vm.c05_cases,
    project=vm_status_project, nontrivial=vm_nontrivial, classify=vm_classify,
    release=True, abort_is_violation=True,
    exhaustive="all single ops and (thorough) all op pairs over a 62-symbol alphabet (52 ops + 10 boundary pushes) from fixed states",
    rule="cases: bounded-exhaustive short programs over boundary constants (incl. i64::MIN/MAX), states at/near every limit, "
         "jump distances and gas at the integer extremes, long random programs, random bytecode; each case is executed by the "
         "real Vm (whole-program) and single-stepped through sync::step_op with the four bounds checked after every op, in "
         "debug (overflow checks on) and, thorough tier, release; non-trivial = distinct case that executes at least one op "
         "successfully or fails after the first op",
    trusted=VM_TRUSTED,
    assumptions=["Access is constructed with an in-range solution index (documented expect)",
                 "K1 (known finding): Compute breadth is unbounded; breadth above the model's maxBreadth is an `abort` in the model and such cases are not run in-process",
                 "a program is a slice: fewer than isize::MAX ops"],
)

PROPS["C08"] = dict(
    modules=["Essential.Props.C08"],
    gen=gen_vm.c08_cases,
    project=vm_project, nontrivial=vm_nontrivial, classify=vm_classify, model_is_spec=True,
    exhaustive="17 binary ops x all 31x31 boundary operand pairs; index/length/address grids over the boundary pool for every Stack/Memory/ParentMemory op; 13x13 set pairs for EqSet",
    rule="cases: every Stack/Pred/Alu/Memory/ParentMemory op on boundary operand tuples (i64 extremes, 0, limit, limit+1, negative "
         "indices) with stacks/memories of size 0, small, limit-1, limit; random programs over the data ops; compared: final "
         "stack, memory, pc, gas or error position+variant; non-trivial = distinct case that succeeds or fails after the first op",
    trusted=VM_TRUSTED,
    assumptions=["error *variants* are compared only as correspondence detail; the property-level comparison is success/failure, position and results"],
)


def gas_project(out):
    """C07's observables: the reported gas, or the out-of-gas error and where"""
    t = out.split(" ")
    if t[0] == "ok":
        return "ok " + t[1]
    if t[0] == "err" and len(t) >= 3 and t[2] == "OutOfGas":
        return "err " + t[1] + " OutOfGas"
    return t[0]


PROPS["C07"] = dict(
    modules=["Essential.Props.C07"],
    gen=gen_vm.c07_cases,
    project=gas_project, nontrivial=vm_nontrivial, classify=vm_classify, model_is_spec=True, release=True,
    exhaustive="cost/limit corner grid (costs 0, 1, 2^62, u64::MAX/6, u64::MAX x limits exact-1, exact, exact+1, 0, u64::MAX) for straight-line, compute and loop programs",
    rule="cases: straight-line, compute (breadth 1..50), backward-jump and repeat programs under per-opcode cost tables "
         "(0, 1, small, 2^62, u64::MAX) and limits around the exact total; the harness wraps the cost function in an audit "
         "(u128 sum of what it returned) and checks Ok(g) => g == audited and g <= limit, OutOfGas => the cost really did not "
         "fit; non-trivial = distinct case that executes at least one op",
    trusted=VM_TRUSTED,
    assumptions=["K2 (documented residual): compute children each start with the full limit; the excess is reported as OutOfGas at the join, no observable result depends on the extra work"],
)

PROPS["C09"] = dict(
    modules=["Essential.Props.C09", "Essential.Props.C09b"],
    gen=gen_vm.c09_cases,
    project=vm_project, nontrivial=vm_nontrivial, classify=vm_classify, model_is_spec=True,
    exhaustive="jump distance grid (25 distances incl. i64 extremes) x 5 conditions; repeat counts x 4 direction words; 4x5x2x2 nested loops; nesting to the repeat-stack limit + 1",
    rule="cases: JumpIf over a distance x condition grid at several positions, Halt/HaltIf/PanicIf with every condition, Repeat with "
         "counts <=0, 1, n in both directions observing RepeatCounter, nested loops, loops left by jump/halt, RepeatEnd/"
         "RepeatCounter without a loop, nesting up to the limit, eval results; observables: pc, stack, gas at cost 1 (= number of "
         "executed ops), eval result; non-trivial = distinct case executing at least one op",
    trusted=VM_TRUSTED,
    assumptions=[],
)

PROPS["C10"] = dict(
    modules=["Essential.Props.C10"],
    gen=gen_vm.c10_cases,
    project=vm_project, nontrivial=vm_nontrivial, classify=vm_classify, model_is_spec=True,
    exhaustive="12 child bodies x breadths -1,0,1,2,3,4,7 x with/without parent continuation; breadths 50, 1000, 4097; combined-memory boundary 10230/10240/10250",
    rule="cases: Compute with breadths <=0, 1, n (up to 4097) over child bodies with index-dependent jumps and allocation sizes, "
         "parent-memory reads, halts, an error in one child, nested Compute, no ComputeEnd, repeat state inherited from the parent, "
         "parent stack full, combined memory at/above the limit; observables: parent stack, memory, pc, gas; the *inner* child "
         "error is not compared (rayon leaves it unspecified); non-trivial = distinct case that spawns at least one child",
    trusted=VM_TRUSTED,
    assumptions=["schedule independence of the join is C02's; here the model runs children in index order",
                 "K1: breadth above the model's maxBreadth is screened"],
)

PROPS["C11"] = dict(
    modules=["Essential.Props.C11"],
    gen=gen_vm.c11_cases,
    project=vm_project, classify=vm_classify, model_is_spec=True,
    exhaustive="4 read ops x 9 keys x 6 counts x 6 addresses x 4 memory sizes (sampled 25% in the quick tier) against a scripted state with distinct answers per view/contract/key/count",
    rule="cases: each of the four reads with keys of length 0..3, counts 0..3/-1/i64::MAX, addresses 0,1,3,-1,50,i64::MAX, memory "
         "sizes 0..40, a scripted recording state returning empty values, different lengths, fewer/more values than requested and "
         "errors, different pre/post contents and own/external contracts; the oracle checks the recorded request, the [addr,len] "
         "pair table + back-to-back values, the frame and the stack below the operands; non-trivial = distinct case whose read "
         "reaches the state view",
    nontrivial=lambda body, out: out.startswith("ok ") or "StateRead" in out or "Memory" in out,
    trusted=VM_TRUSTED,
    assumptions=[],
)

PROPS["C12"] = dict(
    modules=["Essential.Props.C12"],
    gen=gen_vm.c12_cases,
    project=vm_project, nontrivial=vm_nontrivial, classify=vm_classify, model_is_spec=True,
    exhaustive="PredicateData slot x offset x length grid (7x8x8) for 3 solutions; Sha256 byte lengths 0..71 (quick) / 0..200 (thorough), all residues mod 8",
    rule="cases: PredicateData/Len/Slots over every slot/offset/length from the boundary grid, ThisAddress/ThisContractAddress at "
         "the stack limit, PredicateExists with the true hash of every solution and perturbed pre-images, Sha256 for every byte "
         "length, ed25519 / secp256k1 vectors produced by the sign crate and ed25519-dalek with corrupted keys, signatures, messages "
         "and recovery ids (incl. ids equal mod 2^32); the model's primitives are the reference answers of the hash/sign crates; the "
         "oracle recomputes each result with essential_hash / essential_sign directly; non-trivial = distinct case that succeeds or "
         "fails after marshalling",
    trusted=VM_TRUSTED + ["SHA-256 in the Lean driver is unverified code validated against sha2 on every run; ed25519/secp256k1 answers are tables computed by the harness with ed25519-dalek / libsecp256k1 (the primitives are parameters of the model)"],
    assumptions=["correctness of SHA-256, ed25519 and ECDSA recovery themselves is outside the statement (the property is agreement with the hash/sign crates)"],
)


TYPES_TRUSTED = [KERNEL, TIE, "gen/consts_from_rust.py (limits scraped from the sources)"]

PROPS["C16"] = dict(
    modules=["Essential.Props.C16"],
    gen=gen_types.c16_cases,
    model_is_spec=True,
    project=lambda out: out.split(" ")[0],
    nontrivial=lambda body, out: out.startswith("ok") or out.startswith("err"),
    exhaustive="every limit at limit-1, limit, limit+1 (solutions, slots, slot size, total mutations in 10 splits, key size, value size, nodes x edges 5x5, predicates), duplicate-slot patterns, error-precedence combinations",
    rule="cases: sets/predicates/contracts at, just below and just above every limit, splits of the mutation total over several "
         "solutions, duplicate slots within a solution / across solutions of one contract / across contracts, several limits "
         "exceeded at once, all limits reached at once, random small sets; compared: accept / reject (the error variant is "
         "correspondence detail); oracle: the documented rule restated in the harness; non-trivial = every distinct case",
    trusted=TYPES_TRUSTED,
    assumptions=["'no slot mutated twice' is the set-wide rule per (contract, key) required by C04 (it implies the per-solution clause of the statement; proved as check_set_no_solution_dup)",
                 "computed_set_valid (the set returned by check_and_compute still satisfies the rule) is proved and checked with the checker model (C04)"],
)


PROPS["C18"] = dict(
    modules=["Essential.Props.C18"],
    gen=gen_types.c18_cases,
    model_is_spec=True,
    nontrivial=lambda body, out: out.startswith("ok") or out.startswith("err") or out.startswith("some") or out.startswith("["),
    exhaustive="node_edges for all 5^3 edge_start patterns of 3 nodes x 4 indices; decode_mutation(s) on all word strings of length <= 3 (quick) / <= 4 (thorough) over 8 boundary words",
    rule="cases: predicates of 0..1001 nodes/edges with any edge_start incl. the leaf marker (encode, decode of valid / truncated / "
         "extended / random bytes), node_edges for every index, mutation lists (encode, decode of the encoding, decode of arbitrary "
         "words); oracles: decode(encode(x)) = x, encoded_size = length, on the real code; non-trivial = every distinct case with a "
         "defined result",
    trusted=TYPES_TRUSTED,
    assumptions=["JSON text <-> tree and the serde derive glue are trusted libraries; the serde data-model round trips are compared byte-for-byte (C18 serde part)"],
)

PROPS["C17"] = dict(
    modules=["Essential.Props.C17"],
    gen=gen_types.c17_cases,
    model_is_spec=True,
    nontrivial=lambda body, out: out.startswith("x"),
    exhaustive="varint / zigzag boundaries of the postcard encoding; program lengths around the SHA-256 block boundaries",
    rule="cases: random and limit-size predicates, programs, contracts (with repeated predicates), solutions and sets; the model "
         "computes SHA-256 of its own pre-image and must equal content_addr; postcard bytes of solutions are compared byte for "
         "byte; oracles on the real code: all permutations checked through reversal+rotation, helper constructors / trait methods "
         "agree, the hashed bytes recomputed independently, single-field perturbations (salt bit, node byte, extra edge, duplicate "
         "predicate added/removed, extra empty slot) change the address; non-trivial = every distinct case",
    trusted=TYPES_TRUSTED + ["SHA-256 in the Lean driver (unverified, compared with sha2 on every case)", "postcard as a faithful transport of the serde data model (bytes compared on every solution case)"],
    assumptions=["injective 'up to SHA-256' by statement: distinct pre-images are proved, collision resistance is not"],
)

PROPS["C19"] = dict(
    modules=["Essential.Props.C19"],
    gen=gen_types.c19_cases,
    model_is_spec=True,
    project=lambda out: out.split(" verify=")[0] if out.startswith("ok") else out.split(" ")[0],
    nontrivial=lambda body, out: out.startswith("ok") or out.startswith("err"),
    exhaustive="all 256 recovery-id bytes for every generated signature (oracle)",
    rule="cases: random keys and contracts (0..5 predicates, repeated predicates, random salts) signed with the sign crate; the "
         "model recomputes the signed content address itself and looks the ECDSA answer up in a table computed with libsecp256k1 "
         "for exactly that address (a different address is a table miss = disagreement); permuted and tampered contracts (salt bit, "
         "added / removed / duplicated predicate, extra node), wrong and out-of-range recovery ids, reversed / zero / 0xFF "
         "signatures; oracle on the real crates: recover(sign) = signer, order independence, tampering never recovers the signer, "
         "all 256 ids, flipped signature bits, the 4+1 word key encoding; non-trivial = every distinct case",
    trusted=TYPES_TRUSTED + ["ECDSA (libsecp256k1) is a parameter of the model: E.Correct is a hypothesis of sign_recover, not an axiom"],
    assumptions=["binding relies on SHA-256 collision resistance and on ECDSA not recovering one key for two messages (stated, not proved)"],
)

from . import gen_check, gen_lock


def total_project(out):
    """C06's observable: a result or typed error vs a panic / abort"""
    t = out.split(" ")[0]
    return t if t in ("panic", "abort", "missing", "bad-line", "timeout") else "total"


CHECK_TRUSTED = [KERNEL, TIE, "gen/spec_from_yaml.py, gen/consts_from_rust.py",
                 "modelled, not verified: rayon's indexed collect / partition (index order), HashMap / HashSet / BTreeMap semantics, Arc::try_unwrap succeeding after the parallel section"]

PROPS["C06"] = dict(
    modules=["Essential.Props.C06"],
    gen=gen_check.c06_cases,
    project=total_project, abort_is_violation=True,
    nontrivial=lambda body, out: out.startswith("ok") or out.startswith("err") or out.startswith("some") or out.startswith("none"),
    exhaustive="data-output memories: all word strings of length <= 3 (quick: 35% sample; thorough: <= 4, all) over 7 boundary words; all 125 edge_start patterns x 12 edge lists for 3-node graphs (quick: 25% sample)",
    rule="cases: data-output programs producing arbitrary memories (invalid mutation encodings, huge counts, negative lengths), "
         "pre/post-state reads with counts up to i64::MAX on wrapping keys, cyclic / dangling / malformed graphs, invalid bytecode "
         "as a node program, parent stack/memory concatenation overflow, random bytes through the predicate / bytecode decoders; "
         "every case runs the real entry point under catch_unwind (a panic or abort is a violation with the input as replay); "
         "non-trivial = distinct case returning a value or typed error",
    trusted=CHECK_TRUSTED,
    assumptions=["K3 (observation): read_or_fallback iterates `count` times before the VM can reject the size; huge counts are only issued with keys that wrap at once",
                 "the documented contract of check_set_predicates (set accepted by check_set, predicates by predicate::check) is assumed for the entry points"],
)

PROPS["C03"] = dict(
    modules=["Essential.Props.C03"],
    gen=gen_check.c03_cases,
    model_is_spec=True, abort_is_violation=True,
    nontrivial=lambda body, out: out.startswith("ok") or out.startswith("err"),
    exhaustive=None,
    rule="cases: graphs (chain, diamond, fan, reader-at-root / middle / leaf, reader behind a compute-only parent) whose reader node "
         "issues PostKeyRange / PostKeyRangeExtern (and PreKeyRange controls) for ranges that straddle mutated and unmutated keys and "
         "carry over i64::MAX words; mutations declared in the solution and / or computed by a data-output node of the first pass, "
         "deletions (empty values), several contracts, keys of different lengths; each case runs "
         "check_and_compute_solution_set_two_pass on the real code and the model, and a Python reference (pre-state overlaid with all "
         "mutations of the set) states the expected values via o_expect; non-trivial = distinct case returning a value or typed error",
    trusted=CHECK_TRUSTED,
    assumptions=["accepted sets only for the `proposed value` reading (at most one mutation per slot: C04); with duplicates the model and the code agree that the last one wins (post_state_spec)",
                 "K3 (observation): read_or_fallback iterates `count` times before the VM can reject the size"],
)

PROPS["C20"] = dict(
    modules=["Essential.Props.C20"],
    gen=gen_lock.c20_cases,
    py_oracle=gen_lock.c20_loom_oracle,
    model_is_spec=True,
    nontrivial=lambda body, out: (body.startswith("lockcheck ") and out == "ok") or
        (body.startswith(("lockserial", "lockcheckx")) and out not in ("missing", "bad-line", "bad-family")),
    classify=lambda body, out: out if out in ("ok", "no-serial-order", "search-limit", "bad-history", "incomplete",
        "missing", "bad-line", "bad-family", "abort", "timeout") else ("FAIL" if out.startswith("FAIL") else "outcome"),
    exhaustive="loom: all interleavings (at the synchronisation points of the real source rewritten std::sync -> loom::sync) "
               "of 9 systems: 2 and 3 threads x 1-2 read-yield-write closures on one lock, 2-3 threads on two locks taken in "
               "opposite orders (about 20 000 executions)",
    rule="phase 1: systems of 2..16 OS threads x 1..6 read-pause-write closures (increments, v+b, a*v+b) on 1..3 real "
         "essential_lock::StdLock<i64>, pauses none/yield/spin/sleep up to 300us inside and between calls; phase 2: every observed "
         "history (returned values per thread, final values) is sent as `lockcheck` to harness and Lean driver: both must agree and "
         "answer ok (= outcome of a serial execution, what the proved model allows; the driver re-validates its witness order with the "
         "model's serialOutcome); `lockserial` random orders and `lockcheckx` corrupted control histories (lost update, swapped / "
         "duplicated returns) must agree; oracles: o_lockrun fresh runs checked in-process, o_lockhammer 3000 (thorough 20000) "
         "contended increments per thread for 2..16 threads with a deadlock timeout, loom on the rewritten real source; "
         "non-trivial = distinct observed history accepted, or distinct control/serial case answered",
    trusted=[KERNEL, TIE,
             "gen/lock_from_rust.py (shape of StdLock::apply -> Gen/Lock.lean; std->loom rewrite for harness-loom)",
             "std::sync::Mutex (acquire blocks unless free, release frees; poisoning not modelled) and Rust's rule that a guard "
             "temporary in a call argument lives until the call has returned",
             "loom 0.7.2 as interleaving explorer (its Condvar::notify_one wakes FIFO)"],
    assumptions=["closures do not call apply (non-re-entrant, non-nested use): the case no_deadlock is stated for",
                 "closures do not panic (a panic inside apply poisons the mutex; every later apply panics by design)",
                 "real OS interleavings are sampled, not enumerated; loom enumerates only the small configurations listed"],
)

PROPS["C04"] = dict(
    modules=["Essential.Props.C04"],
    gen=gen_check.c04_cases,
    model_is_spec=True, abort_is_violation=True,
    nontrivial=lambda body, out: out.startswith("ok") or out.startswith("err") or len(out) == 64,
    exhaustive="all orderings of every generated set of <= 3 solutions (5 orderings of 4-solution sets)",
    rule="sets of 1..4 solutions over two contracts, every solution with its own predicate (a first-pass leaf that may compute a "
         "mutation, a deferred leaf that reads a post-state key and reports it), shared and distinct contracts, overlapping keys; "
         "forced clashes declared/declared (same and different predicates), declared/computed in both index orders, computed/computed; "
         "every ordering is run as check_set, content_addr and two-pass on model and implementation, and the o_perm oracle compares "
         "the orderings on the implementation: equal content address, equal check_set verdict, accepted => at most one mutation per "
         "(contract, key); same two-pass verdict, gas and per-solution mutations; the returned set again has unique slots; "
         "non-trivial = distinct case returning a value or typed error",
    trusted=CHECK_TRUSTED,
    assumptions=["which solution index is blamed for a duplicate computed mutation depends on the order (the property fixes the verdict, gas and mutations, not the blamed index)"],
)

PROPS["C01"] = dict(
    modules=["Essential.Props.C01"],
    gen=gen_check.c01_cases,
    model_is_spec=True, abort_is_violation=True,
    nontrivial=lambda body, out: out.startswith("ok") or out.startswith("err"),
    exhaustive=None,
    rule="graphs: 14 templates (chain, diamond, fan-in/out, multi-edge, multi-edge join, several roots/leaves, deferred parent "
         "with a lower index than a cached parent) and random DAGs of 1..7 nodes with multi-edges, each under up to 5 numberings "
         "the node/edge encoding can express (incl. non-topological); node programs: constants on stack / memory, post-state "
         "readers (deferred), failing non-leaves, leaves that check the sum of what they inherit, report their inherited stack or "
         "memory as a data output, or end 0 / fail; 1..3 solutions, both values of collect_all_failures; cyclic / malformed "
         "edge lists; every case runs check_and_compute_solution_set_two_pass on code and model, o_ref compares the code with a "
         "Python reference semantics of the graph (verdict kind, unsatisfied leaves, sorted data outputs), o_same compares the "
         "numberings that keep every parent list ascending (verdict, gas, data outputs); non-trivial = distinct case returning a value or typed error",
    trusted=CHECK_TRUSTED + ["the Python reference semantics in vlib/gen_check.py (ref_eval, ~60 lines)"],
    assumptions=["numbering-independence is compared for renumberings that keep every parent list ascending (the statement fixes ascending parent order); data outputs are compared as a multiset",
                 "edge targets in range; edges to non-existent nodes are reproduced by the model and compared, not part of the refinement theorem"],
)

PROPS["C02"] = dict(
    modules=["Essential.Props.C02", "Essential.Props.C02b"],
    gen=gen_check.c02_cases,
    model_is_spec=True, abort_is_violation=True,
    nontrivial=lambda body, out: out.startswith("ok") or out.startswith("err") or out.startswith("some") or out.startswith("none"),
    exhaustive=None,
    rule="cases: two-pass checks with 1..8 solutions and graph levels of 2..8 nodes whose programs spin 0..12000 iterations "
         "before they fail / end 0 / report a data output / feed a join (slow tasks at the low indices), Compute ops of breadth "
         "2..8 whose children spin (breadth - index) x 2500 iterations and then halt early, run to ComputeEnd, fail, jump or "
         "leave index-dependent memory, plus samples of the C01, C03 and C10 inputs; each case is (a) run on model (sequential by "
         "construction) and code and compared, (b) o_pool: re-run on the code inside dedicated rayon pools of 1, 2, 5, 16 "
         "(thorough: 1..16) workers, 2 (4) repetitions with state-read jitter, every result compared with the one-worker run; "
         "non-trivial = distinct case returning a value or typed error",
    trusted=CHECK_TRUSTED + ["rayon: tasks are pure closures over immutable snapshots; indexed collect / partition / Result-collect place results by index (what Model/Sched.lean assumes)"],
    assumptions=["the inner error of a failing Compute child is not part of the compared result (rayon leaves open which child's error is kept; the VM reports Compute.Exec either way)",
                 "real work-stealing interleavings are sampled (pool sizes x repetitions x jitter), not enumerated"],
)


def _c16_with_computed(rng, tier):
    """C16's last clause: the set returned by check_and_compute must itself satisfy the one-mutation-per-slot rule"""
    cases, oracles = gen_types.c16_cases(rng, tier)
    # signed contracts: valid signatures, tampered ones, and every value of the recovery-id byte
    c19, _ = gen_types.c19_cases(rng, tier)
    cases += [c for c in c19 if c.startswith("chksigned ")]
    kinds = [None, "dc", "cd", "cc", "dd_pred", "dd", "c1c2"]
    for i in range(36 if tier == "quick" else 600):
        sols, preds, pbytes = gen_check.c04_set(rng, kinds[i % len(kinds)])
        base = gen_check.check_case("twopass", rng.random() < 0.5, sols, preds, pbytes, [])
        cases.append(base)
        oracles.append(f"o_perm {len(sols)} " + " ".join(map(str, range(len(sols)))) + " " + base)
    return cases, oracles


PROPS["C16"]["gen"] = _c16_with_computed
PROPS["C16"]["modules"] = ["Essential.Props.C16", "Essential.Props.C16b"]
PROPS["C16"]["rule"] += "; plus generated sets with declared / computed clashes (same and different predicates of one contract) run through the two-pass check: the returned set must have unique (contract, key) slots and be accepted by check_set (o_perm with the identity order)"

PROPS["C18"]["modules"] = ["Essential.Props.C18", "Essential.Props.C18b", "Essential.Props.C18c"]
PROPS["C18"]["rule"] += "; postcard: `pc` (encoder) and `pcdec` (decoder, value and number of bytes left) of solutions, mutations and sets on model and code: valid encodings, truncations, trailing bytes, flipped bits, non-canonical and over-long varints, random bytes; o_serde (implementation only): JSON / postcard / Display+FromStr round trips and legacy field names for every public data type"

PROPS["C04"]["modules"] = ["Essential.Props.C04", "Essential.Props.C04b"]

PROPS["C18"]["rule"] += "; `conv`: every helper of essential_types::convert (word <-> bytes, 32/64-byte arrays <-> 4/8 words, hex strings incl. upper case, odd lengths and invalid digits, bool) on model and code"

for _p in ("C01", "C03", "C06"):
    PROPS[_p]["rule"] += "; a sample of the cases is also run through the single-mode public entry points (`api`: check_and_compute_solution_set, check_set_predicates, check_predicate) with an explicitly given post-state view, in single modes and in mode sequences (01, 10, 11, 011) over one shared cache"

PROPS["C01"]["modules"] = ["Essential.Props.C01", "Essential.Props.C01b"]


import re as _re


def check_project(out):
    """Observables of the checker properties (C01-C04): verdict, gas, mutations / data outputs, failing solution and node
    indices and the *kind* of failure; the inner VM error of a failing program (pc, variant name) is correspondence detail
    only (a renamed error variant is not a change of these properties)."""
    if not out.startswith(("twopass", "api")) and "ProgramErrors:[" not in out:
        return out
    return _re.sub(r"(\d+):(Vm:\d+:[^;\]]*|OpsFromBytesError|ParentStackConcatOverflow|ParentMemoryConcatOverflow)", r"\1:failed", out)


for _p in ("C01", "C02", "C03", "C04"):
    if "project" not in PROPS[_p]:
        PROPS[_p]["project"] = check_project
