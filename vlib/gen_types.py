"""Case generators for the types / validators / hash / sign families (C16, C17, C18, C19, C06)."""
from .common import I64_MIN, I64_MAX
from .gen_asm import hx, BOUNDARY_WORDS
from .gen_vm import L, LL, sol_tok, ADDR_A, ADDR_B, ADDR_C

EDGE_MAX = 65535


def addr(i):
    return bytes([(i * 37 + j * 11) & 0xFF for j in range(32)])


def pred_tok(nodes, edges):
    """nodes: [(edge_start, addr32)], edges: [u16]"""
    return f"{len(nodes)}" + "".join(f" {es} {hx(a)}" for es, a in nodes) + " " + L(edges)


def sols_tok(sols):
    return f"{len(sols)}" + "".join(" " + sol_tok(s) for s in sols)


def sol(contract=ADDR_A, predicate=ADDR_B, data=(), muts=()):
    return (contract, predicate, [list(d) for d in data], [(list(k), list(v)) for k, v in muts])


def muts_n(n, base=0, klen=1, vlen=1):
    return [([base + i] + [0] * (klen - 1), [7] * vlen) for i in range(n)]


def c16_cases(rng, tier):
    cases = []
    S = lambda sols: cases.append("chkset " + sols_tok(sols))
    # number of solutions
    for n in (0, 1, 2, 99, 100, 101, 150):
        S([sol(predicate=addr(i)) for i in range(n)])
    # predicate data: slots and slot sizes
    for slots in (0, 1, 99, 100, 101):
        S([sol(data=[[1]] * slots)])
        S([sol(), sol(predicate=addr(1), data=[[1]] * slots)])
    for ln in (0, 9999, 10000, 10001):
        S([sol(data=[[0] * ln])])
        S([sol(data=[[1], [0] * ln, [2]])])
        S([sol(), sol(predicate=addr(1), data=[[0] * ln] * 2)])
    # total number of mutations, in one solution and spread over several
    for split in ((999,), (1000,), (1001,), (500, 500), (500, 501), (1000, 1), (1, 1000), (999, 1), (334, 333, 333), (334, 334, 333)):
        sols, base = [], 0
        for j, n in enumerate(split):
            sols.append(sol(predicate=addr(j), muts=muts_n(n, base=base)))
            base += n
        S(sols)
    # key / value sizes
    for kl in (0, 1, 999, 1000, 1001):
        S([sol(muts=[([5] * kl, [1])])])
    for vl in (0, 1, 9999, 10000, 10001):
        S([sol(muts=[([5], [1] * vl)])])
        S([sol(muts=[([4], [2]), ([5], [1] * vl)])])
    # duplicate slots: within a solution, across solutions of one contract (same / different predicate),
    # across contracts (allowed), same key different lengths (allowed)
    S([sol(muts=[([1], [2]), ([1], [3])])])
    S([sol(muts=[([1], [2]), ([2], [3]), ([1], [2])])])
    S([sol(muts=[([1], [2])]), sol(muts=[([1], [3])])])
    S([sol(muts=[([1], [2])]), sol(predicate=addr(3), muts=[([1], [2])])])
    S([sol(muts=[([1], [2])]), sol(contract=ADDR_C, muts=[([1], [2])])])
    S([sol(muts=[([1], [2])]), sol(muts=[([1, 0], [2])])])
    S([sol(muts=[([], [2])]), sol(muts=[([], [])])])
    S([sol(muts=[([1], [2])]), sol(contract=ADDR_C, muts=[([2], [2])]), sol(predicate=addr(5), muts=[([3], [1]), ([1], [9])])])
    # which error wins when several limits are exceeded (order of the checks)
    S([sol(data=[[1]] * 101, muts=[([1], [2]), ([1], [3])])])
    S([sol(data=[[0] * 10001], muts=muts_n(1001))])
    S([sol(muts=[([1] * 1001, [0] * 10001)])])
    S([sol(muts=[([1], [2]), ([1] * 1001, [1]), ([1], [2])])])
    S([sol(muts=[([1] * 1001, [1])]), sol(predicate=addr(1), data=[[1]] * 101)])
    # corner combinations at the limits (all at the limit = accepted)
    S([sol(predicate=addr(i), data=[[0] * 10000] + [[1]] * 99 if i == 0 else [], muts=muts_n(10, base=10 * i, klen=1000 if i == 0 else 1, vlen=10000 if i == 0 else 1)) for i in range(100)])
    n = 100 if tier == "quick" else 3000
    for _ in range(n):
        k = rng.choice([1, 2, 3, 5])
        sols = []
        for j in range(k):
            m = [([rng.randrange(4)] * rng.choice([1, 1, 2]), [rng.randrange(3)] * rng.randrange(3)) for _ in range(rng.randrange(4))]
            sols.append(sol(contract=rng.choice([ADDR_A, ADDR_C]), predicate=addr(rng.randrange(3)), data=[[1]] * rng.randrange(3), muts=m))
        S(sols)
    # predicates and contracts
    for nn in (0, 1, 999, 1000, 1001):
        for ne in (0, 1, 999, 1000, 1001):
            cases.append("chkpred " + pred_tok([(EDGE_MAX, addr(1))] * nn, [0] * ne))
    for np_ in (0, 1, 99, 100, 101):
        cases.append("chkcontract " + f"{np_}" + "".join(" " + pred_tok([(EDGE_MAX, addr(i))], []) for i in range(np_)))
    big_n = pred_tok([(EDGE_MAX, addr(1))] * 1001, [])
    big_e = pred_tok([], [0] * 1001)
    ok_p = pred_tok([(0, addr(1))], [0])
    for pos in (0, 1, 50, 99):
        for bad in (big_n, big_e):
            ps = [ok_p] * 100
            ps[pos] = bad
            cases.append("chkcontract 100 " + " ".join(ps))
    cases.append("chkcontract 101 " + " ".join([ok_p] * 100 + [big_n]))
    cases.append("chkcontract 2 " + big_e + " " + big_n)
    oracles = ["o_" + c for c in cases]
    return cases, oracles


def rand_pred(rng, nn=None, ne=None):
    nn = rng.choice([0, 1, 2, 3, 5]) if nn is None else nn
    ne = rng.choice([0, 1, 2, 4, 7]) if ne is None else ne
    nodes = [(rng.choice([0, 1, 2, ne, ne + 1, EDGE_MAX, EDGE_MAX - 1, rng.randrange(0, max(1, ne + 1))]), addr(rng.randrange(6))) for _ in range(nn)]
    edges = [rng.choice([0, 1, 2, nn, EDGE_MAX, rng.randrange(0, max(1, nn))]) for _ in range(ne)]
    return nodes, edges


def enc_pred_py(nodes, edges):
    b = len(nodes).to_bytes(2, "big")
    for es, a in nodes:
        b += es.to_bytes(2, "big") + a
    b += len(edges).to_bytes(2, "big")
    for e in edges:
        b += e.to_bytes(2, "big")
    return b


def c18_cases(rng, tier):
    cases, oracles = [], []
    # predicates: sizes 0..limits, any edge_start incl. the leaf marker
    for nn, ne in ((0, 0), (1, 0), (0, 1), (1, 1), (2, 3), (1000, 1000), (1001, 0), (0, 1001), (1000, 1001), (999, 999)):
        nodes = [((i * 7) % 65536 if i % 3 else EDGE_MAX, addr(i)) for i in range(nn)]
        edges = [(i * 13) % 65536 for i in range(ne)]
        cases.append("encpred " + pred_tok(nodes, edges))
        oracles.append("o_predrt " + pred_tok(nodes, edges))
        if nn <= 1000 and ne <= 1000:
            cases.append("decpred " + hx(enc_pred_py(nodes, edges)))
    n = 200 if tier == "quick" else 5000
    for _ in range(n):
        nodes, edges = rand_pred(rng)
        cases.append("encpred " + pred_tok(nodes, edges))
        oracles.append("o_predrt " + pred_tok(nodes, edges))
        b = enc_pred_py(nodes, edges)
        r = rng.random()
        if r < 0.3 and b:
            b = b[:rng.randrange(len(b))]
        elif r < 0.4:
            b = b + bytes([1, 2, 3])
        elif r < 0.5:
            b = bytes(rng.randrange(256) for _ in range(rng.randrange(0, 12)))
        cases.append("decpred " + hx(b))
        for i in range(len(nodes) + 2):
            cases.append(f"nodeedges {pred_tok(nodes, edges)} {i}")
    # node_edges: exhaustive small grid: 3 nodes, edge_start in {0,1,2,3,MAX}, 2 edges
    starts = [0, 1, 2, 3, EDGE_MAX]
    for a in starts:
        for b in starts:
            for c in starts:
                nodes = [(a, addr(1)), (b, addr(2)), (c, addr(3))]
                for i in range(4):
                    cases.append(f"nodeedges {pred_tok(nodes, [7, 8])} {i}")
    # mutations
    muts_pool = [[], [([], [])], [([1], [2])], [([1, 2], []), ([], [3, 4, 5])], [([I64_MIN], [I64_MAX])] * 3, [([0], [0]), ([0, 0], [0])]]
    for ms in muts_pool:
        tok = f"{len(ms)}" + "".join(f" {L(k)} {L(v)}" for k, v in ms)
        cases.append("encmuts " + tok)
        oracles.append("o_mutsrt " + tok)
    for _ in range(n):
        ms = [([rng.choice(BOUNDARY_WORDS) for _ in range(rng.randrange(3))], [rng.randrange(-3, 9) for _ in range(rng.randrange(4))]) for _ in range(rng.randrange(4))]
        tok = f"{len(ms)}" + "".join(f" {L(k)} {L(v)}" for k, v in ms)
        cases.append("encmuts " + tok)
        oracles.append("o_mutsrt " + tok)
    # decoders on arbitrary words: exhaustive short strings over boundary values
    pool = [-1, 0, 1, 2, 3, 5, I64_MAX, I64_MIN]
    import itertools
    for ln in range(0, 4 if tier == "quick" else 5):
        for ws in itertools.product(pool, repeat=ln):
            cases.append("decmut " + L(list(ws)))
            cases.append("decmuts " + L(list(ws)))
    for _ in range(n):
        ws = [rng.choice(pool) for _ in range(rng.randrange(0, 9))]
        cases.append("decmuts " + L(ws))
        cases.append("decmut " + L(ws))
    return cases, oracles
