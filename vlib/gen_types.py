"""Case generators for the types / validators / hash / sign families (C16, C17, C18, C19, C06)."""
from .common import I64_MIN, I64_MAX
from .gen_asm import hx, BOUNDARY_WORDS
from .gen_vm import L, LL, sol_tok, ADDR_A, ADDR_B, ADDR_C

EDGE_MAX = 65535


def addr(i):
    return bytes([(i * 37 + j * 11) & 0xFF for j in range(32)])


def pred_tok(nodes, edges):
    """nodes: [(edge_start, addr32)], edges: [u16]"""
    return f"{len(nodes)}" + "".join(f" {es} {hx(a)}" for es, a in nodes) + " " + L(edges)


def sols_tok(sols):
    return f"{len(sols)}" + "".join(" " + sol_tok(s) for s in sols)


def sol(contract=ADDR_A, predicate=ADDR_B, data=(), muts=()):
    return (contract, predicate, [list(d) for d in data], [(list(k), list(v)) for k, v in muts])


def muts_n(n, base=0, klen=1, vlen=1):
    return [([base + i] + [0] * (klen - 1), [7] * vlen) for i in range(n)]


def c16_cases(rng, tier):
    cases = []
    S = lambda sols: cases.append("chkset " + sols_tok(sols))
    # number of solutions
    for n in (0, 1, 2, 99, 100, 101, 150):
        S([sol(predicate=addr(i)) for i in range(n)])
    # predicate data: slots and slot sizes
    for slots in (0, 1, 99, 100, 101):
        S([sol(data=[[1]] * slots)])
        S([sol(), sol(predicate=addr(1), data=[[1]] * slots)])
    for ln in (0, 9999, 10000, 10001):
        S([sol(data=[[0] * ln])])
        S([sol(data=[[1], [0] * ln, [2]])])
        S([sol(), sol(predicate=addr(1), data=[[0] * ln] * 2)])
    # far above the limits: sizes that wrap to an accepted value if a count is ever narrowed to 8 / 16 bits
    S([sol(predicate=addr(i % 50)) for i in range(356)])
    S([sol(predicate=addr(i % 50)) for i in range(65536 + 100)])
    S([sol(data=[[1]] * 356)])
    S([sol(data=[[1]] * (65536 + 100))])
    S([sol(data=[[0] * (65536 + 10000)])])
    S([sol(muts=muts_n(65536 + 1000))])
    S([sol(muts=[([5] * (65536 + 1000), [1])])])
    S([sol(muts=[([5], [1] * (65536 + 10000))])])
    # total number of mutations, in one solution and spread over several
    for split in ((999,), (1000,), (1001,), (500, 500), (500, 501), (1000, 1), (1, 1000), (999, 1), (334, 333, 333), (334, 334, 333)):
        sols, base = [], 0
        for j, n in enumerate(split):
            sols.append(sol(predicate=addr(j), muts=muts_n(n, base=base)))
            base += n
        S(sols)
    # key / value sizes
    for kl in (0, 1, 999, 1000, 1001):
        S([sol(muts=[([5] * kl, [1])])])
    for vl in (0, 1, 9999, 10000, 10001):
        S([sol(muts=[([5], [1] * vl)])])
        S([sol(muts=[([4], [2]), ([5], [1] * vl)])])
    # duplicate slots: within a solution, across solutions of one contract (same / different predicate),
    # across contracts (allowed), same key different lengths (allowed)
    S([sol(muts=[([1], [2]), ([1], [3])])])
    S([sol(muts=[([1], [2]), ([2], [3]), ([1], [2])])])
    S([sol(muts=[([1], [2])]), sol(muts=[([1], [3])])])
    S([sol(muts=[([1], [2])]), sol(predicate=addr(3), muts=[([1], [2])])])
    S([sol(muts=[([1], [2])]), sol(contract=ADDR_C, muts=[([1], [2])])])
    S([sol(muts=[([1], [2])]), sol(muts=[([1, 0], [2])])])
    S([sol(muts=[([], [2])]), sol(muts=[([], [])])])
    S([sol(muts=[([1], [2])]), sol(contract=ADDR_C, muts=[([2], [2])]), sol(predicate=addr(5), muts=[([3], [1]), ([1], [9])])])
    # which error wins when several limits are exceeded (order of the checks)
    S([sol(data=[[1]] * 101, muts=[([1], [2]), ([1], [3])])])
    S([sol(data=[[0] * 10001], muts=muts_n(1001))])
    S([sol(muts=[([1] * 1001, [0] * 10001)])])
    S([sol(muts=[([1], [2]), ([1] * 1001, [1]), ([1], [2])])])
    S([sol(muts=[([1] * 1001, [1])]), sol(predicate=addr(1), data=[[1]] * 101)])
    # corner combinations at the limits (all at the limit = accepted)
    S([sol(predicate=addr(i), data=[[0] * 10000] + [[1]] * 99 if i == 0 else [], muts=muts_n(10, base=10 * i, klen=1000 if i == 0 else 1, vlen=10000 if i == 0 else 1)) for i in range(100)])
    n = 100 if tier == "quick" else 3000
    for _ in range(n):
        k = rng.choice([1, 2, 3, 5])
        sols = []
        for j in range(k):
            m = [([rng.randrange(4)] * rng.choice([1, 1, 2]), [rng.randrange(3)] * rng.randrange(3)) for _ in range(rng.randrange(4))]
            sols.append(sol(contract=rng.choice([ADDR_A, ADDR_C]), predicate=addr(rng.randrange(3)), data=[[1]] * rng.randrange(3), muts=m))
        S(sols)
    # predicates and contracts
    for nn in (0, 1, 999, 1000, 1001):
        for ne in (0, 1, 999, 1000, 1001):
            cases.append("chkpred " + pred_tok([(EDGE_MAX, addr(1))] * nn, [0] * ne))
    # far above the limits: counts that wrap to an accepted value if they are ever narrowed to 16 / 8 bits
    for ne in (1256, 2000, 65535, 65536, 65537, 65536 + 1000, 65536 + 1001):
        cases.append("chkpred " + pred_tok([(0, addr(1))], [0] * ne))
    for nn in (1256, 65536, 65536 + 1000):
        cases.append("chkpred " + pred_tok([(EDGE_MAX, addr(1))] * nn, []))
    cases.append("chkcontract 1 " + pred_tok([(0, addr(1))], [0] * 65537))
    cases.append("chkcontract 356 " + " ".join([pred_tok([(EDGE_MAX, addr(1))], [])] * 356))
    for np_ in (0, 1, 99, 100, 101):
        cases.append("chkcontract " + f"{np_}" + "".join(" " + pred_tok([(EDGE_MAX, addr(i))], []) for i in range(np_)))
    big_n = pred_tok([(EDGE_MAX, addr(1))] * 1001, [])
    big_e = pred_tok([], [0] * 1001)
    ok_p = pred_tok([(0, addr(1))], [0])
    for pos in (0, 1, 50, 99):
        for bad in (big_n, big_e):
            ps = [ok_p] * 100
            ps[pos] = bad
            cases.append("chkcontract 100 " + " ".join(ps))
    cases.append("chkcontract 101 " + " ".join([ok_p] * 100 + [big_n]))
    cases.append("chkcontract 2 " + big_e + " " + big_n)
    oracles = ["o_" + c for c in cases]
    return cases, oracles


def rand_pred(rng, nn=None, ne=None):
    nn = rng.choice([0, 1, 2, 3, 5]) if nn is None else nn
    ne = rng.choice([0, 1, 2, 4, 7]) if ne is None else ne
    nodes = [(rng.choice([0, 1, 2, ne, ne + 1, EDGE_MAX, EDGE_MAX - 1, rng.randrange(0, max(1, ne + 1))]), addr(rng.randrange(6))) for _ in range(nn)]
    edges = [rng.choice([0, 1, 2, nn, EDGE_MAX, rng.randrange(0, max(1, nn))]) for _ in range(ne)]
    return nodes, edges


def enc_pred_py(nodes, edges):
    b = len(nodes).to_bytes(2, "big")
    for es, a in nodes:
        b += es.to_bytes(2, "big") + a
    b += len(edges).to_bytes(2, "big")
    for e in edges:
        b += e.to_bytes(2, "big")
    return b


def serde_oracles(rng, tier):
    """round trips of every public data type through JSON, postcard, Display/FromStr, legacy field names (implementation only)"""
    out = []
    words = [0, 1, -1, I64_MIN, I64_MAX, 127, 128, 255, 256, 16383, 16384, -64, -65, 63, 64]
    salts = [bytes(32), bytes([0xFF]) * 32, bytes([0] * 31 + [1]), bytes([1] + [0] * 31), addr(3)]
    addrs = [bytes(32), bytes([0xFF]) * 32, ADDR_A, ADDR_B, addr(9)]
    def rword():
        return rng.choice(words) if rng.random() < 0.7 else rng.randrange(I64_MIN, I64_MAX + 1)
    def rwords(hi=4):
        return [rword() for _ in range(rng.randrange(0, hi))]
    def rsol():
        return sol(rng.choice(addrs), rng.choice(addrs), [rwords() for _ in range(rng.randrange(0, 4))],
                   [(rwords(), rwords()) for _ in range(rng.randrange(0, 4))])
    def rpred():
        nn, ne = rng.choice([0, 1, 2, 5]), rng.choice([0, 1, 3])
        return [(rng.choice([0, 1, 2, 300, EDGE_MAX]), rng.choice(addrs)) for _ in range(nn)], [rng.choice([0, 1, 2, 65535, 300]) for _ in range(ne)]
    fixed_sols = [sol(), sol(bytes(32), bytes(32)), sol(data=[[]]), sol(data=[[], []], muts=[([], [])]), sol(muts=[([I64_MIN], [I64_MAX, 0])])]
    for s_ in fixed_sols:
        out.append("o_serde solution " + sol_tok(s_))
    out.append("o_serde set 0")
    out.append("o_serde set " + sols_tok(fixed_sols))
    for salt in salts:
        out.append("o_serde contract " + contract_tok([], salt))
        out.append("o_serde contract " + contract_tok([([], [])], salt))
        out.append("o_serde contract " + contract_tok([rpred(), rpred()], salt))
        for rid in (0, 1, 3, 4, 27, 255):
            out.append("o_serde signed " + contract_tok([rpred()], salt) + " " + hx(bytes([rid]) * 64) + f" {rid}")
    for a in addrs:
        out.append("o_serde caddr " + hx(a))
        for b in addrs[:3]:
            out.append("o_serde paddr " + hx(a) + " " + hx(b))
    for rid in range(0, 256, 1 if tier != "quick" else 17):
        out.append("o_serde signature " + hx(bytes((rid * 7 + i) & 0xFF for i in range(64))) + f" {rid}")
    out.append("o_serde signature " + hx(bytes(64)) + " 0")
    for b in (b"", b"\x00", b"\x01\x00\x00", bytes(range(256))):
        out.append("o_serde program " + hx(b))
    for k, v in (([], []), ([0], []), ([], [0]), ([I64_MIN], [I64_MAX]), ([1] * 5, [2] * 7)):
        out.append("o_serde mutation " + L(k) + " " + L(v))
    out.append("o_serde predicate " + pred_tok([], []))
    for _ in range(60 if tier == "quick" else 3000):
        out.append("o_serde solution " + sol_tok(rsol()))
        out.append("o_serde set " + sols_tok([rsol() for _ in range(rng.randrange(0, 4))]))
        n_, e_ = rpred()
        out.append("o_serde predicate " + pred_tok(n_, e_))
        out.append("o_serde contract " + contract_tok([rpred() for _ in range(rng.randrange(0, 3))], rng.choice(salts)))
        out.append("o_serde mutation " + L(rwords()) + " " + L(rwords()))
    return out


def py_varint(n):
    out = []
    while n >= 128:
        out.append(n % 128 + 128)
        n //= 128
    return out + [n]


def py_zigzag(w):
    return 2 * w if w >= 0 else -2 * w - 1


def py_pc_words(ws):
    out = py_varint(len(ws))
    for w in ws:
        out += py_varint(py_zigzag(w))
    return out


def py_pc_solution(s_):
    c, p_, data, muts = s_
    out = py_varint(len(c)) + list(c) + py_varint(len(p_)) + list(p_) + py_varint(len(data))
    for d in data:
        out += py_pc_words(d)
    out += py_varint(len(muts))
    for k, v in muts:
        out += py_pc_words(k) + py_pc_words(v)
    return out


def pc_cases(rng, tier):
    """postcard: encoder (`pc`) and decoder (`pcdec`) of solutions / mutations / sets on model and code: valid encodings,
    truncations, trailing bytes, flipped bytes, non-canonical and over-long varints, random bytes"""
    cases = []
    words = [0, 1, -1, 63, 64, -64, -65, 8191, 8192, I64_MIN, I64_MAX, I64_MIN + 1, I64_MAX - 1, 1 << 62, -(1 << 62)]
    addrs = [bytes(32), bytes([0xFF]) * 32, ADDR_A, addr(5)]
    def rwords(hi=4):
        return [rng.choice(words) if rng.random() < 0.7 else rng.randrange(I64_MIN, I64_MAX + 1) for _ in range(rng.randrange(0, hi))]
    def rsol():
        return sol(rng.choice(addrs), rng.choice(addrs), [rwords() for _ in range(rng.randrange(0, 3))],
                   [(rwords(), rwords()) for _ in range(rng.randrange(0, 3))])
    for _ in range(40 if tier == "quick" else 2000):
        s_ = rsol()
        cases.append("pc solution " + sol_tok(s_))
        enc = py_pc_solution(s_)
        cases.append("pcdec solution " + hx(bytes(enc)))
        cases.append("pcdec solution " + hx(bytes(enc + [rng.randrange(256) for _ in range(rng.randrange(1, 4))])))
        if enc:
            cut = rng.randrange(len(enc))
            cases.append("pcdec solution " + hx(bytes(enc[:cut])))
            j = rng.randrange(len(enc))
            flipped = list(enc)
            flipped[j] ^= 1 << rng.randrange(8)
            cases.append("pcdec solution " + hx(bytes(flipped)))
            # a redundant continuation byte in the first length prefix (32 -> 0xA0 0x00): accepted by postcard
            cases.append("pcdec solution " + hx(bytes([enc[0] | 0x80, 0x00] + enc[1:])))
        k, v = rwords(), rwords()
        cases.append("pc mutation " + L(k) + " " + L(v))
        m_enc = py_pc_words(k) + py_pc_words(v)
        cases.append("pcdec mutation " + hx(bytes(m_enc)))
        cases.append("pcdec mutation " + hx(bytes(m_enc[:rng.randrange(len(m_enc) + 1)])))
        cases.append("pc set " + sols_tok([rsol() for _ in range(rng.randrange(0, 3))]))
    # varint corner cases as a one-word key: ten bytes (last byte 0 / 1 / 2), eleven bytes, all-continuation
    for body in ([0xFF] * 9 + [0x01], [0xFF] * 9 + [0x00], [0xFF] * 9 + [0x02], [0xFF] * 9 + [0x7F], [0x80] * 9 + [0x01], [0xFF] * 10 + [0x00],
                 [0xFF] * 10, [0x80, 0x80, 0x00], [0x80] * 9 + [0x00], [0x81, 0x00], [0x80]):
        cases.append("pcdec mutation " + hx(bytes([1] + body + [0])))
        cases.append("pcdec mutation " + hx(bytes(body + [0])))
    for n_ in (0, 1, 127, 128, 255, 256, 1 << 32, (1 << 64) - 1):
        cases.append("pcdec mutation " + hx(bytes(py_varint(n_) + [0, 0, 0])))
    for _ in range(100 if tier == "quick" else 5000):
        raw = bytes(rng.choice([rng.randrange(256), 0, 1, 32, 0x80, 0xFF]) for _ in range(rng.randrange(0, 80)))
        cases.append("pcdec solution " + hx(raw))
        cases.append("pcdec mutation " + hx(raw))
    return cases


def conv_cases(rng, tier):
    """essential_types::convert on model and code: word <-> bytes, fixed-width arrays, hex strings, bool"""
    cases = []
    words = list(BOUNDARY_WORDS) + [0x0102030405060708, -0x0102030405060708, 0x7F, 0x80, 0xFF00, -256]
    for w in words:
        cases.append(f"conv w2b {w}")
        cases.append(f"conv bool {w}")
        cases.append("conv b2w " + hx((w & ((1 << 64) - 1)).to_bytes(8, "big")))
    for ln in range(0, 12):
        cases.append("conv bs2w " + hx(bytes((0x80 + 3 * i) & 0xFF for i in range(ln))))
    cases.append("conv bs2w " + hx(bytes([0xFF]) * 20))
    for _ in range(30 if tier == "quick" else 2000):
        b32 = bytes(rng.choice([0, 0xFF, 0x80, 0x7F, rng.randrange(256)]) for _ in range(32))
        b64 = bytes(rng.choice([0, 0xFF, 0x80, 0x7F, rng.randrange(256)]) for _ in range(64))
        cases.append("conv w4 " + hx(b32))
        cases.append("conv w8 " + hx(b64))
        cases.append("conv ca_w4 " + hx(b32))
        cases.append("conv sig65 " + hx(b64 + bytes([rng.choice([0, 1, 3, 27, 255, rng.randrange(256)])])))
        ws4 = [rng.choice(words) for _ in range(4)]
        ws8 = [rng.choice(words) for _ in range(8)]
        cases.append("conv u32 " + L(ws4))
        cases.append("conv u64 " + L(ws8))
        ws = [rng.choice(words) for _ in range(rng.randrange(0, 5))]
        cases.append("conv hex " + L(ws))
        hs = "".join(f"{(w & ((1 << 64) - 1)):016x}" for w in ws)
        cases.append("conv unhex s" + (hs.upper() if rng.random() < 0.3 else hs))
        cut = rng.randrange(len(hs) + 1)
        cases.append("conv unhex s" + hs[:cut])
        if hs:
            j = rng.randrange(len(hs))
            cases.append("conv unhex s" + hs[:j] + rng.choice("gxz-") + hs[j + 1:])
    return cases


def c18_cases(rng, tier):
    cases, oracles = [], []
    oracles += serde_oracles(rng, tier)
    cases += pc_cases(rng, tier)
    cases += conv_cases(rng, tier)
    # predicates: sizes 0..limits, any edge_start incl. the leaf marker
    for nn, ne in ((0, 0), (1, 0), (0, 1), (1, 1), (2, 3), (1000, 1000), (1001, 0), (0, 1001), (1000, 1001), (999, 999)):
        nodes = [((i * 7) % 65536 if i % 3 else EDGE_MAX, addr(i)) for i in range(nn)]
        edges = [(i * 13) % 65536 for i in range(ne)]
        cases.append("encpred " + pred_tok(nodes, edges))
        oracles.append("o_predrt " + pred_tok(nodes, edges))
        if nn <= 1000 and ne <= 1000:
            cases.append("decpred " + hx(enc_pred_py(nodes, edges)))
    n = 200 if tier == "quick" else 5000
    for _ in range(n):
        nodes, edges = rand_pred(rng)
        cases.append("encpred " + pred_tok(nodes, edges))
        oracles.append("o_predrt " + pred_tok(nodes, edges))
        b = enc_pred_py(nodes, edges)
        r = rng.random()
        if r < 0.3 and b:
            b = b[:rng.randrange(len(b))]
        elif r < 0.4:
            b = b + bytes([1, 2, 3])
        elif r < 0.5:
            b = bytes(rng.randrange(256) for _ in range(rng.randrange(0, 12)))
        cases.append("decpred " + hx(b))
        for i in range(len(nodes) + 2):
            cases.append(f"nodeedges {pred_tok(nodes, edges)} {i}")
    # node_edges: exhaustive small grid: 3 nodes, edge_start in {0,1,2,3,MAX}, 2 edges
    starts = [0, 1, 2, 3, EDGE_MAX]
    for a in starts:
        for b in starts:
            for c in starts:
                nodes = [(a, addr(1)), (b, addr(2)), (c, addr(3))]
                for i in range(4):
                    cases.append(f"nodeedges {pred_tok(nodes, [7, 8])} {i}")
    # mutations
    muts_pool = [[], [([], [])], [([1], [2])], [([1, 2], []), ([], [3, 4, 5])], [([I64_MIN], [I64_MAX])] * 3, [([0], [0]), ([0, 0], [0])]]
    for ms in muts_pool:
        tok = f"{len(ms)}" + "".join(f" {L(k)} {L(v)}" for k, v in ms)
        cases.append("encmuts " + tok)
        oracles.append("o_mutsrt " + tok)
    for _ in range(n):
        ms = [([rng.choice(BOUNDARY_WORDS) for _ in range(rng.randrange(3))], [rng.randrange(-3, 9) for _ in range(rng.randrange(4))]) for _ in range(rng.randrange(4))]
        tok = f"{len(ms)}" + "".join(f" {L(k)} {L(v)}" for k, v in ms)
        cases.append("encmuts " + tok)
        oracles.append("o_mutsrt " + tok)
    # decoders on arbitrary words: exhaustive short strings over boundary values
    pool = [-1, 0, 1, 2, 3, 5, I64_MAX, I64_MIN]
    import itertools
    for ln in range(0, 4 if tier == "quick" else 5):
        for ws in itertools.product(pool, repeat=ln):
            cases.append("decmut " + L(list(ws)))
            cases.append("decmuts " + L(list(ws)))
    for _ in range(n):
        ws = [rng.choice(pool) for _ in range(rng.randrange(0, 9))]
        cases.append("decmuts " + L(ws))
        cases.append("decmut " + L(ws))
    return cases, oracles


def rand_sol(rng):
    return sol(contract=rng.choice([ADDR_A, ADDR_C, addr(rng.randrange(4))]), predicate=addr(rng.randrange(5)),
               data=[[rng.choice(BOUNDARY_WORDS) for _ in range(rng.randrange(4))] for _ in range(rng.randrange(3))],
               muts=[([rng.randrange(-2, 300) for _ in range(rng.randrange(3))], [rng.choice(BOUNDARY_WORDS) for _ in range(rng.randrange(3))])
                     for _ in range(rng.randrange(3))])


def contract_tok(preds, salt):
    return f"{len(preds)}" + "".join(" " + pred_tok(n, e) for n, e in preds) + " " + hx(salt)


def addr_raw_cases(rng, tier):
    """the address helpers on arbitrary address lists, in every order of small lists: addresses that share their first 8 / 16 /
    24 / 31 bytes, that differ only in the first byte, duplicates, the empty list"""
    import itertools
    cases = []
    def fam(prefix_len, n):
        pre = bytes(rng.randrange(256) for _ in range(prefix_len))
        return [pre + bytes(rng.randrange(256) for _ in range(32 - prefix_len)) for _ in range(n)]
    lists = [[], [bytes(32)], [bytes(32), bytes(32)], [bytes([0xFF]) * 32, bytes(32)]]
    for pl in (0, 1, 7, 8, 9, 16, 24, 31):
        for n in (2, 3):
            lists.append(fam(pl, n))
    lists.append([bytes([i]) + bytes(31) for i in (3, 1, 2)])
    lists.append([bytes(31) + bytes([i]) for i in (3, 1, 2)])
    lists.append([bytes(8) + bytes([2]) + bytes(23), bytes(8) + bytes([1]) + bytes(23), bytes(7) + bytes([1]) + bytes(24)])
    a = fam(8, 2)
    lists.append([a[0], a[1], a[0]])
    salts = [bytes(32), bytes([0xAB]) * 32]
    for l in lists:
        perms = list(itertools.permutations(range(len(l)))) if len(l) <= 3 else [tuple(range(len(l)))]
        if tier == "quick" and len(perms) > 3:
            perms = [perms[0], perms[-1], rng.choice(perms)]
        for pm in perms:
            ll = [l[i] for i in pm]
            tok = f"{len(ll)}" + "".join(" " + hx(x) for x in ll)
            cases.append("addr_raw set " + tok)
            cases.append("addr_raw contract " + tok + " " + hx(rng.choice(salts)))
    return cases


def c17_cases(rng, tier):
    cases, oracles = [], []
    cases += addr_raw_cases(rng, tier)
    n = 150 if tier == "quick" else 5000
    # predicates / programs
    for nn, ne in ((0, 0), (1, 1), (1000, 1000), (1001, 0), (0, 1001)):
        nodes = [((i * 7) % 65536, addr(i)) for i in range(nn)]
        cases.append("addr_pred " + pred_tok(nodes, [(i * 13) % 65536 for i in range(ne)]))
        oracles.append("o_predrt " + pred_tok(nodes, [(i * 13) % 65536 for i in range(ne)]))
    for ln in (0, 1, 55, 56, 63, 64, 65, 119, 120, 1000):
        cases.append("addr_prog " + hx(bytes((i * 3) & 0xFF for i in range(ln))))
    for _ in range(n):
        nodes, edges = rand_pred(rng)
        cases.append("addr_pred " + pred_tok(nodes, edges))
        oracles.append("o_predrt " + pred_tok(nodes, edges))
        # contracts: random, with repeated predicates, permuted, single-field perturbations
        preds = [rand_pred(rng, rng.choice([0, 1, 2]), rng.choice([0, 1, 2])) for _ in range(rng.choice([0, 1, 2, 3, 5]))]
        if preds and rng.random() < 0.4:
            preds.append(preds[0])
        salt = bytes(rng.choice([0, 0, rng.randrange(256)]) for _ in range(32))
        cases.append("addr_contract " + contract_tok(preds, salt))
        oracles.append("o_addr_contract " + contract_tok(preds, salt))
        # perturbations: one node address byte, one edge, the salt, a duplicate removed / added
        other = [list(p) for p in preds]
        which = rng.randrange(5)
        salt2 = salt
        if which == 0 or not other:
            salt2 = bytes([salt[0] ^ 1]) + salt[1:]
        elif which == 1:
            other = other + [other[0]]
        elif which == 2:
            other = other[1:]
        elif which == 3:
            nodes0, edges0 = other[0]
            other[0] = (nodes0, edges0 + [3])
        else:
            other = list(reversed(other))
        oracles.append("o_addr_distinct " + contract_tok(preds, salt) + " " + contract_tok(other, salt2))
        # solutions and sets
        s1 = rand_sol(rng)
        cases.append("addr_solution " + sol_tok(s1))
        s2 = (s1[0], s1[1], s1[2] + [[]], s1[3]) if rng.random() < 0.3 else rand_sol(rng)
        if rng.random() < 0.2:
            s2 = (s1[0], s1[1], [list(d) for d in s1[2]], [(list(k), list(v) + [0]) for k, v in s1[3]] or [([], [])])
        oracles.append("o_sol_distinct " + sol_tok(s1) + " " + sol_tok(s2))
        ss = [rand_sol(rng) for _ in range(rng.choice([1, 2, 3, 5]))]
        if rng.random() < 0.3:
            ss.append(ss[0])
        cases.append("addr_set " + sols_tok(ss))
        oracles.append("o_addr_set " + sols_tok(ss))
    # postcard corner values: every varint / zigzag boundary
    for w in [0, 1, -1, 63, 64, -64, -65, 127, 128, 8191, 8192, -8192, -8193, I64_MAX, I64_MIN, 1 << 31, -(1 << 31), (1 << 62)]:
        cases.append("addr_solution " + sol_tok(sol(data=[[w]], muts=[([w], [w, w])])))
    for ln in (0, 1, 127, 128, 129, 300):
        cases.append("addr_solution " + sol_tok(sol(data=[[5] * ln] + [[]] * (ln % 130))))
    return cases, oracles


def c19_cases(rng, tier):
    from . import common as C
    cases, oracles = [], []
    n = 25 if tier == "quick" else 400
    big = pred_tok([(EDGE_MAX, addr(1))] * 1001, [])
    jobs = []
    for i in range(n):
        sk = bytes(rng.randrange(1, 256) for _ in range(32))
        preds = [rand_pred(rng, rng.choice([0, 1, 2]), rng.choice([0, 1, 2])) for _ in range(rng.choice([0, 1, 2, 3, 4]))]
        if preds and rng.random() < 0.4:
            preds.append(preds[rng.randrange(len(preds))])
        salt = bytes(rng.choice([0, rng.randrange(256)]) for _ in range(32))
        # a tampered version
        t_preds, t_salt = [p for p in preds], salt
        w = rng.randrange(5)
        if w == 0 or not preds:
            t_salt = bytes([salt[31] ^ 0x80]) + salt[1:]
        elif w == 1:
            t_preds = preds + [preds[0]]
        elif w == 2:
            t_preds = preds[1:]
        elif w == 3:
            nodes0, edges0 = preds[0]
            t_preds = [(nodes0 + [(EDGE_MAX, addr(9))], edges0)] + preds[1:]
        else:
            t_preds = [preds[0]] * len(preds)
        jobs.append((sk, preds, salt, t_preds, t_salt))
        oracles.append(f"o_sign {hx(sk)} {contract_tok(preds, salt)} {contract_tok(t_preds, t_salt)}")
    # phase 1: reference signatures from the sign crate
    q = [f"j{i} sign_contract {hx(sk)} {contract_tok(preds, salt)}" for i, (sk, preds, salt, _, _) in enumerate(jobs)]
    q += [f"t{i} sign_contract {hx(sk)} {contract_tok(tp, ts)}" for i, (sk, _, _, tp, ts) in enumerate(jobs)]
    ans = C.run_bin(C.HARNESS_BIN, q)
    rec_q, plan = [], []
    for i, (sk, preds, salt, tp, ts) in enumerate(jobs):
        a, b = ans.get(f"j{i}", "").split(" "), ans.get(f"t{i}", "").split(" ")
        if len(a) != 4 or len(b) != 4:
            continue
        addr_c, sig, rid = bytes.fromhex(a[0][1:]), bytes.fromhex(a[1][1:]), int(a[2])
        addr_t = bytes.fromhex(b[0][1:])
        variants = [(preds, salt, addr_c, sig, rid), (list(reversed(preds)), salt, addr_c, sig, rid),
                    (tp, ts, addr_t, sig, rid), (preds, salt, addr_c, sig, rid ^ 1), (preds, salt, addr_c, sig, 2),
                    (preds, salt, addr_c, sig[::-1], rid), (preds, salt, addr_c, bytes(64), rid),
                    (preds, salt, addr_c, bytes([0xFF] * 64), 0), (preds, salt, addr_c, sig, 4), (preds, salt, addr_c, sig, 255)]
        if i == 0:
            # every value of the recovery-id byte (ids such as 27..30 are *not* valid here)
            variants += [(preds, salt, addr_c, sig, r_) for r_ in range(256) if r_ not in (rid, rid ^ 1, 2, 4, 255)]
        for v in variants:
            plan.append(v)
            rec_q.append(f"r{len(plan) - 1} secp_recover {hx(v[2])} {hx(v[3])} {v[4]}")
    ans2 = C.run_bin(C.HARNESS_BIN, rec_q)
    for k, (preds, salt, addr_m, sig, rid) in enumerate(plan):
        r = ans2.get(f"r{k}", "")
        if not r:
            continue
        tab = "0" if rid > 3 else f"1 {hx(addr_m)} {hx(sig)} {rid} {r}"
        cases.append(f"recover_contract {contract_tok(preds, salt)} {hx(sig)} {rid} {tab}")
        if k % 3 == 0 or rid > 3:
            cases.append(f"chksigned {contract_tok(preds, salt)} {hx(sig)} {rid} {tab}")
        # the VM's recovery op consumes the same 4 + 8 + 1 word encoding: the id word must be exactly the id
        n_small = sum(1 for q_ in plan[:k] if q_[4] <= 3)
        if rid <= 3 and n_small % 4 == 0:
            from . import gen_vm
            for idw in (rid, rid + (1 << 32), rid - (1 << 32), rid + I64_MIN, rid + 4, -1):
                t = [(addr_m, sig, rid, r)] if idw == rid else []
                c = gen_vm.case([gen_vm.op("RSECP")], stack=[5] + gen_vm.words_of_bytes(addr_m) + gen_vm.words_of_bytes(sig) + [idw], secps=t)
                cases.append(c)
                oracles.append(gen_vm.as_oracle(c, "o_access"))
    return cases, oracles
