"""Case generators for the checker families (C01, C02, C03, C04, C06): predicate graphs,
node programs, solution sets, pre-states."""
import hashlib, itertools
from .common import I64_MIN, I64_MAX
from .gen_asm import hx
from . import gen_vm as V
from .gen_vm import P, op, L, LL, sol_tok, prog_bytes
from .gen_types import pred_tok, sols_tok, addr, EDGE_MAX

ADDR_A, ADDR_B, ADDR_C = V.ADDR_A, V.ADDR_B, V.ADDR_C


def sha(b):
    return hashlib.sha256(b).digest()


# ---------------------------------------------------------------------------------------
# node programs

def p_const(c):
    """non-leaf: output stack = inherited ++ [c]"""
    return [P(c)]


def p_const_mem(c):
    """non-leaf: also appends c to its memory"""
    return [P(c), P(1), op("ALOC"), P(c), op("SWAP"), op("STO")]


def p_sat():
    """leaf: drops everything, ends [1]"""
    return [P(0), op("RES"), op("DROP"), P(1)]


def p_unsat():
    return [P(0), op("RES"), op("DROP"), P(0)]


def p_fail():
    return [P(0), op("RES"), op("DROP"), op("POP")]


def p_sum_check(expected):
    """leaf with >= 1 inherited word: sums the inherited stack, ends [1] iff the sum == expected"""
    return [P(0), P(0), op("RES"), P(1), op("SUB"), P(1), op("REP"), op("ADD"), op("REPE"), P(expected), op("EQ")]


def p_report_stack(key):
    """leaf: data output whose memory encodes one mutation key=[key], value = the inherited stack"""
    return [P(0), op("FREE"),                              # forget inherited memory
            P(0), op("RES"),                               # [s.., L]
            op("DUP"), P(4), op("ADD"), op("ALOC"), op("POP"),   # alloc L+4
            P(4), op("STOR"),                              # mem[4..] = s, stack []
            P(0), op("ALOC"), P(4), op("SUB"), P(3), op("STO"),   # mem[3] = L
            P(1), P(0), op("STO"), P(1), P(1), op("STO"), P(key), P(2), op("STO"),
            P(2)]


def p_report_memory(key):
    """leaf: data output: one mutation key=[key], value = the inherited memory"""
    return [P(0), op("RES"), op("DROP"),                   # stack []
            P(0), op("ALOC"),                              # [M]
            op("DUP"), P(0), op("SWAP"), op("LODR"),        # [M, m0..mM-1]  (LODR pops [addr,size])
            P(0), op("RES"), P(1), op("SUB"),              # [M, m.., M]  (length minus the leading M)
            # rebuild: free everything, alloc M+4, store
            P(0), op("FREE"),
            op("DUP"), P(4), op("ADD"), op("ALOC"), op("POP"),
            P(4), op("STOR"),                              # mem[4..] = m.. ; stack [M]
            P(3), op("STO"),                               # mem[3] = M
            P(1), P(0), op("STO"), P(1), P(1), op("STO"), P(key), P(2), op("STO"),
            P(2)]


def p_post_read_report(key, read_key, n, region):
    """leaf (deferred): reads `n` post-state values from `read_key` into a region of `region` words and
    reports the raw region as the value of a computed mutation with key [key]"""
    return ([P(region + 4), op("ALOC"), op("POP")] + [P(w) for w in read_key] + [P(len(read_key)), P(n), P(4), op("PKRNG"),
            P(region), P(3), op("STO"), P(1), P(0), op("STO"), P(1), P(1), op("STO"), P(key), P(2), op("STO"), P(2)])


def p_post_read_push(read_key, n, region, maddr=0, over_halt=False):
    """non-leaf (deferred): reads post-state values into memory at `maddr` and pushes the whole region onto its stack
    (maddr = 1 / 257 puts a Push immediate whose low byte is the Push opcode directly before the read op; over_halt: the read
    sits behind an unconditional Halt that a forward jump skips — the byte scan for post-state reads must not stop there)"""
    skip = [P(2), P(1), op("JMPIF"), op("HLT")] if over_halt else []
    return ([P(region + maddr), op("ALOC"), op("POP")] + skip + [P(w) for w in read_key] + [P(len(read_key)), P(n), P(maddr), op("PKRNG"),
            P(maddr), P(region), op("LODR")])


def p_pre_read_push(read_key, n, region):
    return ([P(region), op("ALOC"), op("POP")] + [P(w) for w in read_key] + [P(len(read_key)), P(n), P(0), op("KRNG"),
            P(0), P(region), op("LODR")])


def p_output_mutation(key, value):
    """leaf: data output computing the mutation key -> value"""
    ws = [1, len(key)] + list(key) + [len(value)] + list(value)
    out = [P(len(ws)), op("ALOC"), op("POP")]
    for i, w in enumerate(ws):
        out += [P(w), P(i), op("STO")]
    return out + [P(0), op("RES"), op("DROP"), P(2)] if False else out + [P(2)]


# ---------------------------------------------------------------------------------------
# graphs

def encode_graph(children):
    """children: list (by node index) of child lists -> (nodes edge_starts, edges).  A node with no
    children is encoded as a leaf (0xFFFF); faithful only when leaves come last (encoding quirk)."""
    starts, edges = [], []
    for ch in children:
        if not ch:
            starts.append(EDGE_MAX)
        else:
            starts.append(len(edges))
            edges += ch
    return starts, edges


def leaves_last(children):
    seen_leaf = False
    for ch in children:
        if not ch:
            seen_leaf = True
        elif seen_leaf:
            return False
    return True


def renumber(children, perm):
    """perm[old] = new"""
    n = len(children)
    out = [None] * n
    for old, ch in enumerate(children):
        out[perm[old]] = [perm[c] for c in ch]
    return out


SHAPES = {
    "single": [[]],
    "chain3": [[1], [2], []],
    "diamond": [[1, 2], [3], [3], []],
    "fan_in": [[3], [3], [3], []],
    "fan_out": [[1, 2, 3], [], [], []],
    "multi_edge": [[1, 1], [2], []],
    "two_roots_two_leaves": [[2, 3], [2], [4], [5], [], []],
    "deep": [[1], [2], [3], [4], [5], []],
    "wide": [[4], [4], [4], [4], [5, 6], [], []],
    "multi_edge_join": [[3, 3], [2], [3], []],
}


def random_dag(rng, n):
    order = list(range(n))
    children = [[] for _ in range(n)]
    for u in range(n):
        for v in range(u + 1, n):
            if rng.random() < 0.35:
                children[u].append(v)
                if rng.random() < 0.15:
                    children[u].append(v)
    return children


def topo_numbering_leaves_last(rng, children):
    """a random renumbering that keeps leaves last (but is otherwise arbitrary, incl. non-topological)"""
    n = len(children)
    non = [i for i in range(n) if children[i]]
    lv = [i for i in range(n) if not children[i]]
    rng.shuffle(non)
    rng.shuffle(lv)
    perm = [0] * n
    for new, old in enumerate(non + lv):
        perm[old] = new
    return perm


# ---------------------------------------------------------------------------------------
# case assembly

def state_tok(entries):
    """entries: [(contract, key, value | int error)]"""
    out = f"{len(entries)}"
    for c, k, v in entries:
        if isinstance(v, tuple):          # ("raw", [values...]): the exact answer to a read starting at this key
            out += f" {hx(c)} {L(k)} r " + LL(v[1])
        else:
            out += f" {hx(c)} {L(k)} " + (f"e {v}" if isinstance(v, int) else "v " + L(v))
    return out


def check_case(fam, collect_all, sols, preds, progs, state):
    """sols: [(contract, predaddr, data, muts)], preds: [(contract, predaddr, (nodes, edges))], progs: [bytes]"""
    ptab = {}
    for b in progs:
        ptab[sha(b)] = b
    parts = [fam, "1" if collect_all else "0", sols_tok(sols),
             f"{len(preds)}" + "".join(f" {hx(c)} {hx(a)} {pred_tok(n, e)}" for c, a, (n, e) in preds),
             f"{len(ptab)}" + "".join(f" {hx(a)} {hx(b)}" for a, b in ptab.items()),
             state_tok(state)]
    return " ".join(parts)


def api_variants(rng, twopass_case, n_sols, post_entries, k=3):
    """the same inputs through the single-mode public entry points (check_and_compute_solution_set, check_set_predicates,
    check_predicate) with an explicit post-state view, single modes and mode sequences over one shared cache"""
    assert twopass_case.startswith("twopass ")
    rest = twopass_case[len("twopass "):]
    out = []
    for _ in range(k):
        entry = rng.choice(["cac", "cac", "csp", "cp"])
        modes = rng.choice(["0", "1", "01", "01", "10", "11", "00", "011"])
        out.append(f"api {entry} {modes} {rng.randrange(max(1, n_sols))} {rest} {state_tok(post_entries)}")
    return out


def build_pred(children_enc, programs):
    """children_enc = (starts, edges); programs = list of op lists per node -> (nodes, edges), prog bytes"""
    starts, edges = children_enc
    pbytes = [prog_bytes(p) for p in programs]
    nodes = [(s, sha(b)) for s, b in zip(starts, pbytes)]
    return (nodes, edges), pbytes


def ref_outputs(children, consts):
    """reference semantics for const-pushing graphs: out(v) = concat(out(parents asc, with multiplicity)) ++ [c_v]"""
    n = len(children)
    parents = [[] for _ in range(n)]
    for u in range(n):
        for v in children[u]:
            parents[v].append(u)
    for v in range(n):
        parents[v].sort()
    memo = {}

    def out(v):
        if v not in memo:
            s = []
            for u in parents[v]:
                s += out(u)
            memo[v] = s + ([consts[v]] if children[v] else [])
        return memo[v]
    return [out(v) for v in range(n)], parents


def const_graph_case(rng, children, collect_all=False, leaf_kind="sum", spoil=None, fam="twopass", extra_sols=0):
    """a graph whose non-leaves push distinct constants and whose leaves check / report what they inherit"""
    n = len(children)
    consts = [1000 + 17 * v + rng.randrange(5) for v in range(n)]
    outs, parents = ref_outputs(children, consts)
    programs = []
    for v in range(n):
        if children[v]:
            programs.append(p_const(consts[v]) if rng.random() < 0.7 else p_const_mem(consts[v]))
        elif not parents[v]:
            programs.append(p_sat())
        elif leaf_kind == "sum":
            exp = sum(outs[v]) + (1 if spoil == v else 0)
            programs.append(p_sum_check(exp))
        elif leaf_kind == "report":
            programs.append(p_report_stack(5000 + v))
        else:
            programs.append(p_report_memory(5000 + v))
    enc = encode_graph(children)
    pred, pbytes = build_pred(enc, programs)
    sols = [(ADDR_A, ADDR_B, [], [])] + [(ADDR_A if i % 2 else ADDR_C, ADDR_B, [[i]], []) for i in range(extra_sols)]
    preds = [(ADDR_A, ADDR_B, pred)] + ([(ADDR_C, ADDR_B, pred)] if extra_sols else [])
    return check_case(fam, collect_all, sols, preds, pbytes, []), outs


def smoke_cases(rng, n):
    cases = []
    names = list(SHAPES)
    for i in range(n):
        ch = [list(c) for c in SHAPES[rng.choice(names)]] if rng.random() < 0.5 else random_dag(rng, rng.randrange(1, 7))
        if rng.random() < 0.5:
            ch = renumber(ch, topo_numbering_leaves_last(rng, ch))
        elif rng.random() < 0.3:
            perm = list(range(len(ch)))
            rng.shuffle(perm)
            ch = renumber(ch, perm)
        kind = rng.choice(["sum", "sum", "report", "reportmem"])
        spoil = rng.randrange(len(ch)) if rng.random() < 0.2 else None
        c, _ = const_graph_case(rng, ch, collect_all=rng.random() < 0.5, leaf_kind=kind, spoil=spoil, extra_sols=rng.choice([0, 0, 1, 2]))
        cases.append(c)
    return cases


# ---------------------------------------------------------------------------------------
# C06: untrusted input

def p_output_raw(words):
    """leaf: data output whose memory is exactly `words` (any words, valid encoding or not)"""
    out = [P(len(words)), op("ALOC"), op("POP")]
    for i, w in enumerate(words):
        out += [P(w), P(i), op("STO")]
    return out + [P(2)]


def single_leaf_case(rng, program, sols=None, state=(), collect_all=False, pred_extra=None):
    pb = prog_bytes(program)
    nodes, edges = [(EDGE_MAX, sha(pb))], []
    if pred_extra:
        nodes, edges = pred_extra(sha(pb))
    sols = sols or [(ADDR_A, ADDR_B, [], [])]
    return check_case("twopass", collect_all, sols, [(ADDR_A, ADDR_B, (nodes, edges)), (ADDR_C, ADDR_B, (nodes, edges))], [pb], list(state))


def c06_cases(rng, tier):
    from . import gen_types
    cases = []
    # (1) data-output memories that are not valid mutation encodings
    raws = [[], [0], [1], [1, 1, 5], [I64_MAX], [I64_MIN], [-1], [1, -1, 0], [1, 0, -1], [1, 0, 0], [1, 1, 5, 1, 6], [2, 1, 5, 0],
            [1, I64_MAX, 0], [1, 0, I64_MAX], [1, 2, 5], [1, 1, 5, 2, 6], [3, 0, 0, 0, 0, 0, 0], [1, 1, 5, 1, 6, 9], [1, 1, 5, 1, 6, 1, 5, 1, 7],
            [5, 0, 0], [1, 0, 0, 0], [1, 0, 0, 0, 0]]
    pool = [-1, 0, 1, 2, 5, I64_MAX, I64_MIN]
    for ln in range(1, 4 if tier == "quick" else 5):
        for ws in itertools.product(pool, repeat=ln):
            if rng.random() < (0.35 if tier == "quick" else 1.0):
                raws.append(list(ws))
    for ws in raws:
        cases.append(single_leaf_case(rng, p_output_raw(ws)))
    # *valid* encodings of computed mutations beyond the limits a declared mutation may have (key > 1000 words, value > 10000
    # words; the memory limit of 10240 words leaves room for both): memory is zero-filled and a few words are stored
    def p_sparse(total, stores):
        out = [P(total), op("ALOC"), op("POP")]
        for i, w in stores:
            out += [P(w), P(i), op("STO")]
        return out + [P(2)]
    for kl in (1000, 1001, 4000, 10236):
        cases.append(single_leaf_case(rng, p_sparse(kl + 4, [(0, 1), (1, kl), (kl + 2, 1), (kl + 3, 9)])))
    for vl in (10000, 10001, 10200, 10236):
        cases.append(single_leaf_case(rng, p_sparse(vl + 4, [(0, 1), (1, 1), (2, 5), (3, vl)])))
    cases.append(single_leaf_case(rng, p_sparse(10240, [(0, 1), (1, 1001), (1003, 9230)])))
    # two data outputs of one solution / two solutions colliding or not
    cases.append(single_leaf_case(rng, p_output_raw([1, 1, 5, 1, 6]), sols=[(ADDR_A, ADDR_B, [], [([5], [1])])]))
    cases.append(single_leaf_case(rng, p_output_raw([1, 1, 5, 1, 6]), sols=[(ADDR_A, ADDR_B, [], []), (ADDR_A, ADDR_B, [[1]], [])]))
    cases.append(single_leaf_case(rng, p_output_raw([1, 1, 5, 1, 6]), sols=[(ADDR_A, ADDR_B, [], []), (ADDR_C, ADDR_B, [], [])]))
    # (2) post-state / pre-state reads with counts chosen by the program (huge counts only with keys that wrap at once)
    st = [(ADDR_A, [1], [7]), (ADDR_A, [I64_MAX], [8]), (ADDR_A, [2], 9)]
    for key in ([I64_MAX], [], [I64_MAX, I64_MAX], [1], [2], [0, I64_MAX]):
        for n in (0, 1, 2, 3, I64_MAX, 1 << 40):
            if n > 1000 and not (key == [] or all(w == I64_MAX for w in key)):
                continue
            for rd in ("PKRNG", "KRNG"):
                prog = [P(50), op("ALOC"), op("POP")] + [P(w) for w in key] + [P(len(key)), P(n), P(0), op(rd), P(1)]
                for muts in ([], [([1], [3])], [([I64_MAX], [4]), ([I64_MIN], [5])]):
                    cases.append(single_leaf_case(rng, prog, sols=[(ADDR_A, ADDR_B, [], muts)], state=st))
    # (2b) a state that answers with fewer / more values than requested (incl. none at all), read through both views, from
    # a contract the set mutates (overlay path) and one it does not (direct path)
    for raw in ([], [[]], [[5]], [[5], [6]], [[5], [6], [7]], [[], [], []]):
        st2 = [(ADDR_A, [1], ("raw", raw)), (ADDR_A, [2], [7]), (ADDR_C, [1], ("raw", raw))]
        for n in (0, 1, 2, 3):
            for rd in ("PKRNG", "KRNG"):
                prog = [P(60), op("ALOC"), op("POP"), P(1), P(1), P(n), P(0), op(rd), P(1)]
                for muts in ([], [([2], [3])], [([1], [4])], [([9], [4])]):
                    cases.append(single_leaf_case(rng, prog, sols=[(ADDR_A, ADDR_B, [], muts)], state=st2))
            ext = list(V.struct_words(ADDR_C))
            progx = [P(60), op("ALOC"), op("POP")] + [P(w) for w in ext] + [P(1), P(1), P(n), P(0), op("PKREX"), P(1)]
            cases.append(single_leaf_case(rng, progx, sols=[(ADDR_A, ADDR_B, [], [([2], [3])])], state=st2))
    # (3) cyclic / dangling / malformed graphs (all numberings of small edge lists)
    pb = prog_bytes(p_sat())
    pc = prog_bytes(p_const(7))
    starts_pool = [0, 1, 2, 3, EDGE_MAX]
    combos = list(itertools.product(starts_pool, repeat=3))
    edge_lists = [[], [0], [1], [2], [5], [1, 2], [2, 1], [0, 0], [1, 1, 2], [2, 0, 1], [1, 2, 0], [7, 1]]
    for starts in combos:
        for edges in edge_lists:
            if rng.random() < (0.25 if tier == "quick" else 1.0):
                nodes = [(s, sha(pb if s == EDGE_MAX else pc)) for s in starts]
                cases.append(check_case("twopass", rng.random() < 0.5, [(ADDR_A, ADDR_B, [], [])],
                                        [(ADDR_A, ADDR_B, (nodes, edges))], [pb, pc], []))
    # self loop, 2-cycle, cycle behind a root, dangling targets
    for nodes_e, edges in (([0], [0]), ([0, 1], [1, 0]), ([0, 1, 2], [1, 2, 1]), ([0, EDGE_MAX], [5]), ([0], [65534]), ([0, 1], [1, 9, 9])):
        nodes = [(s, sha(pc)) for s in nodes_e]
        cases.append(check_case("twopass", False, [(ADDR_A, ADDR_B, [], [])], [(ADDR_A, ADDR_B, (nodes, edges))], [pc], []))
    # (4) programs that are not valid bytecode, parent concat overflow
    for raw in (b"\x00", b"\x01", b"\x01\x00\x00", b"\xff", bytes([0x01] * 9) + b"\x00"):
        nodes = [(EDGE_MAX, sha(raw))]
        cases.append(check_case("twopass", False, [(ADDR_A, ADDR_B, [], [])], [(ADDR_A, ADDR_B, (nodes, []))], [raw], []))
    big = [P(3000), op("RES"), op("POP")]
    bigm = [P(6000), op("ALOC"), op("POP")]
    for body in (big, bigm):
        programs = [body, body, p_sat()]
        (nodes, edges), pbs = build_pred(encode_graph([[2], [2], []]), programs)
        cases.append(check_case("twopass", False, [(ADDR_A, ADDR_B, [], [])], [(ADDR_A, ADDR_B, (nodes, edges))], pbs, []))
    # (4b) the same hostile inputs through the single-mode public entry points, with hostile post-state views
    tp = [c for c in cases if c.startswith("twopass ")]
    posts = [[], [(ADDR_A, [1], ("raw", []))], [(ADDR_A, [1], ("raw", [[1], [2], [3]])), (ADDR_A, [I64_MAX], 5)], [(ADDR_A, [1], 9)],
             [(ADDR_C, [1], ("raw", [[]]))]]
    for c_ in rng.sample(tp, min(len(tp), 150 if tier == "quick" else 3000)):
        cases.extend(api_variants(rng, c_, 2, rng.choice(posts), k=1))
    # (4b') graphs with deferred children through the single-mode entry points (a Checks pass on a cold cache is legal)
    g1, _ = c01_cases(rng, "quick")
    cases += rng.sample([c for c in g1 if c.startswith("api ")], 60 if tier == "quick" else 200)
    # (4b'') many re-converging paths below a post-state reader: a ladder of diamonds (the work must grow with the nodes, not
    # with the paths)
    clr_ = lambda c_: [P(0), op("FREE"), P(0), op("RES"), op("DROP"), P(c_)]     # forget what was inherited, push c
    for rungs in (12, 40, 64):
        ch = []
        for r_ in range(rungs):
            a = 3 * r_
            ch += [[a + 1, a + 2], [a + 3], [a + 3]]
        ch.append([])
        progs_ = [p_reader(5)] + [clr_(1 + i % 3) for i in range(1, len(ch) - 1)] + [p_sat()]
        enc_ = encode_valid(ch)
        pred_, pb_ = build_pred(enc_, progs_)
        cases.append(check_case("twopass", False, [(ADDR_A, ADDR_B, [], [])], [(ADDR_A, ADDR_B, pred_)], pb_, []))
    # (4c) VM programs whose parallel children share lazily initialised state
    cases += V.pex_race_cases()
    # (5) the byte-level decoders
    c18, _ = gen_types.c18_cases(rng, tier)
    cases += [c for c in c18 if c.startswith(("decmut", "decpred"))]
    for _ in range(200 if tier == "quick" else 5000):
        raw = bytes(rng.randrange(256) for _ in range(rng.randrange(0, 40)))
        cases.append("decpred " + hx(raw))
        cases.append("decode " + hx(raw))
        cases.append("mapped " + hx(raw))
    # predicates with more nodes than a u16 can index (no decoder produces them, a caller that skipped predicate::check can):
    # built inside the harness, every entry point, implementation only (the model's graph code is quadratic in the node count)
    oracles = []
    for shape in ("65536 leaves 0", "65537 leaves 0", "70000 fan 5", "65537 tailfan 5", "65540 tailfan 65535", "131073 leaves 0"):
        for entry in ("twopass x", "csp 01", "cp 0", "cac 1"):
            if tier != "quick" or rng.random() < 0.5 or shape == "65537 leaves 0":
                oracles.append(f"o_big {shape} {entry}")
    return cases, oracles


# ---------------------------------------------------------------------------------------
# encoding helpers with validation (the CSR-like encoding cannot express every numbering)

def py_node_edges(starts, edges, i):
    if i >= len(starts):
        return None
    if starts[i] == EDGE_MAX:
        return []
    s = starts[i]
    e = len(edges)
    if i + 1 < len(starts) and starts[i + 1] != EDGE_MAX:
        e = starts[i + 1]
    if s <= e <= len(edges):
        return edges[s:e]
    return None


def encode_valid(children):
    """encode and verify that decoding gives back exactly `children`; None if this numbering is not expressible"""
    n = len(children)
    # leaves first are free; every maximal run of non-leaves must be laid out contiguously; a run that is
    # followed by a leaf or the end must finish at the end of the edge array -> only one such run is possible
    starts, edges = [], []
    for ch in children:
        if not ch:
            starts.append(EDGE_MAX)
        else:
            starts.append(len(edges))
            edges += ch
    for i in range(n):
        if py_node_edges(starts, edges, i) != list(children[i]):
            return None
    return starts, edges


def encode_alt(rng, children):
    """another valid encoding of the same graph: some leaves are encoded with a real (empty) edge range instead of the
    0xFFFF marker; None if the result does not decode back to `children`"""
    starts, edges = [], []
    for ch in children:
        if not ch and rng.random() < 0.5:
            starts.append(EDGE_MAX)
        else:
            starts.append(len(edges))
            edges += ch
    for i in range(len(children)):
        if py_node_edges(starts, edges, i) != list(children[i]):
            return None
    if all(s_ == EDGE_MAX for s_, ch in zip(starts, children) if not ch):
        return None
    return starts, edges


def expressible_numberings(rng, children, k):
    """up to k random renumberings of the graph that the encoding can express"""
    n = len(children)
    out, tries = [], 0
    while len(out) < k and tries < 40 * k:
        tries += 1
        perm = list(range(n))
        rng.shuffle(perm)
        ch2 = renumber(children, perm)
        if encode_valid(ch2) is not None and (perm, ch2) not in out:
            out.append((perm, ch2))
    return out


def expect_tok(s):
    return "x" + s.encode().hex()


# ---------------------------------------------------------------------------------------
# C03: post-state overlay and deferral

def py_next_key(key):
    key = list(key)
    for i in range(len(key) - 1, -1, -1):
        if key[i] == I64_MAX:
            key[i] = I64_MIN
        else:
            key[i] += 1
            return key
    return None


def py_nth_key(key, i):
    """the i-th key after `key` (None if the key space wraps first)"""
    k = list(key)
    for _ in range(i):
        k = py_next_key(k)
        if k is None:
            return None
    return k


def py_key_range(lookup, key, n):
    """values of n consecutive keys (stops at wrap); lookup(key) -> value list"""
    out = []
    for _ in range(n):
        out.append(lookup(key))
        key = py_next_key(key)
        if key is None:
            break
    return out


def layout(addr, values, region):
    """memory region [addr ..] after writing `values` (pair table, then values back to back), padded with zeros"""
    mem = [0] * region
    off = addr + 2 * len(values)
    for i, v in enumerate(values):
        mem[addr + 2 * i] = off
        mem[addr + 2 * i + 1] = len(v)
        mem[off:off + len(v)] = v
        off += len(v)
    return mem


def c03_case(rng, shape, read_key, n, declared, computed, pre, other_contract=False, collect_all=False, maddr=0, same_contract=None):
    """Builds one two-pass case and its independently computed expectation.
    declared: [(key, value)] declared by the solution; computed: (key, value) computed by a first-pass data-output leaf or None;
    pre: {tuple(key): value}; shape selects where the post-state read sits in the graph."""
    contract = ADDR_A
    proposed = {tuple(k): list(v) for k, v in declared}
    if computed:
        proposed[tuple(computed[0])] = list(computed[1])

    if same_contract:
        # another solution of the SAME contract (its own predicate) proposing a value for a slot nobody else writes
        proposed[tuple(same_contract[0])] = list(same_contract[1])

    def overlay(k):
        t = tuple(k)
        return proposed[t] if t in proposed else list(pre.get(t, []))

    values = py_key_range(overlay, read_key, n)
    size = 2 * len(values) + sum(len(v) for v in values)
    region = size + rng.choice([0, 0, 2])
    expected_region = layout(0, values, region)
    progs_children = None
    exp_muts = [(list(k), list(v)) for k, v in declared]
    if computed:
        exp_muts.append((list(computed[0]), list(computed[1])))
    out_leaf = p_output_mutation(*computed) if computed else p_sat()
    if shape == "leaf":
        # [pass-1 leaf, deferred reporting leaf]
        children = [[], []]
        programs = [out_leaf, p_post_read_report(7777, read_key, n, region)]
        exp_muts.append(([7777], layout(4, values, region + 4)[4:]))
    elif shape in ("chain", "chain_rev"):
        # reader (non-leaf, pushes the region) -> middle (appends 5) -> leaf reporting its stack; plus the pass-1 leaf
        # chain_rev numbers the chain against the edges (leaf first): reader=3, middle=2, leaf=0
        if shape == "chain":
            children = [[1], [2], [], []]          # 0 reader,1 middle,2 report leaf,3 pass-1 leaf
            programs = [p_post_read_push(read_key, n, region, maddr, over_halt=rng.random() < 0.3), p_const(5), p_report_stack(7777), out_leaf]
        else:
            children = [[], [], [0], [2]]          # 0 report leaf, 1 pass-1 leaf, 2 middle, 3 reader
            programs = [p_report_stack(7777), out_leaf, p_const(5), p_post_read_push(read_key, n, region, maddr, over_halt=rng.random() < 0.3)]
        exp_muts.append(([7777], layout(maddr, values, region + maddr)[maddr:] + [5]))
    elif shape == "diamond":
        # pre-reading root and post-reading root feed one reporting leaf: parents in ascending order
        pre_vals = py_key_range(lambda k: list(pre.get(tuple(k), [])), read_key, n)
        psize = 2 * len(pre_vals) + sum(len(v) for v in pre_vals)
        children = [[2], [2], [], []]
        programs = [p_pre_read_push(read_key, n, psize), p_post_read_push(read_key, n, region), p_report_stack(7777), out_leaf]
        exp_muts.append(([7777], layout(0, pre_vals, psize) + expected_region))
    enc = encode_valid(children)
    assert enc is not None, (shape, children)
    pred, pbytes = build_pred(enc, programs)
    sols = [(contract, ADDR_B, [], [(list(k), list(v)) for k, v in declared])]
    preds = [(contract, ADDR_B, pred)]
    if other_contract:
        # a second solution of another contract writing the same keys: must not be visible
        sols.append((ADDR_C, ADDR_B, [], [(list(read_key), [424242])]))
        preds.append((ADDR_C, ADDR_B, (([(EDGE_MAX, sha(prog_bytes(p_sat())))]), [])))
        pbytes = pbytes + [prog_bytes(p_sat())]
    extra = ""
    fmt = lambda ms: "[" + ",".join("[" + ",".join(map(str, k)) + "]->[" + ",".join(map(str, v)) + "]" for k, v in ms) + "]"
    if other_contract:
        extra += " " + fmt([(list(read_key), [424242])])
    if same_contract:
        ADDR_D = bytes([0xDD]) * 32
        sc = (contract, ADDR_D, [], [(list(same_contract[0]), list(same_contract[1]))])
        if same_contract[2]:
            sols.insert(0, sc)        # before the reading solution
        else:
            sols.append(sc)
        preds.append((contract, ADDR_D, (([(EDGE_MAX, sha(prog_bytes(p_sat())))]), [])))
        pbytes = pbytes + [prog_bytes(p_sat())]
    state = [(contract, list(k), list(v)) for k, v in pre.items()]
    if getattr(c03_case, "empty_answers", False) and proposed and shape != "diamond":
        # (not in the diamond shape: its pre-state read goes to the pre state as one ranged read, like a read of an unmutated contract)
        # (only for a contract the set mutates: an unmutated contract's reads go to the pre state as one ranged read)
        # a pre state that answers reads of keys it does not hold with an empty list (instead of one empty value per key)
        k_ = list(read_key)
        for _ in range(n):
            if tuple(k_) not in pre:
                state.append((contract, list(k_), ("raw", [])))
            k_ = py_next_key(k_)
            if k_ is None:
                break
    case = check_case("twopass", collect_all, sols, preds, pbytes, state)
    c03_case.last_post = [(contract, list(k), list(v)) for k, v in proposed.items()] + [e for e in state if tuple(e[1]) not in proposed]
    c03_case.last_nsols = len(sols)
    expected = "ok * " + fmt(exp_muts) + extra
    if same_contract:
        own = fmt([(list(same_contract[0]), list(same_contract[1]))])
        expected = ("ok * " + own + " " + fmt(exp_muts) + extra) if same_contract[2] else (expected + " " + own)
    return case, expected


def c03_odd_cases(rng, tier):
    cases, oracles = [], []
    shapes = ["leaf", "chain", "chain_rev", "diamond"]
    pre_sets = [{}, {(1,): [11], (2,): [22, 23], (3,): []}]
    # a first-pass data-output leaf whose Push immediates contain, at some byte position, the opcode of a post-state read / a Push
    # / an effect op (a scanner that loses step reads them as ops and defers the leaf: its mutation then misses the post-state
    # view of the reader); the mutated slot is the one the reader asks for
    OPB = (0x82, 0x83, 0x01, 0x80, 0x81, 0x65, 0x66)
    odd_words = [b for b in OPB] + [b - 256 for b in OPB if b >= 0x80] + [(b << 8) | 7 for b in OPB[:2]] + \
        [int.from_bytes(bytes([0x83] * 8), "big", signed=True), int.from_bytes(bytes([0x82, 1] * 4), "big", signed=True), 386, 257]
    for i, w in enumerate(odd_words):
        for shape in (shapes if tier != "quick" else [shapes[i % len(shapes)], shapes[(i + 1) % len(shapes)]]):
            for computed, rk in ((([2], [w]), [2]), (([w], [5, 6]), [w])):
                c, e = c03_case(rng, shape, rk, rng.choice([1, 2]), [], computed, rng.choice(pre_sets), collect_all=rng.random() < 0.5)
                cases.append(c)
                oracles.append("o_expect " + expect_tok(e) + " " + c)
    return cases, oracles


def c03_cases(rng, tier):
    cases, oracles = [], []
    pre_sets = [{}, {(1,): [11], (2,): [22, 23], (3,): []}, {(I64_MAX,): [9], (0, I64_MAX): [8], (1, I64_MIN): [7]}]
    key_sets = [[1], [2], [0], [I64_MAX], [0, I64_MAX], [], [1, 2]]
    decl_sets = [[], [([1], [100])], [([2], [])], [([1], [100]), ([3], [300, 301])], [([I64_MAX], [5])], [([1, I64_MIN], [6])], [([], [77])]]
    # 130 / 131 / 386: Push immediates whose low byte is a post-state read opcode; 257: low byte is the Push opcode
    comp_sets = [None, ([2], [200]), ([1], []), ([4], [1, 2, 3]), ([2], [130]), ([1], [131, 386]), ([2], [257, 1])]
    shapes = ["leaf", "chain", "chain_rev", "diamond"]
    n_rand = 150 if tier == "quick" else 4000
    combos = []
    for shape in shapes:
        for rk in key_sets:
            for n in (0, 1, 2, 3):
                combos.append((shape, rk, n))
    rng.shuffle(combos)
    for shape, rk, n in combos[: (len(combos) if tier != "quick" else 80)]:
        declared = rng.choice(decl_sets)
        computed = rng.choice(comp_sets)
        if computed and any(tuple(k) == tuple(computed[0]) for k, _ in declared):
            computed = None
        pre = rng.choice(pre_sets)
        c, e = c03_case(rng, shape, rk, n, declared, computed, pre, other_contract=rng.random() < 0.3, collect_all=rng.random() < 0.5,
                        maddr=rng.choice([0, 0, 1, 257]))
        cases.append(c)
        oracles.append("o_expect " + expect_tok(e) + " " + c)
    oc, oo = c03_odd_cases(rng, tier)
    cases += oc
    oracles += oo
    # long ranges (bulk-read territory) that cross a carry into a more significant key word, with mutated keys before the
    # carry, right after it, at both ends of the range and outside it
    for n in (63, 64, 65, 100):
        for rk in ([0, I64_MAX - 39], [5, I64_MAX - 70], [I64_MAX - 20], [0, 0, I64_MAX - 2], [5, I64_MAX, I64_MAX - 39], [I64_MAX, I64_MAX, I64_MAX - 30],
                   [7, I64_MAX, I64_MAX, I64_MAX - 50]):
            declared = [(list(rk), [41]), (py_nth_key(rk, n - 1) or list(rk), [42, 43])]
            mid = py_nth_key(rk, 45)
            if mid:
                declared.append((mid, []))
                after = py_nth_key(rk, n + 3)
                if after:
                    declared.append((after, [44]))
            seen_, ded = set(), []
            for k_, v_ in declared:
                if tuple(k_) not in seen_ and tuple(k_) != (7777,):
                    seen_.add(tuple(k_))
                    ded.append((k_, v_))
            pre = {tuple(py_nth_key(rk, 44) or rk): [900], tuple(mid or rk): [901], tuple(py_nth_key(rk, 2) or rk): [902]}
            c, e = c03_case(rng, rng.choice(["leaf", "chain"]), rk, n, ded, None, pre, collect_all=rng.random() < 0.5)
            cases.append(c)
            oracles.append("o_expect " + expect_tok(e) + " " + c)
    for _ in range(n_rand):
        shape = rng.choice(shapes)
        rk = [rng.choice([0, 1, 2, 3, I64_MAX, I64_MAX - 1]) for _ in range(rng.choice([0, 1, 1, 2]))]
        n = rng.choice([0, 1, 2, 3, 4])
        declared, used = [], set()
        for _ in range(rng.randrange(0, 4)):
            k = tuple(rng.choice([0, 1, 2, 3, 4, I64_MAX, I64_MIN]) for _ in range(len(rk) if rng.random() < 0.8 else rng.choice([0, 1, 2])))
            if k not in used:
                used.add(k)
                declared.append((list(k), [rng.randrange(100)] * rng.choice([0, 1, 2])))
        computed = None
        if rng.random() < 0.5:
            k = tuple(rng.choice([0, 1, 2, 3, I64_MAX]) for _ in range(len(rk)))
            if k not in used:
                computed = (list(k), [rng.choice([rng.randrange(100, 200), 130, 131, 257, 386])] * rng.choice([0, 1, 3]))
        pre = {tuple(rng.choice([0, 1, 2, 3, 4, I64_MAX, I64_MIN]) for _ in range(len(rk))): [rng.randrange(1000, 1100)] * rng.choice([0, 1, 2])
               for _ in range(rng.randrange(0, 4))}
        same = None
        if rng.random() < 0.4:
            used_all = set(used) | ({tuple(computed[0])} if computed else set()) | {(7777,)}
            cand = [tuple(rk)] + [tuple(rng.choice([0, 1, 2, 3, 4, I64_MAX]) for _ in range(len(rk))) for _ in range(3)]
            cand = [k for k in cand if k not in used_all]
            if cand:
                same = (list(rng.choice(cand)), [rng.randrange(500, 600)] * rng.choice([0, 1, 2]), rng.random() < 0.5)
        c03_case.empty_answers = rng.random() < 0.3
        c, e = c03_case(rng, shape, rk, n, declared, computed, pre, other_contract=rng.random() < 0.2 and not same, collect_all=rng.random() < 0.5,
                        maddr=rng.choice([0, 0, 0, 1, 2, 257]), same_contract=same)
        c03_case.empty_answers = False
        cases.append(c)
        oracles.append("o_expect " + expect_tok(e) + " " + c)
        if rng.random() < 0.4:
            cases.extend(api_variants(rng, c, c03_case.last_nsols, c03_case.last_post if rng.random() < 0.6 else [(ADDR_A, [1], [77])], k=2))
    return cases, oracles


# ---------------------------------------------------------------------------------------
# C04: a solution set is a set

def c04_set(rng, clash=None):
    """a set of 1..4 solutions over two contracts; every solution solves its own predicate: a first-pass leaf that may compute a
    mutation and a deferred leaf that may read a post-state key and report what it saw.  clash: None | 'dd' | 'dc' | 'cd' | 'cc' |
    'dd_pred' (two solutions of one contract, different predicates, same key) forces one slot to be proposed twice."""
    n = rng.randrange(2, 5) if clash else rng.randrange(1, 5)
    keys = [[1], [2], [3], [1, 2], [], [I64_MAX]]
    used = {}      # contract -> set of key tuples
    plan = []
    for i in range(n):
        contract = rng.choice([ADDR_A, ADDR_A, ADDR_C])
        u = used.setdefault(contract, set())
        declared, computed = [], None
        for _ in range(rng.randrange(0, 3)):
            k = rng.choice(keys)
            if tuple(k) not in u:
                u.add(tuple(k))
                declared.append((list(k), [rng.randrange(1, 90)] * rng.choice([0, 1, 2])))
        if rng.random() < 0.5:
            k = rng.choice(keys)
            if tuple(k) not in u:
                u.add(tuple(k))
                computed = (list(k), [rng.randrange(100, 190)] * rng.choice([0, 1, 2]))
        reader = rng.choice(keys) if rng.random() < 0.6 else None
        plan.append(dict(contract=contract, declared=declared, computed=computed, reader=reader, report=[7000 + i]))
    if clash:
        i, j = rng.sample(range(n), 2)
        plan[j]["contract"] = plan[i]["contract"]
        k = [rng.choice([4, 5, 6])]
        va, vb = [rng.randrange(200, 250)], [rng.randrange(250, 300)]
        if clash in ("dd", "dd_pred"):
            plan[i]["declared"].append((k, va)); plan[j]["declared"].append((k, vb))
        elif clash == "dc":
            plan[i]["declared"].append((k, va)); plan[j]["computed"] = (k, vb)
        elif clash == "cd":
            plan[i]["computed"] = (k, va); plan[j]["declared"].append((k, vb))
        elif clash == "c1c2":
            # computed by a first-pass leaf of one solution and again by the deferred (second pass) leaf of the same / another one
            plan[i]["computed"] = (k, va)
            plan[j]["reader"] = [3]
            plan[j]["report"] = k
        else:
            plan[i]["computed"] = (k, va); plan[j]["computed"] = (k, vb)
        # someone reads the contested slot from post-state, so a last-writer-wins overlay shows in the outputs
        plan[rng.choice([i, j])]["reader"] = k
        # a solution of the *other* contract may legitimately write the same key (it sits between the two in some orderings)
        others = [t for t in range(n) if t not in (i, j)]
        if others and rng.random() < 0.6:
            t = rng.choice(others)
            plan[t]["contract"] = ADDR_C if plan[i]["contract"] == ADDR_A else ADDR_A
            plan[t]["declared"] = [(kk, vv) for kk, vv in plan[t]["declared"] if kk != k] + [(k, [rng.randrange(300, 350)])]
            if plan[t]["computed"] and plan[t]["computed"][0] == k:
                plan[t]["computed"] = None
        if clash != "dd":
            # the other clashes must survive check_set: drop accidental declared duplicates
            pass
    sols, preds, pbytes = [], [], []
    for i, pl in enumerate(plan):
        paddr = bytes([0xB0 + i]) * 32
        programs = [p_output_mutation(*pl["computed"]) if pl["computed"] else p_sat()]
        if pl["reader"] is not None:
            programs.append(p_post_read_report(pl["report"][0], pl["reader"], rng.choice([1, 1, 2]), 12))
        (nodes, edges), pb = build_pred(encode_graph([[] for _ in programs]), programs)
        sols.append((pl["contract"], paddr, [], pl["declared"]))
        preds.append((pl["contract"], paddr, (nodes, edges)))
        pbytes += pb
    return sols, preds, pbytes


def c04_cases(rng, tier):
    from .gen_types import sols_tok as _st, addr_raw_cases
    cases, oracles = [], []
    # the address of a set must not depend on the order of its solution addresses, also when these share leading bytes
    cases += [c for c in addr_raw_cases(rng, tier) if c.startswith("addr_raw set")]
    # several solutions of the SAME predicate with different predicate data: a first-pass parent pushes the solution's own
    # data, its deferred child (post-state read) compares what it inherits with the solution's data
    parent = [P(0), P(0), P(1), op("DATA")]
    child = [P(2), op("ALOC"), op("POP"), P(9), P(9), P(2), P(1), P(0), op("PKRNG"), P(0), P(0), P(1), op("DATA"), op("EQ")]
    (nodes_, edges_), pb_ = build_pred(encode_valid([[1], []]), [parent, child])
    for datas in ([5, 6], [6, 5], [5, 6, 7], [5, 5, 6]):
        sols_ = [(ADDR_A, ADDR_B, [[d]], []) for d in datas]
        for pm in itertools.permutations(range(len(sols_))):
            ps_ = [sols_[i] for i in pm]
            for ca in (False, True):
                c_ = check_case("twopass", ca, ps_, [(ADDR_A, ADDR_B, (nodes_, edges_))], pb_, [])
                cases.append(c_)
                oracles.append(f"o_ref " + expect_tok("ok " + " ".join("[]" for _ in ps_)) + " " + c_)
    # two real solutions whose content addresses share their first 8 bytes (found by a 2^32 search), with a third one, in every order
    z = bytes(32)
    pair = [(z, z, [[4236359857541326005]], []), (z, z, [[4766575786782499924]], []), (bytes([3]) * 32, bytes([7]) * 32, [[3, 4]], [([3], [42])])]
    for pm in itertools.permutations(range(3)):
        cases.append("addr_set " + _st([pair[i] for i in pm]))
    cases.append("addr_set " + _st(pair[:2]))
    cases.append("addr_set " + _st(pair[1::-1]))
    n_sets = 60 if tier == "quick" else 1500
    kinds = [None] * 6 + ["dd", "dd_pred", "dc", "cd", "cc", "c1c2"]
    pre_sets = [[], [(ADDR_A, [1], [11]), (ADDR_A, [4], [44]), (ADDR_C, [2], [22]), (ADDR_A, [5], [55]), (ADDR_C, [6], [66])]]
    for s in range(n_sets):
        clash = kinds[s % len(kinds)] if s < 2 * len(kinds) else rng.choice(kinds)
        sols, preds, pbytes = c04_set(rng, clash)
        state = rng.choice(pre_sets)
        n = len(sols)
        perms = list(itertools.permutations(range(n))) if n <= 3 else [tuple(rng.sample(range(n), n)) for _ in range(4)] + [tuple(reversed(range(n)))]
        collect = rng.random() < 0.5
        base = check_case("twopass", collect, sols, preds, pbytes, state)
        cases.append(base)
        cases.append("chkset " + _st(sols))
        cases.append("addr_set " + _st(sols))
        for pm in perms:
            if list(pm) == list(range(n)):
                continue
            psols = [sols[i] for i in pm]
            cases.append(check_case("twopass", collect, psols, preds, pbytes, state))
            cases.append("chkset " + _st(psols))
            cases.append("addr_set " + _st(psols))
            oracles.append(f"o_perm {n} " + " ".join(map(str, pm)) + " " + base)
    return cases, oracles


# ---------------------------------------------------------------------------------------
# C01: the verdict equals the reference semantics of the predicate graph

def p_reader(c):
    """non-leaf, deferred (contains a post-state read): forgets inherited memory, reads the absent key [9,9] from post-state
    into a fresh 2-word region, pushes the region and then c:  stack = inherited ++ [2,0,c], memory = [2,0]"""
    return [P(0), op("FREE"), P(2), op("ALOC"), op("POP"), P(9), P(9), P(2), P(1), P(0), op("PKRNG"), P(0), P(2), op("LODR"), P(c)]


def p_fail_nonleaf():
    return [op("POP"), op("POP"), P(0), op("RES"), op("DROP"), op("POP")]


def ref_eval(children, kinds):
    """Reference semantics.  kinds[v] = (kind, arg).  Returns per node (stack, mem) | None (program failed or an input missing),
    the verdict ('ok', muts) | ('unsat', nodes) | ('err',) and the expected mutations of the solution."""
    n = len(children)
    parents = [[] for _ in range(n)]
    for u in range(n):
        for v in children[u]:
            parents[v].append(u)
    for v in range(n):
        parents[v].sort()
    memo = {}

    def out(v):
        if v in memo:
            return memo[v]
        s, m, bad = [], [], False
        for u in parents[v]:
            o = out(u)
            if o is None:
                bad = True
                break
            s, m = s + o[0], m + o[1]
        k, a = kinds[v]
        r = None
        if not bad:
            if k == "const":
                r = (s + [a], m)
            elif k == "constmem":
                r = (s + [a], m + [a])
            elif k == "reader":
                r = (s + [2, 0, a], [2, 0])
            elif k == "failnl":
                r = None
            else:
                r = (s, m)            # a leaf: its inputs
        memo[v] = r
        return r
    # deferred = post-state readers and everything below them (evaluated in the second pass)
    deferred = set(v for v in range(n) if kinds[v][0] == "reader")
    changed = True
    while changed:
        changed = False
        for u in list(deferred):
            for c in children[u]:
                if c not in deferred:
                    deferred.add(c)
                    changed = True

    def verdict(nodes):
        failed, unsat, muts = False, [], []
        for v in nodes:
            o = out(v)
            k, a = kinds[v]
            if o is None or k == "fail":
                failed = True
                continue
            if children[v]:
                continue
            if k == "unsat" or (k == "sum" and sum(o[0]) != a):
                unsat.append(v)
            elif k == "report":
                muts.append(([a], list(o[0])))
            elif k == "reportmem":
                muts.append(([a], list(o[1])))
        if failed:
            return ("err",)
        if unsat:
            return ("unsat", unsat)
        return ("ok", muts)
    p1 = verdict([v for v in range(n) if v not in deferred])
    p2 = verdict([v for v in range(n) if v in deferred])
    return p1, p2


def two_pass_expectation(p1, p2, contracts):
    """the expected o_ref text for solutions that all solve the same predicate (same programs): a failure of the first pass is
    reported before the second pass runs; data outputs of same-contract solutions collide (same keys) -> duplicate error"""
    n = len(contracts)
    same = any(contracts.count(c) > 1 for c in contracts)
    if p1[0] == "err":
        return "err"
    if p1[0] == "unsat":
        return "unsat " + ";".join(f"{i}:" + ",".join(map(str, sorted(p1[1]))) for i in range(n))
    if p1[1] and same:
        return "err"
    if p2[0] == "err":
        return "err"
    if p2[0] == "unsat":
        return "unsat " + ";".join(f"{i}:" + ",".join(map(str, sorted(p2[1]))) for i in range(n))
    if p2[1] and same:
        return "err"
    return "ok " + " ".join(fmt_muts(p1[1] + p2[1]) for _ in range(n))


def kinds_programs(children, kinds):
    progs = []
    for v, (k, a) in enumerate(kinds):
        progs.append({"const": lambda: p_const(a), "constmem": lambda: p_const_mem(a), "reader": lambda: p_reader(a),
                      "failnl": p_fail_nonleaf, "fail": p_fail, "sat": p_sat, "unsat": p_unsat,
                      "sum": lambda: p_sum_check(a), "report": lambda: p_report_stack(a), "reportmem": lambda: p_report_memory(a)}[k]())
    return progs


def random_kinds(rng, children, fail_rate=0.08):
    """node programs for a graph; report keys and constants are attached to the node (they follow it through renumberings)"""
    n = len(children)
    has_parent = [False] * n
    for u in range(n):
        for v in children[u]:
            has_parent[v] = True
    kinds = []
    for v in range(n):
        if children[v]:
            r = rng.random()
            c = 1000 + 17 * v + rng.randrange(5)
            kinds.append(("reader", c) if r < 0.25 else ("constmem", c) if r < 0.45 else ("failnl", 0) if r < 0.45 + fail_rate else ("const", c))
        elif not has_parent[v]:
            kinds.append(rng.choice([("sat", 0)] * 4 + [("unsat", 0), ("fail", 0)]) if rng.random() < 3 * fail_rate else ("sat", 0))
        else:
            kinds.append(rng.choice([("sum", None), ("sum", None), ("report", 5000 + v), ("report", 5000 + v), ("reportmem", 5000 + v), ("sat", 0)]
                                    + ([("unsat", 0), ("fail", 0)] if rng.random() < 3 * fail_rate else [])))
    # fill in the sums from the reference itself (a spoiled sum makes the leaf unsatisfied)
    for v, (k, a) in enumerate(kinds):
        if k == "sum":
            # compute the inherited stack through the reference
            tmp = list(kinds)
            tmp[v] = ("report", -1)
            q1, q2 = ref_eval(children, [(kk if kk != "sum" else "sat", aa) for kk, aa in tmp])
            inherited = None
            for q in (q1, q2):
                if q[0] == "ok":
                    for key, val in q[1]:
                        if key == [-1]:
                            inherited = val
            if not inherited:
                kinds[v] = ("sat", 0)
            else:
                kinds[v] = ("sum", sum(inherited) + (1 if rng.random() < 0.1 else 0))
    return kinds


def fmt_muts(ms):
    return "[" + ",".join(sorted("[" + ",".join(map(str, k)) + "]->[" + ",".join(map(str, v)) + "]" for k, v in ms)) + "]"


def ref_expectation(verdicts):
    """verdicts: per solution reference result -> the o_ref expectation text"""
    if any(v[0] == "err" for v in verdicts):
        return "err"
    if any(v[0] == "unsat" for v in verdicts):
        return "unsat " + ";".join(f"{i}:" + ",".join(map(str, sorted(v[1]))) for i, v in enumerate(verdicts) if v[0] == "unsat")
    return "ok " + " ".join(fmt_muts(v[1]) for v in verdicts)


def monotone_on_parents(children, perm):
    n = len(children)
    parents = [[] for _ in range(n)]
    for u in range(n):
        for v in children[u]:
            parents[v].append(u)
    for v in range(n):
        ps = sorted(parents[v])
        if [perm[u] for u in ps] != sorted(perm[u] for u in ps):
            return False
    return True


def c01_graph_cases(rng, children, n_numberings, collect_all, n_sols):
    """one graph with node programs, under several expressible numberings; returns (cases, oracle lines)"""
    kinds = random_kinds(rng, children)
    cases, oracles, same = [], [], []
    numberings = [(list(range(len(children))), children)] if encode_valid(children) else []
    numberings += expressible_numberings(rng, children, n_numberings)
    seen = set()
    for perm, ch2 in numberings:
        if tuple(perm) in seen:
            continue
        seen.add(tuple(perm))
        k2 = [None] * len(children)
        for old, k in enumerate(kinds):
            k2[perm[old]] = k
        enc = encode_valid(ch2)
        if enc is None:
            continue
        if rng.random() < 0.4:
            enc = encode_alt(rng, ch2) or enc        # leaves written as empty edge ranges: same graph, same verdict
        pred, pbytes = build_pred(enc, kinds_programs(ch2, k2))
        sols = [(ADDR_A, ADDR_B, [], [])] + [(ADDR_C if i % 2 == 0 else ADDR_A, ADDR_B, [[i]], []) for i in range(n_sols - 1)]
        preds = [(ADDR_A, ADDR_B, pred), (ADDR_C, ADDR_B, pred)]
        case = check_case("twopass", collect_all, sols, preds, pbytes, [])
        p1, p2 = ref_eval(ch2, k2)
        exp = two_pass_expectation(p1, p2, [s[0] for s in sols])
        cases.append(case)
        oracles.append("o_ref " + expect_tok(exp) + " " + case)
        if rng.random() < 0.35:
            post = rng.choice([[], [(ADDR_A, [9, 9], [5])], [(ADDR_A, [9, 9], [5, 6]), (ADDR_C, [9, 9], [7])], [(ADDR_A, [9, 9], 3)]])
            cases.extend(api_variants(rng, case, n_sols, post, k=2))
        if monotone_on_parents(children, perm):
            same.append(case)
    if len(same) >= 2:
        oracles.append(f"o_same {len(same)} " + " ".join(same))
    return cases, oracles


def c01_cases(rng, tier):
    cases, oracles = [], []
    graphs = [[list(c) for c in SHAPES[k]] for k in SHAPES]
    # deferred parent with a lower index than a cached parent, chains against the numbering, joins below readers
    graphs += [[[2], [2], []], [[2], [2], [3], []], [[3], [3], [3], [4], []], [[1, 2], [3], [3], [4], []]]
    n_rand = 40 if tier == "quick" else 1500
    for _ in range(n_rand):
        graphs.append(random_dag(rng, rng.randrange(1, 8)))
    reps = 2 if tier == "quick" else 6
    for g in graphs:
        for _ in range(reps):
            c, o = c01_graph_cases(rng, g, 4, rng.random() < 0.5, rng.choice([1, 1, 2, 3]))
            cases += c
            oracles += o
    # several failing nodes in one level, the lower-numbered ones slower: the reported failing node must not depend on
    # which of them finishes first (run on thread pools of 1 and 4 workers)
    def spin_(k):
        return [P(k), P(1), op("REP"), P(0), op("POP"), op("REPE")] if k > 0 else []
    for width, slow in ((2, 9000), (3, 6000), (4, 12000), (4, 3000)):
        for variant in range(2):
            children = [[width] for _ in range(width)] + [[]] if variant == 0 else [[] for _ in range(width)]
            programs = []
            for v in range(width):
                fails = v < 2 or rng.random() < 0.5
                body = spin_(slow if v == 0 else slow // (4 * v)) + ([op("POP")] if fails else ([P(1000 + v)] if variant == 0 else p_sat()))
                programs.append(body)
            if variant == 0:
                programs.append(p_report_stack(7777))
            enc = encode_valid(children)
            pred, pbytes = build_pred(enc, programs)
            for ca in (False, True):
                case = check_case("twopass", ca, [(ADDR_A, ADDR_B, [], [])], [(ADDR_A, ADDR_B, pred)], pbytes, [])
                cases.append(case)
                oracles.append("o_pool 2 1 4 2 " + case)
                oracles.append("o_pool 2 1 4 2 " + api_variants(rng, case, 1, [], k=1)[0])
    # parents whose outputs add up to exactly the stack / memory limit (must be accepted), one below, one above
    def p_stack_of(k):
        return [P(k - 1), op("RES")]                     # k words: k-1 zeros and the start index
    def p_mem_of(k):
        return [P(k), op("ALOC"), op("POP")] if k else []
    leaf_drop_all = [op("POP"), P(0), op("RES"), op("DROP"), P(1)]
    SL, ML = V.STACK_LIMIT, V.MEM_LIMIT
    for sizes, ok in (((SL // 2, SL // 2), True), ((SL // 2, SL // 2 + 1), False), ((SL // 2 - 1, SL // 2), True), ((SL,), True), ((SL - 1,), True),
                      ((1, SL - 1), True), ((1, 1, SL - 2), True), ((2, 1, SL - 2), False)):
        children = [[len(sizes)] for _ in sizes] + [[]]
        programs = [p_stack_of(k) for k in sizes] + [leaf_drop_all]
        pred, pbytes = build_pred(encode_valid(children), programs)
        for ca in (False, True):
            case = check_case("twopass", ca, [(ADDR_A, ADDR_B, [], [])], [(ADDR_A, ADDR_B, pred)], pbytes, [])
            cases.append(case)
            oracles.append("o_ref " + expect_tok("ok []" if ok else "err") + " " + case)
    for sizes, ok in (((ML // 2, ML // 2), True), ((ML // 2, ML // 2 + 1), False), ((ML,), True), ((ML - 1, 1), True), ((ML, 1), False), ((ML, 0), True)):
        children = [[len(sizes)] for _ in sizes] + [[]]
        programs = [p_mem_of(k) + [P(3)] for k in sizes] + [leaf_drop_all]
        pred, pbytes = build_pred(encode_valid(children), programs)
        case = check_case("twopass", False, [(ADDR_A, ADDR_B, [], [])], [(ADDR_A, ADDR_B, pred)], pbytes, [])
        cases.append(case)
        oracles.append("o_ref " + expect_tok("ok []" if ok else "err") + " " + case)
    # cyclic and malformed graphs: rejected, nothing evaluated (a data-output program at every node would otherwise show up)
    pc = prog_bytes(p_const(7))
    pr = prog_bytes(p_output_mutation([1], [2]))
    for nodes_e, edges in (([0], [0]), ([0, 1], [1, 0]), ([0, 1, 2], [1, 2, 1]), ([0, 1, 2, EDGE_MAX], [1, 2, 0, 3]), ([2, 1], [1, 0]),
                           ([1, 0], [1]), ([0, 3], [1]), ([5], []), ([0, 2, 1, EDGE_MAX], [1, 2, 3])):
        nodes = [(s, sha(pr if s == EDGE_MAX else pc)) for s in nodes_e]
        for ca in (False, True):
            case = check_case("twopass", ca, [(ADDR_A, ADDR_B, [], [])], [(ADDR_A, ADDR_B, (nodes, edges))], [pc, pr], [])
            cases.append(case)
            oracles.append("o_ref " + expect_tok("invalid") + " " + case)
    # first-pass data-output leaves with opcode-like Push immediates feeding a post-state reader (see c03_odd_cases)
    oc, oo = c03_odd_cases(rng, "quick")
    cases += oc
    oracles += oo
    # long-running but successful programs (implementation only): the check gives a program no gas budget of its own, so a
    # leaf that loops for a long time and ends with [1] is accepted (a parent doing the same hands its stack on)
    for iters in ((1 << 16, 3_000_000) if tier == "quick" else (1 << 16, 3_000_000, 30_000_000, 90_000_000, 400_000_000)):
        loop = [P(iters), P(1), op("REP"), P(0), op("POP"), op("REPE")]
        pred, pbytes = build_pred(encode_valid([[]]), [loop + [P(1)]])
        case = check_case("twopass", False, [(ADDR_A, ADDR_B, [], [])], [(ADDR_A, ADDR_B, pred)], pbytes, [])
        oracles.append("o_ref " + expect_tok("ok []") + " " + case)
        if iters <= 30_000_000:
            pred, pbytes = build_pred(encode_valid([[1], []]), [loop + [P(1)], [P(1), op("EQ")]])
            case = check_case("twopass", False, [(ADDR_A, ADDR_B, [], [])], [(ADDR_A, ADDR_B, pred)], pbytes, [])
            oracles.append("o_ref " + expect_tok("ok []") + " " + case)
    return cases, oracles


# ---------------------------------------------------------------------------------------
# C02: the same result under every pool size / schedule

def spin(k):
    """k iterations of trivial work"""
    return [P(k), P(1), op("REP"), P(0), op("POP"), op("REPE")] if k > 0 else []


def p_many_mutations(n, base):
    """leaf: data output encoding n mutations  [base + c] -> [c]  (c = 0..n-1), written by a loop"""
    cell = lambda off: [op("REPC"), P(4), op("MUL"), P(off), op("ADD")]
    return ([P(1 + 4 * n), op("ALOC"), op("POP"), P(n), P(0), op("STO"), P(n), P(1), op("REP")] +
            [P(1)] + cell(1) + [op("STO")] +
            [op("REPC"), P(base), op("ADD")] + cell(2) + [op("STO")] +
            [P(1)] + cell(3) + [op("STO")] +
            [op("REPC")] + cell(4) + [op("STO")] +
            [op("REPE"), P(2)])


def c02_dup_blame_cases():
    """two solutions of one contract computing the same slot, one of them as the last of many mutations: the solution
    that is blamed for the duplicate must not depend on which decoding finishes first"""
    out = []
    for n in (300, 1200):
        k = 1000 + n - 1
        for order in (0, 1):
            progs = [p_many_mutations(n, 1000), p_output_mutation([k], [5])]
            if order:
                progs.reverse()
            sols, preds, pbytes = [], [], []
            for i, pr in enumerate(progs):
                (nodes, edges), pb = build_pred(encode_graph([[]]), [pr])
                paddr = bytes([0xE0 + i]) * 32
                sols.append((ADDR_A, paddr, [], []))
                preds.append((ADDR_A, paddr, (nodes, edges)))
                pbytes += pb
            out.append(check_case("twopass", False, sols, preds, pbytes, []))
    return out


def c02_check_cases(rng, tier):
    """two-pass cases with wide levels and many solutions whose tasks take very different times"""
    out = []
    n_cases = 24 if tier == "quick" else 120
    for ci in range(n_cases):
        n_sols = rng.choice([1, 2, 3, 5, 8])
        sols, preds, pbytes = [], [], []
        for si in range(n_sols):
            width = rng.choice([2, 3, 4, 6, 8])
            shape = rng.choice(["leaves", "join"])
            # the slow tasks sit at the low indices: with results taken in arrival order they would come last
            speeds = sorted([rng.choice([0, 0, 50, 2000, 12000]) for _ in range(width)], reverse=rng.random() < 0.7)
            programs, children = [], []
            if shape == "leaves":
                for v in range(width):
                    r = rng.random()
                    tail = (p_fail() if r < 0.25 else p_unsat() if r < 0.4 else p_output_mutation([100 * si + v], [v, si]) if r < 0.7 else p_sat())
                    programs.append(spin(speeds[v]) + tail)
                    children.append([])
            else:
                for v in range(width):
                    programs.append(spin(speeds[v]) + ([op("POP")] if rng.random() < 0.15 else [P(1000 + v)]))
                    children.append([width])
                programs.append(p_report_stack(9000 + si))
                children.append([])
            enc = encode_valid(children)
            pred, pb = build_pred(enc, programs)
            paddr = bytes([0xC0 + si]) * 32
            contract = ADDR_A if si % 2 == 0 else ADDR_C
            sols.append((contract, paddr, [], []))
            preds.append((contract, paddr, pred))
            pbytes += pb
        out.append(check_case("twopass", rng.random() < 0.5, sols, preds, pbytes, []))
    return out


def c02_vm_cases(rng, tier):
    """Compute ops whose children finish in very different times, stop at different pcs, or fail"""
    out = []
    ents = V.std_entries()
    bodies = []
    for b in (2, 3, 4, 8):
        slow_first = [op("DUP"), P(b), op("SUB"), P(-1), op("MUL"), P(2500), op("MUL"), P(1), op("REP"), P(0), op("POP"), op("REPE")]   # (b - i) * 2500 iterations
        # even children halt early (smaller final pc), odd ones run on to ComputeEnd
        bodies.append((b, slow_first + [op("DUP"), P(2), op("MOD"), P(0), op("EQ"), op("HLTIF"), P(1), op("ALOC"), op("STO"), op("COME")]))
        # every child leaves `index + 1` words of memory: their order in the parent's memory
        bodies.append((b, slow_first + [op("DUP"), P(1), op("ADD"), op("ALOC"), op("STO"), op("COME")]))
        # child 0 (slowest) and the last child (fastest) fail
        bodies.append((b, slow_first + [op("DUP"), P(0), op("EQ"), op("PNCIF"), op("DUP"), P(b - 1), op("EQ"), op("PNCIF"), op("COME")]))
        # children end at different pcs through a jump
        bodies.append((b, slow_first + [op("DUP"), P(1), op("LT"), P(3), op("SWAP"), op("JMPIF"), P(1), op("ALOC"), op("POP"), op("COME"), P(2), op("ALOC"), op("COME")]))
    for b, body in bodies:
        for after in ([], [P(5), op("POP")], [P(7), P(1), op("ALOC"), op("STO")]):
            out.append(V.case([P(b), op("COM")] + body + after, stack=[11, 12], mem=[70, 71], sols=V.RICH_SOLS, entries=ents, limit=10000000))
    return out


def c02_cases(rng, tier):
    sizes = [1, 2, 5, 16] if tier == "quick" else list(range(1, 17))
    reps = 2 if tier == "quick" else 3
    pre = f"o_pool {len(sizes)} " + " ".join(map(str, sizes)) + f" {reps} "
    cases = c02_check_cases(rng, tier) + c02_vm_cases(rng, tier) + V.pex_race_cases() + c02_dup_blame_cases()
    # inputs of C01 / C03 / C10 as well
    c1, _ = c01_cases(rng, "quick")
    c3, _ = c03_cases(rng, "quick")
    c10, _ = V.c10_cases(rng, "quick")
    extra = rng.sample(c1, min(len(c1), 40 if tier == "quick" else 120)) + rng.sample(c3, min(len(c3), 30 if tier == "quick" else 100)) + \
        rng.sample(c10, min(len(c10), 40 if tier == "quick" else 120))
    cases += extra
    oracles = [pre + c for c in cases]
    # many solutions with large predicate data, PredicateExists first executed inside 64 Compute children: the shared lazily
    # initialised hash set is built while sibling children are waiting for it (implementation only: every pool size must return,
    # and return what one worker returns; a pool that never answers is reported as `timeout`)
    sizes2 = [3, 4, 8, 16]
    for c in V.pex_race_cases(breadths=(64,), slot_words=2000, slots=2, nsols=48):
        oracles.append(f"o_pool {len(sizes2)} " + " ".join(map(str, sizes2)) + f" {4 if tier == 'quick' else 8} " + c)
    return cases, oracles
