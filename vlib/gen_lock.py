"""C20 (the lock serialises closures): case generator and oracles.

Phase 1 builds systems (initial lock values + one script of read-modify-write closures per thread)
and runs them on REAL OS threads through the harness (`lockrun`, crates/lock `StdLock`).
Phase 2 turns every observed history into a `lockcheck` case that is sent to both the harness and
the Lean driver: both must agree, and (oracle) both must answer `ok` — the history has to be one the
proved model allows, i.e. the outcome of a serial execution of the closures.

Token encoding (Driver/LockFam.lean, harness/src/fam_lock.rs):
  <sys> = <n> v1..vn  <T> { <k> { lock mul add }*k }*T ;  <returns> = <T> { <k> r1..rk }*T ; <finals> = <n> v1..vn
"""
import os, subprocess, sys, time

from . import common as C

LOOM_DIR = os.path.join(C.ROOT, "harness-loom")
LOOM_BIN = os.path.join(LOOM_DIR, "target", "release", "harness-loom")

# state shared between the generator and the python oracle of one check.py run
_STATE = {"tier": None, "phase1_failures": [], "observed": 0}

PAUSES = [0, 0, 1, 1, 2, 3, 4, 5, 20, 50, 100, 300]   # see fam_lock.rs::pause


def enc_sys(init, scripts):
    t = [len(init)] + list(init) + [len(scripts)]
    for sc in scripts:
        t.append(len(sc))
        for (l, m, a) in sc:
            t += [l, m, a]
    return " ".join(map(str, t))


def enc_list(xs):
    return " ".join(map(str, [len(xs)] + list(xs)))


def parse_outcome(s, nthreads, nlocks):
    """`<returns> <finals>` -> (rets, finals) or None"""
    try:
        t = list(map(int, s.split()))
        i = 0
        n = t[i]; i += 1
        rets = []
        for _ in range(n):
            k = t[i]; i += 1
            rets.append(t[i:i + k]); i += k
        m = t[i]; i += 1
        finals = t[i:i + m]; i += m
        if i != len(t) or n != nthreads or m != nlocks:
            return None
        return rets, finals
    except (ValueError, IndexError):
        return None


def enc_outcome(rets, finals):
    t = [len(rets)]
    for r in rets:
        t += [len(r)] + list(r)
    t += [len(finals)] + list(finals)
    return " ".join(map(str, t))


def make_system(rng, nthreads, nlocks, maxlen, kind):
    """kind: 'incr' (all closures are +1: the no-lost-update corollary), 'add' (v+b), 'affine' (a*v+b)"""
    init = [rng.randrange(0, 100) for _ in range(nlocks)]
    scripts = []
    muls_left = [18] * nlocks          # bounds the guarded values well inside i64 (3^18 * (100 + 96*9) < 2^40)
    for _ in range(nthreads):
        sc = []
        for _ in range(rng.randint(1, maxlen)):
            l = rng.randrange(nlocks)
            if kind == "incr":
                m, a = 1, 1
            elif kind == "add":
                m, a = 1, rng.randint(1, 9)
            else:
                m = rng.choice([1, 1, 2, 3])
                if m > 1:
                    if muls_left[l] == 0:
                        m = 1
                    else:
                        muls_left[l] -= 1
                a = rng.randint(1, 9)    # a >= 1, m >= 1, init >= 0: values strictly increase, so returns are distinct
            sc.append((l, m, a))
        scripts.append(sc)
    return init, scripts


def systems(rng, tier):
    n_random = 300 if tier == "quick" else 2500
    out = []
    # boundary shapes first: 2 / 3 / 16 threads, 1 / 6 closures, 1 / 3 locks
    for (nt, nl, ml, kind) in [(2, 1, 1, "incr"), (2, 1, 6, "incr"), (3, 1, 2, "incr"), (3, 1, 6, "affine"), (16, 1, 6, "incr"),
                               (16, 3, 6, "affine"), (16, 1, 1, "add"), (8, 2, 6, "incr"), (4, 3, 3, "affine"), (5, 1, 6, "add")]:
        out.append(make_system(rng, nt, nl, ml, kind))
    for _ in range(n_random):
        nt = rng.choice([2, 3, 3, 4, 5, 6, 8, 8, 12, 16])
        out.append(make_system(rng, nt, rng.randint(1, 3), rng.randint(1, 6), rng.choice(["incr", "add", "affine", "affine"])))
    res = []
    for init, scripts in out:
        r = rng.random()
        if r < 0.1:
            pat = [0]                                        # no pause at all: shortest critical sections
        elif r < 0.2:
            pat = [1]                                        # yield inside every closure
        else:
            pat = [rng.choice(PAUSES) for _ in range(rng.randint(2, 8))]
        res.append((init, scripts, pat))
    return res


def c20_cases(rng, tier):
    _STATE.update(tier=tier, phase1_failures=[], observed=0)
    syss = systems(rng, tier)
    cases, oracles = [], []
    # ---- phase 1: real threads on the real lock
    lines = [f"r{i} lockrun {enc_sys(init, scripts)} {enc_list(pat)}" for i, (init, scripts, pat) in enumerate(syss)]
    ans, fails = {}, 0
    CHUNK = 16
    for k in range(0, len(lines), CHUNK):
        got = C.run_bin(C.HARNESS_BIN, lines[k:k + CHUNK], timeout=300)
        ans.update(got)
        fails += sum(1 for v in got.values() if not parse_ok(v))
        if fails >= 3:
            break      # a lock that deadlocks costs a timeout per case: three witnesses are enough
    for i, (init, scripts, pat) in enumerate(syss):
        out = ans.get(f"r{i}")
        if out is None:
            continue
        sysenc = enc_sys(init, scripts)
        oc = parse_outcome(out, len(scripts), len(init))
        if oc is None:
            # FAIL timeout/deadlock, FAIL panic, abort, bad-family (harness without the lock family) …
            body = f"o_lockrun {sysenc} {enc_list(pat)}"
            _STATE["phase1_failures"].append((body, "FAIL lockrun: " + out))
            oracles.append(body)
            continue
        rets, finals = oc
        _STATE["observed"] += 1
        cases.append(f"lockcheck {sysenc} {enc_outcome(rets, finals)}")
        # the serial semantics of both sides on a random complete order
        order = [t for t, sc in enumerate(scripts) for _ in sc]
        rng.shuffle(order)
        cases.append(f"lockserial {sysenc} {enc_list(order)}")
        # controls (`lockcheckx`: same computation, any answer, but harness and driver must agree):
        # histories with one lost update / one duplicated return / program order swapped
        if i % 3 == 0:
            f2 = list(finals)
            f2[rng.randrange(len(f2))] -= 1
            cases.append(f"lockcheckx {sysenc} {enc_outcome(rets, f2)}")
            t = rng.randrange(len(rets))
            r2 = [list(r) for r in rets]
            if len(r2[t]) >= 2:
                r2[t][0], r2[t][1] = r2[t][1], r2[t][0]
            else:
                t2 = (t + 1) % len(r2)
                r2[t][0] = r2[t2][0]
            cases.append(f"lockcheckx {sysenc} {enc_outcome(r2, finals)}")
    # ---- fresh runs checked inside the harness (oracle family; also what a replay re-executes)
    if not _STATE["phase1_failures"]:
        n_orc = 60 if tier == "quick" else 400
        for j in range(n_orc):
            init, scripts, _ = syss[(j * 7) % len(syss)]
            pat = [rng.choice(PAUSES) for _ in range(rng.randint(1, 6))]
            oracles.append(f"o_lockrun {enc_sys(init, scripts)} {enc_list(pat)}")
    # ---- closures that hold the lock for a long time (a waiter must simply wait: no time-out, no lost call)
    long_holds = [120000] if tier == "quick" else [120000, 400000, 1300000]
    for hold in long_holds:
        nthr = 3 if hold < 1000000 else 2
        oracles.append(f"o_lockrun {enc_sys([5], [[(0, 1, 1)]] * nthr)} {enc_list([hold])}")
    # ---- long runs of increments (several thousand contended calls per thread), checked in the harness
    iters = 3000 if tier == "quick" else 20000
    hammer = [(2, 1), (3, 1), (4, 1), (8, 1), (16, 1), (3, 2), (8, 3), (16, 3)]
    if tier != "quick":
        hammer += [(nt, nl) for nt in (3, 5, 6, 12, 16) for nl in (1, 2)]
    for j, (nt, nl) in enumerate(hammer):
        pat = [[0], [0, 0, 0, 1], [0, 1], [0, 0, 0, 0, 0, 0, 0, 2], [1]][j % 5]
        oracles.append(f"o_lockhammer {nt} {nl} {iters} {enc_list(pat)}")
    return cases, oracles


def parse_ok(out):
    return bool(out) and out[0].isdigit()


def run_loom(tier=None, log=None):
    """regenerate lock_gen.rs from the working tree, build the loom crate offline, run it.
    -> (ok, message)"""
    rc, out = C.sh([sys.executable, os.path.join(C.ROOT, "gen", "lock_from_rust.py")])
    if rc != 0:
        return False, "translator failed: " + out.strip()[-300:]
    cmd = ["cargo", "build", "--offline", "--release"]
    try:
        rc, out = C.sh(cmd, cwd=LOOM_DIR, timeout=900)
        if rc != 0 and os.path.exists(os.path.join(LOOM_DIR, "Cargo.lock")) and ("offline" in out or "failed to download" in out):
            # a lock file copied from /repo pins versions that are not in the local cache: re-resolve
            os.remove(os.path.join(LOOM_DIR, "Cargo.lock"))
            rc, out = C.sh(cmd, cwd=LOOM_DIR, timeout=900)
    except subprocess.TimeoutExpired:
        return False, "loom crate build timed out"
    if rc != 0:
        errs = [l for l in out.split("\n") if l.startswith("error")]
        return False, "the lock source rewritten for loom does not build: " + " | ".join(errs[:3])[:400]
    t0 = time.time()
    try:
        p = subprocess.run([LOOM_BIN, "thorough"], stdout=subprocess.PIPE, stderr=subprocess.DEVNULL, text=True, timeout=1500)
    except subprocess.TimeoutExpired:
        return False, "loom exploration did not finish within 1500 s"
    lines = [l for l in p.stdout.split("\n") if l.startswith("LOOM")]
    if p.returncode == 0 and lines and lines[-1].startswith("LOOM ok"):
        return True, lines[-1] + f" ({time.time() - t0:.1f}s)"
    return False, (lines[0] if lines else f"loom exited with status {p.returncode}")[:600]


def c20_loom_oracle(by_case):
    """python oracle of C20 (signature of PROPS[..]['py_oracle']): case -> implementation output.
      1. every history observed in phase 1 must be accepted by `lockcheck` (implementation side; the
         comparison with the Lean driver is the correspondence diff of check.py),
      2. phase-1 runs that deadlocked / panicked,
      3. loom: all interleavings of the real source for 2-3 threads x 1-2 closures."""
    fails = list(_STATE["phase1_failures"])
    for case, out in by_case.items():
        if case.startswith("lockcheck ") and out != "ok":
            fails.append((case, "FAIL observed history of real threads is not serialisable: lockcheck=" + out))
    ok, msg = run_loom(_STATE["tier"])
    _STATE["loom"] = msg
    if not ok:
        fails.append(("o_loom thorough", "FAIL " + msg))
    return fails
