"""Case generators for the asm / bytecode families (C13, C14, C15)."""
import json, os
from .common import ROOT, I64_MIN, I64_MAX

# incl. values that become small valid numbers when narrowed to 8 / 16 / 32 bits (257, 65537, 2^32 + 1, 2^32 + 2)
BOUNDARY_WORDS = [I64_MIN, I64_MIN + 1, -(1 << 32), -65, -64, -2, -1, 0, 1, 2, 3, 7, 8, 9, 62, 63, 64, 65,
                  255, 256, 257, 4095, 4096, 4097, 10239, 10240, 10241, 65535, 65536, 65537, 1 << 31, 1 << 32, (1 << 32) + 1, (1 << 32) + 2,
                  1 << 62, I64_MAX - 1, I64_MAX]


def spec_rows():
    return json.load(open(os.path.join(ROOT, "gen", ".spec_rows.json")))


def enc_word(w):
    return (w & ((1 << 64) - 1)).to_bytes(8, "big")


def enc_op(row, w=0):
    return bytes([row["opcode"]]) + (enc_word(w) if row["imm"] else b"")


def op_tok(row, w=0):
    return f'{row["name"]}:{w}' if row["imm"] else row["name"]


def hx(b):
    return "x" + bytes(b).hex()


def rand_word(rng):
    r = rng.random()
    if r < 0.5:
        return rng.choice(BOUNDARY_WORDS)
    if r < 0.7:
        return rng.randrange(-16, 17)
    if r < 0.85:
        # a word whose bytes are opcode bytes
        rows = spec_rows()
        return int.from_bytes(bytes(rng.choice(rows)["opcode"] for _ in range(8)), "big", signed=True)
    return rng.randrange(I64_MIN, I64_MAX + 1)


def rand_ops(rng, rows, n):
    out = []
    for _ in range(n):
        r = rng.choice(rows) if rng.random() < 0.7 else rows[0]
        out.append((r, rand_word(rng) if r["imm"] else 0))
    return out


def ops_toks(ops):
    return f"{len(ops)} " + " ".join(op_tok(r, w) for r, w in ops) if ops else "0"


def ops_bytes(ops):
    return b"".join(enc_op(r, w) for r, w in ops)


def c13_cases(rng, tier):
    """Returns (cases, oracle_cases, exhaustive_note)."""
    rows = spec_rows()
    valid = {r["opcode"] for r in rows}
    cases, oracles = [], []
    cases.append("shorts")
    for b in range(256):
        cases.append(f"opcode {b}")
    # every byte with 0..9 trailing bytes (two trailing patterns)
    for b in range(256):
        for k in range(0, 10):
            for fill in (0x00, 0xFF):
                bs = bytes([b]) + bytes([fill]) * k
                cases.append(f"decode {hx(bs)}")
                cases.append(f"stream {hx(bs)}")
                oracles.append(f"o_rt_bytes {hx(bs)}")
    # the group-level parsers and opcode types: every group x every byte x 0..9 trailing bytes
    groups = []
    for r in rows:
        g = r["name"].split(".")[0]
        if g not in groups:
            groups.append(g)
    for g in groups:
        cases.append(f"gparse {g} x")
        for b in range(256):
            cases.append(f"gopcode {g} {b}")
            for k in ((0, 1, 7, 8, 9) if tier == "quick" else range(0, 10)):
                cases.append(f"gparse {g} " + hx(bytes([b]) + bytes((0xA0 + i) & 0xFF for i in range(k))))
    # mapped bytecode: slices from every start index must decode to the ops they cover
    cases += mapseq_cases(rng, rows, 60 if tier == "quick" else 2000)
    for _ in range(60 if tier == "quick" else 2000):
        cases.append(f"fromops {ops_toks(rand_ops(rng, rows, rng.randrange(0, 10)))}")
    # all opcode pairs
    for a in rows:
        for b in rows:
            ops = [(a, 1 if a["imm"] else 0), (b, -2 if b["imm"] else 0)]
            cases.append(f"encode {ops_toks(ops)}")
            cases.append(f"decode {hx(ops_bytes(ops))}")
    # immediates: bit walking + boundaries
    imms = [1 << i for i in range(63)] + [-(1 << i) for i in range(64)] + BOUNDARY_WORDS
    push = [r for r in rows if r["imm"]]
    for r in push:
        for w in imms:
            cases.append(f"encode 1 {op_tok(r, w)}")
            cases.append(f"decode {hx(enc_op(r, w))}")
            oracles.append(f"o_rt_ops 1 {op_tok(r, w)}")
    n = 300 if tier == "quick" else 20000
    for _ in range(n):
        ops = rand_ops(rng, rows, rng.randrange(0, 12))
        cases.append(f"encode {ops_toks(ops)}")
        oracles.append(f"o_rt_ops {ops_toks(ops)}")
        bs = ops_bytes(ops)
        r = rng.random()
        if r < 0.3 and bs:
            bs = bs[:rng.randrange(len(bs))]            # truncated
        elif r < 0.5:
            i = rng.randrange(len(bs) + 1)
            bs = bs[:i] + bytes([rng.randrange(256)]) + bs[i:]   # inserted byte
        elif r < 0.6:
            bs = bytes(rng.randrange(256) for _ in range(rng.randrange(0, 20)))
        cases.append(f"decode {hx(bs)}")
        cases.append(f"stream {hx(bs)}")
        oracles.append(f"o_rt_bytes {hx(bs)}")
    return cases, oracles


def c14_cases(rng, tier):
    rows = spec_rows()
    cases, oracles = [], []
    for b in range(256):
        for k in (0, 1, 7, 8, 9):
            bs = bytes([b]) + bytes([2]) * k
            cases.append(f"mapped {hx(bs)}")
            oracles.append(f"o_mapped {hx(bs)}")
    n = 400 if tier == "quick" else 20000
    for _ in range(n):
        ops = rand_ops(rng, rows, rng.randrange(0, 14))
        cases.append(f"fromops {ops_toks(ops)}")
        bs = ops_bytes(ops)
        r = rng.random()
        if r < 0.25 and bs:
            bs = bs[:rng.randrange(len(bs))]
        elif r < 0.45:
            i = rng.randrange(len(bs) + 1)
            bs = bs[:i] + bytes([rng.choice([0, 0xFF, 0x0F, rng.randrange(256)])]) + bs[i:]
        cases.append(f"mapped {hx(bs)}")
        oracles.append(f"o_mapped {hx(bs)}")
    cases += mapseq_cases(rng, rows, 120 if tier == "quick" else 4000)
    # execution through both access paths: jumps (incl. past the end), repeats, compute, state reads
    from . import gen_vm
    progs, _ = gen_vm.c09_cases(rng, tier)
    progs2, _ = gen_vm.c10_cases(rng, tier)
    step = 3 if tier == "quick" else 1
    for c in (progs + progs2)[::step]:
        c = c.replace("prog eval ", "prog ops ", 1)
        cases.append(c.replace("prog ops ", "prog bytes ", 1))
        oracles.append("o_both" + c[4:])
    P, op = gen_vm.P, gen_vm.op
    # initial states other than the default one: the halt flag set, a non-empty repeat stack, parent memory
    for body in ([P(2), op("COM"), op("POP"), op("COME"), P(5)], [P(1), op("COM"), P(1), op("ALOC"), op("STO"), op("COME"), P(5), P(6)], [P(1), P(2)]):
        for kw in (dict(halt=True), dict(halt=True, pc=1), dict(rep=[(1, 5, 0)]), dict(pm=[[4, 5]], halt=True)):
            c = gen_vm.case(body, sols=gen_vm.RICH_SOLS, **kw)
            cases.append(c.replace("prog ops ", "prog bytes ", 1))
            oracles.append("o_both" + c[4:])
    for extra in ([P(3), P(1), op("JMPIF"), P(9)], [P(5), P(1), op("JMPIF"), P(9)], [P(1)]):
        for pc in (0, 1, 4, 5, 6, 100):
            c = gen_vm.case(extra, pc=pc)
            cases.append(c.replace("prog ops ", "prog bytes ", 1))
            oracles.append("o_both" + c[4:])
    return cases, oracles


def mapseq_cases(rng, rows, n):
    """histories on one mapping: ops appended after the mapping has been read by index, listed, sliced from every start"""
    cases = []
    for _ in range(n):
        ops0 = rand_ops(rng, rows, rng.randrange(0, 5))
        steps, n_ops = [], len(ops0)
        for _ in range(rng.randrange(1, 9)):
            r = rng.random()
            if r < 0.35:
                o = rand_ops(rng, rows, 1)
                steps.append("p " + ops_toks(o).split(" ", 1)[1])
                n_ops += 1
            elif r < 0.65:
                steps.append(f"g {rng.choice([0, n_ops - 1 if n_ops else 0, n_ops, n_ops + 1, rng.randrange(0, n_ops + 2)])}")
            elif r < 0.8:
                steps.append("a")
            elif r < 0.92:
                steps.append(f"f {rng.randrange(0, n_ops + 3)}")
            else:
                steps.append("b")
        cases.append(f"mapseq {ops_toks(ops0)} {len(steps)} " + " ".join(steps))
    return cases


def c15_cases(rng, tier):
    rows = spec_rows()
    cases, oracles = [], []
    push = next(r for r in rows if r["imm"])
    eff_ops = [r for r in rows if r["name"] in ("StateRead.KeyRange", "StateRead.KeyRangeExtern",
               "StateRead.PostKeyRange", "StateRead.PostKeyRangeExtern", "Access.ThisAddress",
               "Access.ThisContractAddress")]
    subsets = list(range(64))
    # every opcode byte at every position of a Push immediate, with / without a real effect op after it
    for r in rows:
        for pos in range(8):
            imm = bytearray(8)
            imm[pos] = r["opcode"]
            w = int.from_bytes(imm, "big", signed=True)
            for tail in ([], [(rows[1], 0)], [(e, 0) for e in eff_ops[:1]]):
                ops = [(push, w)] + tail
                bs = ops_bytes(ops)
                for E in (subsets if r in eff_ops and pos in (0, 7) else (63, 1, 16, 48)):
                    cases.append(f"contains {E} {hx(bs)}")
                    oracles.append(f"o_contains {E} {hx(bs)}")
    # each single op x all subsets (+ the two undefined bits)
    for r in rows:
        for E in subsets + [64, 128, 255]:
            cases.append(f"contains {E} {hx(enc_op(r, 0))}")
    # analyze: k repetitions of one effect op (or of several) before the first occurrence of another one
    for k in (1, 5, 6, 7, 8, 20, 70):
        for a in range(6):
            for b in range(6):
                if a != b and (tier != "quick" or (a + b + k) % 3 == 0):
                    o = [(eff_ops[a], 0)] * k + [(rows[1], 0)] + [(eff_ops[b], 0)]
                    cases.append(f"analyze {ops_toks(o)}")
                    oracles.append(f"o_analyze {ops_toks(o)}")
        o = [(eff_ops[i % 5], 0) for i in range(k * 5)] + [(eff_ops[5], 0)]
        cases.append(f"analyze {ops_toks(o)}")
        oracles.append(f"o_analyze {ops_toks(o)}")
    # analyze: all subsets of effect ops, each in two orders, padded
    for mask in range(64):
        ops = [(eff_ops[i], 0) for i in range(6) if mask >> i & 1]
        for o in (ops, list(reversed(ops)), [(rows[1], 0)] + ops + [(push, 96)]):
            cases.append(f"analyze {ops_toks(o)}")
            oracles.append(f"o_analyze {ops_toks(o)}")
    # long programs: a Push at every offset, a run of plain ops of every length class after it, then an effect op
    # (block-wise / vectorised rewrites of the scan go wrong at block boundaries)
    plain = [r for r in rows if not r["imm"] and r not in eff_ops]
    for off in range(0, 136 if tier == "quick" else 264):
        for k in (0, 1, 7, 8, 9, 15, 16, 17, 31, 32, 33, 55, 56, 57, 63, 64, 65, 120, 127, 128, 129):
            if tier == "quick" and rng.random() < 0.5:
                continue
            e = rng.choice(eff_ops)
            ops = [(plain[0], 0)] * off + [(push, rng.choice([0, -1, e["opcode"]]))] + [(plain[1], 0)] * k + [(e, 0)]
            E = rng.choice([63, 63, 1 << eff_ops.index(e) if eff_ops.index(e) < 6 else 63])
            bs = ops_bytes(ops)
            cases.append(f"contains {E} {hx(bs)}")
            oracles.append(f"o_contains {E} {hx(bs)}")
    # programs longer than any documented size (Program::MAX_SIZE = 10000 bytes is not enforced by the scan): an effect op
    # only beyond byte 10000 / 16384 / 65536
    for total in (9990, 9999, 10000, 10001, 10008, 10020, 16390, 32770, 65540, 70000):
        for fill_push in (False, True):
            e = rng.choice(eff_ops)
            body = [(push, 0)] * (total // 9) if fill_push else [(plain[0], 0)] * total
            ops = body + [(e, 0)]
            for E in (63, 1 << min(eff_ops.index(e), 5)):
                bs = ops_bytes(ops)
                cases.append(f"contains {E} {hx(bs)}")
                oracles.append(f"o_contains {E} {hx(bs)}")
    # a Push that straddles a block boundary of a block-wise scan (64 … 4096 bytes), its immediate made of Push opcodes
    # (which would swallow the following real op) or of the queried effect opcode (which would be reported), after a
    # stretch without any interesting byte
    for B in (64, 128, 256, 512, 1024, 2048, 4096):
        for off in range(B - 9, B + 1):
            for kind in ("swallow", "phantom"):
                if tier == "quick" and (off + (kind == "swallow")) % 2:
                    continue
                e = rng.choice(eff_ops)
                imm = int.from_bytes(bytes([push["opcode"]] * 8 if kind == "swallow" else [e["opcode"]] * 8), "big", signed=True)
                ops = [(plain[0], 0)] * off + [(push, imm)] + ([(e, 0)] if kind == "swallow" else []) + [(plain[1], 0)] * 12
                E = 1 << min(eff_ops.index(e), 5)
                bs = ops_bytes(ops)
                cases.append(f"contains {E} {hx(bs)}")
                oracles.append(f"o_contains {E} {hx(bs)}")
    for _ in range(150 if tier == "quick" else 5000):
        ops = []
        for _ in range(rng.randrange(40, 400)):
            r_ = rng.random()
            ops.append((push, rng.choice([0, 1, -1, rng.choice(eff_ops)["opcode"]])) if r_ < 0.04 else
                       (rng.choice(eff_ops), 0) if r_ < 0.05 else (rng.choice(plain), 0))
        E = rng.choice(subsets)
        bs = ops_bytes(ops)
        cases.append(f"contains {E} {hx(bs)}")
        oracles.append(f"o_contains {E} {hx(bs)}")
    n = 300 if tier == "quick" else 20000
    for _ in range(n):
        ops = rand_ops(rng, rows + eff_ops * 3, rng.randrange(0, 12))
        E = rng.choice(subsets)
        bs = ops_bytes(ops)
        cases.append(f"contains {E} {hx(bs)}")
        oracles.append(f"o_contains {E} {hx(bs)}")
        cases.append(f"analyze {ops_toks(ops)}")
        oracles.append(f"o_analyze {ops_toks(ops)}")
        # raw bytes too (the scan is defined on any byte string)
        raw = bytes(rng.choice([rng.randrange(256), push["opcode"], rng.choice(eff_ops)["opcode"]])
                    for _ in range(rng.randrange(0, 24)))
        cases.append(f"contains {E} {hx(raw)}")
    return cases, oracles


def c13_pinned_oracle(by_case):
    """The implementation's own opcode table (read off the real ops through the `shorts` and
    `opcode` families) must equal the pinned table."""
    pinned = json.load(open(os.path.join(ROOT, "pinned", "opcodes.json")))
    fails = []
    want = " ".join(f'{r["short"]}={r["name"]}={r["opcode"]}={r["imm"]}' for r in pinned)
    got = by_case.get("shorts")
    if got is not None and got != want:
        w, g = want.split(" "), got.split(" ")
        diff = [f"{a} != pinned {b}" for a, b in zip(g, w) if a != b][:4] or [f"{len(g)} entries vs {len(w)} pinned"]
        fails.append(("shorts", "FAIL opcode table differs from the pinned table: " + "; ".join(diff)))
    by_oc = {r["opcode"]: r for r in pinned}
    for b in range(256):
        o = by_case.get(f"opcode {b}")
        if o is None:
            continue
        if b in by_oc:
            g, n = by_oc[b]["name"].split(".")
            exp = f"ok {g}({n}) {b}"
        else:
            exp = f"err InvalidOpcode:{b}"
        if o != exp:
            fails.append((f"opcode {b}", f"FAIL byte {b}: implementation says `{o}`, pinned table says `{exp}`"))
    return fails
