//! `harness-loom [quick|thorough]` — explores with loom ALL interleavings (at the synchronisation
//! points of the real lock source, `lock_gen.rs`) of small contended systems and checks that the
//! closures were serialised:
//!   * the values returned by `n` increments are exactly 0, 1, …, n-1 (each closure saw the effect
//!     of all closures before it, no two saw the same value),
//!   * each thread's own returned values increase (program order),
//!   * the final value is the number of increments (no lost update),
//!   * no execution deadlocks (loom reports a deadlock as a panic).
//! Closures are read – yield – write, so that an `apply` that does not hold the lock across the
//! closure is caught.  Prints `LOOM ok <n configs> …` and exits 0, or `LOOM FAIL <what>` and exits 1.
mod lock_gen;

use lock_gen::StdLock;
use loom::sync::Arc;
use std::sync::atomic::{AtomicBool, AtomicUsize, Ordering};
use std::sync::Mutex;

/// description of the configuration being explored (for the panic hook)
static CURRENT: Mutex<String> = Mutex::new(String::new());
static REPORTED: AtomicBool = AtomicBool::new(false);

/// `scripts[t]` = the locks thread `t` increments, in order
fn explore(nlocks: usize, scripts: &'static [&'static [usize]]) -> Result<usize, ()> {
    let execs = std::sync::Arc::new(AtomicUsize::new(0));
    let counter = execs.clone();
    let res = std::panic::catch_unwind(move || {
        let mut b = loom::model::Builder::new();
        b.max_branches = 100_000;
        b.check(move || {
            counter.fetch_add(1, Ordering::Relaxed);
            let locks: Arc<Vec<StdLock<i64>>> = Arc::new((0..nlocks).map(|_| StdLock::new(0i64)).collect());
            let handles: Vec<_> = scripts
                .iter()
                .map(|script| {
                    let locks = locks.clone();
                    loom::thread::spawn(move || {
                        script
                            .iter()
                            .map(|&l| {
                                let old = locks[l].apply(|v| {
                                    let old = *v;
                                    loom::thread::yield_now();
                                    *v = old + 1;
                                    old
                                });
                                (l, old)
                            })
                            .collect::<Vec<(usize, i64)>>()
                    })
                })
                .collect();
            let rets: Vec<Vec<(usize, i64)>> = handles.into_iter().map(|h| h.join().unwrap()).collect();
            for l in 0..nlocks {
                let n = scripts.iter().flat_map(|s| s.iter()).filter(|&&x| x == l).count() as i64;
                let mut seen: Vec<i64> = rets.iter().flatten().filter(|(x, _)| *x == l).map(|(_, v)| *v).collect();
                seen.sort();
                assert!(
                    seen == (0..n).collect::<Vec<i64>>(),
                    "lock {l}: returned values {rets:?} are not those of a serial execution of {n} increments"
                );
                for r in &rets {
                    let mine: Vec<i64> = r.iter().filter(|(x, _)| *x == l).map(|(_, v)| *v).collect();
                    assert!(mine.windows(2).all(|w| w[0] < w[1]), "lock {l}: program order violated: {rets:?}");
                }
                let fin = locks[l].apply(|v| *v);
                assert!(fin == n, "lock {l}: lost update: final value {fin} after {n} increments, returned {rets:?}");
            }
        });
    });
    match res {
        Ok(()) => Ok(execs.load(Ordering::Relaxed)),
        Err(_) => Err(()),
    }
}

fn main() {
    // A failed check or a deadlock found by loom is a panic inside `loom::model`.  It is reported
    // here, at the first panic: unwinding out of a loom execution can itself panic in a destructor
    // (the process then aborts, still with a non-zero status and after this line was printed).
    std::panic::set_hook(Box::new(|info| {
        let msg = info
            .payload()
            .downcast_ref::<String>()
            .cloned()
            .or_else(|| info.payload().downcast_ref::<&str>().map(|s| s.to_string()))
            .unwrap_or_else(|| "panic".into());
        if !REPORTED.swap(true, Ordering::SeqCst) {
            let cur = CURRENT.lock().map(|s| s.clone()).unwrap_or_default();
            let first: String = msg.lines().next().unwrap_or("").chars().take(400).collect();
            println!("LOOM FAIL {cur}: {first}");
            let _ = std::io::Write::flush(&mut std::io::stdout());
        }
    }));
    let thorough = std::env::args().nth(1).as_deref() != Some("quick");
    // (locks, scripts): 2 and 3 threads x 1..2 closures on one lock, plus two locks taken in opposite order
    let mut configs: Vec<(usize, &'static [&'static [usize]])> = vec![
        (1, &[&[0], &[0]]),
        (1, &[&[0, 0], &[0]]),
        (1, &[&[0, 0], &[0, 0]]),
        (1, &[&[0], &[0], &[0]]),
        (2, &[&[0, 1], &[1, 0]]),
    ];
    if thorough {
        configs.push((1, &[&[0, 0], &[0], &[0]]));
        configs.push((1, &[&[0, 0], &[0, 0], &[0]]));
        configs.push((1, &[&[0, 0], &[0, 0], &[0, 0]]));
        configs.push((2, &[&[0, 1], &[1, 0], &[0]]));
    }
    let start = std::time::Instant::now();
    let mut total = 0usize;
    for (i, (nlocks, scripts)) in configs.iter().enumerate() {
        *CURRENT.lock().unwrap() = format!("config {i} locks={nlocks} scripts={scripts:?}");
        match explore(*nlocks, scripts) {
            Ok(n) => total += n,
            Err(()) => std::process::exit(1),
        }
    }
    println!("LOOM ok {} configs, {} executions, {} ms", configs.len(), total, start.elapsed().as_millis());
}
