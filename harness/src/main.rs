//! Correspondence harness: runs the *real* essential-base code on line-protocol cases.
//! `harness run` reads cases on stdin (`<id> <family> <tokens…>`) and prints `<id> <result>`.
mod fam_asm;
mod fam_check;
mod fam_lock;
mod fam_crypto;
mod fam_sign;
mod fam_types;
mod fam_vm;
mod gen_short;
mod orc_asm;
mod orc_vm;
mod parse;

use std::io::{BufRead, Write};

fn run_line(line: &str) -> String {
    let toks: Vec<&str> = line.trim().split(' ').collect();
    if toks.len() < 2 {
        return "bad-line".into();
    }
    let (id, fam) = (toks[0], toks[1]);
    let rest = &toks[2..];
    let res = std::panic::catch_unwind(|| {
        let mut t = parse::Toks::new(rest);
        if let Some(r) = fam_asm::run(fam, &mut t) {
            return r;
        }
        if let Some(r) = fam_vm::run(fam, &mut t) {
            return r;
        }
        if let Some(r) = fam_types::run(fam, &mut t) {
            return r;
        }
        if let Some(r) = fam_types::run_oracle(fam, &mut t) {
            return r;
        }
        if let Some(r) = fam_check::run(fam, &mut t) {
            return r;
        }
        if let Some(r) = fam_sign::run(fam, &mut t) {
            return r;
        }
        if let Some(r) = fam_crypto::run(fam, &mut t) {
            return r;
        }
        if let Some(r) = orc_vm::run(fam, &mut t) {
            return r;
        }
        if let Some(r) = orc_asm::run(fam, &mut t) {
            return r;
        }
        if let Some(r) = fam_lock::run(fam, &mut t) {
            return r;
        }
        Err("bad-family".to_string())
    });
    match res {
        Ok(Ok(s)) => format!("{id} {s}"),
        Ok(Err(e)) if e == "bad-family" => format!("{id} bad-family"),
        Ok(Err(_)) => format!("{id} bad-line"),
        Err(_) => format!("{id} panic"),
    }
}

fn main() {
    std::panic::set_hook(Box::new(|_| {}));
    let stdin = std::io::stdin();
    let stdout = std::io::stdout();
    let mut out = std::io::BufWriter::new(stdout.lock());
    for line in stdin.lock().lines() {
        let line = line.unwrap();
        if line.trim().is_empty() {
            continue;
        }
        // progress marker so that a hard abort can be attributed to a case
        if std::env::var_os("HARNESS_TRACE").is_some() {
            eprintln!("{}", line.split(' ').next().unwrap_or(""));
        }
        writeln!(out, "{}", run_line(&line)).unwrap();
        // flushed per case so that a hang or abort can be attributed to the case that caused it
        out.flush().unwrap();
    }
    out.flush().unwrap();
}
