//! Correspondence harness: runs the *real* essential-base code on line-protocol cases.
//! `harness run` reads cases on stdin (`<id> <family> <tokens…>`) and prints `<id> <result>`.
mod fam_asm;
mod fam_check;
mod fam_lock;
mod fam_serde;
mod fam_crypto;
mod fam_sign;
mod fam_types;
mod fam_vm;
mod gen_short;
mod orc_asm;
mod orc_vm;
mod parse;

use std::io::{BufRead, Write};

fn dispatch(fam: &str, rest: &[&str]) -> Result<String, String> {
    let mut t = parse::Toks::new(rest);
    if fam == "o_pool" {
        return pool_oracle(&mut t);
    }
    if let Some(r) = fam_asm::run(fam, &mut t) {
        return r;
    }
    if let Some(r) = fam_vm::run(fam, &mut t) {
        return r;
    }
    if let Some(r) = fam_types::run(fam, &mut t) {
        return r;
    }
    if let Some(r) = fam_types::run_oracle(fam, &mut t) {
        return r;
    }
    if let Some(r) = fam_check::run(fam, &mut t) {
        return r;
    }
    if let Some(r) = fam_sign::run(fam, &mut t) {
        return r;
    }
    if let Some(r) = fam_crypto::run(fam, &mut t) {
        return r;
    }
    if let Some(r) = orc_vm::run(fam, &mut t) {
        return r;
    }
    if let Some(r) = orc_asm::run(fam, &mut t) {
        return r;
    }
    if let Some(r) = fam_lock::run(fam, &mut t) {
        return r;
    }
    if let Some(r) = fam_serde::run(fam, &mut t) {
        return r;
    }
    Err("bad-family".to_string())
}

/// C02: `o_pool <k> <size_1..size_k> <reps> <family> <tokens…>` — the inner case is run on the calling thread's
/// default pool once, then `reps` times inside a dedicated rayon pool of every listed size (with state-read jitter
/// derived from the repetition number); every result must equal the result on a pool of one worker.
fn pool_oracle(t: &mut parse::Toks) -> Result<String, String> {
    let sizes = t.list(|t| t.nat())?;
    let reps = t.nat()?;
    let fam = t.tok()?.to_string();
    let rest: Vec<&str> = t.rest();
    let run_in = |threads: usize, jitter: u64| -> Result<String, String> {
        let pool = rayon::ThreadPoolBuilder::new().num_threads(threads).build().map_err(|e| e.to_string())?;
        fam_check::JITTER.store(jitter, std::sync::atomic::Ordering::SeqCst);
        let r = pool.install(|| match std::panic::catch_unwind(|| dispatch(&fam, &rest)) {
            Ok(r) => r,
            Err(_) => Ok("panic".to_string()),
        });
        fam_check::JITTER.store(0, std::sync::atomic::Ordering::SeqCst);
        r
    };
    let base = run_in(1, 0)?;
    for &n in &sizes {
        for rep in 0..reps {
            let got = run_in(n, if rep == 0 { 0 } else { rep as u64 * 7919 + n as u64 })?;
            if got != base {
                return Ok(format!("FAIL pool of {n} workers (repetition {rep}) gives `{got}`, one worker gives `{base}`"));
            }
        }
    }
    Ok("ok".into())
}

fn run_line(line: &str) -> String {
    let toks: Vec<&str> = line.trim().split(' ').collect();
    if toks.len() < 2 {
        return "bad-line".into();
    }
    let (id, fam) = (toks[0], toks[1]);
    let rest = &toks[2..];
    let res = std::panic::catch_unwind(|| dispatch(fam, rest));
    match res {
        Ok(Ok(s)) => format!("{id} {s}"),
        Ok(Err(e)) if e == "bad-family" => format!("{id} bad-family"),
        Ok(Err(_)) => format!("{id} bad-line"),
        Err(_) => format!("{id} panic"),
    }
}

fn main() {
    std::panic::set_hook(Box::new(|_| {}));
    let stdin = std::io::stdin();
    let stdout = std::io::stdout();
    let mut out = std::io::BufWriter::new(stdout.lock());
    for line in stdin.lock().lines() {
        let line = line.unwrap();
        if line.trim().is_empty() {
            continue;
        }
        // progress marker so that a hard abort can be attributed to a case
        if std::env::var_os("HARNESS_TRACE").is_some() {
            eprintln!("{}", line.split(' ').next().unwrap_or(""));
        }
        writeln!(out, "{}", run_line(&line)).unwrap();
        // flushed per case so that a hang or abort can be attributed to the case that caused it
        out.flush().unwrap();
    }
    out.flush().unwrap();
}
