//! checker families: the real `essential_check::solution` entry points on a solution set,
//! predicates, programs and a map-backed pre-state.
use crate::fam_types::p_predicate;
use crate::fam_vm::{p_solution, StErr};
use crate::parse::*;
use essential_check::solution::{self as chks, CheckPredicateConfig, PredicateError, PredicatesError, RunMode};
use essential_types::{
    predicate::{Predicate, Program},
    solution::{Solution, SolutionSet},
    ContentAddress, Key, PredicateAddress, Word,
};
use essential_vm::StateRead;
use std::{collections::HashMap, sync::Arc};

/// non-zero: every state read sleeps a few microseconds derived from this seed and the key (schedule jitter, C02)
pub static JITTER: std::sync::atomic::AtomicU64 = std::sync::atomic::AtomicU64::new(0);

/// per-key values (missing keys read as empty) plus *raw* answers: a read that starts at a raw key gets exactly the listed
/// values back, however many were asked for (a state that answers with fewer / more values than requested)
#[derive(Clone, Default)]
pub struct MapState(
    pub Arc<HashMap<(ContentAddress, Key), Result<Vec<Word>, i64>>>,
    pub Arc<HashMap<(ContentAddress, Key), Vec<Vec<Word>>>>,
);

pub fn next_key(mut key: Key) -> Option<Key> {
    for w in key.iter_mut().rev() {
        if *w == Word::MAX {
            *w = Word::MIN;
        } else {
            *w += 1;
            return Some(key);
        }
    }
    None
}

impl StateRead for MapState {
    type Error = StErr;
    fn key_range(&self, c: ContentAddress, mut key: Key, n: usize) -> Result<Vec<Vec<Word>>, StErr> {
        let j = JITTER.load(std::sync::atomic::Ordering::Relaxed);
        if j != 0 {
            let h = key.iter().fold(j, |a, w| a.wrapping_mul(6364136223846793005).wrapping_add(*w as u64 ^ 0x9e37));
            std::thread::sleep(std::time::Duration::from_micros((h >> 33) % 300));
        }
        if let Some(vs) = self.1.get(&(c.clone(), key.clone())) {
            return Ok(vs.clone());
        }
        let mut out = vec![];
        for _ in 0..n {
            match self.0.get(&(c.clone(), key.clone())) {
                Some(Ok(v)) => out.push(v.clone()),
                Some(Err(code)) => return Err(StErr(*code)),
                None => out.push(vec![]),
            }
            match next_key(key) {
                Some(k) => key = k,
                None => break,
            }
        }
        Ok(out)
    }
}

pub struct CheckCase {
    pub collect_all: bool,
    pub sols: Vec<Solution>,
    pub preds: HashMap<PredicateAddress, Arc<Predicate>>,
    pub progs: HashMap<ContentAddress, Arc<Program>>,
    pub state: MapState,
}

fn addr32(v: Vec<u8>) -> ContentAddress {
    let mut a = [0u8; 32];
    let n = v.len().min(32);
    a[..n].copy_from_slice(&v[..n]);
    ContentAddress(a)
}

pub fn p_state(t: &mut Toks) -> R<MapState> {
    let mut raw = HashMap::new();
    let st = t.list(|t| {
        let c = addr32(t.bytes()?);
        let k = t.words()?;
        let r = match t.tok()? {
            "v" => Ok(t.words()?),
            "e" => Err(t.int()?),
            "r" => {
                let vs = t.list(|t| t.words())?;
                raw.insert((c.clone(), k.clone()), vs);
                return Ok(None);
            }
            _ => return Err("state entry".into()),
        };
        Ok(Some(((c, k), r)))
    })?;
    Ok(MapState(Arc::new(st.into_iter().flatten().collect()), Arc::new(raw)))
}

fn show_data(d: &[chks::DataOutput]) -> String {
    let ms: Vec<String> = d.iter().map(|o| match o { chks::DataOutput::Memory(m) => show_words(&m.iter().copied().collect::<Vec<_>>()) }).collect();
    format!("[{}]", ms.join(","))
}

pub fn run_api(entry: &str, modes: &str, sol_ix: usize, c: &CheckCase, post: MapState) -> String {
    let preds = c.preds.clone();
    let get_pred = move |a: &PredicateAddress| preds.get(a).cloned().unwrap_or_default();
    let progs = c.progs.clone();
    let get_prog = move |a: &ContentAddress| progs.get(a).cloned().unwrap_or_default();
    let state = (c.state.clone(), post);
    let config = Arc::new(CheckPredicateConfig { collect_all_failures: c.collect_all });
    let mode_of = |ch: char| if ch == '0' { RunMode::Outputs } else { RunMode::Checks };
    let mut cache: HashMap<u16, chks::Cache> = HashMap::new();
    let mut out = vec![];
    match entry {
        "cac" => {
            let mut set = SolutionSet { solutions: c.sols.clone() };
            for ch in modes.chars() {
                match chks::check_and_compute_solution_set(&state, set.clone(), get_pred.clone(), get_prog.clone(), config.clone(), mode_of(ch), &mut cache) {
                    Ok((gas, s2)) => {
                        out.push(show_result(Ok((gas, s2.clone()))));
                        set = s2;
                    }
                    Err(e) => {
                        out.push(show_result(Err(e)));
                        break;
                    }
                }
            }
        }
        "csp" => {
            let set = Arc::new(SolutionSet { solutions: c.sols.clone() });
            for ch in modes.chars() {
                match chks::check_set_predicates(&state, set.clone(), get_pred.clone(), get_prog.clone(), config.clone(), mode_of(ch), &mut cache) {
                    Ok(o) => {
                        let ds: Vec<String> = o.data.iter().map(|d| format!("{}:{}", d.solution_index, show_data(&d.data))).collect();
                        out.push(format!("ok {} {}", o.gas, ds.join(" ")));
                    }
                    Err(e) => {
                        out.push(show_result(Err(e)));
                        break;
                    }
                }
            }
        }
        "cp" => {
            let set = Arc::new(SolutionSet { solutions: c.sols.clone() });
            let Some(sol) = c.sols.get(sol_ix) else { return "bad-index".into() };
            let pred = get_pred(&sol.predicate_to_solve);
            let mut pc: chks::Cache = HashMap::new();
            for ch in modes.chars() {
                let ctx = chks::Ctx { run_mode: mode_of(ch), cache: &mut pc };
                match chks::check_predicate(&state, set.clone(), pred.clone(), get_prog.clone(), sol_ix as u16, &config, ctx) {
                    Ok((gas, data)) => out.push(format!("ok {} {}", gas, show_data(&data))),
                    Err(e) => {
                        out.push(format!("err {}", show_pred_error(&e)));
                        break;
                    }
                }
            }
        }
        _ => return "bad-entry".into(),
    }
    out.join(" | ")
}

pub fn p_check_case(t: &mut Toks) -> R<CheckCase> {
    let collect_all = t.nat()? == 1;
    let sols = t.list(p_solution)?;
    let preds = t
        .list(|t| {
            let c = addr32(t.bytes()?);
            let a = addr32(t.bytes()?);
            let p = p_predicate(t)?;
            Ok((PredicateAddress { contract: c, predicate: a }, Arc::new(p)))
        })?
        .into_iter()
        .collect();
    let progs = t
        .list(|t| {
            let a = addr32(t.bytes()?);
            let b = t.bytes()?;
            Ok((a, Arc::new(Program(b))))
        })?
        .into_iter()
        .collect();
    let mut raw = HashMap::new();
    let st = t.list(|t| {
        let c = addr32(t.bytes()?);
        let k = t.words()?;
        let r = match t.tok()? {
            "v" => Ok(t.words()?),
            "e" => Err(t.int()?),
            "r" => {
                let vs = t.list(|t| t.words())?;
                raw.insert((c.clone(), k.clone()), vs);
                return Ok(None);
            }
            _ => return Err("state entry".into()),
        };
        Ok(Some(((c, k), r)))
    })?;
    Ok(CheckCase { collect_all, sols, preds, progs, state: MapState(Arc::new(st.into_iter().flatten().collect()), Arc::new(raw)) })
}

pub fn show_program_error(e: &chks::ProgramError<StErr>) -> String {
    use chks::ProgramError as P;
    match e {
        P::OpsFromBytesError(_) => "OpsFromBytesError".into(),
        P::ParentStackConcatOverflow(_) => "ParentStackConcatOverflow".into(),
        P::ParentMemoryConcatOverflow(_) => "ParentMemoryConcatOverflow".into(),
        P::Vm(e) => format!("Vm:{}:{}", e.0, crate::fam_vm::show_op_err(&e.1, |s| format!("StateRead({})", s.0))),
    }
}

pub fn show_pred_error(e: &PredicateError<StErr>) -> String {
    match e {
        PredicateError::InvalidNodeEdges(n) => format!("InvalidNodeEdges:{n}"),
        PredicateError::ProgramErrors(pe) => {
            // the inner vector is private: recover (node, error) pairs from the Debug rendering is fragile,
            // so use the Display impl which lists `node: {:#?}`; we re-run nothing and only print node indices + kinds
            let dbg = format!("{:?}", pe);
            format!("ProgramErrors:{}", canon_program_errors(&dbg))
        }
        PredicateError::ConstraintsUnsatisfied(u) => format!("Unsatisfied:{}", show_nats(&u.0)),
        PredicateError::Mutations(chks::MutationsError::DuplicateMutations(_)) => "Mutations:Duplicate".into(),
        PredicateError::Mutations(chks::MutationsError::DecodeError(_)) => "Mutations:Decode".into(),
    }
}

/// `ProgramErrors([(node, ProgramError), ..])` Debug text -> `[node:kind;...]` (kinds only; VM errors keep pc + category)
fn canon_program_errors(dbg: &str) -> String {
    // Debug looks like: ProgramErrors([(0, Vm(ExecError(3, Stack(Empty)))), (2, OpsFromBytesError(..))])
    let mut out = vec![];
    let inner = dbg.trim_start_matches("ProgramErrors(").trim_end_matches(')');
    let mut depth = 0i32;
    let mut start = None;
    for (i, ch) in inner.char_indices() {
        match ch {
            '(' | '[' | '{' => {
                if depth == 1 && ch == '(' {
                    start = Some(i + 1);
                }
                depth += 1;
            }
            ')' | ']' | '}' => {
                depth -= 1;
                if depth == 1 && ch == ')' {
                    if let Some(s) = start.take() {
                        let item = &inner[s..i];
                        if let Some((node, rest)) = item.split_once(", ") {
                            out.push(format!("{}:{}", node.trim(), canon_kind(rest)));
                        }
                    }
                }
            }
            _ => {}
        }
    }
    format!("[{}]", out.join(";"))
}

fn canon_kind(rest: &str) -> String {
    if rest.starts_with("Vm(ExecError(") {
        let body = &rest["Vm(ExecError(".len()..];
        let (pc, err) = body.split_once(", ").unwrap_or(("?", ""));
        return format!("Vm:{}:{}", pc, canon_op_error(err));
    }
    rest.split('(').next().unwrap_or(rest).to_string()
}

/// OpError Debug -> `Category.Variant` as printed by fam_vm::show_op_err
fn canon_op_error(e: &str) -> String {
    let e = e.trim_end_matches(')');
    let mut parts: Vec<&str> = e.split('(').map(|p| p.trim_end_matches(')')).collect();
    // drop payloads (numbers, lists)
    parts.retain(|p| p.chars().next().map(|c| c.is_ascii_uppercase()).unwrap_or(false));
    let cat = parts.first().copied().unwrap_or("?");
    match cat {
        "StateRead" => format!("StateRead({})", e.split("StErr(").nth(1).map(|s| s.trim_end_matches(')')).unwrap_or("?")),
        "Compute" if parts.get(1) == Some(&"Exec") => "Compute.Exec".into(),
        "PcOverflow" => "PcOverflow".into(),
        "OutOfGas" => "OutOfGas".into(),
        "TotalControlFlow" if parts.get(1) == Some(&"Panic") => "TotalControlFlow.Panic".into(),
        _ => parts.iter().map(|p| p.split(|c: char| !c.is_alphanumeric()).next().unwrap_or("")).collect::<Vec<_>>().join("."),
    }
}

pub fn show_result(r: Result<(u64, SolutionSet), PredicatesError<StErr>>) -> String {
    match r {
        Ok((gas, set)) => {
            let sols: Vec<String> = set
                .solutions
                .iter()
                .map(|s| {
                    let ms: Vec<String> = s.state_mutations.iter().map(|m| format!("{}->{}", show_words(&m.key), show_words(&m.value))).collect();
                    format!("[{}]", ms.join(","))
                })
                .collect();
            format!("ok {} {}", gas, sols.join(" "))
        }
        Err(PredicatesError::Failed(errs)) => {
            let items: Vec<String> = errs.0.iter().map(|(i, e)| format!("({},{})", i, show_pred_error(e))).collect();
            format!("err [{}]", items.join(","))
        }
        Err(PredicatesError::GasOverflowed) => "err GasOverflowed".into(),
        Err(PredicatesError::ExistingMutations) => "err ExistingMutations".into(),
    }
}

fn dup_slot(sols: &[Solution]) -> Option<String> {
    let mut seen = std::collections::HashSet::new();
    for s in sols {
        for m in &s.state_mutations {
            if !seen.insert((s.predicate_to_solve.contract.clone(), m.key.clone())) {
                return Some(format!("{}", show_words(&m.key)));
            }
        }
    }
    None
}

fn two_pass_raw(c: &CheckCase, sols: Vec<Solution>) -> Result<(u64, SolutionSet), PredicatesError<StErr>> {
    let preds = c.preds.clone();
    let get_pred = move |a: &PredicateAddress| preds.get(a).cloned().unwrap_or_default();
    let progs = c.progs.clone();
    let get_prog = move |a: &ContentAddress| progs.get(a).cloned().unwrap_or_default();
    chks::check_and_compute_solution_set_two_pass(
        &c.state,
        SolutionSet { solutions: sols },
        get_pred,
        get_prog,
        Arc::new(CheckPredicateConfig { collect_all_failures: c.collect_all }),
    )
}

/// verdict with per-solution sorted mutations; `with_gas`: include the gas
fn summary(r: Result<(u64, SolutionSet), PredicatesError<StErr>>, with_gas: bool) -> String {
    match r {
        Ok((gas, set)) => {
            let sols: Vec<String> = set
                .solutions
                .iter()
                .map(|s| {
                    let mut ms: Vec<String> =
                        s.state_mutations.iter().map(|m| format!("{}->{}", show_words(&m.key), show_words(&m.value))).collect();
                    ms.sort();
                    format!("[{}]", ms.join(","))
                })
                .collect();
            if with_gas {
                format!("ok {} {}", gas, sols.join(" "))
            } else {
                format!("ok {}", sols.join(" "))
            }
        }
        Err(PredicatesError::Failed(errs)) => {
            let all_unsat = errs.0.iter().all(|(_, e)| matches!(e, PredicateError::ConstraintsUnsatisfied(_)));
            let all_invalid = errs.0.iter().all(|(_, e)| matches!(e, PredicateError::InvalidNodeEdges(_)));
            if all_unsat {
                let items: Vec<String> = errs
                    .0
                    .iter()
                    .map(|(i, e)| match e {
                        PredicateError::ConstraintsUnsatisfied(u) => {
                            let mut v = u.0.clone();
                            v.sort();
                            format!("{}:{}", i, v.iter().map(|x| x.to_string()).collect::<Vec<_>>().join(","))
                        }
                        _ => unreachable!(),
                    })
                    .collect();
                format!("unsat {}", items.join(";"))
            } else if all_invalid {
                "invalid".into()
            } else {
                "err".into()
            }
        }
        Err(_) => "err".into(),
    }
}

pub fn ref_oracle(c: &CheckCase, exp: &str) -> String {
    let got = summary(two_pass_raw(c, c.sols.clone()), false);
    if got == exp {
        "ok".into()
    } else {
        format!("FAIL got `{}` but the reference semantics gives `{}`", got, exp)
    }
}

/// C04: content address, set validation and two-pass result of a set and of a reordering of it
pub fn perm_oracle(c: &CheckCase, perm: &[usize]) -> String {
    let n = c.sols.len();
    let mut sorted = perm.to_vec();
    sorted.sort();
    if sorted != (0..n).collect::<Vec<_>>() {
        return "FAIL harness: not a permutation".into();
    }
    let a: Vec<Solution> = c.sols.clone();
    let b: Vec<Solution> = perm.iter().map(|&i| c.sols[i].clone()).collect();
    let sa = SolutionSet { solutions: a.clone() };
    let sb = SolutionSet { solutions: b.clone() };
    if essential_hash::content_addr(&sa) != essential_hash::content_addr(&sb) {
        return "FAIL content address differs between the two orders".into();
    }
    let va = chks::check_set(&sa);
    let vb = chks::check_set(&sb);
    if va.is_ok() != vb.is_ok() {
        return format!("FAIL check_set verdict differs: {:?} vs {:?}", va.is_ok(), vb.is_ok());
    }
    if va.is_err() {
        return "ok rejected".into();
    }
    if let Some(k) = dup_slot(&a) {
        return format!("FAIL check_set accepted a set with two mutations of one contract and key {k}");
    }
    let ra = two_pass_raw(c, a);
    let rb = two_pass_raw(c, b);
    match (ra, rb) {
        (Ok((ga, seta)), Ok((gb, setb))) => {
            if ga != gb {
                return format!("FAIL gas differs: {ga} vs {gb}");
            }
            for (j, &i) in perm.iter().enumerate() {
                if seta.solutions[i].state_mutations != setb.solutions[j].state_mutations {
                    return format!(
                        "FAIL mutations of solution {i} differ between the orders: {:?} vs {:?}",
                        seta.solutions[i].state_mutations, setb.solutions[j].state_mutations
                    );
                }
            }
            if let Some(k) = dup_slot(&seta.solutions) {
                return format!("FAIL the returned set proposes two values for one contract and key {k}");
            }
            if chks::check_set(&seta).is_err() && seta.solutions.iter().all(|s| s.state_mutations.len() <= 1000) {
                return format!("FAIL the returned set is rejected by check_set: {:?}", chks::check_set(&seta));
            }
            "ok accepted".into()
        }
        (Err(_), Err(_)) => "ok failed".into(),
        (ra, rb) => format!("FAIL two-pass verdict differs between the orders: {} vs {}", show_result(ra), show_result(rb)),
    }
}

pub fn run_two_pass(c: &CheckCase) -> String {
    let preds = c.preds.clone();
    let get_pred = move |a: &PredicateAddress| preds.get(a).cloned().unwrap_or_default();
    let progs = c.progs.clone();
    let get_prog = move |a: &ContentAddress| progs.get(a).cloned().unwrap_or_default();
    let r = chks::check_and_compute_solution_set_two_pass(
        &c.state,
        SolutionSet { solutions: c.sols.clone() },
        get_pred,
        get_prog,
        Arc::new(CheckPredicateConfig { collect_all_failures: c.collect_all }),
    );
    show_result(r)
}

pub fn run(fam: &str, t: &mut Toks) -> Option<R<String>> {
    let r = (|| -> R<String> {
        match fam {
            "twopass" => {
                let c = p_check_case(t)?;
                t.done()?;
                Ok(run_two_pass(&c))
            }
            "o_expect" => {
                // expected output (hex-encoded text, `*` = any gas) computed independently by the generator
                let exp = String::from_utf8(t.bytes()?).map_err(|e| e.to_string())?;
                let fam = t.tok()?;
                if fam != "twopass" {
                    return Err("o_expect family".into());
                }
                let c = p_check_case(t)?;
                t.done()?;
                let got = run_two_pass(&c);
                let strip = |s: &str| -> String {
                    let mut p: Vec<&str> = s.split(' ').collect();
                    if p.len() >= 2 && p[0] == "ok" {
                        p[1] = "*";
                    }
                    p.join(" ")
                };
                Ok(if strip(&got) == strip(&exp) { "ok".into() } else { format!("FAIL got `{}` expected `{}`", got, exp) })
            }
            "api" => {
                // the single-mode public entry points with an explicitly given post-state view:
                //   api <entry> <modes> <solution index> <case> <post-state entries>
                //   entry: cac = check_and_compute_solution_set, csp = check_set_predicates, cp = check_predicate
                //   modes: 0 = Outputs, 1 = Checks, 01 = Outputs then Checks over one shared cache
                let entry = t.tok()?.to_string();
                let modes = t.tok()?.to_string();
                let sol_ix = t.nat()?;
                let c = p_check_case(t)?;
                let post = p_state(t)?;
                t.done()?;
                Ok(run_api(&entry, &modes, sol_ix, &c, post))
            }
            "o_big" => {
                // C06: predicates larger than any decoder can produce (node indices beyond u16), built here rather than
                // sent over the line protocol: `o_big <nodes> <shape> <k> <entry> <modes>`; any result or typed error is fine
                let n = t.nat()?;
                let shape = t.tok()?.to_string();
                let k = t.nat()?;
                let entry = t.tok()?.to_string();
                let modes = t.tok()?.to_string();
                t.done()?;
                if n > 200_000 || k > 65_535 || k >= n {
                    return Err("o_big size".into());
                }
                let leaf = Program(essential_vm::asm::to_bytes([essential_vm::asm::Stack::Push(1).into()]).collect());
                let leaf_ca = essential_hash::content_addr(&leaf);
                let par = Program(essential_vm::asm::to_bytes([essential_vm::asm::Stack::Pop.into()]).collect());
                let par_ca = essential_hash::content_addr(&par);
                let mut nodes = vec![essential_types::predicate::Node { edge_start: essential_types::predicate::Edge::MAX, program_address: leaf_ca.clone() }; n];
                let edges: Vec<u16> = (1..=k as u16).collect();
                match shape.as_str() {
                    "leaves" => {}
                    // node 0 is the parent of nodes 1..=k
                    "fan" if k > 0 => nodes[0] = essential_types::predicate::Node { edge_start: 0, program_address: par_ca.clone() },
                    // the last node is the parent of nodes 1..=k
                    "tailfan" if k > 0 => nodes[n - 1] = essential_types::predicate::Node { edge_start: 0, program_address: par_ca.clone() },
                    _ => return Err("o_big shape".into()),
                }
                let pred = Predicate { nodes, edges: if shape == "leaves" { vec![] } else { edges } };
                let addr = PredicateAddress { contract: ContentAddress([1; 32]), predicate: ContentAddress([2; 32]) };
                let c = CheckCase {
                    collect_all: true,
                    sols: vec![Solution { predicate_to_solve: addr.clone(), predicate_data: vec![], state_mutations: vec![] }],
                    preds: [(addr, Arc::new(pred))].into_iter().collect(),
                    progs: [(leaf_ca, Arc::new(leaf)), (par_ca, Arc::new(par))].into_iter().collect(),
                    state: MapState(Default::default(), Default::default()),
                };
                let r = if entry == "twopass" { run_two_pass(&c) } else { run_api(&entry, &modes, 0, &c, MapState(Default::default(), Default::default())) };
                let _ = r;
                Ok("ok".into())
            }
            "o_ref" => {
                // C01: expectation computed by the generator's reference semantics of the predicate graph
                let exp = String::from_utf8(t.bytes()?).map_err(|e| e.to_string())?;
                let fam = t.tok()?;
                if fam != "twopass" {
                    return Err("o_ref family".into());
                }
                let c = p_check_case(t)?;
                t.done()?;
                Ok(ref_oracle(&c, &exp))
            }
            "o_same" => {
                // C01: the same graph under several numberings: same verdict, gas and (sorted) data outputs
                let k = t.nat()?;
                let mut firsts: Option<String> = None;
                for _ in 0..k {
                    if t.tok()? != "twopass" {
                        return Err("o_same family".into());
                    }
                    let c = p_check_case(t)?;
                    let mut s = summary(two_pass_raw(&c, c.sols.clone()), true);
                    if s.starts_with("unsat ") {
                        // node indices follow the numbering (o_ref checks them per numbering): compare how many per solution
                        s = format!(
                            "unsat {}",
                            s[6..].split(';').map(|e| {
                                let (i, l) = e.split_once(':').unwrap_or((e, ""));
                                format!("{}:#{}", i, l.split(',').count())
                            }).collect::<Vec<_>>().join(";")
                        );
                    }
                    match &firsts {
                        None => firsts = Some(s),
                        Some(f) if *f != s => return Ok(format!("FAIL numberings disagree: `{}` vs `{}`", f, s)),
                        _ => {}
                    }
                }
                t.done()?;
                Ok("ok".into())
            }
            "o_perm" => {
                // C04: the same set with its solutions reordered: perm[j] = index (in the given order) of the solution placed at j
                let perm = t.list(|t| t.nat())?;
                let fam = t.tok()?;
                if fam != "twopass" {
                    return Err("o_perm family".into());
                }
                let c = p_check_case(t)?;
                t.done()?;
                Ok(perm_oracle(&c, &perm))
            }
            "topo" => {
                // observable through check_predicate with an empty program at every node:
                // InvalidNodeEdges(n) for malformed slices / cycles, otherwise a verdict
                Err("nofam".into())
            }
            _ => Err("nofam".into()),
        }
    })();
    match r {
        Err(e) if e == "nofam" => None,
        other => Some(other),
    }
}

#[allow(dead_code)]
pub fn mode_of(m: usize) -> RunMode {
    if m == 0 {
        RunMode::Outputs
    } else {
        RunMode::Checks
    }
}
