//! C18: every public data type survives a round trip through JSON, postcard and Display/FromStr, and the legacy
//! field names are still accepted.  Implementation-only oracle (`o_serde <kind> <value>`), plus `pc <kind> <value>`:
//! the postcard bytes of the value (compared with the model's encoder).
use crate::fam_types::p_predicate;
use crate::fam_vm::p_solution;
use crate::parse::*;
use essential_types::{
    contract::{Contract, SignedContract},
    predicate::{Predicate, Program},
    solution::{Mutation, Solution, SolutionSet},
    ContentAddress, PredicateAddress, Signature,
};
use serde::{de::DeserializeOwned, Serialize};

fn rt<T: Serialize + DeserializeOwned + PartialEq + std::fmt::Debug>(v: &T, what: &str) -> Result<(), String> {
    let js = serde_json::to_string(v).map_err(|e| format!("FAIL {what}: to JSON: {e}"))?;
    let back: T = serde_json::from_str(&js).map_err(|e| format!("FAIL {what}: from its own JSON `{}`: {e}", &js[..js.len().min(120)]))?;
    if &back != v {
        return Err(format!("FAIL {what}: JSON round trip changed the value"));
    }
    let val = serde_json::to_value(v).map_err(|e| format!("FAIL {what}: to JSON value: {e}"))?;
    let back: T = serde_json::from_value(val).map_err(|e| format!("FAIL {what}: from JSON value: {e}"))?;
    if &back != v {
        return Err(format!("FAIL {what}: JSON value round trip changed the value"));
    }
    let bs = postcard::to_allocvec(v).map_err(|e| format!("FAIL {what}: to postcard: {e}"))?;
    let (back, rest): (T, &[u8]) = postcard::take_from_bytes(&bs).map_err(|e| format!("FAIL {what}: from its own postcard bytes: {e}"))?;
    if &back != v {
        return Err(format!("FAIL {what}: postcard round trip changed the value"));
    }
    if !rest.is_empty() {
        return Err(format!("FAIL {what}: postcard decoding left {} bytes over", rest.len()));
    }
    // followed by other data the value must still decode to itself and leave exactly that data
    let mut more = bs.clone();
    more.extend_from_slice(&[0xAB, 0xCD, 0x01]);
    let (back, rest): (T, &[u8]) = postcard::take_from_bytes(&more).map_err(|e| format!("FAIL {what}: postcard prefix decode: {e}"))?;
    if &back != v || rest != [0xAB, 0xCD, 0x01] {
        return Err(format!("FAIL {what}: postcard encoding is not self-delimiting"));
    }
    Ok(())
}

fn legacy<T: Serialize + DeserializeOwned + PartialEq>(v: &T, new: &str, old: &str, what: &str) -> Result<(), String> {
    let js = serde_json::to_string(v).map_err(|e| e.to_string())?;
    let needle = format!("\"{new}\":");
    if !js.contains(&needle) {
        return Err(format!("FAIL {what}: field {new} missing from JSON"));
    }
    let old_js = js.replace(&needle, &format!("\"{old}\":"));
    let back: T = serde_json::from_str(&old_js).map_err(|e| format!("FAIL {what}: legacy field name {old} rejected: {e}"))?;
    if &back != v {
        return Err(format!("FAIL {what}: legacy field name {old} decoded to a different value"));
    }
    Ok(())
}

fn p_sig(t: &mut Toks) -> R<Signature> {
    let b = t.bytes()?;
    let id = t.nat()? as u8;
    let mut a = [0u8; 64];
    let n = b.len().min(64);
    a[..n].copy_from_slice(&b[..n]);
    Ok(Signature(a, id))
}

fn p_contract(t: &mut Toks) -> R<Contract> {
    let predicates = t.list(p_predicate)?;
    let salt = t.bytes32()?;
    Ok(Contract { predicates, salt })
}

fn check_all(kind: &str, t: &mut Toks) -> Result<Result<(), String>, String> {
    Ok(match kind {
        "solution" => {
            let v = p_solution(t)?;
            t.done()?;
            rt(&v, "Solution").and_then(|_| legacy(&v, "predicate_data", "decision_variables", "Solution"))
        }
        "set" => {
            let v = SolutionSet { solutions: t.list(p_solution)? };
            t.done()?;
            rt(&v, "SolutionSet").and_then(|_| legacy(&v, "solutions", "data", "SolutionSet"))
        }
        "mutation" => {
            let v = Mutation { key: t.words()?, value: t.words()? };
            t.done()?;
            rt(&v, "Mutation")
        }
        "predicate" => {
            let v: Predicate = p_predicate(t)?;
            t.done()?;
            rt(&v, "Predicate")
        }
        "program" => {
            let v = Program(t.bytes()?);
            t.done()?;
            rt(&v, "Program")
        }
        "contract" => {
            let v = p_contract(t)?;
            t.done()?;
            rt(&v, "Contract")
        }
        "signed" => {
            let contract = p_contract(t)?;
            let signature = p_sig(t)?;
            t.done()?;
            rt(&SignedContract { contract, signature }, "SignedContract")
        }
        "caddr" => {
            let v = ContentAddress(t.bytes32()?);
            t.done()?;
            rt(&v, "ContentAddress").and_then(|_| {
                let s = v.to_string();
                match s.parse::<ContentAddress>() {
                    Ok(b) if b == v => Ok(()),
                    other => Err(format!("FAIL ContentAddress: Display/FromStr round trip of `{s}` gives {:?}", other.map(|b| b.to_string()))),
                }
            })
        }
        "paddr" => {
            let v = PredicateAddress { contract: ContentAddress(t.bytes32()?), predicate: ContentAddress(t.bytes32()?) };
            t.done()?;
            rt(&v, "PredicateAddress")
        }
        "signature" => {
            let v = p_sig(t)?;
            t.done()?;
            rt(&v, "Signature").and_then(|_| {
                let s = v.to_string();
                match s.parse::<Signature>() {
                    Ok(b) if b == v => Ok(()),
                    other => Err(format!("FAIL Signature: Display/FromStr round trip of `{s}` gives {:?}", other.is_ok())),
                }
            })
        }
        _ => return Err("kind".into()),
    })
}

pub fn run(fam: &str, t: &mut Toks) -> Option<R<String>> {
    match fam {
        "o_serde" => Some((|| {
            let kind = t.tok()?.to_string();
            Ok(match check_all(&kind, t)? {
                Ok(()) => "ok".into(),
                Err(e) => e,
            })
        })()),
        "pc" => Some((|| {
            // postcard bytes of a value (model: the postcard encoders of Model/Hash.lean)
            let kind = t.tok()?.to_string();
            let bs = match kind.as_str() {
                "solution" => postcard::to_allocvec(&p_solution(t)?),
                "set" => postcard::to_allocvec(&SolutionSet { solutions: t.list(p_solution)? }),
                "mutation" => postcard::to_allocvec(&Mutation { key: t.words()?, value: t.words()? }),
                "contract" => postcard::to_allocvec(&p_contract(t)?),
                "predicate" => postcard::to_allocvec(&p_predicate(t)?),
                _ => return Err("kind".into()),
            };
            t.done()?;
            Ok(match bs {
                Ok(b) => hex_of(&b),
                Err(e) => format!("err {e}"),
            })
        })()),
        "addr_raw" => Some((|| {
            // the address helpers of essential_hash on arbitrary lists of content addresses: `<via slice> <via iterator>`
            let kind = t.tok()?.to_string();
            let addrs: Vec<ContentAddress> = t.list(|t| Ok(ContentAddress(t.bytes32()?)))?;
            let r = match kind.as_str() {
                "contract" => {
                    let salt = t.bytes32()?;
                    let mut a = addrs.clone();
                    let x = essential_hash::contract_addr::from_predicate_addrs_slice(&mut a, &salt);
                    let y = essential_hash::contract_addr::from_predicate_addrs(addrs.iter().cloned(), &salt);
                    format!("{} {}", hex_of(&x.0), hex_of(&y.0))
                }
                "set" => {
                    let mut a = addrs.clone();
                    let x = essential_hash::solution_set_addr::from_solution_addrs_slice(&mut a);
                    let y = essential_hash::solution_set_addr::from_solution_addrs(addrs.iter().cloned());
                    format!("{} {}", hex_of(&x.0), hex_of(&y.0))
                }
                _ => return Err("kind".into()),
            };
            t.done()?;
            Ok(r)
        })()),
        "conv" => Some((|| {
            // the conversion helpers of essential_types::convert
            use essential_types::convert as cv;
            let kind = t.tok()?.to_string();
            let r = match kind.as_str() {
                "w2b" => hex_of(&cv::bytes_from_word(t.int()?)),
                "b2w" => {
                    let b = t.bytes()?;
                    let a: [u8; 8] = b.try_into().map_err(|_| "len".to_string())?;
                    cv::word_from_bytes(a).to_string()
                }
                "bs2w" => cv::word_from_bytes_slice(&t.bytes()?).to_string(),
                "w4" => show_words(&cv::word_4_from_u8_32(t.bytes32()?)),
                "w8" => {
                    let b = t.bytes()?;
                    let a: [u8; 64] = b.try_into().map_err(|_| "len".to_string())?;
                    show_words(&cv::word_8_from_u8_64(a))
                }
                "u32" => {
                    let w = t.words()?;
                    let a: [i64; 4] = w.try_into().map_err(|_| "len".to_string())?;
                    hex_of(&cv::u8_32_from_word_4(a))
                }
                "u64" => {
                    let w = t.words()?;
                    let a: [i64; 8] = w.try_into().map_err(|_| "len".to_string())?;
                    hex_of(&cv::u8_64_from_word_8(a))
                }
                "hex" => format!("s{}", cv::hex_str_from_words(&t.words()?)),
                "unhex" => {
                    let s = t.tok()?;
                    match cv::words_from_hex_str(&s[1..]) {
                        Ok(ws) => format!("ok {}", show_words(&ws)),
                        Err(_) => "err".into(),
                    }
                }
                "ca_w4" => {
                    // From<ContentAddress> for [Word; 4] and back, From<[u8; 32]> both ways
                    let a = ContentAddress(t.bytes32()?);
                    let w: [i64; 4] = a.clone().into();
                    let back: ContentAddress = w.into();
                    let raw: [u8; 32] = a.clone().into();
                    let back2: ContentAddress = raw.into();
                    format!("{} {} {}", show_words(&w), hex_of(&back.0), hex_of(&back2.0))
                }
                "sig65" => {
                    // From<Signature> for [u8; 65] and back
                    let b = t.bytes()?;
                    let a: [u8; 65] = b.try_into().map_err(|_| "len".to_string())?;
                    let s: Signature = a.into();
                    let back: [u8; 65] = s.clone().into();
                    format!("{} {} {}", hex_of(&s.0), s.1, hex_of(&back))
                }
                "bool" => match cv::bool_from_word(t.int()?) {
                    Some(b) => format!("some {b}"),
                    None => "none".into(),
                },
                _ => return Err("kind".into()),
            };
            t.done()?;
            Ok(r)
        })()),
        "pcdec" => Some((|| {
            // decoding postcard bytes back (ok value / err)
            let kind = t.tok()?.to_string();
            let bs = t.bytes()?;
            t.done()?;
            Ok(match kind.as_str() {
                "solution" => match postcard::take_from_bytes::<Solution>(&bs) {
                    Ok((s, rest)) => format!("ok {} rest={}", crate::fam_types::show_solution(&s), rest.len()),
                    Err(_) => "err".into(),
                },
                "mutation" => match postcard::take_from_bytes::<Mutation>(&bs) {
                    Ok((m, rest)) => format!("ok {} rest={}", crate::fam_types::show_mutation(&m), rest.len()),
                    Err(_) => "err".into(),
                },
                _ => return Err("kind".into()),
            })
        })()),
        _ => None,
    }
}
