//! VM family: run the real `essential_vm::Vm` on a program + machine state + environment.
use crate::parse::*;
use essential_asm::{self as asm, Op, ToOpcode};
use essential_types::{
    solution::{Mutation, Solution},
    ContentAddress, Key, PredicateAddress, Word,
};
use essential_vm::{
    error::{ComputeError, ExecError, OpError},
    Access, BytecodeMapped, Gas, GasLimit, Memory, Repeat, Stack, StateRead, StateReads, Vm,
};
use std::sync::{Arc, Mutex};

#[derive(Clone, Debug)]
pub struct StErr(pub i64);
impl std::fmt::Display for StErr {
    fn fmt(&self, f: &mut std::fmt::Formatter) -> std::fmt::Result {
        write!(f, "state error {}", self.0)
    }
}

pub struct Entry {
    pub view: usize,
    pub contract: Vec<u8>,
    pub key: Vec<Word>,
    pub n: usize,
    pub res: Result<Vec<Vec<Word>>, i64>,
}

pub type Call = (usize, Vec<u8>, Vec<Word>, usize);

/// A scripted, recording state view.
#[derive(Clone)]
pub struct View {
    pub which: usize,
    pub entries: Arc<Vec<Entry>>,
    pub calls: Arc<Mutex<Vec<Call>>>,
}
impl StateRead for View {
    type Error = StErr;
    fn key_range(&self, c: ContentAddress, key: Key, n: usize) -> Result<Vec<Vec<Word>>, StErr> {
        self.calls.lock().unwrap().push((self.which, c.0.to_vec(), key.clone(), n));
        for e in self.entries.iter() {
            if e.view == self.which && e.contract[..] == c.0[..] && e.key == key && e.n == n {
                return e.res.clone().map_err(StErr);
            }
        }
        Ok(vec![])
    }
}
#[derive(Clone)]
pub struct Views(pub View, pub View);
impl StateReads for Views {
    type Error = StErr;
    type Pre = View;
    type Post = View;
    fn pre(&self) -> &View {
        &self.0
    }
    fn post(&self) -> &View {
        &self.1
    }
}

pub fn p_solution(t: &mut Toks) -> R<Solution> {
    let c = t.bytes()?;
    let p = t.bytes()?;
    let data = t.list(|t| t.words())?;
    let muts = t.list(|t| Ok(Mutation { key: t.words()?, value: t.words()? }))?;
    // addresses of the wrong length are padded / truncated (the generator always sends 32 bytes)
    let fix = |v: Vec<u8>| {
        let mut a = [0u8; 32];
        let n = v.len().min(32);
        a[..n].copy_from_slice(&v[..n]);
        a
    };
    Ok(Solution {
        predicate_to_solve: PredicateAddress { contract: ContentAddress(fix(c)), predicate: ContentAddress(fix(p)) },
        predicate_data: data,
        state_mutations: muts,
    })
}

pub fn p_entry(t: &mut Toks) -> R<Entry> {
    let view = t.nat()?;
    let contract = t.bytes()?;
    let key = t.words()?;
    let n = t.nat()?;
    let res = match t.tok()? {
        "e" => Err(t.int()?),
        "v" => Ok(t.list(|t| t.words())?),
        _ => return Err("entry".into()),
    };
    Ok(Entry { view, contract, key, n, res })
}

#[derive(Clone)]
pub struct Cost {
    pub dflt: u64,
    pub over: Vec<(u8, u64)>,
}
impl Cost {
    pub fn of(&self, op: &Op) -> Gas {
        let oc: u8 = op.to_opcode().into();
        self.over.iter().find(|(o, _)| *o == oc).map(|(_, c)| *c).unwrap_or(self.dflt)
    }
}

pub struct VmCase {
    pub mode: String,
    pub prog: Vec<u8>,
    pub vm: Vm,
    pub index: usize,
    pub sols: Vec<Solution>,
    pub entries: Arc<Vec<Entry>>,
    pub cost: Cost,
    pub limit: u64,
    pub max_breadth: usize,
    /// `GasLimit::per_yield` (has no observable effect; varied by the `o_yield` oracle only)
    pub per_yield: u64,
}

pub fn p_case(t: &mut Toks) -> R<VmCase> {
    let mode = t.tok()?.to_string();
    let prog = t.bytes()?;
    // `<pc>` or `h<pc>`: the public `halt` flag of the initial Vm is set
    let pc_tok = t.tok()?;
    let (halt0, pc) = match pc_tok.strip_prefix('h') {
        Some(r) => (true, r.parse::<usize>().map_err(|e| e.to_string())?),
        None => (false, pc_tok.parse::<usize>().map_err(|e| e.to_string())?),
    };
    let st = t.words()?;
    let mem = t.words()?;
    let pm = t.list(|t| t.words())?;
    let slots = t.list(|t| Ok((t.nat()?, t.int()?, t.nat()?)))?;
    let index = t.nat()?;
    let sols = t.list(p_solution)?;
    let entries = t.list(p_entry)?;
    // crypto tables are for the model only (the implementation calls the real primitives)
    let _eds = t.list(|t| Ok((t.bytes()?, t.bytes()?, t.bytes()?, t.nat()?)))?;
    let _secps = t.list(|t| {
        let h = t.bytes()?;
        let s = t.bytes()?;
        let id = t.nat()?;
        let r = match t.tok()? {
            "k" => Some(t.bytes()?),
            _ => None,
        };
        Ok((h, s, id, r))
    })?;
    let dflt = t.u64()?;
    let over = t.list(|t| Ok((t.nat()? as u8, t.u64()?)))?;
    let limit = t.u64()?;
    let max_breadth = t.nat()?;
    t.done()?;
    let mut repeat = Repeat::new();
    for (up, n, loc) in slots {
        if up == 1 {
            repeat.repeat_to(loc, n).map_err(|e| e.to_string())?;
        } else {
            repeat.repeat_from(loc, n).map_err(|e| e.to_string())?;
        }
    }
    let vm = Vm {
        pc,
        stack: Stack::try_from(st).map_err(|e| e.to_string())?,
        memory: Memory::try_from(mem).map_err(|e| e.to_string())?,
        parent_memory: pm
            .into_iter()
            .map(|m| Memory::try_from(m).map(Arc::new).map_err(|e| e.to_string()))
            .collect::<R<Vec<_>>>()?,
        halt: halt0,
        repeat,
        cache: Default::default(),
    };
    Ok(VmCase { mode, prog, vm, index, sols, entries: Arc::new(entries), cost: Cost { dflt, over }, limit, max_breadth, per_yield: GasLimit::DEFAULT_PER_YIELD })
}

pub fn show_op_err<E>(e: &OpError<E>, st: impl Fn(&E) -> String) -> String {
    use essential_vm::error::*;
    match e {
        OpError::Access(a) => format!(
            "Access.{}",
            match a {
                AccessError::PredicateDataSlotIxOutOfBounds(_) => "PredicateDataSlotIxOutOfBounds".to_string(),
                AccessError::PredicateDataValueTooLarge(_) => "PredicateDataValueTooLarge".to_string(),
                AccessError::PredicateDataValueRangeOutOfBounds(..) => "PredicateDataValueRangeOutOfBounds".to_string(),
                AccessError::InvalidAccessRange => "InvalidAccessRange".to_string(),
                AccessError::SlotsLengthTooLarge(_) => "SlotsLengthTooLarge".to_string(),
                AccessError::MissingArg(m) => format!("MissingArg.{:?}", m),
                other => format!("{:?}", other).split('(').next().unwrap().to_string(),
            }
        ),
        OpError::Alu(a) => format!("Alu.{:?}", a),
        OpError::Crypto(c) => format!(
            "Crypto.{}",
            match c {
                CryptoError::Ed25519(_) => "Ed25519",
                CryptoError::Secp256k1(_) => "Secp256k1",
                CryptoError::Secp256k1RecoveryId => "Secp256k1RecoveryId",
            }
        ),
        OpError::Stack(s) => show_stack_err(s),
        OpError::Repeat(r) => format!("Repeat.{:?}", r),
        OpError::TotalControlFlow(t) => format!(
            "TotalControlFlow.{}",
            match t {
                TotalControlFlowError::Panic(_) => "Panic".to_string(),
                other => format!("{:?}", other),
            }
        ),
        OpError::Memory(m) => format!("Memory.{:?}", m),
        OpError::ParentMemory(p) => match p {
            ParentMemoryError::NoParent => "ParentMemory.NoParent".to_string(),
            ParentMemoryError::Memory(m) => format!("ParentMemory.Memory.{:?}", m),
        },
        OpError::PcOverflow => "PcOverflow".to_string(),
        OpError::Decode(d) => match d {
            DecodeError::Set(_) => "Decode.Set".to_string(),
            DecodeError::ItemLengthTooLarge(_) => "Decode.ItemLengthTooLarge".to_string(),
        },
        OpError::Encode(_) => "Encode".to_string(),
        OpError::StateRead(e) => st(e),
        OpError::Compute(c) => match c {
            ComputeError::DepthReached(_) => "Compute.DepthReached".to_string(),
            ComputeError::Stack(s) => format!("Compute.{}", show_stack_err(s)),
            ComputeError::Memory(m) => format!("Compute.Memory.{:?}", m),
            ComputeError::Exec(_) => "Compute.Exec".to_string(),
            ComputeError::InvalidBreadth(_) => "Compute.InvalidBreadth".to_string(),
        },
        OpError::FromBytes(_) => "FromBytes".to_string(),
        OpError::OutOfGas(_) => "OutOfGas".to_string(),
    }
}

fn show_stack_err(s: &essential_vm::error::StackError) -> String {
    use essential_vm::error::*;
    match s {
        StackError::Empty => "Stack.Empty".into(),
        StackError::IndexOutOfBounds => "Stack.IndexOutOfBounds".into(),
        StackError::Overflow => "Stack.Overflow".into(),
        StackError::InvalidCondition(_) => "Stack.InvalidCondition".into(),
        StackError::LenWords(l) => format!(
            "Stack.LenWords.{}",
            match l {
                LenWordsError::MissingLength => "MissingLength",
                LenWordsError::InvalidLength(_) => "InvalidLength",
                LenWordsError::OutOfBounds(_) => "OutOfBounds",
                LenWordsError::AdditionalOutOfBounds(..) => "AdditionalOutOfBounds",
            }
        ),
    }
}

pub fn show_exec_err(e: &ExecError<StErr>) -> String {
    format!("err {} {}", e.0, show_op_err(&e.1, |s| format!("StateRead({})", s.0)))
}

/// canonical rendering of the private `Repeat` state, recovered from its `Debug` output
pub fn show_repeat(r: &Repeat) -> String {
    let d = format!("{:?}", r);
    let mut out = vec![];
    for part in d.split("Slot {").skip(1) {
        let get = |k: &str| -> String {
            let i = part.find(k).unwrap() + k.len();
            let rest = &part[i..];
            let end = rest.find(|c: char| c == ',' || c == '}').unwrap();
            rest[..end].trim().to_string()
        };
        let counter = get("counter:");
        let limit = get("limit:");
        let ri = get("repeat_index:");
        let lim = if limit.starts_with("Up(") { format!("U{}", &limit[3..limit.len() - 1]) } else { "D".to_string() };
        out.push(format!("{counter}:{lim}:{ri}"));
    }
    format!("[{}]", out.join(","))
}

pub fn repeat_depth(r: &Repeat) -> usize {
    format!("{:?}", r).matches("Slot {").count()
}

pub fn show_vm(g: Gas, vm: &Vm) -> String {
    format!(
        "ok {} pc={} halt={} st={} mem={} rep={}",
        g,
        vm.pc,
        if vm.halt { 1 } else { 0 },
        show_words(&vm.stack),
        show_words(&vm.memory),
        show_repeat(&vm.repeat)
    )
}

pub fn views(c: &VmCase) -> (Views, Arc<Mutex<Vec<Call>>>) {
    let calls = Arc::new(Mutex::new(vec![]));
    (
        Views(
            View { which: 0, entries: c.entries.clone(), calls: calls.clone() },
            View { which: 1, entries: c.entries.clone(), calls: calls.clone() },
        ),
        calls,
    )
}

pub fn run_case(c: &mut VmCase) -> String {
    let ops = match asm::from_bytes(c.prog.iter().copied()).collect::<Result<Vec<_>, _>>() {
        Ok(o) => o,
        Err(e) => return format!("err-decode {}", crate::fam_asm::show_fb_err(&e)),
    };
    let (state, _calls) = views(c);
    let access = Access::new(Arc::new(c.sols.clone()), c.index as u16);
    let cost = &c.cost;
    let costf = move |op: &Op| cost.of(op);
    let limit = GasLimit { per_yield: c.per_yield, total: c.limit };
    match c.mode.as_str() {
        "eval" => match c.vm.eval_ops(&ops, access, &state, &costf, limit) {
            Ok(b) => format!("ok {b}"),
            Err(essential_vm::error::EvalError::InvalidEvaluation(_)) => "inv".into(),
            Err(essential_vm::error::EvalError::Exec(e)) => show_exec_err(&e),
        },
        "bytes" => {
            let mapped = BytecodeMapped::try_from(&c.prog[..]).expect("parsed above");
            match c.vm.exec_bytecode(&mapped, access, &state, &costf, limit) {
                Ok(g) => show_vm(g, &c.vm),
                Err(e) => show_exec_err(&e),
            }
        }
        _ => match c.vm.exec_ops(&ops, access, &state, &costf, limit) {
            Ok(g) => show_vm(g, &c.vm),
            Err(e) => show_exec_err(&e),
        },
    }
}

pub fn run(fam: &str, t: &mut Toks) -> Option<R<String>> {
    match fam {
        "prog" => Some((|| {
            let mut c = p_case(t)?;
            Ok(run_case(&mut c))
        })()),
        "reuse" => Some((|| {
            // one Vm value used for two executions: `<index2> <prog2> prog <case>`: the case is executed; if that succeeds the
            // same Vm (pc reset to 0, everything else as the first run left it) executes prog2 for solution index2 of the same set
            let index2 = t.nat()?;
            let prog2 = t.bytes()?;
            if t.tok()? != "prog" {
                return Err("reuse family".into());
            }
            let mut c = p_case(t)?;
            c.mode = "ops".into();
            let r1 = run_case(&mut c);
            if !r1.starts_with("ok") {
                return Ok(r1);
            }
            c.vm.pc = 0;
            c.index = index2;
            c.prog = prog2;
            let r2 = run_case(&mut c);
            Ok(format!("{r1} | {r2}"))
        })()),
        _ => None,
    }
}
