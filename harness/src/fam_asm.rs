//! asm / bytecode families: the real `essential_asm` codec, `BytecodeMapped`, `effects`.
use crate::parse::*;
use essential_asm::{self as asm, effects::Effects, FromBytesError, Opcode, ToBytes, ToOpcode};
use essential_vm::BytecodeMapped;

pub fn show_fb_err(e: &FromBytesError) -> String {
    match e {
        FromBytesError::InvalidOpcode(asm::InvalidOpcodeError(b)) => format!("InvalidOpcode:{b}"),
        FromBytesError::NotEnoughBytes(_) => "NotEnoughBytes".into(),
    }
}

pub fn run(fam: &str, t: &mut Toks) -> Option<R<String>> {
    Some((|| -> R<String> {
        match fam {
            "decode" => {
                let bs = t.bytes()?;
                t.done()?;
                Ok(match asm::from_bytes(bs).collect::<Result<Vec<_>, _>>() {
                    Ok(ops) => format!("ok {}", show_ops(&ops)),
                    Err(e) => format!("err {}", show_fb_err(&e)),
                })
            }
            "stream" => {
                let bs = t.bytes()?;
                t.done()?;
                // the iterator never ends by itself on errors; it ends when the bytes are consumed
                let items: Vec<String> = asm::from_bytes(bs)
                    .map(|r| match r {
                        Ok(op) => format!("ok:{}", show_op(&op)),
                        Err(e) => format!("err:{}", show_fb_err(&e)),
                    })
                    .collect();
                Ok(format!("[{}]", items.join(",")))
            }
            "encode" => {
                let ops = t.ops()?;
                t.done()?;
                let bs: Vec<u8> = asm::to_bytes(ops).collect();
                Ok(hex_of(&bs))
            }
            "opcode" => {
                let b = t.nat()?;
                t.done()?;
                if b > 255 {
                    return Ok(format!("err InvalidOpcode:{b}"));
                }
                Ok(match Opcode::try_from(b as u8) {
                    Ok(oc) => format!("ok {:?} {}", oc, u8::from(oc)),
                    Err(asm::InvalidOpcodeError(b)) => format!("err InvalidOpcode:{b}"),
                })
            }
            "shorts" => {
                t.done()?;
                let rows: Vec<String> = crate::gen_short::short_table()
                    .into_iter()
                    .map(|(short, _name, _oc, _imm, op)| {
                        // everything but the short constant's *identifier* is read off the real op
                        let dbg = format!("{:?}", op);
                        let name = dbg.replace("(0)", "").replace('(', ".").replace(')', "");
                        let oc: u8 = op.to_opcode().into();
                        let imm = op.to_bytes().into_iter().count() - 1;
                        format!("{short}={name}={oc}={imm}")
                    })
                    .collect();
                Ok(rows.join(" "))
            }
            "mapped" => {
                let bs = t.bytes()?;
                t.done()?;
                // owned and borrowed containers must agree
                let owned = BytecodeMapped::try_from(bs.clone());
                let borrowed = BytecodeMapped::try_from(&bs[..]);
                let render = |ixs: &[usize], ops: Vec<asm::Op>, acc: Vec<Option<asm::Op>>| {
                    let accs: Vec<String> =
                        acc.iter().map(|o| o.as_ref().map(show_op).unwrap_or("-".into())).collect();
                    format!("ok {} {} [{}]", show_nats(ixs), show_ops(&ops), accs.join(","))
                };
                let a = match &owned {
                    Ok(m) => {
                        let n = m.op_indices().len();
                        render(m.op_indices(), m.ops().collect(), (0..n + 3).map(|i| m.op(i)).collect())
                    }
                    Err(e) => format!("err {}", show_fb_err(e)),
                };
                let b = match &borrowed {
                    Ok(m) => {
                        let n = m.op_indices().len();
                        render(m.op_indices(), m.ops().collect(), (0..n + 3).map(|i| m.op(i)).collect())
                    }
                    Err(e) => format!("err {}", show_fb_err(e)),
                };
                if a != b {
                    return Ok(format!("owned-borrowed-differ {a} {b}"));
                }
                Ok(a)
            }
            "fromops" => {
                let ops = t.ops()?;
                t.done()?;
                // the mapping is collected from iterators of several shapes: exact size, unknown size, a loose upper bound
                let show = |m: &BytecodeMapped| format!("{} {}", hex_of(m.bytecode()), show_nats(m.op_indices()));
                let m: BytecodeMapped = ops.clone().into_iter().collect();
                let base = show(&m);
                let o2 = ops.clone();
                let variants: Vec<(&str, Box<dyn Fn() -> BytecodeMapped + std::panic::RefUnwindSafe>)> = vec![
                    ("filter", Box::new({ let o = ops.clone(); move || o.clone().into_iter().filter(|_| true).collect() })),
                    ("from_fn", Box::new({ let o = ops.clone(); move || { let mut i = 0; std::iter::from_fn(|| { let r = o.get(i).copied(); i += 1; r }).collect() } })),
                    ("map_while over 0..u64::MAX", Box::new(move || (0..u64::MAX).map_while(|i| o2.get(i as usize).copied()).collect())),
                    ("chain", Box::new({ let o = ops.clone(); move || o.clone().into_iter().chain(std::iter::empty()).collect() })),
                ];
                for (name, f) in variants {
                    match std::panic::catch_unwind(|| f()) {
                        Ok(mv) => {
                            if show(&mv) != base {
                                return Ok(format!("FAIL collected through `{name}`: {} instead of {}", show(&mv), base));
                            }
                        }
                        Err(_) => return Ok(format!("FAIL collecting through `{name}` panics")),
                    }
                }
                Ok(base)
            }
            "gparse" => {
                // the group-level parser `<Group>::try_from_bytes`
                let g = t.tok()?.to_string();
                let bs = t.bytes()?;
                t.done()?;
                crate::gen_short::group_parse(&g, &bs).ok_or_else(|| "group".to_string())
            }
            "gopcode" => {
                let g = t.tok()?.to_string();
                let b = t.nat()?;
                t.done()?;
                crate::gen_short::group_opcode(&g, b as u8).ok_or_else(|| "group".to_string())
            }
            "mapseq" => {
                // a history of operations on one `BytecodeMapped`: built from ops, then any sequence of
                //   p <op> = push_op, g <ix> = op(ix), a = ops(), f <ix> = ops_from(ix), b = bytecode + indices
                let ops = t.ops()?;
                let mut m: BytecodeMapped = ops.into_iter().collect();
                let n = t.nat()?;
                let mut out = vec![];
                for _ in 0..n {
                    match t.tok()? {
                        "p" => {
                            let o = t.op()?;
                            m.push_op(o);
                            out.push("p".to_string());
                        }
                        "g" => {
                            let ix = t.nat()?;
                            out.push(match m.op(ix) {
                                Some(o) => show_op(&o),
                                None => "none".into(),
                            });
                        }
                        "a" => out.push(show_ops(&m.ops().collect::<Vec<_>>())),
                        "f" => {
                            let ix = t.nat()?;
                            out.push(match m.ops_from(ix) {
                                Some(sl) => show_ops(&sl.ops().collect::<Vec<_>>()),
                                None => "none".into(),
                            });
                        }
                        "b" => out.push(format!("{} {}", hex_of(m.bytecode()), show_nats(m.op_indices()))),
                        _ => return Err("step".into()),
                    }
                }
                t.done()?;
                Ok(out.join(" | "))
            }
            "contains" => {
                let e = t.nat()?;
                let bs = t.bytes()?;
                t.done()?;
                let eff = Effects::from_bits_retain(e as u8);
                Ok(asm::effects::bytes_contains_any(&bs, eff).to_string())
            }
            "analyze" => {
                let ops = t.ops()?;
                t.done()?;
                Ok(asm::effects::analyze(&ops).bits().to_string())
            }
            _ => return Err("nofam".into()),
        }
    })())
    .and_then(|r| match r {
        Err(e) if e == "nofam" => None,
        other => Some(other),
    })
}
