//! types / validators families: the real codecs of `essential_types` and validators of `essential_check`.
use crate::fam_vm::p_solution;
use crate::parse::*;
use essential_check::{predicate as chkp, solution as chks};
use essential_types::{
    predicate::{Node, Predicate},
    solution::{decode, encode, Mutation, SolutionSet},
    ContentAddress,
};

pub fn p_node(t: &mut Toks) -> R<Node> {
    let es = t.nat()?;
    let a = t.bytes()?;
    let mut addr = [0u8; 32];
    let n = a.len().min(32);
    addr[..n].copy_from_slice(&a[..n]);
    Ok(Node { edge_start: es as u16, program_address: ContentAddress(addr) })
}

pub fn p_predicate(t: &mut Toks) -> R<Predicate> {
    let nodes = t.list(p_node)?;
    let edges = t.list(|t| Ok(t.nat()? as u16))?;
    Ok(Predicate { nodes, edges })
}

pub fn show_predicate(p: &Predicate) -> String {
    let ns: Vec<String> = p.nodes.iter().map(|n| format!("{}:{}", n.edge_start, hex_of(&n.program_address.0))).collect();
    let es: Vec<usize> = p.edges.iter().map(|e| *e as usize).collect();
    format!("nodes=[{}] edges={}", ns.join(","), show_nats(&es))
}

pub fn show_solution(s: &essential_types::solution::Solution) -> String {
    let data: Vec<String> = s.predicate_data.iter().map(|d| show_words(d)).collect();
    let ms: Vec<String> = s.state_mutations.iter().map(show_mutation).collect();
    format!(
        "{}/{} data=[{}] muts=[{}]",
        hex_of(&s.predicate_to_solve.contract.0),
        hex_of(&s.predicate_to_solve.predicate.0),
        data.join(","),
        ms.join(",")
    )
}

pub fn show_mutation(m: &Mutation) -> String {
    format!("{}->{}", show_words(&m.key), show_words(&m.value))
}

pub fn show_set_err(e: &chks::InvalidSolutionSet) -> String {
    use chks::{InvalidSetStateMutations as M, InvalidSolution as S, InvalidSolutionSet as E, KvError as K};
    match e {
        E::Solution(S::Empty) => "Empty",
        E::Solution(S::TooMany(_)) => "TooMany",
        E::Solution(S::PredicateDataLenExceeded(..)) => "PredicateDataLenExceeded",
        E::Solution(S::PredDataValueTooLarge(_)) => "PredDataValueTooLarge",
        E::Solution(S::StateMutationEntry(K::KeyTooLarge(_))) => "KeyTooLarge",
        E::Solution(S::StateMutationEntry(K::ValueTooLarge(_))) => "ValueTooLarge",
        E::StateMutations(M::TooMany(_)) => "TooManyMutations",
        E::StateMutations(M::MultipleMutationsForSlot(..)) => "MultipleMutationsForSlot",
    }
    .to_string()
}

pub fn run(fam: &str, t: &mut Toks) -> Option<R<String>> {
    let r = (|| -> R<String> {
        match fam {
            "chkset" => {
                let sols = t.list(p_solution)?;
                t.done()?;
                Ok(match chks::check_set(&SolutionSet { solutions: sols }) {
                    Ok(()) => "ok".into(),
                    Err(e) => format!("err {}", show_set_err(&e)),
                })
            }
            "chkpred" => {
                let p = p_predicate(t)?;
                t.done()?;
                Ok(match chkp::check(&p) {
                    Ok(()) => "ok".into(),
                    Err(chkp::InvalidPredicate::TooManyNodes(_)) => "err TooManyNodes".into(),
                    Err(chkp::InvalidPredicate::TooManyEdges(_)) => "err TooManyEdges".into(),
                })
            }
            "chkcontract" => {
                let ps = t.list(p_predicate)?;
                t.done()?;
                Ok(match chkp::check_contract(&ps) {
                    Ok(()) => "ok".into(),
                    Err(chkp::InvalidContract::TooManyPredicates(_)) => "err TooManyPredicates".into(),
                    Err(chkp::InvalidContract::Predicate(i, chkp::InvalidPredicate::TooManyNodes(_))) => format!("err Predicate:{i}:TooManyNodes"),
                    Err(chkp::InvalidContract::Predicate(i, chkp::InvalidPredicate::TooManyEdges(_))) => format!("err Predicate:{i}:TooManyEdges"),
                })
            }
            "nodeedges" => {
                let p = p_predicate(t)?;
                let i = t.nat()?;
                t.done()?;
                Ok(match p.node_edges(i) {
                    Some(es) => format!("some {}", show_nats(&es.iter().map(|e| *e as usize).collect::<Vec<_>>())),
                    None => "none".into(),
                })
            }
            "encpred" => {
                let p = p_predicate(t)?;
                t.done()?;
                let size = p.encoded_size();
                let enc = p.encode().map(|it| it.collect::<Vec<u8>>());
                Ok(match enc {
                    Ok(bs) => format!("ok {} size={}", hex_of(&bs), size),
                    Err(e) => format!("err {:?} size={}", e, size),
                })
            }
            "decpred" => {
                let bs = t.bytes()?;
                t.done()?;
                Ok(match Predicate::decode(&bs) {
                    Ok(p) => format!("ok {}", show_predicate(&p)),
                    Err(e) => format!("err {:?}", e),
                })
            }
            "encmuts" => {
                let ms = t.list(|t| Ok(Mutation { key: t.words()?, value: t.words()? }))?;
                t.done()?;
                let all: Vec<i64> = encode::encode_mutations(&ms).collect();
                let each: Vec<String> = ms.iter().map(|m| show_words(&m.encode().collect::<Vec<_>>())).collect();
                for m in &ms {
                    if m.encode_size() != m.encode().count() {
                        return Ok("encode_size-mismatch".into());
                    }
                }
                Ok(format!("{} {}", show_words(&all), each.join(" ")))
            }
            "decmut" => {
                let ws = t.words()?;
                t.done()?;
                Ok(match Mutation::decode_mutation(&ws) {
                    Ok(m) => format!("ok {}", show_mutation(&m)),
                    Err(e) => format!("err {:?}", e),
                })
            }
            "addr_pred" => {
                let p = p_predicate(t)?;
                t.done()?;
                Ok(hex_of(&essential_hash::content_addr(&p).0))
            }
            "addr_prog" => {
                let b = t.bytes()?;
                t.done()?;
                Ok(hex_of(&essential_hash::content_addr(&essential_types::predicate::Program(b)).0))
            }
            "addr_contract" => {
                let ps = t.list(p_predicate)?;
                let salt = t.bytes32()?;
                t.done()?;
                let c = essential_types::contract::Contract { predicates: ps, salt };
                Ok(hex_of(&essential_hash::content_addr(&c).0))
            }
            "addr_solution" => {
                let s = p_solution(t)?;
                t.done()?;
                Ok(format!("{} {}", hex_of(&essential_hash::content_addr(&s).0), hex_of(&essential_hash::serialize(&s))))
            }
            "addr_set" => {
                let ss = t.list(p_solution)?;
                t.done()?;
                Ok(hex_of(&essential_hash::content_addr(&SolutionSet { solutions: ss }).0))
            }
            "decmuts" => {
                let ws = t.words()?;
                t.done()?;
                Ok(match decode::decode_mutations(&ws) {
                    Ok(ms) => format!("ok [{}]", ms.iter().map(show_mutation).collect::<Vec<_>>().join(",")),
                    Err(e) => format!("err {:?}", e),
                })
            }
            _ => Err("nofam".into()),
        }
    })();
    match r {
        Err(e) if e == "nofam" => None,
        other => Some(other),
    }
}

/// C16 oracles: the documented acceptance rule, stated independently, against the real validators.
pub fn run_oracle(fam: &str, t: &mut Toks) -> Option<R<String>> {
    let r = (|| -> R<String> {
        match fam {
            "o_chkset" => {
                let sols = t.list(p_solution)?;
                t.done()?;
                let total: usize = sols.iter().map(|s| s.state_mutations.len()).sum();
                let mut slots: Vec<(&[u8; 32], &Vec<i64>)> =
                    sols.iter().flat_map(|s| s.state_mutations.iter().map(move |m| (&s.predicate_to_solve.contract.0, &m.key))).collect();
                let n_slots = slots.len();
                slots.sort();
                slots.dedup();
                let documented = (1..=100).contains(&sols.len())
                    && sols.iter().all(|s| s.predicate_data.len() <= 100 && s.predicate_data.iter().all(|v| v.len() <= 10_000))
                    && total <= 1000
                    && sols.iter().all(|s| s.state_mutations.iter().all(|m| m.key.len() <= 1000 && m.value.len() <= 10_000))
                    && slots.len() == n_slots;
                let got = chks::check_set(&SolutionSet { solutions: sols }).is_ok();
                Ok(if got == documented { "ok".into() } else { format!("FAIL check_set accepts={got} but the documented rule says {documented}") })
            }
            "o_chkpred" => {
                let p = p_predicate(t)?;
                t.done()?;
                let documented = p.nodes.len() <= 1000 && p.edges.len() <= 1000;
                let got = chkp::check(&p).is_ok();
                Ok(if got == documented { "ok".into() } else { format!("FAIL predicate::check accepts={got}, documented {documented}") })
            }
            "o_chkcontract" => {
                let ps = t.list(p_predicate)?;
                t.done()?;
                let documented = ps.len() <= 100 && ps.iter().all(|p| p.nodes.len() <= 1000 && p.edges.len() <= 1000);
                let got = chkp::check_contract(&ps).is_ok();
                Ok(if got == documented { "ok".into() } else { format!("FAIL check_contract accepts={got}, documented {documented}") })
            }
            "o_predrt" => {
                let p = p_predicate(t)?;
                t.done()?;
                let enc = p.encode().map(|it| it.collect::<Vec<u8>>());
                match enc {
                    Err(_) => Ok(if p.nodes.len() > 1000 || p.edges.len() > 1000 { "ok beyond-limits".into() } else { "FAIL encoder rejects a predicate within limits".into() }),
                    Ok(bs) => {
                        if p.nodes.len() > 1000 || p.edges.len() > 1000 {
                            return Ok("FAIL encoder accepts a predicate beyond its limits".into());
                        }
                        if p.encoded_size() != bs.len() {
                            return Ok(format!("FAIL encoded_size {} != actual length {}", p.encoded_size(), bs.len()));
                        }
                        match Predicate::decode(&bs) {
                            Ok(q) if q == p => Ok("ok".into()),
                            other => Ok(format!("FAIL decode(encode(p)) = {:?}", other.map(|q| show_predicate(&q)))),
                        }
                    }
                }
            }
            "o_mutsrt" => {
                let ms = t.list(|t| Ok(Mutation { key: t.words()?, value: t.words()? }))?;
                t.done()?;
                let ws: Vec<i64> = encode::encode_mutations(&ms).collect();
                match decode::decode_mutations(&ws) {
                    Ok(back) if back == ms => {}
                    other => return Ok(format!("FAIL decode_mutations(encode_mutations(ms)) = {:?}", other)),
                }
                for m in &ms {
                    let w: Vec<i64> = m.encode().collect();
                    match Mutation::decode_mutation(&w) {
                        Ok(b) if &b == m => {}
                        other => return Ok(format!("FAIL decode_mutation(encode(m)) = {:?}", other)),
                    }
                }
                Ok("ok".into())
            }
            "o_addr_contract" => {
                // permutation invariance and agreement of all helper entry points (rotation + reversal)
                let ps = t.list(p_predicate)?;
                let salt = t.bytes32()?;
                t.done()?;
                let c = essential_types::contract::Contract { predicates: ps.clone(), salt };
                let a0 = essential_hash::content_addr(&c);
                use essential_hash::Address;
                let addrs: Vec<ContentAddress> = ps.iter().map(essential_hash::content_addr).collect();
                let mut slice = addrs.clone();
                let checks = [
                    ("trait method", c.content_address()),
                    ("from_contract", essential_hash::contract_addr::from_contract(&c)),
                    ("from_predicate_addrs", essential_hash::contract_addr::from_predicate_addrs(addrs.clone(), &salt)),
                    ("from_predicate_addrs_slice", essential_hash::contract_addr::from_predicate_addrs_slice(&mut slice, &salt)),
                ];
                for (n, a) in checks {
                    if a != a0 {
                        return Ok(format!("FAIL {n} disagrees with content_addr"));
                    }
                }
                let mut rev = ps.clone();
                rev.reverse();
                let mut rot = ps.clone();
                if !rot.is_empty() {
                    rot.rotate_left(1);
                }
                for q in [rev, rot] {
                    let c2 = essential_types::contract::Contract { predicates: q, salt };
                    if essential_hash::content_addr(&c2) != a0 {
                        return Ok("FAIL address depends on predicate order".into());
                    }
                }
                // independent recomputation of the hashed bytes: sorted member addresses then the salt
                let mut sorted: Vec<[u8; 32]> = addrs.iter().map(|a| a.0).collect();
                sorted.sort();
                let mut pre: Vec<u8> = sorted.concat();
                pre.extend_from_slice(&salt);
                if essential_hash::hash_bytes(&pre) != a0.0 {
                    return Ok("FAIL address is not SHA-256(sorted predicate addresses ++ salt)".into());
                }
                Ok("ok".into())
            }
            "o_addr_set" => {
                let ss = t.list(p_solution)?;
                t.done()?;
                let a0 = essential_hash::content_addr(&SolutionSet { solutions: ss.clone() });
                let addrs: Vec<ContentAddress> = ss.iter().map(essential_hash::content_addr).collect();
                let mut slice = addrs.clone();
                if essential_hash::solution_set_addr::from_solution_addrs(addrs.clone()) != a0
                    || essential_hash::solution_set_addr::from_solution_addrs_slice(&mut slice) != a0
                    || essential_hash::solution_set_addr::from_set(&SolutionSet { solutions: ss.clone() }) != a0
                {
                    return Ok("FAIL helper constructors disagree".into());
                }
                let mut rev = ss.clone();
                rev.reverse();
                if essential_hash::content_addr(&SolutionSet { solutions: rev }) != a0 {
                    return Ok("FAIL address depends on solution order".into());
                }
                let mut sorted: Vec<[u8; 32]> = addrs.iter().map(|a| a.0).collect();
                sorted.sort();
                if essential_hash::hash_bytes(&sorted.concat()) != a0.0 {
                    return Ok("FAIL address is not SHA-256(sorted solution addresses)".into());
                }
                Ok("ok".into())
            }
            "o_addr_distinct" => {
                // two different contracts (given explicitly) must hash different bytes
                let ps1 = t.list(p_predicate)?;
                let salt1 = t.bytes32()?;
                let ps2 = t.list(p_predicate)?;
                let salt2 = t.bytes32()?;
                t.done()?;
                let c1 = essential_types::contract::Contract { predicates: ps1, salt: salt1 };
                let c2 = essential_types::contract::Contract { predicates: ps2, salt: salt2 };
                let mut a = c1.predicates.clone();
                let mut b = c2.predicates.clone();
                a.sort();
                b.sort();
                let same = a == b && salt1 == salt2;
                let eq = essential_hash::content_addr(&c1) == essential_hash::content_addr(&c2);
                Ok(if eq == same { "ok".into() } else { format!("FAIL contracts equal-as-multisets={same} but addresses equal={eq}") })
            }
            "o_sol_distinct" => {
                let s1 = p_solution(t)?;
                let s2 = p_solution(t)?;
                t.done()?;
                let same = s1 == s2;
                let eq = essential_hash::content_addr(&s1) == essential_hash::content_addr(&s2);
                Ok(if eq == same { "ok".into() } else { format!("FAIL solutions equal={same} but addresses equal={eq}") })
            }
            _ => Err("nofam".into()),
        }
    })();
    match r {
        Err(e) if e == "nofam" => None,
        other => Some(other),
    }
}
