//! types / validators families: the real codecs of `essential_types` and validators of `essential_check`.
use crate::fam_vm::p_solution;
use crate::parse::*;
use essential_check::{predicate as chkp, solution as chks};
use essential_types::{
    predicate::{Node, Predicate},
    solution::{decode, encode, Mutation, SolutionSet},
    ContentAddress,
};

pub fn p_node(t: &mut Toks) -> R<Node> {
    let es = t.nat()?;
    let a = t.bytes()?;
    let mut addr = [0u8; 32];
    let n = a.len().min(32);
    addr[..n].copy_from_slice(&a[..n]);
    Ok(Node { edge_start: es as u16, program_address: ContentAddress(addr) })
}

pub fn p_predicate(t: &mut Toks) -> R<Predicate> {
    let nodes = t.list(p_node)?;
    let edges = t.list(|t| Ok(t.nat()? as u16))?;
    Ok(Predicate { nodes, edges })
}

pub fn show_predicate(p: &Predicate) -> String {
    let ns: Vec<String> = p.nodes.iter().map(|n| format!("{}:{}", n.edge_start, hex_of(&n.program_address.0))).collect();
    let es: Vec<usize> = p.edges.iter().map(|e| *e as usize).collect();
    format!("nodes=[{}] edges={}", ns.join(","), show_nats(&es))
}

pub fn show_mutation(m: &Mutation) -> String {
    format!("{}->{}", show_words(&m.key), show_words(&m.value))
}

pub fn show_set_err(e: &chks::InvalidSolutionSet) -> String {
    use chks::{InvalidSetStateMutations as M, InvalidSolution as S, InvalidSolutionSet as E, KvError as K};
    match e {
        E::Solution(S::Empty) => "Empty",
        E::Solution(S::TooMany(_)) => "TooMany",
        E::Solution(S::PredicateDataLenExceeded(..)) => "PredicateDataLenExceeded",
        E::Solution(S::PredDataValueTooLarge(_)) => "PredDataValueTooLarge",
        E::Solution(S::StateMutationEntry(K::KeyTooLarge(_))) => "KeyTooLarge",
        E::Solution(S::StateMutationEntry(K::ValueTooLarge(_))) => "ValueTooLarge",
        E::StateMutations(M::TooMany(_)) => "TooManyMutations",
        E::StateMutations(M::MultipleMutationsForSlot(..)) => "MultipleMutationsForSlot",
    }
    .to_string()
}

pub fn run(fam: &str, t: &mut Toks) -> Option<R<String>> {
    let r = (|| -> R<String> {
        match fam {
            "chkset" => {
                let sols = t.list(p_solution)?;
                t.done()?;
                Ok(match chks::check_set(&SolutionSet { solutions: sols }) {
                    Ok(()) => "ok".into(),
                    Err(e) => format!("err {}", show_set_err(&e)),
                })
            }
            "chkpred" => {
                let p = p_predicate(t)?;
                t.done()?;
                Ok(match chkp::check(&p) {
                    Ok(()) => "ok".into(),
                    Err(chkp::InvalidPredicate::TooManyNodes(_)) => "err TooManyNodes".into(),
                    Err(chkp::InvalidPredicate::TooManyEdges(_)) => "err TooManyEdges".into(),
                })
            }
            "chkcontract" => {
                let ps = t.list(p_predicate)?;
                t.done()?;
                Ok(match chkp::check_contract(&ps) {
                    Ok(()) => "ok".into(),
                    Err(chkp::InvalidContract::TooManyPredicates(_)) => "err TooManyPredicates".into(),
                    Err(chkp::InvalidContract::Predicate(i, chkp::InvalidPredicate::TooManyNodes(_))) => format!("err Predicate:{i}:TooManyNodes"),
                    Err(chkp::InvalidContract::Predicate(i, chkp::InvalidPredicate::TooManyEdges(_))) => format!("err Predicate:{i}:TooManyEdges"),
                })
            }
            "nodeedges" => {
                let p = p_predicate(t)?;
                let i = t.nat()?;
                t.done()?;
                Ok(match p.node_edges(i) {
                    Some(es) => format!("some {}", show_nats(&es.iter().map(|e| *e as usize).collect::<Vec<_>>())),
                    None => "none".into(),
                })
            }
            "encpred" => {
                let p = p_predicate(t)?;
                t.done()?;
                let size = p.encoded_size();
                let enc = p.encode().map(|it| it.collect::<Vec<u8>>());
                Ok(match enc {
                    Ok(bs) => format!("ok {} size={}", hex_of(&bs), size),
                    Err(e) => format!("err {:?} size={}", e, size),
                })
            }
            "decpred" => {
                let bs = t.bytes()?;
                t.done()?;
                Ok(match Predicate::decode(&bs) {
                    Ok(p) => format!("ok {}", show_predicate(&p)),
                    Err(e) => format!("err {:?}", e),
                })
            }
            "encmuts" => {
                let ms = t.list(|t| Ok(Mutation { key: t.words()?, value: t.words()? }))?;
                t.done()?;
                let all: Vec<i64> = encode::encode_mutations(&ms).collect();
                let each: Vec<String> = ms.iter().map(|m| show_words(&m.encode().collect::<Vec<_>>())).collect();
                for m in &ms {
                    if m.encode_size() != m.encode().count() {
                        return Ok("encode_size-mismatch".into());
                    }
                }
                Ok(format!("{} {}", show_words(&all), each.join(" ")))
            }
            "decmut" => {
                let ws = t.words()?;
                t.done()?;
                Ok(match Mutation::decode_mutation(&ws) {
                    Ok(m) => format!("ok {}", show_mutation(&m)),
                    Err(e) => format!("err {:?}", e),
                })
            }
            "decmuts" => {
                let ws = t.words()?;
                t.done()?;
                Ok(match decode::decode_mutations(&ws) {
                    Ok(ms) => format!("ok [{}]", ms.iter().map(show_mutation).collect::<Vec<_>>().join(",")),
                    Err(e) => format!("err {:?}", e),
                })
            }
            _ => Err("nofam".into()),
        }
    })();
    match r {
        Err(e) if e == "nofam" => None,
        other => Some(other),
    }
}

/// C16 oracles: the documented acceptance rule, stated independently, against the real validators.
pub fn run_oracle(fam: &str, t: &mut Toks) -> Option<R<String>> {
    let r = (|| -> R<String> {
        match fam {
            "o_chkset" => {
                let sols = t.list(p_solution)?;
                t.done()?;
                let total: usize = sols.iter().map(|s| s.state_mutations.len()).sum();
                let mut slots: Vec<(&[u8; 32], &Vec<i64>)> =
                    sols.iter().flat_map(|s| s.state_mutations.iter().map(move |m| (&s.predicate_to_solve.contract.0, &m.key))).collect();
                let n_slots = slots.len();
                slots.sort();
                slots.dedup();
                let documented = (1..=100).contains(&sols.len())
                    && sols.iter().all(|s| s.predicate_data.len() <= 100 && s.predicate_data.iter().all(|v| v.len() <= 10_000))
                    && total <= 1000
                    && sols.iter().all(|s| s.state_mutations.iter().all(|m| m.key.len() <= 1000 && m.value.len() <= 10_000))
                    && slots.len() == n_slots;
                let got = chks::check_set(&SolutionSet { solutions: sols }).is_ok();
                Ok(if got == documented { "ok".into() } else { format!("FAIL check_set accepts={got} but the documented rule says {documented}") })
            }
            "o_chkpred" => {
                let p = p_predicate(t)?;
                t.done()?;
                let documented = p.nodes.len() <= 1000 && p.edges.len() <= 1000;
                let got = chkp::check(&p).is_ok();
                Ok(if got == documented { "ok".into() } else { format!("FAIL predicate::check accepts={got}, documented {documented}") })
            }
            "o_chkcontract" => {
                let ps = t.list(p_predicate)?;
                t.done()?;
                let documented = ps.len() <= 100 && ps.iter().all(|p| p.nodes.len() <= 1000 && p.edges.len() <= 1000);
                let got = chkp::check_contract(&ps).is_ok();
                Ok(if got == documented { "ok".into() } else { format!("FAIL check_contract accepts={got}, documented {documented}") })
            }
            "o_predrt" => {
                let p = p_predicate(t)?;
                t.done()?;
                let enc = p.encode().map(|it| it.collect::<Vec<u8>>());
                match enc {
                    Err(_) => Ok(if p.nodes.len() > 1000 || p.edges.len() > 1000 { "ok beyond-limits".into() } else { "FAIL encoder rejects a predicate within limits".into() }),
                    Ok(bs) => {
                        if p.nodes.len() > 1000 || p.edges.len() > 1000 {
                            return Ok("FAIL encoder accepts a predicate beyond its limits".into());
                        }
                        if p.encoded_size() != bs.len() {
                            return Ok(format!("FAIL encoded_size {} != actual length {}", p.encoded_size(), bs.len()));
                        }
                        match Predicate::decode(&bs) {
                            Ok(q) if q == p => Ok("ok".into()),
                            other => Ok(format!("FAIL decode(encode(p)) = {:?}", other.map(|q| show_predicate(&q)))),
                        }
                    }
                }
            }
            "o_mutsrt" => {
                let ms = t.list(|t| Ok(Mutation { key: t.words()?, value: t.words()? }))?;
                t.done()?;
                let ws: Vec<i64> = encode::encode_mutations(&ms).collect();
                match decode::decode_mutations(&ws) {
                    Ok(back) if back == ms => {}
                    other => return Ok(format!("FAIL decode_mutations(encode_mutations(ms)) = {:?}", other)),
                }
                for m in &ms {
                    let w: Vec<i64> = m.encode().collect();
                    match Mutation::decode_mutation(&w) {
                        Ok(b) if &b == m => {}
                        other => return Ok(format!("FAIL decode_mutation(encode(m)) = {:?}", other)),
                    }
                }
                Ok("ok".into())
            }
            _ => Err("nofam".into()),
        }
    })();
    match r {
        Err(e) if e == "nofam" => None,
        other => Some(other),
    }
}
