//! VM property oracles evaluated on the real code only.
use crate::fam_vm::*;
use crate::parse::*;
use essential_asm::{self as asm, Op};
use essential_vm::{sync::step_op, Access, GasLimit, ProgramControlFlow, Vm};
use std::sync::Arc;

const STACK_LIMIT: usize = 4096;
const MEMORY_LIMIT: usize = 10240;
const REPEAT_LIMIT: usize = 4096;
const DEPTH_LIMIT: usize = 1;

fn bounds(vm: &Vm) -> Option<String> {
    if vm.stack.len() > STACK_LIMIT {
        return Some(format!("stack holds {} words", vm.stack.len()));
    }
    if vm.memory.len().unwrap_or(i64::MAX) as usize > MEMORY_LIMIT {
        return Some(format!("memory holds {:?} words", vm.memory.len()));
    }
    if repeat_depth(&vm.repeat) > REPEAT_LIMIT {
        return Some(format!("repeat stack holds {} entries", repeat_depth(&vm.repeat)));
    }
    if vm.parent_memory.len() > DEPTH_LIMIT {
        return Some(format!("compute depth {}", vm.parent_memory.len()));
    }
    None
}

/// C05: single-step the real ops through the public `sync::step_op`, checking the resource
/// bounds after every executed operation (a panic is caught by the caller and reported).
fn o_steps(c: &mut VmCase) -> String {
    let ops = match asm::from_bytes(c.prog.iter().copied()).collect::<Result<Vec<_>, _>>() {
        Ok(o) => o,
        Err(_) => return "na".into(),
    };
    if let Some(b) = bounds(&c.vm) {
        return format!("na initial state out of bounds: {b}");
    }
    let (state, _calls) = views(c);
    let access = Access::new(Arc::new(c.sols.clone()), c.index as u16);
    let cost = &c.cost;
    let costf = move |op: &Op| cost.of(op);
    let limit = GasLimit { per_yield: GasLimit::DEFAULT_PER_YIELD, total: c.limit };
    let mut gas: u64 = 0;
    let mut steps = 0usize;
    let mut vm = c.vm.clone();
    while let Some(op) = ops.get(vm.pc).copied() {
        steps += 1;
        if steps > 300_000 {
            return "na too-long".into();
        }
        let g = costf(&op);
        match gas.checked_add(g).filter(|s| *s <= limit.total) {
            Some(s) => gas = s,
            None => break,
        }
        let r = step_op(access.clone(), op, &mut vm, &state, &ops[..], &costf, limit);
        if let Some(b) = bounds(&vm) {
            return format!("FAIL after step {steps} (pc {} op {:?}): {b}", vm.pc, op);
        }
        // a step, successful or not, leaves the stack of parent memories as it found it (Compute pushes a snapshot for its
        // children only)
        if vm.parent_memory.len() != c.vm.parent_memory.len() {
            return format!(
                "FAIL after step {steps} (pc {} op {:?}, result {}): the Vm is left with {} parent memories, it started with {}",
                vm.pc, op, if r.is_ok() { "ok" } else { "error" }, vm.parent_memory.len(), c.vm.parent_memory.len()
            );
        }
        match r {
            Err(_) => break,
            Ok(Some(ProgramControlFlow::Pc(p))) => vm.pc = p,
            Ok(Some(ProgramControlFlow::Halt)) => break,
            Ok(Some(ProgramControlFlow::ComputeEnd)) => {
                vm.pc += 1;
                break;
            }
            Ok(Some(ProgramControlFlow::ComputeResult((pc, g, h)))) => {
                match gas.checked_add(g).filter(|s| *s <= limit.total) {
                    Some(s) => gas = s,
                    None => break,
                }
                vm.pc = pc;
                if h {
                    break;
                }
            }
            Ok(None) => vm.pc += 1,
        }
    }
    // the whole-program entry point must not panic either and must end within bounds
    let mut vm2 = c.vm.clone();
    let r = vm2.exec_ops(&ops, access, &state, &costf, limit);
    if r.is_ok() {
        if let Some(b) = bounds(&vm2) {
            return format!("FAIL after exec_ops: {b}");
        }
    }
    if vm2.parent_memory.len() != c.vm.parent_memory.len() {
        return format!(
            "FAIL after exec_ops ({}): the Vm is left with {} parent memories, it started with {}",
            if r.is_ok() { "ok" } else { "error" }, vm2.parent_memory.len(), c.vm.parent_memory.len()
        );
    }
    format!("ok steps={steps}")
}

/// C07: audit the gas actually charged by the caller-supplied cost function against the result.
fn o_gas(c: &mut VmCase) -> String {
    use std::sync::atomic::{AtomicU64, Ordering};
    let ops = match asm::from_bytes(c.prog.iter().copied()).collect::<Result<Vec<_>, _>>() {
        Ok(o) => o,
        Err(_) => return "na".into(),
    };
    let (state, _calls) = views(c);
    let access = Access::new(Arc::new(c.sols.clone()), c.index as u16);
    let cost = &c.cost;
    // u128 audit in two halves (lo, hi) so that it cannot itself overflow
    let lo = AtomicU64::new(0);
    let hi = AtomicU64::new(0);
    let n_ops = AtomicU64::new(0);
    let costf = |op: &Op| {
        let g = cost.of(op);
        let prev = lo.fetch_add(g, Ordering::SeqCst);
        if prev.checked_add(g).is_none() {
            hi.fetch_add(1, Ordering::SeqCst);
        }
        n_ops.fetch_add(1, Ordering::SeqCst);
        g
    };
    let limit = GasLimit { per_yield: GasLimit::DEFAULT_PER_YIELD, total: c.limit };
    let before = c.vm.clone();
    let r = c.vm.exec_ops(&ops, access, &state, &costf, limit);
    let audited: u128 = ((hi.load(Ordering::SeqCst) as u128) << 64) + lo.load(Ordering::SeqCst) as u128;
    match r {
        Ok(g) => {
            if g as u128 != audited {
                return format!("FAIL reported gas {g} but the cost function was charged {audited}");
            }
            if g > c.limit {
                return format!("FAIL reported gas {g} exceeds the limit {}", c.limit);
            }
            format!("ok gas={g} ops={}", n_ops.load(Ordering::SeqCst))
        }
        Err(e) => {
            if let essential_vm::error::OpError::OutOfGas(oog) = &e.1 {
                // the op whose cost did not fit must not have had any effect:
                // (only decidable here when it is the very first op)
                if n_ops.load(Ordering::SeqCst) == 1 && !ops.is_empty() {
                    if c.vm.stack != before.stack || c.vm.memory != before.memory || c.vm.pc != before.pc {
                        return "FAIL out-of-gas op had an effect".into();
                    }
                }
                if oog.spent as u128 + oog.op_gas as u128 <= c.limit as u128 {
                    return format!("FAIL OutOfGas although spent {} + op {} fits the limit {}", oog.spent, oog.op_gas, c.limit);
                }
                return "ok outofgas".into();
            }
            "na err".into()
        }
    }
}

/// C11: a single state-read op on a recording view: the request, the layout, the frame.
fn o_state(c: &mut VmCase) -> String {
    use essential_asm::StateRead as SR;
    let ops = match asm::from_bytes(c.prog.iter().copied()).collect::<Result<Vec<_>, _>>() {
        Ok(o) => o,
        Err(_) => return "na".into(),
    };
    let [Op::StateRead(sr)] = ops[..] else { return "na not a single state read".into() };
    let (want_view, ext) = match sr {
        SR::KeyRange => (0usize, false),
        SR::KeyRangeExtern => (0, true),
        SR::PostKeyRange => (1, false),
        SR::PostKeyRangeExtern => (1, true),
    };
    // documented operand layout, read off the initial stack independently of the implementation
    let st: Vec<i64> = c.vm.stack.to_vec();
    let n_st = st.len();
    if n_st < 3 {
        return "na".into();
    }
    let (addr, num, klen) = (st[n_st - 1], st[n_st - 2], st[n_st - 3]);
    if addr < 0 || num < 0 || klen < 0 || (klen as usize) + 3 + if ext { 4 } else { 0 } > n_st {
        return "na invalid operands".into();
    }
    let klen = klen as usize;
    let key: Vec<i64> = st[n_st - 3 - klen..n_st - 3].to_vec();
    let below = n_st - 3 - klen - if ext { 4 } else { 0 };
    let contract: Vec<u8> = if ext {
        st[below..below + 4].iter().flat_map(|w| w.to_be_bytes()).collect()
    } else {
        c.sols[c.index].predicate_to_solve.contract.0.to_vec()
    };
    let (state, calls) = views(c);
    let access = Access::new(Arc::new(c.sols.clone()), c.index as u16);
    let cost = &c.cost;
    let costf = move |op: &Op| cost.of(op);
    let limit = GasLimit { per_yield: GasLimit::DEFAULT_PER_YIELD, total: c.limit };
    let mem_before: Vec<i64> = c.vm.memory.to_vec();
    let r = c.vm.exec_ops(&ops, access, &state, &costf, limit);
    let calls = calls.lock().unwrap().clone();
    if calls.len() != 1 {
        return format!("FAIL {} state reads were made instead of one", calls.len());
    }
    let (v, cc, k, n) = &calls[0];
    if *v != want_view {
        return format!("FAIL asked the {} view", if *v == 0 { "pre" } else { "post" });
    }
    if *cc != contract {
        return format!("FAIL asked contract {} instead of {}", hex::encode(cc), hex::encode(&contract));
    }
    if *k != key || *n != num as usize {
        return format!("FAIL asked key {:?} count {} instead of {:?} {}", k, n, key, num);
    }
    // what the view answered (recomputed from the script)
    let answer = c
        .entries
        .iter()
        .find(|e| e.view == want_view && e.contract == contract && e.key == key && e.n == num as usize)
        .map(|e| e.res.clone())
        .unwrap_or(Ok(vec![]));
    match (r, answer) {
        (Err(e), Err(code)) => match &e.1 {
            essential_vm::error::OpError::StateRead(StErr(x)) if *x == code => "ok state-error".into(),
            _ => "FAIL a state error was not returned unchanged".into(),
        },
        (Ok(_), Err(_)) => "FAIL state error swallowed".into(),
        (Err(_), Ok(vals)) => {
            let need = addr as u128 + 2 * vals.len() as u128 + vals.iter().map(|v| v.len() as u128).sum::<u128>();
            if need <= mem_before.len() as u128 {
                "FAIL read fails although the values fit".into()
            } else {
                "ok does-not-fit".into()
            }
        }
        (Ok(_), Ok(vals)) => {
            let mem: Vec<i64> = c.vm.memory.to_vec();
            if mem.len() != mem_before.len() {
                return "FAIL memory length changed".into();
            }
            let a = addr as usize;
            let m = vals.len();
            let mut off = a + 2 * m;
            let mut expect = mem_before.clone();
            for (i, v) in vals.iter().enumerate() {
                if a + 2 * i + 1 >= expect.len() || off + v.len() > expect.len() {
                    return "FAIL read succeeds although the values do not fit".into();
                }
                expect[a + 2 * i] = off as i64;
                expect[a + 2 * i + 1] = v.len() as i64;
                expect[off..off + v.len()].copy_from_slice(v);
                off += v.len();
            }
            if mem != expect {
                return format!("FAIL memory layout {:?} expected {:?}", &mem[..mem.len().min(24)], &expect[..expect.len().min(24)]);
            }
            if c.vm.stack[..] != st[..below] {
                return "FAIL stack below the operands changed".into();
            }
            "ok layout".into()
        }
    }
}

/// C12: a single access / crypto op against the hash and sign crates called directly.
fn o_access(c: &mut VmCase) -> String {
    use essential_asm::{Access as A, Crypto as K};
    let ops = match asm::from_bytes(c.prog.iter().copied()).collect::<Result<Vec<_>, _>>() {
        Ok(o) => o,
        Err(_) => return "na".into(),
    };
    let [op] = ops[..] else { return "na not a single op".into() };
    let st: Vec<i64> = c.vm.stack.to_vec();
    let n = st.len();
    let sol = c.sols[c.index].clone();
    let (state, _calls) = views(c);
    let access = Access::new(Arc::new(c.sols.clone()), c.index as u16);
    let cost = &c.cost;
    let costf = move |op: &Op| cost.of(op);
    let limit = GasLimit { per_yield: GasLimit::DEFAULT_PER_YIELD, total: c.limit };
    let r = c.vm.exec_ops(&ops, access, &state, &costf, limit);
    let out: Vec<i64> = c.vm.stack.to_vec();
    let words4 = |b: &[u8; 32]| -> Vec<i64> { essential_types::convert::word_4_from_u8_32(*b).to_vec() };
    // expected new stack (None = the op must fail), from the documentation and the hash/sign crates
    let expect: Option<Vec<i64>> = match op {
        Op::Access(A::ThisAddress) => Some([&st[..], &words4(&sol.predicate_to_solve.predicate.0)].concat()),
        Op::Access(A::ThisContractAddress) => Some([&st[..], &words4(&sol.predicate_to_solve.contract.0)].concat()),
        Op::Access(A::PredicateDataSlots) => Some([&st[..], &[sol.predicate_data.len() as i64]].concat()),
        Op::Access(A::PredicateDataLen) => {
            if n < 1 {
                None
            } else {
                usize::try_from(st[n - 1]).ok().and_then(|s| sol.predicate_data.get(s)).map(|slot| [&st[..n - 1], &[slot.len() as i64]].concat())
            }
        }
        Op::Access(A::PredicateData) => {
            if n < 3 {
                None
            } else {
                let (slot, ix, len) = (st[n - 3], st[n - 2], st[n - 1]);
                (|| {
                    let slot = sol.predicate_data.get(usize::try_from(slot).ok()?)?;
                    let (ix, len) = (usize::try_from(ix).ok()?, usize::try_from(len).ok()?);
                    let ws = slot.get(ix..ix.checked_add(len)?)?;
                    Some([&st[..n - 3], ws].concat())
                })()
            }
        }
        Op::Access(A::PredicateExists) => {
            if n < 4 {
                None
            } else {
                let want: Vec<u8> = st[n - 4..].iter().flat_map(|w| w.to_be_bytes()).collect();
                let found = c.sols.iter().any(|s| {
                    let mut words: Vec<i64> = vec![];
                    for slot in &s.predicate_data {
                        words.push(slot.len() as i64);
                        words.extend(slot);
                    }
                    words.extend(words4(&s.predicate_to_solve.contract.0));
                    words.extend(words4(&s.predicate_to_solve.predicate.0));
                    essential_hash::hash_words(&words)[..] == want[..]
                });
                Some([&st[..n - 4], &[found as i64]].concat())
            }
        }
        Op::Crypto(K::Sha256) => (|| {
            let len = usize::try_from(*st.last()?).ok()?;
            let nw = len.div_ceil(8);
            if nw + 1 > n {
                return None;
            }
            let bytes: Vec<u8> = st[n - 1 - nw..n - 1].iter().flat_map(|w| w.to_be_bytes()).take(len).collect();
            // whole words => hash_words, otherwise hash_bytes: both must agree with the op
            let h = if len == nw * 8 { essential_hash::hash_words(&st[n - 1 - nw..n - 1]) } else { essential_hash::hash_bytes(&bytes) };
            Some([&st[..n - 1 - nw], &words4(&h)].concat())
        })(),
        Op::Crypto(K::VerifyEd25519) => (|| {
            if n < 13 {
                return None;
            }
            let pk: Vec<u8> = st[n - 4..].iter().flat_map(|w| w.to_be_bytes()).collect();
            let sig: Vec<u8> = st[n - 12..n - 4].iter().flat_map(|w| w.to_be_bytes()).collect();
            let len = usize::try_from(st[n - 13]).ok()?;
            let nw = len.div_ceil(8);
            if nw + 13 > n {
                return None;
            }
            let data: Vec<u8> = st[n - 13 - nw..n - 13].iter().flat_map(|w| w.to_be_bytes()).take(len).collect();
            match crate::fam_crypto::ed_verify(&pk, &sig, &data) {
                2 => None,
                v => Some([&st[..n - 13 - nw], &[v as i64]].concat()),
            }
        })(),
        Op::Crypto(K::RecoverSecp256k1) => (|| {
            if n < 13 {
                return None;
            }
            let id = i32::try_from(st[n - 1]).ok()?;
            let sig: Vec<u8> = st[n - 9..n - 1].iter().flat_map(|w| w.to_be_bytes()).collect();
            let hash: Vec<u8> = st[n - 13..n - 9].iter().flat_map(|w| w.to_be_bytes()).collect();
            // the sign crate's recovery + the sign crate's word encoding of the key
            let sig_t = essential_types::Signature(sig.clone().try_into().ok()?, u8::try_from(id).ok()?);
            let via_sign_crate = essential_sign::recover_hash(hash.clone().try_into().ok()?, &sig_t)
                .ok()
                .map(|pk| essential_sign::encode::public_key(&pk).to_vec());
            match crate::fam_crypto::secp_recover(&hash, &sig, id) {
                crate::fam_crypto::Secp::Bad => None,
                crate::fam_crypto::Secp::Unrecoverable => Some([&st[..n - 13], &[0i64; 5][..]].concat()),
                crate::fam_crypto::Secp::Key(_) => Some([&st[..n - 13], &via_sign_crate?[..]].concat()),
            }
        })(),
        _ => return "na".into(),
    };
    match (r, expect) {
        (Ok(_), Some(e)) => {
            if e.len() > STACK_LIMIT {
                "FAIL op succeeds beyond the stack limit".into()
            } else if out == e {
                "ok value".into()
            } else {
                format!("FAIL stack {:?} expected {:?}", &out[out.len().saturating_sub(8)..], &e[e.len().saturating_sub(8)..])
            }
        }
        (Err(_), None) => "ok error".into(),
        (Err(e), Some(x)) => {
            if x.len() > STACK_LIMIT {
                "ok overflow".into()
            } else {
                format!("FAIL op fails ({}) but a result is documented", show_exec_err(&e))
            }
        }
        (Ok(_), None) => "FAIL op succeeds on an out-of-range / malformed request".into(),
    }
}

/// C14: executing the op list and executing the mapped bytecode must agree on everything.
fn o_both(c: &mut VmCase) -> String {
    use essential_vm::BytecodeMapped;
    let ops = match asm::from_bytes(c.prog.iter().copied()).collect::<Result<Vec<_>, _>>() {
        Ok(o) => o,
        Err(_) => return "na".into(),
    };
    let owned = match BytecodeMapped::try_from(c.prog.clone()) {
        Ok(m) => m,
        Err(_) => return "FAIL parse ok but mapping fails".into(),
    };
    let borrowed = BytecodeMapped::try_from(&c.prog[..]).expect("as owned");
    let mut outs = vec![];
    for which in 0..3 {
        let (state, _calls) = views(c);
        let access = Access::new(Arc::new(c.sols.clone()), c.index as u16);
        let cost = &c.cost;
        let costf = move |op: &Op| cost.of(op);
        let limit = GasLimit { per_yield: GasLimit::DEFAULT_PER_YIELD, total: c.limit };
        let mut vm = c.vm.clone();
        let r = match which {
            0 => vm.exec_ops(&ops, access, &state, &costf, limit),
            1 => vm.exec_bytecode(&owned, access, &state, &costf, limit),
            _ => vm.exec_bytecode(&borrowed, access, &state, &costf, limit),
        };
        outs.push(match r {
            Ok(g) => show_vm(g, &vm),
            Err(e) => show_exec_err(&e),
        });
    }
    if outs[0] == outs[1] && outs[1] == outs[2] {
        "ok same".into()
    } else {
        format!("FAIL exec_ops: {} | exec_bytecode(owned): {} | exec_bytecode(borrowed): {}", outs[0], outs[1], outs[2])
    }
}

pub fn run(fam: &str, t: &mut Toks) -> Option<R<String>> {
    match fam {
        "o_both" => Some((|| {
            let mut c = p_case(t)?;
            Ok(o_both(&mut c))
        })()),
        "o_access" => Some((|| {
            let mut c = p_case(t)?;
            Ok(o_access(&mut c))
        })()),
        "o_state" => Some((|| {
            let mut c = p_case(t)?;
            Ok(o_state(&mut c))
        })()),
        "o_steps" => Some((|| {
            let mut c = p_case(t)?;
            Ok(o_steps(&mut c))
        })()),
        "o_out" => Some((|| {
            // the result predicted by a theorem about the model (hex-encoded text): `o_out <expected> <case>`
            let exp = String::from_utf8(t.bytes()?).map_err(|e| e.to_string())?;
            if t.tok()? != "prog" {
                return Err("o_out family".into());
            }
            let mut c = p_case(t)?;
            let got = run_case(&mut c);
            Ok(if got == exp { "ok".into() } else { format!("FAIL got `{got}` but the theorem predicts `{exp}`") })
        })()),
        "o_yield" => Some((|| {
            // `GasLimit::per_yield` is any u64 and has no observable effect: `o_yield <k> <per_yield_1..k> prog <case>` runs the
            // case with the default and with every listed value; all results are the same (a panic is a result that differs)
            let pys = t.list(|t| t.u64())?;
            if t.tok()? != "prog" {
                return Err("o_yield family".into());
            }
            let c = p_case(t)?;
            let run_with = |py: u64| -> String {
                let mut c2 = VmCase { mode: c.mode.clone(), prog: c.prog.clone(), vm: c.vm.clone(), index: c.index, sols: c.sols.clone(),
                    entries: c.entries.clone(), cost: c.cost.clone(), limit: c.limit, max_breadth: c.max_breadth, per_yield: py };
                match std::panic::catch_unwind(std::panic::AssertUnwindSafe(|| run_case(&mut c2))) {
                    Ok(r) => r,
                    Err(_) => "panic".into(),
                }
            };
            let base = run_with(GasLimit::DEFAULT_PER_YIELD);
            for py in pys {
                let got = run_with(py);
                if got != base {
                    return Ok(format!("FAIL per_yield {py} gives `{got}`, the default gives `{base}`"));
                }
            }
            Ok("ok".into())
        })()),
        "o_gas" => Some((|| {
            let mut c = p_case(t)?;
            Ok(o_gas(&mut c))
        })()),
        _ => None,
    }
}
