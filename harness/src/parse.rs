//! Line-protocol tokens (mirror of lean/Driver/Parse.lean).
use essential_asm::Op;

pub struct Toks<'a> {
    toks: Vec<&'a str>,
    pos: usize,
}

pub type R<T> = Result<T, String>;

impl<'a> Toks<'a> {
    pub fn new(rest: &'a [&'a str]) -> Self {
        Toks { toks: rest.to_vec(), pos: 0 }
    }
    pub fn tok(&mut self) -> R<&'a str> {
        let t = self.toks.get(self.pos).ok_or("eof")?;
        self.pos += 1;
        Ok(t)
    }
    pub fn int(&mut self) -> R<i64> {
        self.tok()?.parse::<i64>().map_err(|e| e.to_string())
    }
    pub fn nat(&mut self) -> R<usize> {
        self.tok()?.parse::<usize>().map_err(|e| e.to_string())
    }
    pub fn u64(&mut self) -> R<u64> {
        self.tok()?.parse::<u64>().map_err(|e| e.to_string())
    }
    pub fn bytes(&mut self) -> R<Vec<u8>> {
        let t = self.tok()?;
        let h = t.strip_prefix('x').ok_or("bytes")?;
        hex::decode(h).map_err(|e| e.to_string())
    }
    pub fn bytes32(&mut self) -> R<[u8; 32]> {
        self.bytes()?.try_into().map_err(|_| "bytes32".to_string())
    }
    pub fn list<T>(&mut self, mut f: impl FnMut(&mut Self) -> R<T>) -> R<Vec<T>> {
        let n = self.nat()?;
        let mut v = Vec::with_capacity(n.min(1 << 16));
        for _ in 0..n {
            v.push(f(self)?);
        }
        Ok(v)
    }
    pub fn words(&mut self) -> R<Vec<i64>> {
        self.list(|t| t.int())
    }
    pub fn op(&mut self) -> R<Op> {
        let t = self.tok()?;
        let (name, w) = match t.split_once(':') {
            Some((n, w)) => (n, w.parse::<i64>().map_err(|e| e.to_string())?),
            None => (t, 0),
        };
        crate::gen_short::make_op(name, w).ok_or_else(|| format!("op {name}"))
    }
    pub fn ops(&mut self) -> R<Vec<Op>> {
        self.list(|t| t.op())
    }
    /// all remaining tokens (consumes them)
    pub fn rest(&mut self) -> Vec<&'a str> {
        let r = self.toks[self.pos..].to_vec();
        self.pos = self.toks.len();
        r
    }
    pub fn done(&self) -> R<()> {
        if self.pos == self.toks.len() {
            Ok(())
        } else {
            Err("trailing".into())
        }
    }
}

pub fn hex_of(bs: &[u8]) -> String {
    format!("x{}", hex::encode(bs))
}

pub fn show_words(ws: &[i64]) -> String {
    let v: Vec<String> = ws.iter().map(|w| w.to_string()).collect();
    format!("[{}]", v.join(","))
}

pub fn show_nats(ws: &[usize]) -> String {
    let v: Vec<String> = ws.iter().map(|w| w.to_string()).collect();
    format!("[{}]", v.join(","))
}

pub fn show_op(op: &Op) -> String {
    format!("{:?}", op)
}

pub fn show_ops(ops: &[Op]) -> String {
    let v: Vec<String> = ops.iter().map(show_op).collect();
    format!("[{}]", v.join(","))
}
