//! sign families (C19): the real `essential_sign` crate on contracts.
use crate::fam_types::p_predicate;
use crate::parse::*;
use essential_sign::secp256k1::{PublicKey, Secp256k1, SecretKey};
use essential_types::{
    contract::{Contract, SignedContract},
    Signature,
};

fn p_contract(t: &mut Toks) -> R<Contract> {
    let predicates = t.list(p_predicate)?;
    let salt = t.bytes32()?;
    Ok(Contract { predicates, salt })
}

fn p_sig(t: &mut Toks) -> R<Signature> {
    let s: [u8; 64] = t.bytes()?.try_into().map_err(|_| "sig64".to_string())?;
    let id = t.nat()?;
    Ok(Signature(s, id as u8))
}

/// skip the model-only primitive table: `<n> (x<hash> x<sig> <id> <b|u|k x..>)*`
fn skip_table(t: &mut Toks) -> R<()> {
    let n = t.nat()?;
    for _ in 0..n {
        t.bytes()?;
        t.bytes()?;
        t.nat()?;
        if t.tok()? == "k" {
            t.bytes()?;
        }
    }
    Ok(())
}

pub fn run(fam: &str, t: &mut Toks) -> Option<R<String>> {
    let r = (|| -> R<String> {
        match fam {
            "recover_contract" => {
                let c = p_contract(t)?;
                let sig = p_sig(t)?;
                skip_table(t)?;
                t.done()?;
                let sc = SignedContract { contract: c, signature: sig };
                let v = essential_sign::contract::verify(&sc).is_ok();
                Ok(match essential_sign::contract::recover(&sc) {
                    Ok(pk) => format!("ok {} verify={}", hex_of(&pk.serialize()), v),
                    Err(_) => format!("err verify={}", v),
                })
            }
            "chksigned" => {
                let c = p_contract(t)?;
                let sig = p_sig(t)?;
                skip_table(t)?;
                t.done()?;
                let sc = SignedContract { contract: c, signature: sig };
                use essential_check::predicate as chkp;
                Ok(match chkp::check_signed_contract(&sc) {
                    Ok(()) => "ok".into(),
                    Err(chkp::InvalidSignedContract::Signature(_)) => "err Signature".into(),
                    Err(chkp::InvalidSignedContract::Set(chkp::InvalidContract::TooManyPredicates(_))) => "err TooManyPredicates".into(),
                    Err(chkp::InvalidSignedContract::Set(chkp::InvalidContract::Predicate(i, chkp::InvalidPredicate::TooManyNodes(_)))) => format!("err Predicate:{i}:TooManyNodes"),
                    Err(chkp::InvalidSignedContract::Set(chkp::InvalidContract::Predicate(i, chkp::InvalidPredicate::TooManyEdges(_)))) => format!("err Predicate:{i}:TooManyEdges"),
                })
            }
            "sign_contract" => {
                // reference for the generator: address, signature, key
                let sk = t.bytes32()?;
                let c = p_contract(t)?;
                t.done()?;
                let Ok(sk) = SecretKey::from_slice(&sk) else { return Ok("badkey".into()) };
                let addr = essential_hash::content_addr(&c);
                let sc = essential_sign::contract::sign(c, &sk);
                let pk = sk.public_key(&Secp256k1::new());
                Ok(format!("{} {} {} {}", hex_of(&addr.0), hex_of(&sc.signature.0), sc.signature.1, hex_of(&pk.serialize())))
            }
            "o_sign" => {
                // sk, contract, tampered contract (must differ as a multiset or in the salt)
                let sk = t.bytes32()?;
                let c = p_contract(t)?;
                let tampered = p_contract(t)?;
                t.done()?;
                let Ok(sk) = SecretKey::from_slice(&sk) else { return Ok("na badkey".into()) };
                let pk: PublicKey = sk.public_key(&Secp256k1::new());
                let sc = essential_sign::contract::sign(c.clone(), &sk);
                if essential_sign::contract::verify(&sc).is_err() {
                    return Ok("FAIL verify rejects a fresh signature".into());
                }
                match essential_sign::contract::recover(&sc) {
                    Ok(k) if k == pk => {}
                    other => return Ok(format!("FAIL recover(sign(c)) = {:?}", other.map(|k| hex_of(&k.serialize())))),
                }
                // independent of predicate order
                let mut rev = c.clone();
                rev.predicates.reverse();
                let sc_rev = SignedContract { contract: rev.clone(), signature: sc.signature.clone() };
                if essential_sign::contract::recover(&sc_rev).ok() != Some(pk) {
                    return Ok("FAIL signature does not verify for a permutation of the predicates".into());
                }
                if essential_sign::contract::sign(rev, &sk).signature != sc.signature {
                    return Ok("FAIL signature depends on predicate order".into());
                }
                // tampering: the signer's key must no longer be recovered
                let mut a = c.predicates.clone();
                let mut b = tampered.predicates.clone();
                a.sort();
                b.sort();
                if a != b || c.salt != tampered.salt {
                    let st = SignedContract { contract: tampered, signature: sc.signature.clone() };
                    if essential_sign::contract::recover(&st).ok() == Some(pk) {
                        return Ok("FAIL signer's key still recovered after the contract was changed".into());
                    }
                }
                // every recovery id byte and corrupted signatures: error or another key, never a panic
                for id in 0..=255u8 {
                    let s = SignedContract { contract: c.clone(), signature: Signature(sc.signature.0, id) };
                    let r = essential_sign::contract::recover(&s);
                    if id > 3 && r.is_ok() {
                        return Ok(format!("FAIL recovery id {id} accepted"));
                    }
                    if id != sc.signature.1 && r.ok() == Some(pk) {
                        return Ok(format!("FAIL recovery id {id} recovers the signer's key"));
                    }
                }
                for bit in [0usize, 7, 255, 256, 300, 511] {
                    let mut s64 = sc.signature.0;
                    s64[bit / 8] ^= 1 << (bit % 8);
                    let s = SignedContract { contract: c.clone(), signature: Signature(s64, sc.signature.1) };
                    if essential_sign::contract::recover(&s).ok() == Some(pk) {
                        return Ok(format!("FAIL signature with bit {bit} flipped recovers the signer's key"));
                    }
                }
                // word encodings: what the VM op consumes / produces
                let words = essential_sign::encode::public_key(&pk);
                let bytes = pk.serialize();
                let back: Vec<u8> = words[..4].iter().flat_map(|w| w.to_be_bytes()).chain([words[4] as u8]).collect();
                if back != bytes || !(0..=255).contains(&words[4]) {
                    return Ok("FAIL public key word encoding is not the 32+1 byte layout".into());
                }
                Ok("ok".into())
            }
            _ => Err("nofam".into()),
        }
    })();
    match r {
        Err(e) if e == "nofam" => None,
        other => Some(other),
    }
}
