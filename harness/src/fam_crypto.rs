//! Reference answers of the cryptographic primitives, computed with the hash / sign crates
//! (and ed25519-dalek) directly — never through the VM.  Used (a) to fill the model's
//! primitive tables and (b) by the C12 / C19 oracles.
use crate::parse::*;
use essential_sign::secp256k1::{
    ecdsa::{RecoverableSignature, RecoveryId},
    Message, Secp256k1, SecretKey,
};

pub fn ed_verify(pk: &[u8], sig: &[u8], msg: &[u8]) -> u8 {
    use ed25519_dalek::{Signature, Verifier, VerifyingKey};
    let Ok(pk32): Result<[u8; 32], _> = pk.try_into() else { return 2 };
    let Ok(sig64): Result<[u8; 64], _> = sig.try_into() else { return 0 };
    match VerifyingKey::from_bytes(&pk32) {
        Err(_) => 2,
        Ok(vk) => vk.verify(msg, &Signature::from_bytes(&sig64)).is_ok() as u8,
    }
}

pub enum Secp {
    Bad,
    Unrecoverable,
    Key([u8; 33]),
}

pub fn secp_recover(hash: &[u8], sig: &[u8], id: i32) -> Secp {
    let Ok(h32): Result<[u8; 32], _> = hash.try_into() else { return Secp::Bad };
    let Ok(rid) = RecoveryId::try_from(id) else { return Secp::Bad };
    let Ok(rs) = RecoverableSignature::from_compact(sig, rid) else { return Secp::Bad };
    match Secp256k1::new().recover_ecdsa(&Message::from_digest(h32), &rs) {
        Ok(pk) => Secp::Key(pk.serialize()),
        Err(_) => Secp::Unrecoverable,
    }
}

pub fn run(fam: &str, t: &mut Toks) -> Option<R<String>> {
    let r = (|| -> R<String> {
        match fam {
            "ed_sign" => {
                use ed25519_dalek::{Signer, SigningKey};
                let sk = t.bytes32()?;
                let msg = t.bytes()?;
                t.done()?;
                let k = SigningKey::from_bytes(&sk);
                Ok(format!("{} {}", hex_of(k.verifying_key().as_bytes()), hex_of(&k.sign(&msg).to_bytes())))
            }
            "ed_verify" => {
                let (pk, sig, msg) = (t.bytes()?, t.bytes()?, t.bytes()?);
                t.done()?;
                Ok(ed_verify(&pk, &sig, &msg).to_string())
            }
            "secp_sign" => {
                let sk = t.bytes32()?;
                let hash = t.bytes32()?;
                t.done()?;
                let Ok(sk) = SecretKey::from_slice(&sk) else { return Ok("badkey".into()) };
                let sig = essential_sign::sign_hash(hash, &sk);
                let pk = sk.public_key(&Secp256k1::new());
                Ok(format!("{} {} {}", hex_of(&sig.0), sig.1, hex_of(&pk.serialize())))
            }
            "secp_recover" => {
                let (h, s) = (t.bytes()?, t.bytes()?);
                let id = t.int()?;
                t.done()?;
                Ok(match secp_recover(&h, &s, id as i32) {
                    Secp::Bad => "b".into(),
                    Secp::Unrecoverable => "u".into(),
                    Secp::Key(k) => format!("k {}", hex_of(&k)),
                })
            }
            "sha256" => {
                let b = t.bytes()?;
                t.done()?;
                Ok(hex_of(&essential_hash::hash_bytes(&b)))
            }
            _ => Err("nofam".into()),
        }
    })();
    match r {
        Err(e) if e == "nofam" => None,
        other => Some(other),
    }
}
