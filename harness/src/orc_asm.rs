//! Property oracles evaluated on the real code only (C13, C14, C15).
//! Each returns `ok`, `na` (hypothesis of the property not met) or `FAIL <what>`.
use crate::parse::*;
use essential_asm::{self as asm, effects::Effects, Op, ToOpcode};
use essential_vm::BytecodeMapped;

fn effect_of(op: &Op) -> u8 {
    // independent statement of "the effect an operation has" (documentation of `Effects`)
    match format!("{:?}", op).as_str() {
        "StateRead(KeyRange)" => Effects::KeyRange.bits(),
        "StateRead(KeyRangeExtern)" => Effects::KeyRangeExtern.bits(),
        "StateRead(PostKeyRange)" => Effects::PostKeyRange.bits(),
        "StateRead(PostKeyRangeExtern)" => Effects::PostKeyRangeExtern.bits(),
        "Access(ThisAddress)" => Effects::ThisAddress.bits(),
        "Access(ThisContractAddress)" => Effects::ThisContractAddress.bits(),
        _ => 0,
    }
}

pub fn run(fam: &str, t: &mut Toks) -> Option<R<String>> {
    let r = (|| -> R<String> {
        match fam {
            "o_rt_bytes" => {
                let bs = t.bytes()?;
                t.done()?;
                match asm::from_bytes(bs.iter().copied()).collect::<Result<Vec<_>, _>>() {
                    Ok(ops) => {
                        let back: Vec<u8> = asm::to_bytes(ops.iter().copied()).collect();
                        if back == bs {
                            Ok("ok".into())
                        } else {
                            Ok(format!("FAIL parse-then-serialise {} != input", hex_of(&back)))
                        }
                    }
                    Err(_) => Ok("na".into()),
                }
            }
            "o_rt_ops" => {
                let ops = t.ops()?;
                t.done()?;
                let bs: Vec<u8> = asm::to_bytes(ops.iter().copied()).collect();
                let expect_len: usize = ops
                    .iter()
                    .map(|op| if matches!(op, Op::Stack(asm::Stack::Push(_))) { 9 } else { 1 })
                    .sum();
                if bs.len() != expect_len {
                    return Ok(format!("FAIL serialised length {} != {}", bs.len(), expect_len));
                }
                match asm::from_bytes(bs.iter().copied()).collect::<Result<Vec<_>, _>>() {
                    Ok(back) if back == ops => {}
                    other => return Ok(format!("FAIL serialise-then-parse gives {:?}", other.map(|o| show_ops(&o)).map_err(|e| e.to_string()))),
                }
                for op in &ops {
                    let oc: u8 = op.to_opcode().into();
                    let first = asm::to_bytes([*op]).next();
                    if first != Some(oc) {
                        return Ok(format!("FAIL first byte {:?} != opcode {}", first, oc));
                    }
                    if let Op::Stack(asm::Stack::Push(w)) = op {
                        let b: Vec<u8> = asm::to_bytes([*op]).skip(1).collect();
                        if b != w.to_be_bytes() {
                            return Ok("FAIL immediate is not 8 big-endian bytes".into());
                        }
                    }
                }
                Ok("ok".into())
            }
            "o_mapped" => {
                let bs = t.bytes()?;
                t.done()?;
                let parsed = asm::from_bytes(bs.iter().copied()).collect::<Result<Vec<_>, _>>();
                let mapped = BytecodeMapped::try_from(&bs[..]);
                match (parsed, mapped) {
                    (Ok(ops), Ok(m)) => {
                        let mops: Vec<Op> = m.ops().collect();
                        if mops != ops {
                            return Ok("FAIL mapped ops differ from parsed ops".into());
                        }
                        for i in 0..ops.len() + 3 {
                            if m.op(i) != ops.get(i).copied() {
                                return Ok(format!("FAIL op({i}) differs from list"));
                            }
                        }
                        let rebuilt: BytecodeMapped = ops.iter().copied().collect();
                        if rebuilt.bytecode() != &bs[..] || rebuilt.op_indices() != m.op_indices() {
                            return Ok("FAIL from_iter does not reproduce bytes/indices".into());
                        }
                        Ok("ok".into())
                    }
                    (Err(a), Err(b)) => {
                        if std::mem::discriminant(&a) == std::mem::discriminant(&b) {
                            Ok("ok".into())
                        } else {
                            Ok("FAIL error kinds differ".into())
                        }
                    }
                    (Ok(_), Err(_)) => Ok("FAIL parse ok but mapping fails".into()),
                    (Err(_), Ok(_)) => Ok("FAIL mapping ok but parse fails".into()),
                }
            }
            "o_contains" => {
                let e = t.nat()?;
                let bs = t.bytes()?;
                t.done()?;
                let Ok(ops) = asm::from_bytes(bs.iter().copied()).collect::<Result<Vec<_>, _>>() else {
                    return Ok("na".into());
                };
                let eff = Effects::from_bits_retain(e as u8);
                let want = ops.iter().any(|op| {
                    let f = effect_of(op);
                    f != 0 && (e as u8) & f == f
                });
                let got = asm::effects::bytes_contains_any(&bs, eff);
                if got == want {
                    Ok("ok".into())
                } else {
                    Ok(format!("FAIL bytes_contains_any={got} but ops-level={want}"))
                }
            }
            "o_analyze" => {
                let ops = t.ops()?;
                t.done()?;
                let want = ops.iter().fold(0u8, |a, op| a | effect_of(op));
                let got = asm::effects::analyze(&ops).bits();
                if got == want {
                    Ok("ok".into())
                } else {
                    Ok(format!("FAIL analyze={got} but union of effects={want}"))
                }
            }
            _ => Err("nofam".into()),
        }
    })();
    match r {
        Err(e) if e == "nofam" => None,
        other => Some(other),
    }
}
