//! C20 — the lock under contention: REAL OS threads on `essential_lock::StdLock`.
//!
//! Encoding (mirror of lean/Driver/LockFam.lean; every list is length-prefixed):
//!   <sys>     = <n> v1 … vn   <T> { <k> { lock mul add }*k }*T
//!   <returns> = <T> { <k> r1 … rk }*T          <finals> = <n> v1 … vn
//!
//!   lockrun    <sys> <pattern: m p1 … pm>  one thread per script; closure number k of thread t does
//!              `old = *v; pause; *v = mul*old + add; old` inside the closure passed to `apply`, the
//!              pause taken from the pattern (0 none, 1 yield, 2..=9 spin 4^p, >= 10 sleep p µs); another
//!              pause from the pattern is taken between two calls of `apply`.
//!              Prints `<returns> <finals>`, or `FAIL timeout/deadlock …` / `FAIL panic …`.
//!   o_lockrun  <sys> <pattern>             the same run, checked in-process: `ok …` iff the observed
//!              history is serialisable (oracle family)
//!   o_lockhammer <threads> <locks> <iters> <pattern>   every thread does <iters> increments (lock
//!              (thread + k) mod locks); checked in-process: returned values per lock are exactly
//!              init, init+1, …; per thread increasing; final = init + count
//!   lockcheck  <sys> <returns> <finals>    `ok` iff some serial order of the closures (consistent with
//!              each thread's program order) produces exactly these returned and final values, else
//!              `no-serial-order` (independent implementation of the Lean driver's `lockcheck`)
//!   lockcheckx                             same computation (corrupted control histories)
//!   lockserial <sys> <order>               outcome of the serial execution in the given order
//!   o_loom     <tier>                      runs the loom explorer built in ../harness-loom (replay of a loom
//!                                          finding; check.py builds and runs it itself, see vlib/gen_lock.py)
use crate::parse::*;
use essential_lock::StdLock;
use std::collections::HashSet;
use std::sync::{mpsc, Arc, Barrier};
use std::time::{Duration, Instant};

#[derive(Clone, Copy)]
struct Closure {
    lock: usize,
    mul: i64,
    add: i64,
}

struct Sys {
    init: Vec<i64>,
    scripts: Vec<Vec<Closure>>,
}

/// how long a whole `lockrun` may take before the threads are given up as deadlocked (a healthy
/// run takes well under 0.5 s); after two such verdicts in this process later runs wait less
const RUN_TIMEOUT: Duration = Duration::from_secs(30);
const RUN_TIMEOUT_AFTER_DEADLOCKS: Duration = Duration::from_millis(8000);
static DEADLOCKS: std::sync::atomic::AtomicUsize = std::sync::atomic::AtomicUsize::new(0);
/// states expanded before the search gives up (same budget as the Lean driver)
const SEARCH_LIMIT: usize = 200_000;

fn sys(t: &mut Toks) -> R<Sys> {
    let init = t.words()?;
    let scripts = t.list(|t| {
        t.list(|t| {
            let lock = t.nat()?;
            let mul = t.int()?;
            let add = t.int()?;
            Ok(Closure { lock, mul, add })
        })
    })?;
    if scripts.iter().flatten().any(|c| c.lock >= init.len()) {
        return Err("lock index".into());
    }
    Ok(Sys { init, scripts })
}

fn show_outcome(rets: &[Vec<i128>], finals: &[i128]) -> String {
    let mut toks = vec![rets.len().to_string()];
    for r in rets {
        toks.push(r.len().to_string());
        toks.extend(r.iter().map(|v| v.to_string()));
    }
    toks.push(finals.len().to_string());
    toks.extend(finals.iter().map(|v| v.to_string()));
    toks.join(" ")
}

fn pause(p: u64) {
    match p {
        0 => {}
        1 => std::thread::yield_now(),
        2..=9 => {
            for k in 0..4u64.pow(p as u32) {
                std::hint::black_box(k);
            }
        }
        _ => std::thread::sleep(Duration::from_micros(p)),
    }
}

/// Run the scripts on real threads.  Threads that never come back (deadlock) are abandoned: they
/// keep their `Arc`s alive and stay blocked; the harness goes on with the next case.
fn run_threads(sys: &Sys, pattern: &[u64]) -> Result<(Vec<Vec<i128>>, Vec<i128>), String> {
    let n = sys.scripts.len();
    let locks: Arc<Vec<StdLock<i64>>> = Arc::new(sys.init.iter().map(|v| StdLock::new(*v)).collect());
    let barrier = Arc::new(Barrier::new(n.max(1)));
    let (tx, rx) = mpsc::channel::<(usize, Vec<i64>)>();
    let pat: Arc<Vec<u64>> = Arc::new(if pattern.is_empty() { vec![0] } else { pattern.to_vec() });
    for (t, script) in sys.scripts.iter().cloned().enumerate() {
        let (locks, barrier, tx, pat) = (locks.clone(), barrier.clone(), tx.clone(), pat.clone());
        let spawned = std::thread::Builder::new().stack_size(256 * 1024).spawn(move || {
            barrier.wait();
            let mut rets = Vec::with_capacity(script.len());
            for (k, c) in script.iter().enumerate() {
                let p = pat[(t * 7 + k * (n + 1)) % pat.len()];
                let r = locks[c.lock].apply(|v| {
                    let old = *v;
                    pause(p);
                    *v = c.mul.wrapping_mul(old).wrapping_add(c.add);
                    old
                });
                rets.push(r);
                // outside the lock: lets the other threads in, so that acquisitions interleave
                pause(pat[(t * 5 + k * 3 + 1) % pat.len()]);
            }
            let _ = tx.send((t, rets));
        });
        if spawned.is_err() {
            return Err("FAIL cannot spawn thread".into());
        }
    }
    drop(tx);
    let start = Instant::now();
    let limit = if DEADLOCKS.load(std::sync::atomic::Ordering::Relaxed) >= 2 { RUN_TIMEOUT_AFTER_DEADLOCKS } else { RUN_TIMEOUT };
    let mut rets: Vec<Option<Vec<i64>>> = vec![None; n];
    let mut got = 0;
    while got < n {
        let left = limit.saturating_sub(start.elapsed());
        match rx.recv_timeout(left) {
            Ok((t, r)) => {
                rets[t] = Some(r);
                got += 1;
            }
            Err(mpsc::RecvTimeoutError::Timeout) => {
                DEADLOCKS.fetch_add(1, std::sync::atomic::Ordering::Relaxed);
                let stuck: Vec<String> = (0..n).filter(|t| rets[*t].is_none()).map(|t| t.to_string()).collect();
                return Err(format!(
                    "FAIL timeout/deadlock: threads [{}] of {n} did not return from apply within {} ms",
                    stuck.join(","),
                    limit.as_millis()
                ));
            }
            Err(mpsc::RecvTimeoutError::Disconnected) => {
                let dead: Vec<String> = (0..n).filter(|t| rets[*t].is_none()).map(|t| t.to_string()).collect();
                return Err(format!("FAIL panic: threads [{}] died inside apply", dead.join(",")));
            }
        }
    }
    let finals: Vec<i128> = locks.iter().map(|l| l.apply(|v| *v) as i128).collect();
    let rets = rets.into_iter().map(|r| r.unwrap().into_iter().map(|v| v as i128).collect()).collect();
    Ok((rets, finals))
}

/// Long runs of increments (`o_lockhammer`): the history is not shipped, it is checked here.  For
/// increments, serialised means: per lock the returned values are exactly init, init+1, …, each
/// thread sees its own returned values increase, and the final value is init + number of increments.
fn check_increments(sys: &Sys, rets: &[Vec<i128>], finals: &[i128]) -> Result<usize, String> {
    let mut total = 0;
    for l in 0..sys.init.len() {
        let mut seen: Vec<i128> = Vec::new();
        for (t, sc) in sys.scripts.iter().enumerate() {
            let mine: Vec<i128> = sc.iter().zip(&rets[t]).filter(|(c, _)| c.lock == l).map(|(_, v)| *v).collect();
            if !mine.windows(2).all(|w| w[0] < w[1]) {
                return Err(format!("lock {l}: thread {t} saw the counter stand still or go backwards"));
            }
            seen.extend(mine);
        }
        seen.sort();
        let n = seen.len();
        let init = sys.init[l] as i128;
        if let Some(i) = (0..n).find(|i| seen[*i] != init + *i as i128) {
            let what = if i > 0 && seen[i] == seen[i - 1] { "returned twice" } else { "out of sequence" };
            return Err(format!("lock {l}: value {} {what} ({} increments): two closures overlapped", seen[i], n));
        }
        if finals[l] != init + n as i128 {
            return Err(format!("lock {l}: lost update: final value {} after {n} increments from {init}", finals[l]));
        }
        total += n;
    }
    Ok(total)
}

/// serial execution in a given order; `None` if the order does not run every closure
fn serial_outcome(sys: &Sys, order: &[usize]) -> Option<(Vec<Vec<i128>>, Vec<i128>)> {
    let mut vals: Vec<i128> = sys.init.iter().map(|v| *v as i128).collect();
    let mut pos = vec![0usize; sys.scripts.len()];
    let mut rets: Vec<Vec<i128>> = vec![Vec::new(); sys.scripts.len()];
    for &t in order {
        let Some(c) = sys.scripts.get(t).and_then(|s| s.get(pos[t])) else { continue };
        rets[t].push(vals[c.lock]);
        vals[c.lock] = (c.mul as i128).checked_mul(vals[c.lock])?.checked_add(c.add as i128)?;
        pos[t] += 1;
    }
    if (0..pos.len()).all(|t| pos[t] == sys.scripts[t].len()) {
        Some((rets, vals))
    } else {
        None
    }
}

enum SRes {
    Found(Vec<usize>),
    Fail,
    Limit,
}

struct Search<'a> {
    sys: &'a Sys,
    rets: &'a [Vec<i128>],
    finals: &'a [i128],
    failed: HashSet<(Vec<usize>, Vec<i128>)>,
    expanded: usize,
}

impl Search<'_> {
    fn dfs(&mut self, pos: &mut Vec<usize>, vals: &mut Vec<i128>) -> SRes {
        let key = (pos.clone(), vals.clone());
        if self.failed.contains(&key) {
            return SRes::Fail;
        }
        if self.expanded >= SEARCH_LIMIT {
            return SRes::Limit;
        }
        self.expanded += 1;
        if (0..pos.len()).all(|t| pos[t] == self.sys.scripts[t].len()) {
            if vals[..] == self.finals[..] {
                return SRes::Found(Vec::new());
            }
            self.failed.insert(key);
            return SRes::Fail;
        }
        for t in 0..pos.len() {
            let k = pos[t];
            let Some(c) = self.sys.scripts[t].get(k).copied() else { continue };
            let v = vals[c.lock];
            if self.rets[t][k] != v {
                continue;
            }
            let Some(nv) = (c.mul as i128).checked_mul(v).and_then(|x| x.checked_add(c.add as i128)) else { continue };
            pos[t] += 1;
            vals[c.lock] = nv;
            let r = self.dfs(pos, vals);
            pos[t] -= 1;
            vals[c.lock] = v;
            match r {
                SRes::Found(mut order) => {
                    order.insert(0, t);
                    return SRes::Found(order);
                }
                SRes::Limit => return SRes::Limit,
                SRes::Fail => {}
            }
        }
        self.failed.insert(key);
        SRes::Fail
    }
}

fn lockcheck(sys: &Sys, rets: &[Vec<i128>], finals: &[i128]) -> String {
    if rets.len() != sys.scripts.len()
        || finals.len() != sys.init.len()
        || (0..rets.len()).any(|t| rets[t].len() != sys.scripts[t].len())
    {
        return "bad-history".into();
    }
    let mut s = Search { sys, rets, finals, failed: HashSet::new(), expanded: 0 };
    let mut pos = vec![0usize; sys.scripts.len()];
    let mut vals: Vec<i128> = sys.init.iter().map(|v| *v as i128).collect();
    match s.dfs(&mut pos, &mut vals) {
        SRes::Fail => "no-serial-order".into(),
        SRes::Limit => "search-limit".into(),
        SRes::Found(order) => match serial_outcome(sys, &order) {
            Some((r, f)) if r[..] == rets[..] && f[..] == finals[..] => "ok".into(),
            _ => "checker-bug".into(),
        },
    }
}

pub fn run(fam: &str, t: &mut Toks) -> Option<R<String>> {
    let r = (|| -> R<String> {
        match fam {
            "lockrun" | "o_lockrun" => {
                let s = sys(t)?;
                let pattern = t.list(|t| t.u64())?;
                t.done()?;
                match run_threads(&s, &pattern) {
                    Err(e) => Ok(e),
                    Ok((rets, finals)) if fam == "lockrun" => Ok(show_outcome(&rets, &finals)),
                    Ok((rets, finals)) => Ok(match lockcheck(&s, &rets, &finals).as_str() {
                        "ok" => format!("ok {} closures", rets.iter().map(|r| r.len()).sum::<usize>()),
                        other => format!("FAIL {other}: observed {}", show_outcome(&rets, &finals)),
                    }),
                }
            }
            "o_lockhammer" => {
                let (threads, nlocks, iters) = (t.nat()?, t.nat()?, t.nat()?);
                let pattern = t.list(|t| t.u64())?;
                t.done()?;
                if threads == 0 || threads > 64 || nlocks == 0 || iters > 100_000 {
                    return Err("range".into());
                }
                let s = Sys {
                    init: (0..nlocks as i64).map(|l| 10 * l).collect(),
                    scripts: (0..threads)
                        .map(|th| (0..iters).map(|k| Closure { lock: (th + k) % nlocks, mul: 1, add: 1 }).collect())
                        .collect(),
                };
                Ok(match run_threads(&s, &pattern) {
                    Err(e) => e,
                    Ok((rets, finals)) => match check_increments(&s, &rets, &finals) {
                        Ok(n) => format!("ok {n} increments"),
                        Err(e) => format!("FAIL {e}"),
                    },
                })
            }
            "lockcheck" | "lockcheckx" => {
                let s = sys(t)?;
                let rets: Vec<Vec<i128>> = t.list(|t| Ok(t.words()?.into_iter().map(|v| v as i128).collect()))?;
                let finals: Vec<i128> = t.words()?.into_iter().map(|v| v as i128).collect();
                t.done()?;
                Ok(lockcheck(&s, &rets, &finals))
            }
            "lockserial" => {
                let s = sys(t)?;
                let order = t.list(|t| t.nat())?;
                t.done()?;
                Ok(match serial_outcome(&s, &order) {
                    Some((r, f)) => show_outcome(&r, &f),
                    None => "incomplete".into(),
                })
            }
            "o_loom" => {
                let tier = t.tok()?.to_string();
                t.done()?;
                let bin = std::env::var("VERIF_LOOM_BIN").unwrap_or_else(|_| {
                    concat!(env!("CARGO_MANIFEST_DIR"), "/../harness-loom/target/release/harness-loom").to_string()
                });
                Ok(match std::process::Command::new(&bin).arg(&tier).stderr(std::process::Stdio::null()).output() {
                    Err(e) => format!("FAIL cannot run {bin}: {e}"),
                    Ok(o) => {
                        let out = String::from_utf8_lossy(&o.stdout);
                        let line = out.lines().find(|l| l.starts_with("LOOM")).unwrap_or("no output").to_string();
                        if o.status.success() && line.starts_with("LOOM ok") {
                            format!("ok {line}")
                        } else {
                            format!("FAIL {line}")
                        }
                    }
                })
            }
            _ => Err("nofam".into()),
        }
    })();
    match r {
        Err(e) if e == "nofam" => None,
        other => Some(other),
    }
}
