#!/usr/bin/env python3
"""check.py <Cxx> [--tier quick|thorough] [--replay <file>]

Decides one property (see DESIGN.md §3.4):
  1. re-run the translators against /repo's working tree, rebuild the Lean proofs of the
     property, audit the axioms of every theorem;
  2. rebuild the Rust harness against /repo and the Lean driver, run the correspondence
     cases on both and diff them; run the property oracles on the implementation;
  3. verdict: exit 0 iff every proof obligation is discharged, the correspondence agrees
     and no oracle fails (known findings excepted); otherwise print
     `VIOLATION property=<id> replay=<path>` (ending in ` no-failing-input-found` when no
     concrete failing input could be exhibited) and exit 1.
"""
import argparse, glob, json, os, sys, time, collections

sys.path.insert(0, os.path.dirname(os.path.abspath(__file__)))
from vlib import common as C
from vlib.props import PROPS


def compact_hist(h, max_keys=80, max_len=48):
    """outcome histogram for the evidence file: class names cut to a readable length (outputs that are values, e.g.
    hex strings, fall into one class per family), at most `max_keys` classes, the rest summed up as `other`"""
    c = collections.Counter()
    for k, v in h.items():
        fam, _, cls = k.partition(":")
        if len(cls) > max_len or (len(cls) > 12 and all(ch in "0123456789abcdefx" for ch in cls)):
            cls = "value"
        c[fam + ":" + cls] += v
    top = c.most_common(max_keys)
    out = dict(sorted(top))
    rest = sum(c.values()) - sum(v for _, v in top)
    if rest:
        out["other"] = rest
    return out


def project(prop, out):
    f = PROPS[prop].get("project")
    return f(out) if f else out


def main():
    ap = argparse.ArgumentParser()
    ap.add_argument("prop")
    ap.add_argument("--tier", default=os.environ.get("VERIF_TIER", "quick"))
    ap.add_argument("--replay")
    args = ap.parse_args()
    prop, tier = args.prop, args.tier
    if prop not in PROPS:
        print(f"unknown property {prop}")
        return 2
    P = PROPS[prop]
    seed = int(os.environ.get("VERIF_SEED", "20260923"))
    t0 = time.time()
    log = []
    known = C.load_known()

    # ---- 1+2: build everything under the build lock
    with C.BuildLock():
        tr_ok = C.run_translators(log)
        obligations, broken = C.audit(prop, P["modules"], log, recheck=(tier == "thorough"))
        drv_ok = C.driver_build(log)
        har_ok = C.cargo_build(log)
        rel_ok = True
        if tier == "thorough" and P.get("release"):
            rel_ok = C.cargo_build(log, release=True)
    if not har_ok:
        # the repository (or the harness against it) does not compile: nothing can be decided
        print("\n".join(log))
        print(f"harness does not build against {C.REPO}; cannot run the implementation")
        rp = C.write_replay(prop, "build_failure.json", {"kind": "build", "log": log[-3:]})
        C.write_evidence(prop, tier, seed, {"obligations": max(1, len(obligations)), "discharged": 0,
                         "checker_cmd": "lake build", "trusted_base": [], "explanation": "harness build failed"},
                         [], time.time() - t0, 1)
        print(f"VIOLATION property={prop} replay={rp} no-failing-input-found")
        return 1

    # ---- cases
    rng = C.Rng(seed)
    if args.replay:
        rp = json.load(open(args.replay))
        cases, oracles = rp.get("cases", []), rp.get("oracle_cases", [])
        print(f"replaying {len(cases)} correspondence case(s), {len(oracles)} oracle case(s) from {args.replay}")
    else:
        cases, oracles = [], []
        for f in sorted(glob.glob(os.path.join(C.ROOT, "corpus", prop, "*.txt"))):
            for l in open(f):
                l = l.strip()
                if l and not l.startswith("#"):
                    (oracles if l.startswith("o_") else cases).append(l)
        gc, go = P["gen"](rng, tier)
        cases += gc
        oracles += go
    # dedupe, keep order
    cases = list(dict.fromkeys(cases))
    oracles = list(dict.fromkeys(oracles))
    id_cases = [f"c{i} {c}" for i, c in enumerate(cases)]
    id_orcs = [f"o{i} {c}" for i, c in enumerate(oracles)]

    screened = {}
    screened_panics = []
    model_out = {}
    if drv_ok:
        model_out = C.run_bin(C.DRIVER_BIN, id_cases)
    # model-first screening: cases the model marks resource-dangerous are not run in-process
    danger = {i for i, o in model_out.items() if o.startswith("abort")}
    run_cases = [l for l in id_cases if l.split(" ", 1)[0] not in danger]
    # oracle cases derived from a screened correspondence case are screened too
    danger_rest = {l.split(" ", 2)[2] for l in id_cases if l.split(" ", 1)[0] in danger}
    id_orcs = [l for l in id_orcs if l.split(" ", 2)[2] not in danger_rest and not any(l.endswith(" prog " + r) for r in danger_rest)]
    impl_out = C.run_bin(C.HARNESS_BIN, run_cases + id_orcs)
    impl_rel = {}
    if tier == "thorough" and P.get("release") and rel_ok:
        impl_rel = C.run_bin(C.HARNESS_REL, run_cases + id_orcs)

    # ---- diff
    disagreements = []      # (case, impl, model, primary?)
    detail_diffs = []       # differences outside the property's observables (not a verdict input)
    for l in id_cases:
        cid, _, body = l.partition(" ")
        if cid in danger:
            screened[body] = model_out[cid]
            # the model says the input exhausts memory (K1): the real code is run on it in a process of its own under an
            # address-space and a time limit; being killed there is the modelled abort, a typed error is fine too (the real code
            # may fail before it allocates), but a *panic* is not an abort
            if har_ok and len(screened) <= 12:
                g = C.run_guarded(C.HARNESS_BIN, l)
                if g.startswith("panic"):
                    screened_panics.append((body, "implementation panics on this input (the model predicts resource exhaustion, not a panic)"))
            continue
        io, mo = impl_out.get(cid, "missing"), model_out.get(cid, "missing")
        if io != mo:
            # only differences in the property's own observables count; the rest is recorded as detail
            if project(prop, io) != project(prop, mo):
                disagreements.append((body, io, mo, True))
            else:
                detail_diffs.append((body, io, mo))
        if impl_rel and impl_rel.get(cid, "missing") != io:
            disagreements.append((body, "release:" + impl_rel.get(cid, "missing"), "debug:" + io, True))
    oracle_fails = list(screened_panics) if P.get("abort_is_violation") or prop == "C05" else []
    for l in id_orcs:
        cid, _, body = l.partition(" ")
        for tag, outm in (("", impl_out), ("release:", impl_rel)):
            if not outm:
                continue
            o = outm.get(cid, "missing")
            if not (o == "ok" or o == "na" or o.startswith("ok ") or o.startswith("na ")):
                oracle_fails.append((body, tag + o))
    if P.get("py_oracle"):
        by_case = {l.partition(" ")[2]: impl_out.get(l.split(" ", 1)[0], "missing") for l in run_cases}
        oracle_fails += P["py_oracle"](by_case)
    # a hard abort / panic of the implementation is a concrete observation in its own right
    for l in run_cases:
        cid, _, body = l.partition(" ")
        o = impl_out.get(cid, "")
        if P.get("abort_is_violation") and (o in ("abort", "timeout") or o.startswith("panic")):
            # the real code panicked / aborted / hung on this input: concrete in its own right
            if not model_out.get(cid, "").startswith(("panic", "abort")):
                oracle_fails.append((body, "implementation " + o.split(" ")[0] + "s on this input"))

    # ---- known findings
    kf_lines = set()
    new_oracle, new_disagree = [], []
    for body, o in oracle_fails:
        k = C.match_known(prop, "oracle", body, o, known)
        if k:
            kf_lines.add(f"KNOWN-FINDING: property={prop} {k['what']}")
        else:
            new_oracle.append((body, o))
    for body, io, mo, prim in disagreements:
        k = C.match_known(prop, "disagreement", body, f"impl={io} model={mo}", known)
        if k:
            kf_lines.add(f"KNOWN-FINDING: property={prop} {k['what']}")
        else:
            new_disagree.append((body, io, mo, prim))
    known_theorems = {k["match"] for k in known if k["property"] == prop and k.get("kind") == "theorem"}
    new_broken = {n: r for n, r in broken.items() if n not in known_theorems}
    for n in broken:
        if n in known_theorems:
            kf_lines.add(f"KNOWN-FINDING: property={prop} theorem {n} is not proved (recorded finding)")

    # ---- evidence
    def nontriv(body, out):
        f = P.get("nontrivial")
        return f(body, out) if f else not (out.startswith("bad") or out == "missing")
    seen_nt = set()
    fam_hist, out_hist = collections.Counter(), collections.Counter()
    for l in run_cases:
        cid, _, body = l.partition(" ")
        out = impl_out.get(cid, "missing")
        fam = body.split(" ", 1)[0]
        fam_hist[fam] += 1
        out_hist[fam + ":" + (P.get("classify") or (lambda b, o: o.split(" ", 1)[0]))(body, out)] += 1
        if nontriv(body, out):
            seen_nt.add(body)
    for l in id_orcs:
        cid, _, body = l.partition(" ")
        fam_hist[body.split(" ", 1)[0]] += 1
        o = impl_out.get(cid, "missing")
        out_hist[body.split(" ", 1)[0] + ":" + o.split(" ", 1)[0]] += 1
        if o.startswith("ok") or o.startswith("FAIL"):
            seen_nt.add(body)
    samples = [{"case": l.partition(" ")[2][:400], "impl": impl_out.get(l.split(" ", 1)[0], "")[:400],
                "model": model_out.get(l.split(" ", 1)[0], "")[:400]} for l in id_cases[:: max(1, len(id_cases) // 6)][:6]]
    samples += [{"oracle_case": l.partition(" ")[2][:400], "impl": impl_out.get(l.split(" ", 1)[0], "")[:200]}
                for l in id_orcs[:: max(1, len(id_orcs) // 3)][:3]]
    samples += [{"obligation": n} for n in obligations[:5]]
    coverage = {
        "obligations": len(obligations), "discharged": len(obligations) - len(broken),
        "checker_cmd": "cd lean && lake build " + " ".join(P["modules"])
                       + (" && lake env leanchecker " + " ".join(P["modules"]) if tier == "thorough" else "")
                       + " && lake env lean .audit/Audit_%s.lean  # collectAxioms per theorem" % prop,
        "olean_rechecked_by_leanchecker": bool(tier == "thorough" and not broken and any(l.startswith("[leanchecker") and l.endswith("rc=0") for l in log)),
        "trusted_base": P["trusted"],
        "theorems": obligations, "broken_theorems": broken,
        "evaluations": len(run_cases) + len(id_orcs), "distinct_nontrivial": len(seen_nt),
        "rule": P["rule"], "samples": samples,
        "families": dict(fam_hist), "outcomes": compact_hist(out_hist),
        "correspondence_cases": len(run_cases), "oracle_cases": len(id_orcs),
        "disagreements": len(disagreements), "oracle_failures": len(oracle_fails),
        "detail_only_differences": len(detail_diffs),
        "screened_resource_dangerous": len(screened),
        "exhaustive": bool(P.get("exhaustive")) , "exhaustive_part": P.get("exhaustive", ""),
        "release_build_compared": bool(impl_rel),
        "translators_ok": tr_ok, "driver_built": drv_ok,
    }
    nviol = len(new_oracle) + len(new_disagree) + len(new_broken) + (0 if drv_ok and tr_ok else 1)
    C.write_evidence(prop, tier, seed, coverage, P["assumptions"], time.time() - t0, nviol)

    # ---- verdict
    for l in sorted(kf_lines):
        print(l)
    print(f"[{prop}] theorems {len(obligations) - len(broken)}/{len(obligations)} discharged; "
          f"{len(run_cases)} correspondence cases ({len(disagreements)} disagreements), "
          f"{len(id_orcs)} oracle cases ({len(oracle_fails)} failures), {len(screened)} screened; "
          f"{time.time() - t0:.1f}s")
    if not (new_oracle or new_disagree or new_broken) and drv_ok and tr_ok:
        return 0
    print("\n".join(log[-12:]))
    stamp = f"{tier}_{seed}"
    concrete = None
    if new_oracle:
        body, o = new_oracle[0]
        concrete = {"kind": "oracle", "what": o, "oracle_cases": [body], "cases": [],
                    "all": [{"case": b, "result": r} for b, r in new_oracle[:50]]}
    elif any(p for _, _, _, p in new_disagree) and not new_broken and P.get("model_is_spec"):
        body, io, mo, _ = next(d for d in new_disagree if d[3])
        concrete = {"kind": "impl-differs-from-proved-model", "cases": [body], "oracle_cases": [],
                    "impl": io, "model": mo,
                    "why": "every theorem of the property still checks, so the model's answer is the specified one; "
                           "the implementation returns something else on this input",
                    "all": [{"case": b, "impl": i, "model": m} for b, i, m, _ in new_disagree[:50]]}
    if concrete:
        rp = C.write_replay(prop, f"violation_{stamp}.json", concrete)
        print(f"  failing input: {(concrete['oracle_cases'] or concrete['cases'])[0][:300]}")
        print(f"  observed: {concrete.get('what') or ('impl=' + concrete['impl'][:200] + ' model=' + concrete['model'][:200])}")
        print(f"VIOLATION property={prop} replay={rp}")
        return 1
    payload = {"kind": "unproved", "broken_theorems": new_broken,
               "correspondence": [{"case": b, "impl": i, "model": m} for b, i, m, _ in new_disagree[:50]],
               "cases": [b for b, _, _, _ in new_disagree[:50]], "oracle_cases": [],
               "translators_ok": tr_ok, "driver_built": drv_ok,
               "searched": f"{len(run_cases)} correspondence cases and {len(id_orcs)} oracle cases on the implementation: no failing input"}
    rp = C.write_replay(prop, f"unproved_{stamp}.json", payload)
    for n, r in list(new_broken.items())[:10]:
        print(f"  theorem no longer checks: {n}: {r}")
    for b, i, m, _ in new_disagree[:5]:
        print(f"  correspondence differs: {b[:200]}\n     impl : {i[:200]}\n     model: {m[:200]}")
    print(f"VIOLATION property={prop} replay={rp} no-failing-input-found")
    return 1


if __name__ == "__main__":
    sys.exit(main())
