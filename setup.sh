#!/bin/sh
# One-time build after a fresh restore (offline): translators, Lean proofs + driver, Rust harness.
set -e
cd "$(dirname "$0")"
export CARGO_NET_OFFLINE=true
python3 gen/spec_from_yaml.py
python3 gen/consts_from_rust.py
[ -f gen/lock_from_rust.py ] && python3 gen/lock_from_rust.py
(cd lean && lake build Essential driver)
cp /repo/Cargo.lock harness/Cargo.lock
(cd harness && cargo build --offline && cargo build --offline --release)
if [ -d harness-loom ]; then (cd harness-loom && cargo build --offline --release) || true; fi
echo setup done
