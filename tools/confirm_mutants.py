#!/usr/bin/env python3
"""tools/confirm_mutants.py <out-root> <id> [<id>...]
For every <out-root>/<id>/m<n>: in a scratch worktree of /repo (never /repo itself) confirm
 (1) the demonstration passes on the unchanged tree, (2) with the change the whole existing
 suite passes and (3) the demonstration fails.  Writes <dir>/confirm.json.  One shared
 target directory is used and removed at the end together with the worktree."""
import json, os, re, shutil, subprocess, sys
root = sys.argv[1]
WT = "/tmp/confirm_wt"
ENV = dict(os.environ, CARGO_NET_OFFLINE="true", CARGO_TARGET_DIR=WT + "/target")
def sh(cmd, cwd=WT):
    p = subprocess.run(cmd, shell=True, cwd=cwd, env=ENV, stdout=subprocess.PIPE, stderr=subprocess.STDOUT, text=True)
    return p.returncode, p.stdout
subprocess.run(["git", "-C", "/repo", "worktree", "remove", "--force", WT], capture_output=True)
subprocess.run(["git", "-C", "/repo", "worktree", "add", "-q", "--detach", WT, "HEAD"], check=True)
try:
    for pid in sys.argv[2:]:
        for m in sorted(os.listdir(os.path.join(root, pid))):
            d = os.path.join(root, pid, m)
            if not os.path.exists(os.path.join(d, "patch.diff")): continue
            meta = json.load(open(os.path.join(d, "meta.json")))
            place = meta["demo_place"]
            demo_src = [f for f in os.listdir(d) if f.startswith("demo")][0]
            name = os.path.splitext(os.path.basename(place))[0]
            crate = place.split("/")[1]
            pkg = {"vm": "essential-vm", "asm": "essential-asm", "check": "essential-check", "types": "essential-types",
                   "hash": "essential-hash", "sign": "essential-sign", "lock": "essential-lock", "asm-spec": "essential-asm-spec"}[crate]
            demo_cmd = f"cargo test -p {pkg} --offline --test {name}"
            res = {"demo_cmd": demo_cmd}
            sh("git checkout -q -- . && git clean -fdq crates")
            os.makedirs(os.path.dirname(os.path.join(WT, place)), exist_ok=True)
            shutil.copy(os.path.join(d, demo_src), os.path.join(WT, place))
            rc, out = sh(demo_cmd); res["demo_on_unchanged"] = "pass" if rc == 0 else "FAIL"
            rc, out = sh(f"git apply {d}/patch.diff"); res["applies"] = rc == 0
            os.remove(os.path.join(WT, place))
            rc, out = sh("cargo test --workspace --no-fail-fast --offline")
            passed = sum(int(x) for x in re.findall(r"test result: \w+\. (\d+) passed", out))
            failed = sum(int(x) for x in re.findall(r"(\d+) failed;", out))
            res["suite_with_change"] = f"{passed} passed, {failed} failed, rc={rc}"
            shutil.copy(os.path.join(d, demo_src), os.path.join(WT, place))
            rc, out = sh(demo_cmd); res["demo_with_change"] = "fail" if rc != 0 else "PASSES"
            res["confirmed"] = (res["demo_on_unchanged"] == "pass" and res["applies"] and passed >= 246 and failed == 0 and res["demo_with_change"] == "fail")
            json.dump(res, open(os.path.join(d, "confirm.json"), "w"), indent=1)
            print(pid, m, res, flush=True)
finally:
    subprocess.run(["git", "-C", "/repo", "worktree", "remove", "--force", WT], capture_output=True)
    shutil.rmtree(WT, ignore_errors=True)
