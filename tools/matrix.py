#!/usr/bin/env python3
"""tools/matrix.py [<mutant-id> ...] [--also C01,C02]: run every seeded change against the check of its own property
(plus --also) and record which checks raise the alarm in seeded/RESULTS.json."""
import json, os, subprocess, sys
ROOT = os.path.dirname(os.path.dirname(os.path.abspath(__file__)))
args = [a for a in sys.argv[1:] if not a.startswith("--")]
also = []
for a in sys.argv[1:]:
    if a.startswith("--also"):
        also = a.split("=", 1)[1].split(",")
ids = args or sorted(d for d in os.listdir(os.path.join(ROOT, "seeded")) if os.path.exists(os.path.join(ROOT, "seeded", d, "patch.diff")))
out_p = os.path.join(ROOT, "seeded", "RESULTS.json")
res = json.load(open(out_p)) if os.path.exists(out_p) else {}
for mid in ids:
    meta = json.load(open(os.path.join(ROOT, "seeded", mid, "meta.json")))
    props = [meta["property"]] + [a for a in also if a != meta["property"]]
    r = subprocess.run([sys.executable, os.path.join(ROOT, "tools", "mutant.py"), os.path.join(ROOT, "seeded", mid, "patch.diff")] + props,
                       capture_output=True, text=True, cwd=ROOT)
    caught = []
    for l in r.stdout.split("\n"):
        if l.startswith("CAUGHT by:"):
            caught = [] if "NONE" in l else eval(l.split(":", 1)[1].strip())
    concrete = "no-failing-input-found" not in r.stdout
    res.setdefault(mid, {})
    res[mid].update({"property": meta["property"], "checked": sorted(set(res[mid].get("checked", []) + props)),
                     "caught_by": sorted(set(res[mid].get("caught_by", []) + caught)), "concrete_input": concrete,
                     "last_run_caught": caught})
    print(mid, "->", caught, "concrete" if concrete else "no-input", flush=True)
    json.dump(res, open(out_p, "w"), indent=1, sort_keys=True)
