#!/usr/bin/env python3
"""tools/mutant.py <patch.diff> <Cxx> [<Cyy> ...] [--tier quick]
Apply a seeded change to /repo, run the named checks, undo the change (always)."""
import subprocess, sys, os, signal
ROOT = os.path.dirname(os.path.dirname(os.path.abspath(__file__)))
MARK = os.path.join(ROOT, "seeded", ".applied")
def _term(signum, frame):
    # a terminated run must still undo the seeded change (the finally block below does it)
    raise KeyboardInterrupt("signal %d" % signum)
def main():
    for sg in (signal.SIGTERM, signal.SIGHUP):
        signal.signal(sg, _term)
    if os.path.exists(MARK):
        print("refusing: %s exists - an earlier run was killed while %s was applied; "
              "inspect `git -C /repo status`, undo with `git -C /repo checkout -- .`, then delete the marker"
              % (MARK, open(MARK).read().strip())); return 2
    patch = os.path.abspath(sys.argv[1]); props = [a for a in sys.argv[2:] if not a.startswith("--")]
    tier = "quick"
    if "--tier" in sys.argv: tier = sys.argv[sys.argv.index("--tier") + 1]; props = [p for p in props if p != tier]
    st = subprocess.run(["git", "-C", "/repo", "status", "--porcelain"], capture_output=True, text=True).stdout
    if st.strip():
        print("refusing: /repo has local changes:\n" + st); return 2
    open(MARK, "w").write(patch + "\n")
    r = subprocess.run(["git", "-C", "/repo", "apply", patch], capture_output=True, text=True)
    if r.returncode != 0:
        os.remove(MARK)
        print("patch does not apply:", r.stderr); return 2
    res = {}
    # evidence written while a seeded change is applied is not evidence about /repo: keep the real files
    saved = {}
    for p in props:
        ev = os.path.join(ROOT, "evidence", p + ".json")
        saved[ev] = open(ev).read() if os.path.exists(ev) else None
    try:
        for p in props:
            r = subprocess.run([sys.executable, os.path.join(ROOT, "check.py"), p, "--tier", tier], capture_output=True, text=True, cwd=ROOT)
            lines = [l for l in r.stdout.split("\n") if l.startswith("VIOLATION") or l.startswith("[") or l.startswith("  failing input") or l.startswith("  observed") or l.startswith("  theorem") or l.startswith("  correspondence")]
            res[p] = (r.returncode, lines)
            print(f"== {p}: rc={r.returncode}")
            for l in lines[:8]: print("   ", l[:300] + (" ... " + l[-40:] if len(l) > 300 else ""))
    finally:
        subprocess.run(["git", "-C", "/repo", "checkout", "--", "."], check=True)
        subprocess.run(["git", "-C", "/repo", "clean", "-fdq", "crates"], check=False)
        if os.path.exists(MARK): os.remove(MARK)
        for ev, txt in saved.items():
            if txt is None:
                if os.path.exists(ev): os.remove(ev)
            else:
                open(ev, "w").write(txt)
        # generated model files follow /repo again
        subprocess.run([sys.executable, "-c", "import sys; sys.path.insert(0, %r); from vlib import common as C; C.run_translators([])" % ROOT], check=False)
    caught = [p for p, (rc, _) in res.items() if rc == 1]
    print("CAUGHT by:", caught if caught else "NONE")
    return 0
if __name__ == "__main__":
    sys.exit(main())
