/-
Line-protocol helpers shared by all driver families.
Tokens are separated by single spaces: decimal integers, `x<hex>` byte strings (`x` = empty),
length-prefixed lists (`n e1 … en`).
-/
import Essential.Model.Basic
import Essential.Model.Hex
import Essential.Gen.Spec

namespace Driver
open Essential

abbrev Parser := StateT (List String) Option

def tok : Parser String := fun s => match s with | [] => none | t :: r => some (t, r)
def int : Parser Int := do let t ← tok; match t.toInt? with | some i => pure i | none => failure
def nat : Parser Nat := do let t ← tok; match t.toNat? with | some i => pure i | none => failure
def done : Parser Unit := fun s => match s with | [] => some ((), []) | _ => none

def bytes : Parser (List Nat) := do
  let t ← tok
  match t.toList with
  | 'x' :: cs => match parseHex cs with | some b => pure b | none => failure
  | _ => failure

def rep (p : Parser α) : Nat → Parser (List α)
  | 0 => pure []
  | n+1 => do let a ← p; let r ← rep p n; pure (a :: r)

def listOf (p : Parser α) : Parser (List α) := do let n ← nat; rep p n

def words : Parser (List Int) := listOf int

def hexOfBytes (bs : List Nat) : String := String.ofList ('x' :: hexChars bs)

def showWords (ws : List Int) : String :=
  "[" ++ ",".intercalate (ws.map toString) ++ "]"
def showNats (ws : List Nat) : String :=
  "[" ++ ",".intercalate (ws.map toString) ++ "]"

/-- `Stack.Push` + imm  →  `Stack(Push(42))`, the Rust `Debug` rendering of an `Op` -/
def showOp (op : Spec.Op) : String :=
  let parts := op.name.splitOn "."
  let inner := match op.imm with
    | some w => s!"{parts.getLast!}({w})"
    | none => parts.getLast!
  parts.dropLast.foldr (fun g acc => s!"{g}({acc})") inner

def showOps (ops : List Spec.Op) : String := "[" ++ ",".intercalate (ops.map showOp) ++ "]"

/-- op token: `Stack.Pop` or `Stack.Push:42` -/
def opOfToken (t : String) : Option Spec.Op :=
  let (name, imm) := match t.splitOn ":" with
    | [n, w] => (n, w.toInt?.getD 0)
    | _ => (t, 0)
  match Spec.allOps.find? (fun o => o.name == name) with
  | none => none
  | some o => match o.imm with
    | none => some o
    | some _ => Spec.ofOpcode o.opcode imm

def op : Parser Spec.Op := do let t ← tok; match opOfToken t with | some o => pure o | none => failure
def ops : Parser (List Spec.Op) := listOf op

end Driver
