import Driver.Parse
import Essential.Model.Asm

namespace Driver
open Essential Essential.Spec

def showDecErr : DecErr → String
  | .invalidOpcode b => s!"InvalidOpcode:{b}"
  | .notEnoughBytes => "NotEnoughBytes"

def showResUnit {α} (f : α → String) : Res Unit α → String
  | .ok a => f a
  | .err _ => "err"
  | .panic _ => "panic"
  | .abort _ => "abort"

def asmFamily (fam : String) : Option (Parser String) :=
  match fam with
  | "decode" => some do
    let bs ← bytes; done
    pure (match decode bs with
      | .ok ops => s!"ok {showOps ops}"
      | .error e => s!"err {showDecErr e}")
  | "stream" => some do
    let bs ← bytes; done
    let items := (decodeStream bs).map fun
      | .ok op => s!"ok:{showOp op}"
      | .error e => s!"err:{showDecErr e}"
    pure ("[" ++ ",".intercalate items ++ "]")
  | "encode" => some do
    let os ← ops; done
    pure (hexOfBytes (encode os))
  | "opcode" => some do
    let b ← nat; done
    pure (match immBytes b, ofOpcode b 0 with
      | some _, some op =>
        let parts := op.name.splitOn "."
        let nm := parts.dropLast.foldr (fun g acc => s!"{g}({acc})") parts.getLast!
        s!"ok {nm} {op.opcode}"
      | _, _ => s!"err InvalidOpcode:{b}")
  | "shorts" => some do
    done
    pure (" ".intercalate (Spec.table.map fun (oc, name, imm, sh) => s!"{sh}={name}={oc}={imm}"))
  | "mapped" => some do
    let bs ← bytes; done
    pure (match Mapped.tryFromBytes bs with
      | .error e => s!"err {showDecErr e}"
      | .ok m =>
        let opsS := showResUnit showOps m.ops
        let n := m.opIndices.length
        let accs := (List.range (n + 3)).map fun i =>
          showResUnit (fun o => match o with | some op => showOp op | none => "-") (m.op i)
        s!"ok {showNats m.opIndices} {opsS} [" ++ ",".intercalate accs ++ "]")
  | "fromops" => some do
    let os ← ops; done
    let m := Mapped.fromOps os
    pure s!"{hexOfBytes m.bytecode} {showNats m.opIndices}"
  | "contains" => some do
    let e ← nat; let bs ← bytes; done
    pure (toString (bytesContainsAny e bs))
  | "analyze" => some do
    let os ← ops; done
    pure (toString (analyze os))
  | _ => none

end Driver
