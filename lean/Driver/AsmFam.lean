import Driver.Parse
import Essential.Model.Asm

namespace Driver
open Essential Essential.Spec

def showDecErr : DecErr → String
  | .invalidOpcode b => s!"InvalidOpcode:{b}"
  | .notEnoughBytes => "NotEnoughBytes"

def showResUnit {α} (f : α → String) : Res Unit α → String
  | .ok a => f a
  | .err _ => "err"
  | .panic _ => "panic"
  | .abort _ => "abort"

def asmFamily (fam : String) : Option (Parser String) :=
  match fam with
  | "decode" => some do
    let bs ← bytes; done
    pure (match decode bs with
      | .ok ops => s!"ok {showOps ops}"
      | .error e => s!"err {showDecErr e}")
  | "stream" => some do
    let bs ← bytes; done
    let items := (decodeStream bs).map fun
      | .ok op => s!"ok:{showOp op}"
      | .error e => s!"err:{showDecErr e}"
    pure ("[" ++ ",".intercalate items ++ "]")
  | "encode" => some do
    let os ← ops; done
    pure (hexOfBytes (encode os))
  | "opcode" => some do
    let b ← nat; done
    pure (match immBytes b, ofOpcode b 0 with
      | some _, some op =>
        let parts := op.name.splitOn "."
        let nm := parts.dropLast.foldr (fun g acc => s!"{g}({acc})") parts.getLast!
        s!"ok {nm} {op.opcode}"
      | _, _ => s!"err InvalidOpcode:{b}")
  | "shorts" => some do
    done
    pure (" ".intercalate (Spec.table.map fun (oc, name, imm, sh) => s!"{sh}={name}={oc}={imm}"))
  | "mapped" => some do
    let bs ← bytes; done
    pure (match Mapped.tryFromBytes bs with
      | .error e => s!"err {showDecErr e}"
      | .ok m =>
        let opsS := showResUnit showOps m.ops
        let n := m.opIndices.length
        let accs := (List.range (n + 3)).map fun i =>
          showResUnit (fun o => match o with | some op => showOp op | none => "-") (m.op i)
        s!"ok {showNats m.opIndices} {opsS} [" ++ ",".intercalate accs ++ "]")
  | "fromops" => some do
    let os ← ops; done
    let m := Mapped.fromOps os
    pure s!"{hexOfBytes m.bytecode} {showNats m.opIndices}"
  | "gparse" => some do
    -- `<Group>::try_from_bytes`: a byte that is not an opcode of the group is an invalid opcode and only that byte is consumed
    let g ← tok
    let bs ← bytes; done
    match bs with
    | [] => pure "none rest=0"
    | b :: rest =>
      let inGroup := match Spec.table.find? (fun r => r.1 == b) with
        | some r => (r.2.1.splitOn ".").head! == g
        | none => false
      if !inGroup then pure s!"err InvalidOpcode:{b} rest={rest.length}" else
      match tryFromBytes b rest with
      | (.ok o, rest') =>
        let parts := o.name.splitOn "."
        let inner := match o.imm with | some w => s!"{parts.getLast!}({w})" | none => parts.getLast!
        pure s!"ok {inner} opcode={b} bytes={(encodeOp o).length} rest={rest'.length}"
      | (.error (.invalidOpcode x), rest') => pure s!"err InvalidOpcode:{x} rest={rest'.length}"
      | (.error .notEnoughBytes, rest') => pure s!"err NotEnoughBytes rest={rest'.length}"
  | "gopcode" => some do
    let g ← tok
    let b ← nat; done
    match Spec.table.find? (fun r => r.1 == b % 256) with
    | some r =>
      let parts := r.2.1.splitOn "."
      if parts.head! == g then pure s!"ok {parts.getLast!}" else pure s!"err InvalidOpcode:{b % 256}"
    | none => pure s!"err InvalidOpcode:{b % 256}"
  | "mapseq" => some do
    -- a history of operations on one `BytecodeMapped` (see harness fam_asm.rs)
    let os0 ← ops
    let n ← nat
    let rec steps : Nat → List Spec.Op → List String → Parser (List String)
      | 0, _, acc => pure acc
      | k+1, os, acc => do
        let t ← tok
        match t with
        | "p" => do let o ← op; steps k (os ++ [o]) (acc ++ ["p"])
        | "g" => do
          let ix ← nat
          let r := match Mapped.op (Mapped.fromOps os) ix with
            | .ok (some o) => showOp o | .ok none => "none" | _ => "panic"
          steps k os (acc ++ [r])
        | "a" => steps k os (acc ++ [match Mapped.ops (Mapped.fromOps os) with | .ok l => showOps l | _ => "panic"])
        | "f" => do
          let ix ← nat
          steps k os (acc ++ [if ix ≤ os.length then showOps (os.drop ix) else "none"])
        | "b" => steps k os (acc ++ [s!"{hexOfBytes (Mapped.fromOps os).bytecode} {showNats (Mapped.fromOps os).opIndices}"])
        | _ => failure
    let out ← steps n os0 []
    done
    pure (" | ".intercalate out)
  | "contains" => some do
    let e ← nat; let bs ← bytes; done
    pure (toString (bytesContainsAny e bs))
  | "analyze" => some do
    let os ← ops; done
    pure (toString (analyze os))
  | _ => none

end Driver
