import Driver.Parse
import Driver.Sha256
import Essential.Model.Asm
import Essential.Model.Vm

namespace Driver
open Essential Essential.Spec

def pSolution : Parser Solution := do
  let c ← bytes; let p ← bytes
  let data ← listOf words
  let muts ← listOf (do let k ← words; let v ← words; pure (k, v))
  pure { contract := c, predicate := p, data := data, mutations := muts }

structure StateEntry where
  view : Nat
  contract : List Nat
  key : List Int
  n : Nat
  res : Except Int (List (List Int))

def pStateEntry : Parser StateEntry := do
  let v ← nat; let c ← bytes; let k ← words; let n ← nat
  let t ← tok
  let res ← (match t with
    | "e" => do let code ← int; pure (Except.error code)
    | "v" => do let vs ← listOf words; pure (Except.ok vs)
    | _ => failure : Parser (Except Int (List (List Int))))
  pure { view := v, contract := c, key := k, n := n, res := res }

def mkView (entries : List StateEntry) (which : Nat) : StateView := fun c k n =>
  match entries.find? (fun e => e.view == which && e.contract == c && e.key == k && e.n == n) with
  | some e => e.res
  | none => .ok []

structure EdEntry where (pk sig msg : List Nat) (res : Nat)
structure SecpEntry where (hash sig : List Nat) (id : Nat) (res : SecpOut)

def pEd : Parser EdEntry := do
  let pk ← bytes; let sg ← bytes; let m ← bytes; let r ← nat
  pure ⟨pk, sg, m, r⟩

def pSecp : Parser SecpEntry := do
  let h ← bytes; let sg ← bytes; let id ← nat
  let t ← tok
  let r ← (match t with
    | "b" => pure SecpOut.badSig
    | "u" => pure SecpOut.unrecoverable
    | "k" => do let k ← bytes; pure (SecpOut.key k)
    | _ => failure : Parser SecpOut)
  pure ⟨h, sg, id, r⟩

structure Cost where
  dflt : Nat
  over : List (Nat × Nat)

def pCost : Parser Cost := do
  let d ← nat
  let o ← listOf (do let a ← nat; let b ← nat; pure (a, b))
  pure ⟨d, o⟩

def Cost.fn (c : Cost) : Op → Nat := fun op =>
  match c.over.find? (fun p => p.1 == op.opcode) with
  | some p => p.2
  | none => c.dflt

def pSlot : Parser (Nat × Int × Nat) := do
  let up ← nat; let n ← int; let loc ← nat; pure (up, n, loc)

def showSlot (s : Slot) : String :=
  match s.limit with
  | .up l => s!"{s.counter}:U{l}:{s.repeatIndex}"
  | .down => s!"{s.counter}:D:{s.repeatIndex}"

def showVm (g : Nat) (vm : Vm) : String :=
  s!"ok {g} pc={vm.pc} halt={if vm.halt then 1 else 0} st={showWords vm.stack} mem={showWords vm.memory} rep=[" ++
    ",".intercalate (vm.rep.map showSlot) ++ "]"

def fuelDefault : Nat := 3000000

structure VmCase where
  mode : String
  prog : List Nat
  vm : Vm
  env : Env

def pVmCase : Parser VmCase := do
  let mode ← tok
  let prog ← bytes
  -- `<pc>` or `h<pc>`: the public `halt` flag of the initial Vm is set
  let pcTok ← tok
  let (halt0, pc) ← (match pcTok.toList with
    | 'h' :: cs => (match (String.ofList cs).toNat? with | some n => pure (true, n) | none => failure)
    | _ => (match pcTok.toNat? with | some n => pure (false, n) | none => failure) : Parser (Bool × Nat))
  let st ← words
  let mem ← words
  let pm ← listOf words
  let slots ← listOf pSlot
  let index ← nat
  let sols ← listOf pSolution
  let entries ← listOf pStateEntry
  let eds ← listOf pEd
  let secps ← listOf pSecp
  let cost ← pCost
  let limit ← nat
  let maxB ← nat
  done
  let rep : List Slot := slots.map fun (up, n, loc) =>
    if up == 1 then { counter := 0, limit := .up n, repeatIndex := loc } else { counter := n, limit := .down, repeatIndex := loc }
  let env : Env := {
    ops := fun _ => none, cost := cost.fn, limit := limit, solutions := sols, index := index,
    pre := mkView entries 0, post := mkView entries 1,
    sha256 := Sha256.sha256,
    edVerify := fun pk sg m => match eds.find? (fun e => e.pk == pk && e.sig == sg && e.msg == m) with
      | some e => if e.res == 2 then none else some (e.res == 1)
      | none => some false,
    secpRecover := fun h sg id => match secps.find? (fun e => e.hash == h && e.sig == sg && e.id == id) with
      | some e => e.res
      | none => .badSig,
    maxBreadth := maxB }
  pure { mode := mode, prog := prog,
         vm := { pc := pc, stack := st, memory := mem, parentMemory := pm, halt := halt0, rep := rep }, env := env }

def runVmCase (c : VmCase) : String :=
  match decode c.prog with
  | .error e => "err-decode " ++ (match e with | .invalidOpcode b => s!"InvalidOpcode:{b}" | .notEnoughBytes => "NotEnoughBytes")
  | .ok ops =>
    let arr := ops.toArray
    let env := { c.env with ops := fun i => arr[i]? }
    let showErr := fun (e : Nat × Err) => s!"err {e.1} {e.2.toString}"
    if c.mode == "eval" then
      match eval fuelDefault env c.vm with
      | .ok (some (.bool b)) => s!"ok {b}"
      | .ok (some .invalid) => "inv"
      | .ok none => "fuel"
      | .err e => showErr e
      | .panic m => s!"panic {m}"
      | .abort m => s!"abort {m}"
    else
      match exec fuelDefault env c.vm with
      | .ok (some (g, vm)) => showVm g vm
      | .ok none => "fuel"
      | .err e => showErr e
      | .panic m => s!"panic {m}"
      | .abort m => s!"abort {m}"

def vmFamily (fam : String) : Option (Parser String) :=
  match fam with
  | "prog" => some do
    let c ← pVmCase
    pure (runVmCase c)
  | "reuse" => some do
    -- one Vm value used for two executions (see harness fam_vm.rs)
    let index2 ← nat
    let prog2 ← bytes
    let t ← tok
    if t != "prog" then failure else
    let c ← pVmCase
    match decode c.prog with
    | .error _ => pure (runVmCase { c with mode := "ops" })
    | .ok ops =>
      let arr := ops.toArray
      let env := { c.env with ops := fun i => arr[i]? }
      match exec fuelDefault env c.vm with
      | .ok (some (g, vm)) =>
        let r1 := showVm g vm
        let c2 : VmCase := { mode := "ops", prog := prog2, vm := { vm with pc := 0 }, env := { c.env with index := index2 } }
        pure s!"{r1} | {runVmCase c2}"
      | _ => pure (runVmCase { c with mode := "ops" })
  | _ => none

end Driver
