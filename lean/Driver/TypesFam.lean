import Driver.Parse
import Driver.VmFam
import Essential.Model.Types

namespace Driver
open Essential

def pNode : Parser Node := do
  let es ← nat; let a ← bytes; pure { edgeStart := es, programAddress := a }

def pPredicate : Parser Predicate := do
  let ns ← listOf pNode; let es ← listOf nat; pure { nodes := ns, edges := es }

def showPredicate (p : Predicate) : String :=
  "nodes=[" ++ ",".intercalate (p.nodes.map fun n => s!"{n.edgeStart}:{hexOfBytes n.programAddress}") ++ "] edges=" ++ showNats p.edges

def showMutation (m : Mutation) : String := s!"{showWords m.key}->{showWords m.value}"

def showSetErr : SetErr → String
  | .empty => "Empty" | .tooMany => "TooMany" | .predicateDataLenExceeded => "PredicateDataLenExceeded"
  | .predDataValueTooLarge => "PredDataValueTooLarge" | .tooManyMutations => "TooManyMutations"
  | .multipleMutationsForSlot => "MultipleMutationsForSlot" | .keyTooLarge => "KeyTooLarge" | .valueTooLarge => "ValueTooLarge"

def showMutDecErr : MutDecErr → String
  | .wordsTooShort => "WordsTooShort" | .negativeKeyLength => "NegativeKeyLength" | .negativeValueLength => "NegativeValueLength"

def typesFamily (fam : String) : Option (Parser String) :=
  match fam with
  | "chkset" => some do
    let sols ← listOf pSolution; done
    pure (match checkSet sols with | .ok () => "ok" | .error e => s!"err {showSetErr e}")
  | "chkpred" => some do
    let p ← pPredicate; done
    pure (match checkPredicate p with
      | .ok () => "ok" | .error .tooManyNodes => "err TooManyNodes" | .error .tooManyEdges => "err TooManyEdges")
  | "chkcontract" => some do
    let ps ← listOf pPredicate; done
    pure (match checkContract ps with
      | .ok () => "ok"
      | .error .tooManyPredicates => "err TooManyPredicates"
      | .error (.predicate i .tooManyNodes) => s!"err Predicate:{i}:TooManyNodes"
      | .error (.predicate i .tooManyEdges) => s!"err Predicate:{i}:TooManyEdges"
      | .error .signature => "err Signature")
  | "nodeedges" => some do
    let p ← pPredicate; let i ← nat; done
    pure (match p.nodeEdges i with | some es => s!"some {showNats es}" | none => "none")
  | "encpred" => some do
    let p ← pPredicate; done
    pure (match encodePredicate p with
      | .ok bs => s!"ok {hexOfBytes bs} size={predicateEncodedSize p}"
      | .error .tooManyNodes => s!"err TooManyNodes size={predicateEncodedSize p}"
      | .error .tooManyEdges => s!"err TooManyEdges size={predicateEncodedSize p}")
  | "decpred" => some do
    let bs ← bytes; done
    pure (match decodePredicate bs with | some p => s!"ok {showPredicate p}" | none => "err BytesTooShort")
  | "encmuts" => some do
    let ms ← listOf (do let k ← words; let v ← words; pure ({ key := k, value := v } : Mutation)); done
    pure (showWords (encodeMutations ms) ++ " " ++ " ".intercalate (ms.map fun m => showWords (encodeMutation m)))
  | "decmut" => some do
    let ws ← words; done
    pure (match decodeMutation ws with
      | .ok m => s!"ok {showMutation m}" | .err e => s!"err {showMutDecErr e}" | .panic _ => "panic" | .abort _ => "abort")
  | "decmuts" => some do
    let ws ← words; done
    pure (match decodeMutations ws with
      | .ok ms => "ok [" ++ ",".intercalate (ms.map showMutation) ++ "]"
      | .err e => s!"err {showMutDecErr e}" | .panic _ => "panic" | .abort _ => "abort")
  | _ => none

end Driver
