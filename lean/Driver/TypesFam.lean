import Driver.Parse
import Driver.VmFam
import Essential.Model.Types
import Essential.Model.Hash
import Essential.Model.Postcard
import Essential.Model.Sign

namespace Driver
open Essential

def pNode : Parser Node := do
  let es ← nat; let a ← bytes; pure { edgeStart := es, programAddress := a }

def pPredicate : Parser Predicate := do
  let ns ← listOf pNode; let es ← listOf nat; pure { nodes := ns, edges := es }

def showPredicate (p : Predicate) : String :=
  "nodes=[" ++ ",".intercalate (p.nodes.map fun n => s!"{n.edgeStart}:{hexOfBytes n.programAddress}") ++ "] edges=" ++ showNats p.edges

def showMutation (m : Mutation) : String := s!"{showWords m.key}->{showWords m.value}"

def showSolution (s : Solution) : String :=
  s!"{hexOfBytes s.contract}/{hexOfBytes s.predicate} data=[{",".intercalate (s.data.map showWords)}] muts=[{",".intercalate (s.mutations.map fun m => s!"{showWords m.1}->{showWords m.2}")}]"

def showSetErr : SetErr → String
  | .empty => "Empty" | .tooMany => "TooMany" | .predicateDataLenExceeded => "PredicateDataLenExceeded"
  | .predDataValueTooLarge => "PredDataValueTooLarge" | .tooManyMutations => "TooManyMutations"
  | .multipleMutationsForSlot => "MultipleMutationsForSlot" | .keyTooLarge => "KeyTooLarge" | .valueTooLarge => "ValueTooLarge"

def showMutDecErr : MutDecErr → String
  | .wordsTooShort => "WordsTooShort" | .negativeKeyLength => "NegativeKeyLength" | .negativeValueLength => "NegativeValueLength"

def tableRecover (tab : List SecpEntry) (h sg : List Nat) (i : Nat) : SecpOut :=
  match tab.find? (fun e => e.hash == h && e.sig == sg && e.id == i) with
  | some e => e.res
  | none => .key []

/-- the ECDSA parameter of the model, instantiated by a table of reference answers -/
def tableEcdsa (tab : List SecpEntry) : Ecdsa where
  sign := fun _ _ => ([], 0)
  pk := fun _ => []
  recover := tableRecover tab

def typesFamily (fam : String) : Option (Parser String) :=
  match fam with
  | "chkset" => some do
    let sols ← listOf pSolution; done
    pure (match checkSet sols with | .ok () => "ok" | .error e => s!"err {showSetErr e}")
  | "chkpred" => some do
    let p ← pPredicate; done
    pure (match checkPredicate p with
      | .ok () => "ok" | .error .tooManyNodes => "err TooManyNodes" | .error .tooManyEdges => "err TooManyEdges")
  | "chkcontract" => some do
    let ps ← listOf pPredicate; done
    pure (match checkContract ps with
      | .ok () => "ok"
      | .error .tooManyPredicates => "err TooManyPredicates"
      | .error (.predicate i .tooManyNodes) => s!"err Predicate:{i}:TooManyNodes"
      | .error (.predicate i .tooManyEdges) => s!"err Predicate:{i}:TooManyEdges"
      | .error .signature => "err Signature")
  | "nodeedges" => some do
    let p ← pPredicate; let i ← nat; done
    pure (match p.nodeEdges i with | some es => s!"some {showNats es}" | none => "none")
  | "encpred" => some do
    let p ← pPredicate; done
    pure (match encodePredicate p with
      | .ok bs => s!"ok {hexOfBytes bs} size={predicateEncodedSize p}"
      | .error .tooManyNodes => s!"err TooManyNodes size={predicateEncodedSize p}"
      | .error .tooManyEdges => s!"err TooManyEdges size={predicateEncodedSize p}")
  | "decpred" => some do
    let bs ← bytes; done
    pure (match decodePredicate bs with | some p => s!"ok {showPredicate p}" | none => "err BytesTooShort")
  | "encmuts" => some do
    let ms ← listOf (do let k ← words; let v ← words; pure ({ key := k, value := v } : Mutation)); done
    pure (showWords (encodeMutations ms) ++ " " ++ " ".intercalate (ms.map fun m => showWords (encodeMutation m)))
  | "decmut" => some do
    let ws ← words; done
    pure (match decodeMutation ws with
      | .ok m => s!"ok {showMutation m}" | .err e => s!"err {showMutDecErr e}" | .panic _ => "panic" | .abort _ => "abort")
  | "decmuts" => some do
    let ws ← words; done
    pure (match decodeMutations ws with
      | .ok ms => "ok [" ++ ",".intercalate (ms.map showMutation) ++ "]"
      | .err e => s!"err {showMutDecErr e}" | .panic _ => "panic" | .abort _ => "abort")
  | "recover_contract" => some do
    let ps ← listOf pPredicate; let salt ← bytes
    let sig ← bytes; let id ← nat
    let tab ← listOf pSecp; done
    let E := tableEcdsa tab
    pure (match recoverContract E Sha256.sha256 ps salt sig id with
      | some [] => "table-miss"
      | some k => s!"ok {hexOfBytes k} verify=true"
      | none => "err verify=false")
  | "chksigned" => some do
    let ps ← listOf pPredicate; let salt ← bytes
    let sig ← bytes; let id ← nat
    let tab ← listOf pSecp; done
    let E := tableEcdsa tab
    let rec_ := recoverContract E Sha256.sha256 ps salt sig id
    if rec_ == some [] then pure "table-miss" else
    pure (match checkSignedContract rec_.isSome ps with
      | .ok () => "ok"
      | .error .signature => "err Signature"
      | .error .tooManyPredicates => "err TooManyPredicates"
      | .error (.predicate i .tooManyNodes) => s!"err Predicate:{i}:TooManyNodes"
      | .error (.predicate i .tooManyEdges) => s!"err Predicate:{i}:TooManyEdges")
  | "addr_pred" => some do
    let p ← pPredicate; done
    pure (hexOfBytes (predicateAddr Sha256.sha256 p))
  | "addr_prog" => some do
    let b ← bytes; done
    pure (hexOfBytes (Sha256.sha256 b))
  | "addr_contract" => some do
    let ps ← listOf pPredicate; let salt ← bytes; done
    pure (hexOfBytes (contractAddr Sha256.sha256 ps salt))
  | "addr_solution" => some do
    let s ← pSolution; done
    pure (hexOfBytes (solutionAddr Sha256.sha256 s) ++ " " ++ hexOfBytes (pcSolution s))
  | "addr_raw" => some do
    let kind ← tok
    let addrs ← listOf bytes
    match kind with
    | "contract" => do
      let salt ← bytes; done
      let h := hexOfBytes (Sha256.sha256 (contractPreimage addrs salt))
      pure s!"{h} {h}"
    | "set" => do
      done
      let h := hexOfBytes (Sha256.sha256 (setPreimage addrs))
      pure s!"{h} {h}"
    | _ => failure
  | "conv" => some do
    let kind ← tok
    match kind with
    | "w2b" => do let w ← int; done; pure (hexOfBytes (bytesOfWord w))
    | "b2w" => do let b ← bytes; done; if b.length = 8 then pure (toString (wordOfBytes b)) else failure
    | "bs2w" => do
      let b ← bytes; done
      let b8 := (b.take 8) ++ List.replicate (8 - (b.take 8).length) 0
      pure (toString (wordOfBytes b8))
    | "w4" => do let b ← bytes; done; if b.length = 32 then pure (showWords (wordsOfBytes b)) else failure
    | "w8" => do let b ← bytes; done; if b.length = 64 then pure (showWords (wordsOfBytes b)) else failure
    | "u32" => do let ws ← words; done; if ws.length = 4 then pure (hexOfBytes (bytesOfWords ws)) else failure
    | "u64" => do let ws ← words; done; if ws.length = 8 then pure (hexOfBytes (bytesOfWords ws)) else failure
    | "hex" => do
      let ws ← words; done
      pure ("s" ++ String.ofList (hexStrFromWords ws))
    | "unhex" => do
      let t ← tok; done
      match t.toList with
      | 's' :: cs => pure (match wordsFromHexStr cs with | some ws => s!"ok {showWords ws}" | none => "err")
      | _ => failure
    | "ca_w4" => do
      let b ← bytes; done
      if b.length = 32 then
        let ws := wordsOfBytes b
        pure s!"{showWords ws} {hexOfBytes (bytesOfWords ws)} {hexOfBytes b}"
      else failure
    | "sig65" => do
      let b ← bytes; done
      if b.length = 65 then pure s!"{hexOfBytes (b.take 64)} {b.getD 64 0} {hexOfBytes b}" else failure
    | "bool" => do
      let w ← int; done
      pure (match boolOfWord? w with | some b => s!"some {b}" | none => "none")
    | _ => failure
  | "pc" => some do
    let kind ← tok
    match kind with
    | "solution" => do let s ← pSolution; done; pure (hexOfBytes (pcSolution s))
    | "set" => do let ss ← listOf pSolution; done; pure (hexOfBytes (Postcard.pcSet ss))
    | "mutation" => do let k ← words; let v ← words; done; pure (hexOfBytes (pcMutation (k, v)))
    | _ => failure
  | "pcdec" => some do
    let kind ← tok
    let bs ← bytes; done
    match kind with
    | "solution" => pure (match Postcard.unpcSolution bs with
        | some (s, r) => s!"ok {showSolution s} rest={r.length}" | none => "err")
    | "mutation" => pure (match Postcard.unpcMutation bs with
        | some (m, r) => s!"ok {showWords m.1}->{showWords m.2} rest={r.length}" | none => "err")
    | _ => failure
  | "addr_set" => some do
    let ss ← listOf pSolution; done
    pure (hexOfBytes (setAddr Sha256.sha256 ss))
  | _ => none

end Driver
