/-
Driver family for C20 (the lock).

Encoding (tokens of Driver/Parse.lean; every list is length-prefixed):
  <sys>     = <n> v1 … vn   <T> { <k> { lock mul add }*k }*T      initial lock values, one script per thread
  <returns> = <T> { <k> r1 … rk }*T                               values returned to each thread, program order
  <finals>  = <n> v1 … vn

  lockserial <sys> <order: m t1 … tm>   → `<returns> <finals>` of the serial execution in that order
                                           (`incomplete` if the order does not run every closure)
  lockcheck  <sys> <returns> <finals>   → `ok`  iff the history is one the model allows, i.e. (theorems
                                           `serialisable_outcome` / `serial_realisable`) iff some serial order
                                           produces exactly these returned values and final values;
                                           `no-serial-order` otherwise; `search-limit` if the search budget
                                           is exhausted; `bad-history` if the shapes do not fit the scripts
  lockcheckx <sys> <returns> <finals>   → the same computation (used for deliberately corrupted histories, where
                                           any answer is fine as long as harness and driver agree)
  lockmodel  <sys> <sched: m t1 … tm>   → run the concurrent model (generated `applyShape`) under a schedule:
                                           `<finished 0|1> <acquisition order> <returns> <finals>`

The search of `lockcheck` is a depth-first search with memoisation of failed states; a witness order
it finds is re-validated with the model's own `serialOutcome` before `ok` is printed.  The Rust
harness has an independent implementation of the same search (same order, same budget).
-/
import Driver.Parse
import Essential.Model.Lock

namespace Driver
open Essential Essential.Lock

def closureP : Parser Closure := do
  let l ← nat; let m ← int; let a ← int
  pure ⟨l, ⟨m, a⟩⟩

def sysP : Parser Sys := do
  let init ← words
  let scripts ← listOf (listOf closureP)
  -- closures must address one of the listed locks
  if scripts.all (fun sc => sc.all (fun c => c.lock < init.length)) then pure ⟨init, scripts⟩ else failure

def showOutcome (o : List (List Int) × List Int) : String :=
  let toks : List String :=
    [toString o.1.length] ++ o.1.flatMap (fun r => toString r.length :: r.map toString) ++
    [toString o.2.length] ++ o.2.map toString
  " ".intercalate toks

/-! ### memo table (hand-rolled: core only) -/

structure Memo where
  buckets : Array (List (List Int))
  expanded : Nat
deriving Inhabited

def Memo.empty : Memo := ⟨Array.replicate 4099 [], 0⟩

def hashKey (k : List Int) : Nat :=
  k.foldl (fun h x => (h * 1000003 + (x % 1000000007).toNat) % 1048573) 17

def Memo.contains (m : Memo) (k : List Int) : Bool :=
  (m.buckets[hashKey k % 4099]!).contains k

def Memo.insert (m : Memo) (k : List Int) : Memo :=
  let i := hashKey k % 4099
  { m with buckets := m.buckets.set! i (k :: m.buckets[i]!) }

inductive SRes
  | found (order : List Nat)
  | fail
  | limit
deriving Inhabited

/-- states expanded before the search gives up -/
def searchLimit : Nat := 200000

structure Prob where
  sys : Sys
  rets : List (List Int)
  finals : List Int

mutual
/-- search from the state `(pos, vals)`: `pos[t]` closures of thread `t` have run -/
partial def dfs (p : Prob) (pos : List Nat) (vals : List Int) (m : Memo) : SRes × Memo :=
  let key : List Int := pos.map Int.ofNat ++ vals
  if m.contains key then (.fail, m)
  else if m.expanded ≥ searchLimit then (.limit, m)
  else
    let m := { m with expanded := m.expanded + 1 }
    let allDone := (List.range pos.length).all fun t => pos.getD t 0 == (p.sys.scripts.getD t []).length
    if allDone then
      if vals == p.finals then (.found [], m) else (.fail, m.insert key)
    else
      match tryFrom p pos vals 0 m with
      | (.fail, m) => (.fail, m.insert key)
      | r => r

/-- try the threads `t, t+1, …` as the next one to run a closure -/
partial def tryFrom (p : Prob) (pos : List Nat) (vals : List Int) (t : Nat) (m : Memo) : SRes × Memo :=
  if t ≥ pos.length then (.fail, m)
  else
    let k := pos.getD t 0
    match (p.sys.scripts.getD t [])[k]? with
    | none => tryFrom p pos vals (t + 1) m
    | some c =>
      let v := vals.getD c.lock 0
      if (p.rets.getD t []).getD k 0 == v then
        match dfs p (pos.set t (k + 1)) (vals.set c.lock (c.f.app v)) m with
        | (.found order, m) => (.found (t :: order), m)
        | (.limit, m) => (.limit, m)
        | (.fail, m) => tryFrom p pos vals (t + 1) m
      else tryFrom p pos vals (t + 1) m
end

def lockcheck (sys : Sys) (rets : List (List Int)) (finals : List Int) : String :=
  if rets.length != sys.scripts.length || finals.length != sys.init.length
      || (List.range rets.length).any (fun t => (rets.getD t []).length != (sys.scripts.getD t []).length) then
    "bad-history"
  else
    match (dfs ⟨sys, rets, finals⟩ (sys.scripts.map fun _ => 0) sys.init Memo.empty).1 with
    | .fail => "no-serial-order"
    | .limit => "search-limit"
    | .found order =>
      -- the witness is checked against the model's serial semantics
      if serialOutcome sys order == some (rets, finals) then "ok" else "checker-bug"

def lockFamily (fam : String) : Option (Parser String) :=
  match fam with
  | "lockserial" => some do
    let sys ← sysP; let order ← listOf nat; done
    pure (match serialOutcome sys order with
      | some o => showOutcome o
      | none => "incomplete")
  | "lockcheck" | "lockcheckx" => some do
    let sys ← sysP; let rets ← listOf words; let finals ← words; done
    pure (lockcheck sys rets finals)
  | "lockmodel" => some do
    let sys ← sysP; let sched ← listOf nat; done
    let s := run (init LockGen.applyShape sys) sched
    let fin := if decide (Finished sys.scripts.length s) then "1" else "0"
    pure s!"{fin} {" ".intercalate ((toString s.acqs.length) :: s.acqs.map toString)} {showOutcome (outcome sys s)}"
  | _ => none

end Driver
