import Driver.TypesFam
import Essential.Model.Check

namespace Driver
open Essential

structure StEntry where
  contract : List Nat
  key : List Int
  res : Except Int (List Int)
  /-- a *raw* answer: a read starting at this key returns exactly these values, however many were asked for -/
  raw : Option (List (List Int)) := none

def pStEntry : Parser StEntry := do
  let c ← bytes; let k ← words
  let t ← tok
  match t with
  | "v" => do let v ← words; pure ⟨c, k, Except.ok v, none⟩
  | "e" => do let e ← int; pure ⟨c, k, Except.error e, none⟩
  | "r" => do let vs ← listOf words; pure ⟨c, k, Except.ok [], some vs⟩
  | _ => failure

/-- the harness' map state: `n` consecutive keys from `key`, missing keys read as empty,
stops at key wrap-around; an error entry fails the whole read -/
def mapStateLoop (es : List StEntry) (c : List Nat) : Nat → List Int → Except Int (List (List Int))
  | 0, _ => .ok []
  | n+1, key =>
    let v : Except Int (List Int) := match es.find? (fun e => e.raw.isNone && e.contract == c && e.key == key) with
      | some e => e.res
      | none => .ok []
    match v with
    | .error e => .error e
    | .ok v =>
      match nextKey key with
      | none => .ok [v]
      | some k' => (mapStateLoop es c n k').map (v :: ·)

def mapState (es : List StEntry) : StateView := fun c k n =>
  match es.find? (fun e => e.raw.isSome && e.contract == c && e.key == k) with
  | some e => .ok (e.raw.getD [])
  | none => mapStateLoop es c n k

def showPredError : PredError → String
  | .invalidNodeEdges n => s!"InvalidNodeEdges:{n}"
  | .programErrors l => "ProgramErrors:[" ++ ";".intercalate (l.map fun (n, k) => s!"{n}:{k}") ++ "]"
  | .constraintsUnsatisfied l => "Unsatisfied:" ++ showNats l
  | .mutationsDuplicate => "Mutations:Duplicate"
  | .mutationsDecode => "Mutations:Decode"

def showSolMuts (s : Solution) : String :=
  "[" ++ ",".intercalate (s.mutations.map fun (k, v) => s!"{showWords k}->{showWords v}") ++ "]"

structure CheckCase where
  collectAll : Bool
  sols : List Solution
  preds : List (List Nat × List Nat × Predicate)
  progs : List (List Nat × List Nat)
  state : List StEntry

def pCheckCase : Parser CheckCase := do
  let ca ← nat
  let sols ← listOf pSolution
  let preds ← listOf (do let c ← bytes; let a ← bytes; let p ← pPredicate; pure (c, a, p))
  let progs ← listOf (do let a ← bytes; let b ← bytes; pure (a, b))
  let st ← listOf pStEntry
  pure ⟨ca == 1, sols, preds, progs, st⟩

def CheckCase.setEnv (c : CheckCase) : SetEnv × (StateView → CheckEnv) × StateView :=
  let pre := mapState c.state
  let program := fun a => match c.progs.find? (fun e => e.1 == a) with | some e => e.2 | none => []
  let mkCe := fun (post : StateView) => ({
    program := program,
    baseEnv := fun ops => {
      ops := ops, cost := fun _ => Consts.checkGasCost, limit := Consts.checkGasLimit, solutions := [], index := 0, pre := pre, post := post,
      sha256 := Sha256.sha256, edVerify := fun _ _ _ => some false, secpRecover := fun _ _ _ => .badSig, maxBreadth := 4096 },
    fuel := 2000000 } : CheckEnv)
  let predicate := fun ca pa => match c.preds.find? (fun e => e.1 == ca && e.2.1 == pa) with
    | some e => e.2.2 | none => { nodes := [], edges := [] }
  ({ ce := mkCe pre, predicate := predicate, collectAll := c.collectAll }, mkCe, pre)

def showSetError : SetError → String
  | .failed l => "err [" ++ ",".intercalate (l.map fun (i, e) => s!"({i},{showPredError e})") ++ "]"

def checkFamily (fam : String) : Option (Parser String) :=
  match fam with
  | "twopass" => some do
    let c ← pCheckCase; done
    let (se, mkCe, pre) := c.setEnv
    pure (match twoPass se mkCe pre c.sols with
      | .ok (gas, sols) => s!"ok {gas} " ++ " ".intercalate (sols.map showSolMuts)
      | .err e => showSetError e
      | .panic m => s!"panic {m}"
      | .abort m => s!"abort {m}")
  | "api" => some do
    -- the single-mode public entry points with an explicitly given post-state view (see harness fam_check.rs)
    let entry ← tok; let modes ← tok; let solIx ← nat
    let c ← pCheckCase
    let post ← listOf pStEntry; done
    let (se, mkCe, _) := c.setEnv
    let ce := mkCe (mapState post)
    let modeOf := fun (ch : Char) => if ch == '0' then RunMode.outputs else RunMode.checks
    let showMems := fun (ms : List Memory) => "[" ++ ",".intercalate (ms.map showWords) ++ "]"
    match entry with
    | "cac" =>
      let rec go : List Char → List Solution → List Cache → List String → List String
        | [], _, _, acc => acc
        | ch :: rest, sols, caches, acc =>
          match checkAndCompute se ce sols (modeOf ch) caches with
          | .ok (gas, sols', caches') => go rest sols' caches' (acc ++ [s!"ok {gas} " ++ " ".intercalate (sols'.map showSolMuts)])
          | .err e => acc ++ [showSetError e]
          | .panic m => acc ++ [s!"panic {m}"]
          | .abort m => acc ++ [s!"abort {m}"]
      pure (" | ".intercalate (go modes.toList c.sols (c.sols.map fun _ => []) []))
    | "csp" =>
      let rec goS : List Char → List Cache → List String → List String
        | [], _, acc => acc
        | ch :: rest, caches, acc =>
          match checkSetPredicates se ce c.sols (modeOf ch) caches with
          | .ok (gas, outs, caches') =>
            goS rest caches' (acc ++ [s!"ok {gas} " ++ " ".intercalate (outs.map fun (i, ms) => s!"{i}:{showMems ms}")])
          | .err e => acc ++ [showSetError e]
          | .panic m => acc ++ [s!"panic {m}"]
          | .abort m => acc ++ [s!"abort {m}"]
      pure (" | ".intercalate (goS modes.toList (c.sols.map fun _ => []) []))
    | "cp" =>
      match c.sols[solIx]? with
      | none => pure "bad-index"
      | some s =>
        let p := se.predicate s.contract s.predicate
        let rec goP : List Char → Cache → List String → List String
          | [], _, acc => acc
          | ch :: rest, cache, acc =>
            match checkPredicateInner ce c.sols solIx p se.collectAll (modeOf ch) cache with
            | .ok (gas, data, cache') => goP rest cache' (acc ++ [s!"ok {gas} {showMems data}"])
            | .err e => acc ++ [s!"err {showPredError e}"]
            | .panic m => acc ++ [s!"panic {m}"]
            | .abort m => acc ++ [s!"abort {m}"]
        pure (" | ".intercalate (goP modes.toList [] []))
    | _ => pure "bad-entry"
  | "onepass" => some do
    -- `check_and_compute_solution_set` in one mode on a fresh cache; post state = pre state overlaid with the declared mutations
    let mode ← nat
    let c ← pCheckCase; done
    let (se, mkCe, pre) := c.setEnv
    let post := readOrFallback (buildPostState c.sols) pre
    pure (match checkAndCompute se (mkCe post) c.sols (if mode == 0 then .outputs else .checks) (c.sols.map fun _ => []) with
      | .ok (gas, sols, _) => s!"ok {gas} " ++ " ".intercalate (sols.map showSolMuts)
      | .err e => showSetError e
      | .panic m => s!"panic {m}"
      | .abort m => s!"abort {m}")
  | "topo" => some do
    let p ← pPredicate; done
    pure (match firstBadNode p with
      | some i => s!"err InvalidNodeEdges:{i}"
      | none => match topoSort p with
        | .ok l => "ok [" ++ ",".intercalate (l.map showNats) ++ "]"
        | .error e => s!"err {showPredError e}")
  | "rof" => some do
    -- read_or_fallback against the map state: <sols (declared mutations)> <state> <contract> <key> <n>
    let sols ← listOf pSolution
    let st ← listOf pStEntry
    let c ← bytes; let k ← words; let n ← nat; done
    pure (match readOrFallback (buildPostState sols) (mapState st) c k n with
      | .ok vs => "ok [" ++ ",".intercalate (vs.map showWords) ++ "]"
      | .error e => s!"err {e}")
  | _ => none

end Driver
