import Essential.Model.Basic
import Essential.Model.Asm
import Essential.Lemmas.Asm
import Essential.Props.C13
import Essential.Props.C14
import Essential.Props.C15
import Essential.Props.C05
import Essential.Props.C08
