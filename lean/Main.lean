import Driver.AsmFam
import Driver.VmFam
import Driver.TypesFam
import Driver.CheckFam
import Driver.LockFam

open Driver

def families : List (String → Option (Parser String)) := [asmFamily, vmFamily, typesFamily, checkFamily, lockFamily]

def step (line : String) : String :=
  match line.trimAscii.toString.splitOn " " with
  | id :: fam :: rest =>
    match families.findSome? (fun f => f fam) with
    | none => s!"{id} bad-family"
    | some p =>
      match p.run rest with
      | some (out, _) => s!"{id} {out}"
      | none => s!"{id} bad-line"
  | _ => "bad-line"

partial def loop (h : IO.FS.Stream) (out : IO.FS.Stream) : IO Unit := do
  let line ← h.getLine
  if line.isEmpty then return ()
  out.putStrLn (step line)
  out.flush
  loop h out

def main : IO Unit := do
  let out ← IO.getStdout
  loop (← IO.getStdin) out
