/-
Model of `crates/types` (predicate / mutation codecs, `node_edges`), of the validators in
`crates/check` (`solution::check_set`, `predicate::check*`) and of the hashing pre-images
in `crates/hash`.
-/
import Essential.Model.Vm

namespace Essential

/-! ### predicates (`types/src/predicate.rs`, `predicate/encode.rs`) -/

structure Node where
  edgeStart : Nat              -- u16
  programAddress : List Nat    -- 32 bytes
deriving Repr, DecidableEq

structure Predicate where
  nodes : List Node
  edges : List Nat             -- u16s
deriving Repr, DecidableEq

def edgeMax : Nat := 65535

/-- `Predicate::node_edges` -/
def Predicate.nodeEdges (p : Predicate) (i : Nat) : Option (List Nat) :=
  match p.nodes[i]? with
  | none => none
  | some node =>
    if node.edgeStart = edgeMax then some [] else
    let eStart := node.edgeStart
    let eEnd := match p.nodes[i + 1]? with
      | some next => if next.edgeStart ≠ edgeMax then next.edgeStart else p.edges.length
      | none => p.edges.length
    -- `self.edges.get(e_start..e_end)`
    if eStart ≤ eEnd ∧ eEnd ≤ p.edges.length then some ((p.edges.drop eStart).take (eEnd - eStart)) else none

inductive PredEncErr | tooManyNodes | tooManyEdges
deriving Repr, DecidableEq

def encodeNode (n : Node) : List Nat := bytesOfU16 n.edgeStart ++ n.programAddress

/-- `encode_predicate` -/
def encodePredicate (p : Predicate) : Except PredEncErr (List Nat) :=
  if p.nodes.length > Consts.maxNodes then .error .tooManyNodes else
  if p.edges.length > Consts.maxEdges then .error .tooManyEdges else
  .ok (bytesOfU16 p.nodes.length ++ p.nodes.flatMap encodeNode ++ bytesOfU16 p.edges.length ++ p.edges.flatMap bytesOfU16)

/-- `predicate_encoded_size` -/
def predicateEncodedSize (p : Predicate) : Nat :=
  p.nodes.length * Consts.nodeSizeBytes + p.edges.length * 2 + 2 * 2

/-- `chunks_exact(34)` of the node region -/
def decodeNodes : Nat → List Nat → List Node
  | 0, _ => []
  | n+1, bs => { edgeStart := u16OfBytes (bs.take 2), programAddress := (bs.drop 2).take 32 } :: decodeNodes n (bs.drop 34)

def decodeEdges : Nat → List Nat → List Nat
  | 0, _ => []
  | n+1, bs => u16OfBytes (bs.take 2) :: decodeEdges n (bs.drop 2)

/-- `decode_predicate` (the only error is `BytesTooShort`) -/
def decodePredicate (bs : List Nat) : Option Predicate :=
  if bs.length < 2 then none else
  let numNodes := u16OfBytes (bs.take 2)
  if bs.length < 2 + numNodes * Consts.nodeSizeBytes then none else
  let nodes := decodeNodes numNodes ((bs.drop 2).take (numNodes * Consts.nodeSizeBytes))
  let pos := numNodes * Consts.nodeSizeBytes + 2
  if bs.length < pos + 2 then none else
  let numEdges := u16OfBytes ((bs.drop pos).take 2)
  let start := pos + 2
  if bs.length < start + numEdges * 2 then none else
  some { nodes := nodes, edges := decodeEdges numEdges ((bs.drop start).take (numEdges * 2)) }

/-! ### mutations (`types/src/solution/encode.rs`, `decode.rs`) -/

structure Mutation where
  key : List Int
  value : List Int
deriving Repr, DecidableEq

def encodeMutation (m : Mutation) : List Int :=
  (m.key.length : Int) :: m.key ++ (m.value.length : Int) :: m.value

def encodeMutations (ms : List Mutation) : List Int :=
  (ms.length : Int) :: ms.flatMap encodeMutation

inductive MutDecErr | wordsTooShort | negativeKeyLength | negativeValueLength
deriving Repr, DecidableEq

/-- `decode_mutation`; `.panic` where the Rust code would index out of bounds -/
def decodeMutation (ws : List Int) : Res MutDecErr Mutation :=
  if ws.length < 2 then .err .wordsTooShort else
  match ws[0]? with
  | none => .panic "index out of bounds"
  | some k =>
    if k < 0 then .err .negativeKeyLength else
    let keyLen := k.toNat
    let keyEnd := 1 + keyLen
    -- after the fix: the value-length word at `key_end` must exist too
    if ws.length ≤ keyEnd then .err .wordsTooShort else
    let key := (ws.drop 1).take keyLen
    match ws[keyEnd]? with
    | none => .panic "index out of bounds"
    | some v =>
      if v < 0 then .err .negativeValueLength else
      let valueLen := v.toNat
      let valueStart := 2 + keyLen
      let valueEnd := valueStart + valueLen
      if ws.length < valueEnd then .err .wordsTooShort else
      .ok { key := key, value := (ws.drop valueStart).take valueLen }

/-- the loop of `decode_mutations` from word index `i` -/
def decodeMutationsFrom (ws : List Int) : (fuel : Nat) → (i : Nat) → Res MutDecErr (List Mutation)
  | 0, _ => .ok []
  | fuel+1, i =>
    if i < ws.length then
      (decodeMutation (ws.drop i)).bind fun m =>
        (decodeMutationsFrom ws fuel (i + 2 + m.key.length + m.value.length)).bind fun rest => .ok (m :: rest)
    else .ok []

/-- `decode_mutations` (the count word is only inspected for emptiness and sign) -/
def decodeMutations (ws : List Int) : Res MutDecErr (List Mutation) :=
  match ws[0]? with
  | none => .err .wordsTooShort
  | some n =>
    if n < 0 then .err .negativeValueLength else
    if n = 0 then .ok [] else
    decodeMutationsFrom ws ws.length 1

/-! ### validators (`check/src/solution.rs`, `check/src/predicate.rs`) -/

inductive SetErr
  | empty | tooMany | predicateDataLenExceeded | predDataValueTooLarge
  | tooManyMutations | multipleMutationsForSlot | keyTooLarge | valueTooLarge
deriving Repr, DecidableEq

def checkSolutionsLoop : List Solution → Except SetErr Unit
  | [] => .ok ()
  | s :: rest =>
    if s.data.length > Consts.maxPredicateData then .error .predicateDataLenExceeded else
    if s.data.any (fun v => decide (v.length > Consts.maxValueSize)) then .error .predDataValueTooLarge else
    checkSolutionsLoop rest

/-- `check_solutions` -/
def checkSolutions (sols : List Solution) : Except SetErr Unit :=
  if sols = [] then .error .empty else
  if sols.length > Consts.maxSolutions then .error .tooMany else
  checkSolutionsLoop sols

/-- the loop of `check_set_state_mutations`; `seen` = slots (contract, key) already mutated in the set -/
def checkMutLoop : List (List Nat × List Int) → List (List Nat × List Int × List Int) → Except SetErr Unit
  | _, [] => .ok ()
  | seen, (c, k, v) :: rest =>
    if seen.contains (c, k) then .error .multipleMutationsForSlot else
    if k.length > Consts.maxKeySize then .error .keyTooLarge else
    if v.length > Consts.maxValueSize then .error .valueTooLarge else
    checkMutLoop ((c, k) :: seen) rest

/-- all mutations of the set, in order, tagged with their solution's contract -/
def setMutations (sols : List Solution) : List (List Nat × List Int × List Int) :=
  sols.flatMap fun s => s.mutations.map fun (k, v) => (s.contract, k, v)

/-- `check_set_state_mutations` -/
def checkSetStateMutations (sols : List Solution) : Except SetErr Unit :=
  if (sols.map fun s => s.mutations.length).sum > Consts.maxStateMutations then .error .tooManyMutations else
  checkMutLoop [] (setMutations sols)

/-- `check_set` -/
def checkSet (sols : List Solution) : Except SetErr Unit :=
  match checkSolutions sols with
  | .error e => .error e
  | .ok () => checkSetStateMutations sols

inductive PredErr | tooManyNodes | tooManyEdges
deriving Repr, DecidableEq

/-- `predicate::check` -/
def checkPredicate (p : Predicate) : Except PredErr Unit :=
  if p.nodes.length > Consts.maxNodes then .error .tooManyNodes else
  if p.edges.length > Consts.maxEdges then .error .tooManyEdges else .ok ()

inductive ContractErr | tooManyPredicates | predicate (ix : Nat) (e : PredErr) | signature
deriving Repr, DecidableEq

def checkContractFrom : Nat → List Predicate → Except ContractErr Unit
  | _, [] => .ok ()
  | i, p :: ps =>
    match checkPredicate p with
    | .error e => .error (.predicate i e)
    | .ok () => checkContractFrom (i + 1) ps

/-- `predicate::check_contract` -/
def checkContract (ps : List Predicate) : Except ContractErr Unit :=
  if ps.length > Consts.maxPredicates then .error .tooManyPredicates else checkContractFrom 0 ps

/-- `predicate::check_signed_contract`; `recovers` = `essential_sign::contract::verify` succeeded -/
def checkSignedContract (recovers : Bool) (ps : List Predicate) : Except ContractErr Unit :=
  if ¬ recovers then .error .signature else checkContract ps

end Essential
