/-
Executable model of `essential-lock` (`crates/lock/src/lib.rs`) under contention.

* A *system* is a list of lock values (`Int`s; `StdLock<i64>` in the harness) and one *script*
  per thread: the list of closures the thread passes to `apply`, one after the other.
* A closure is data: the lock it is applied to and a read-modify-write function
  `v ↦ mul * v + add` that returns the old value (`|v| { let old = *v; *v = mul*old + add; old }`).
  Closures cannot call `apply` themselves (no re-entrant / nested use of a lock: the case
  excluded by the statement of `no_deadlock`).
* `apply` performs the steps listed in `LockGen.applyShape` (extracted from the source by
  `gen/lock_from_rust.py`): `acquire` blocks unless the lock is free, `release` frees it and
  `call` runs the closure.  The closure is split into two micro-steps, *read* (copy the
  guarded value into a thread-local register) and *write* (store `f register`, return the
  register), which do **not** look at the lock: if two calls on the same lock interleave, an
  update is lost — so serialisation is a property of the step list, not of the closures.
* A scheduler is any list of thread ids; a step of a thread that is blocked (or finished, or
  does not exist) leaves the state unchanged.
* The serial reference semantics (`serial`) runs whole closures atomically in a given order.

Core only (no imports besides the generated step list): linked into the driver.
-/
import Essential.Gen.Lock

namespace Essential.Lock
open Essential.LockGen (Step)

/-- read-modify-write function given as data: `v ↦ mul * v + add` -/
structure Rmw where
  mul : Int
  add : Int
deriving Repr, DecidableEq

def Rmw.app (f : Rmw) (v : Int) : Int := f.mul * v + f.add

/-- a closure passed to `apply`: which lock, and what it does to the guarded value
(it returns the value it found) -/
structure Closure where
  lock : Nat
  f : Rmw
deriving Repr, DecidableEq

/-- the increment closure `|v| { let old = *v; *v = old + 1; old }` -/
def incr (l : Nat) : Closure := ⟨l, ⟨1, 1⟩⟩

/-- a system: initial lock values (a lock that is not listed starts at 0) and one script per thread -/
structure Sys where
  init : List Int
  scripts : List (List Closure)
deriving Repr, DecidableEq

/-- micro-steps of a thread -/
inductive Micro
  | acquire (l : Nat)
  | read (l : Nat)
  | write (l : Nat) (f : Rmw)
  | release (l : Nat)
deriving Repr, DecidableEq

def expandStep (c : Closure) : Step → List Micro
  | .acquire => [.acquire c.lock]
  | .call => [.read c.lock, .write c.lock c.f]
  | .release => [.release c.lock]

/-- one call of `apply` with closure `c`, for an `apply` that performs the steps `shape` -/
def expand (shape : List Step) (c : Closure) : List Micro := shape.flatMap (expandStep c)

/-- the whole program of a thread -/
def compile (shape : List Step) (script : List Closure) : List Micro := script.flatMap (expand shape)

structure Thread where
  /-- micro-steps still to be executed -/
  prog : List Micro
  /-- the closure's local copy of the guarded value (`old`) -/
  reg : Int
  /-- values returned by the calls of `apply` completed so far, in program order -/
  rets : List Int

def upd {α : Type} (f : Nat → α) (i : Nat) (a : α) : Nat → α := fun j => if j = i then a else f j

structure State where
  /-- guarded values -/
  vals : Nat → Int
  /-- which thread holds which lock -/
  owner : Nat → Option Nat
  thr : Nat → Thread
  /-- ghost: thread ids in the order in which they acquired (any) lock -/
  acqs : List Nat
  /-- ghost: number of closures completed (written) so far, per lock -/
  commits : Nat → Nat

def init (shape : List Step) (sys : Sys) : State where
  vals l := sys.init.getD l 0
  owner _ := none
  thr t := { prog := compile shape (sys.scripts.getD t []), reg := 0, rets := [] }
  acqs := []
  commits _ := 0

/-- one micro-step of thread `t`; `none`: the thread is blocked, finished or absent -/
def step (s : State) (t : Nat) : Option State :=
  match (s.thr t).prog with
  | [] => none
  | .acquire l :: rest =>
    match s.owner l with
    | some _ => none
    | none => some { s with owner := upd s.owner l (some t), thr := upd s.thr t { s.thr t with prog := rest },
                            acqs := s.acqs ++ [t] }
  | .read l :: rest => some { s with thr := upd s.thr t { s.thr t with prog := rest, reg := s.vals l } }
  | .write l f :: rest =>
    some { s with vals := upd s.vals l (f.app (s.thr t).reg),
                  thr := upd s.thr t { s.thr t with prog := rest, rets := (s.thr t).rets ++ [(s.thr t).reg] },
                  commits := upd s.commits l (s.commits l + 1) }
  | .release l :: rest =>
    if s.owner l = some t then some { s with owner := upd s.owner l none, thr := upd s.thr t { s.thr t with prog := rest } }
    else none

/-- the scheduler picks thread `t`: it makes a step if it can -/
def exec (s : State) (t : Nat) : State := (step s t).getD s

/-- run a schedule -/
def run (s : State) (sched : List Nat) : State := sched.foldl exec s

/-- all of the first `n` threads have run their scripts to completion -/
def Finished (n : Nat) (s : State) : Prop := ∀ t, t < n → (s.thr t).prog = []

instance (n : Nat) (s : State) : Decidable (Finished n s) :=
  inferInstanceAs (Decidable (∀ t, t < n → (s.thr t).prog = []))

/-- thread `t` is inside a call of a closure on lock `l` (about to read, or between read and write) -/
def inCall (s : State) (t l : Nat) : Bool :=
  match (s.thr t).prog with
  | .read l' :: _ => l' == l
  | .write l' _ :: _ => l' == l
  | _ => false

/-! ### serial reference semantics -/

structure SState where
  vals : Nat → Int
  /-- closures not yet run, per thread -/
  todo : Nat → List Closure
  /-- returned values, per thread, in program order -/
  rets : Nat → List Int

def sinit (sys : Sys) : SState where
  vals l := sys.init.getD l 0
  todo t := sys.scripts.getD t []
  rets _ := []

/-- run the next closure of thread `t` atomically -/
def sstep (S : SState) (t : Nat) : SState :=
  match S.todo t with
  | [] => S
  | c :: rest =>
    { vals := upd S.vals c.lock (c.f.app (S.vals c.lock)),
      todo := upd S.todo t rest,
      rets := upd S.rets t (S.rets t ++ [S.vals c.lock]) }

/-- run closures atomically, one at a time, in the order given by a list of thread ids -/
def serial (S : SState) (order : List Nat) : SState := order.foldl sstep S

/-! ### finite views used by the driver and by `decide`d examples -/

/-- `(returned values per thread, final lock values)` of a serial execution, required to run every
closure of every script (`none` if the order leaves some closure out) -/
def serialOutcome (sys : Sys) (order : List Nat) : Option (List (List Int) × List Int) :=
  let S := serial (sinit sys) order
  if (List.range sys.scripts.length).all (fun t => (S.todo t).isEmpty) then
    some ((List.range sys.scripts.length).map S.rets, (List.range sys.init.length).map S.vals)
  else none

/-- same view of a state of the concurrent semantics -/
def outcome (sys : Sys) (s : State) : List (List Int) × List Int :=
  ((List.range sys.scripts.length).map (fun t => (s.thr t).rets), (List.range sys.init.length).map s.vals)

end Essential.Lock
