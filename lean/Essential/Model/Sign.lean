/-
Model of `crates/sign`: signing / recovering over the contract's content address, and the
word encodings of keys and signatures.  The ECDSA scheme is a parameter.
-/
import Essential.Model.Hash

namespace Essential

structure Ecdsa where
  /-- `sign_ecdsa_recoverable` then `serialize_compact`: 64 signature bytes and the recovery id -/
  sign : (hash sk : List Nat) → List Nat × Nat
  /-- `from_compact` + `recover_ecdsa` for a recovery id in `0..=3` -/
  recover : (hash sig : List Nat) → Nat → SecpOut
  /-- the 33-byte compressed public key of a secret key -/
  pk : List Nat → List Nat

/-- correctness of the scheme: recovering what was signed gives the signer's key -/
def Ecdsa.Correct (E : Ecdsa) : Prop :=
  ∀ h sk, (E.sign h sk).2 ≤ 3 ∧ E.recover h (E.sign h sk).1 (E.sign h sk).2 = .key (E.pk sk)

/-- `sign::contract::sign` (the `Signature(sig, id)`) -/
def signContract (E : Ecdsa) (sha : List Nat → List Nat) (preds : List Predicate) (salt sk : List Nat) : List Nat × Nat :=
  E.sign (contractAddr sha preds salt) sk

/-- `sign::recover_hash`: `RecoveryId::try_from(i32::from(id))`, `from_compact`, `recover_ecdsa` -/
def recoverHash (E : Ecdsa) (hash : List Nat) (sig : List Nat) (id : Nat) : Option (List Nat) :=
  if id > 3 then none else
  match E.recover hash sig id with
  | .key k => some k
  | _ => none

/-- `sign::contract::recover` -/
def recoverContract (E : Ecdsa) (sha : List Nat → List Nat) (preds : List Predicate) (salt : List Nat)
    (sig : List Nat) (id : Nat) : Option (List Nat) :=
  recoverHash E (contractAddr sha preds salt) sig id

/-- `sign::contract::verify` = recovery succeeds -/
def verifyContract (E : Ecdsa) (sha : List Nat → List Nat) (preds : List Predicate) (salt : List Nat)
    (sig : List Nat) (id : Nat) : Bool :=
  (recoverContract E sha preds salt sig id).isSome

/-- `sign::encode::signature`: 64 bytes as 8 words, then the recovery id -/
def encodeSignature (sig : List Nat) (id : Nat) : List Int := wordsOfBytes sig ++ [(id : Int)]

end Essential
