/-
Executable model of `crates/vm`: stack, memory, repeat, every op of `sync.rs`, compute,
state reads, crypto marshalling and the `Vm::exec` loop.

The model mirrors the code function by function: same helper boundaries, same order of
pops / checks / effects.  Where the Rust code can panic (index, `expect`, unchecked
arithmetic) the model has a `.panic` branch; where it would exhaust memory, `.abort`.
External behaviour (state views, SHA-256, signature primitives, op costs, the op table)
is a parameter (`Env`), never an axiom.
-/
import Essential.Model.Basic
import Essential.Gen.Spec
import Essential.Gen.Consts

namespace Essential
open Spec

/-! ### errors (`vm/src/error.rs`, category and variant only) -/

inductive Err where
  | stackEmpty | stackIndexOutOfBounds | stackOverflow | stackInvalidCondition
  | lenWordsMissingLength | lenWordsInvalidLength | lenWordsOutOfBounds
  | aluOverflow | aluUnderflow | aluDivideByZero
  | accessSlotIxOutOfBounds | accessValueTooLarge | accessValueRangeOutOfBounds | accessInvalidAccessRange
  | accessSlotsLengthTooLarge | accessMissingPredDataLen | accessMissingPredDataValueIx | accessMissingPredDataSlotIx
  | cryptoEd25519 | cryptoSecp256k1 | cryptoSecp256k1RecoveryId
  | repeatEmpty | repeatNoCounter | repeatInvalidCountDirection | repeatOverflow
  | tcfInvalidJumpIfCondition | tcfJumpedToSelf | tcfInvalidHaltIfCondition | tcfInvalidPanicIfCondition | tcfPanic
  | memoryIndexOutOfBounds | memoryOverflow
  | parentMemoryNoParent
  | pcOverflow
  | decodeSet
  | stateRead (code : Int)
  | computeDepthReached | computeStackEmpty | computeInvalidBreadth
  /-- a child failed: `ComputeError::Exec(Box<ExecError>)`; which child's error is kept is
  unspecified by rayon, so only the fact is recorded -/
  | computeExec
  | outOfGas
  | fromBytes
deriving Repr, DecidableEq

def Err.toString : Err → String
  | .stackEmpty => "Stack.Empty" | .stackIndexOutOfBounds => "Stack.IndexOutOfBounds"
  | .stackOverflow => "Stack.Overflow" | .stackInvalidCondition => "Stack.InvalidCondition"
  | .lenWordsMissingLength => "Stack.LenWords.MissingLength" | .lenWordsInvalidLength => "Stack.LenWords.InvalidLength"
  | .lenWordsOutOfBounds => "Stack.LenWords.OutOfBounds"
  | .aluOverflow => "Alu.Overflow" | .aluUnderflow => "Alu.Underflow" | .aluDivideByZero => "Alu.DivideByZero"
  | .accessSlotIxOutOfBounds => "Access.PredicateDataSlotIxOutOfBounds" | .accessValueTooLarge => "Access.PredicateDataValueTooLarge"
  | .accessValueRangeOutOfBounds => "Access.PredicateDataValueRangeOutOfBounds" | .accessInvalidAccessRange => "Access.InvalidAccessRange"
  | .accessSlotsLengthTooLarge => "Access.SlotsLengthTooLarge" | .accessMissingPredDataLen => "Access.MissingArg.PredDataLen"
  | .accessMissingPredDataValueIx => "Access.MissingArg.PredDataValueIx" | .accessMissingPredDataSlotIx => "Access.MissingArg.PredDataSlotIx"
  | .cryptoEd25519 => "Crypto.Ed25519" | .cryptoSecp256k1 => "Crypto.Secp256k1" | .cryptoSecp256k1RecoveryId => "Crypto.Secp256k1RecoveryId"
  | .repeatEmpty => "Repeat.Empty" | .repeatNoCounter => "Repeat.NoCounter"
  | .repeatInvalidCountDirection => "Repeat.InvalidCountDirection" | .repeatOverflow => "Repeat.Overflow"
  | .tcfInvalidJumpIfCondition => "TotalControlFlow.InvalidJumpForwardIfCondition" | .tcfJumpedToSelf => "TotalControlFlow.JumpedToSelf"
  | .tcfInvalidHaltIfCondition => "TotalControlFlow.InvalidHaltIfCondition" | .tcfInvalidPanicIfCondition => "TotalControlFlow.InvalidPanicIfCondition"
  | .tcfPanic => "TotalControlFlow.Panic"
  | .memoryIndexOutOfBounds => "Memory.IndexOutOfBounds" | .memoryOverflow => "Memory.Overflow"
  | .parentMemoryNoParent => "ParentMemory.NoParent"
  | .pcOverflow => "PcOverflow" | .decodeSet => "Decode.Set"
  | .stateRead c => s!"StateRead({c})"
  | .computeDepthReached => "Compute.DepthReached" | .computeStackEmpty => "Compute.Stack.Empty"
  | .computeInvalidBreadth => "Compute.InvalidBreadth" | .computeExec => "Compute.Exec"
  | .outOfGas => "OutOfGas" | .fromBytes => "FromBytes"

/-! ### data -/

abbrev Word := Int
abbrev Stack := List Int
abbrev Memory := List Int

structure Solution where
  contract : List Nat          -- 32 bytes
  predicate : List Nat         -- 32 bytes
  data : List (List Int)       -- predicate_data
  mutations : List (List Int × List Int)
deriving Repr, DecidableEq

inductive Dir | up (limit : Int) | down
deriving Repr, DecidableEq

structure Slot where
  counter : Int
  limit : Dir
  repeatIndex : Nat
deriving Repr, DecidableEq

structure Vm where
  pc : Nat := 0
  stack : Stack := []
  memory : Memory := []
  parentMemory : List Memory := []
  halt : Bool := false
  rep : List Slot := []
deriving Repr, DecidableEq

/-- `StateRead::key_range(contract, key, num_values)`; an error is an opaque code -/
abbrev StateView := List Nat → List Int → Nat → Except Int (List (List Int))

inductive SecpOut | badSig | unrecoverable | key (bytes33 : List Nat)
deriving Repr, DecidableEq

structure Env where
  /-- `OpAccess::op_access` -/
  ops : Nat → Option Op
  /-- `OpGasCost` (values are `u64`) -/
  cost : Op → Nat
  /-- `GasLimit::total` -/
  limit : Nat
  solutions : List Solution
  index : Nat
  pre : StateView
  post : StateView
  sha256 : List Nat → List Nat
  /-- ed25519: `none` = the 32 bytes are not a valid verifying key -/
  edVerify : (pk sig msg : List Nat) → Option Bool
  secpRecover : (hash sig : List Nat) → (id : Nat) → SecpOut
  /-- model of physical memory: spawning more compute children than this aborts the process -/
  maxBreadth : Nat

/-! ### stack (`vm/src/stack.rs`) -/

namespace Stack

def sizeLimit : Nat := Consts.stackSizeLimit

def push (s : Stack) (w : Int) : Res Err Stack :=
  if s.length ≥ sizeLimit then .err .stackOverflow else .ok (s ++ [w])

/-- `extend`: pushes one by one, so it fails iff some push would exceed the limit -/
def extend (s : Stack) (ws : List Int) : Res Err Stack :=
  if ws = [] ∨ s.length + ws.length ≤ sizeLimit then .ok (s ++ ws) else .err .stackOverflow

def pop (s : Stack) : Res Err (Stack × Int) :=
  match s.getLast? with
  | none => .err .stackEmpty
  | some w => .ok (s.dropLast, w)

/-- `pop2`: `[w0, w1]` with `w1` the top -/
def pop2 (s : Stack) : Res Err (Stack × Int × Int) := do
  let (s, w1) ← pop s
  let (s, w0) ← pop s
  pure (s, w0, w1)

def pop3 (s : Stack) : Res Err (Stack × Int × Int × Int) := do
  let (s, w2) ← pop s
  let (s, w0, w1) ← pop2 s
  pure (s, w0, w1, w2)

def pop4 (s : Stack) : Res Err (Stack × List Int) := do
  let (s, w3) ← pop s
  let (s, w0, w1, w2) ← pop3 s
  pure (s, [w0, w1, w2, w3])

def pop8 (s : Stack) : Res Err (Stack × List Int) := do
  let (s, hi) ← pop4 s
  let (s, lo) ← pop4 s
  pure (s, lo ++ hi)

/-- `usize::try_from(w).map_err(|_| e)` -/
def usizeOr (w : Int) (e : Err) : Res Err Nat :=
  if 0 ≤ w then .ok w.toNat else .err e

/-- `slice_split_len(slice, len)`: `(rest, last len words)` -/
def splitLen (s : List Int) (len : Nat) : Res Err (List Int × List Int) :=
  if len ≤ s.length then .ok (s.take (s.length - len), s.drop (s.length - len))
  else .err .lenWordsOutOfBounds

/-- `slice_split_len_words`: the top word is a length, followed (below) by that many words -/
def splitLenWords (s : List Int) : Res Err (List Int × List Int) :=
  match s.getLast? with
  | none => .err .lenWordsMissingLength
  | some lenW =>
    if lenW < 0 then .err .lenWordsInvalidLength
    else splitLen s.dropLast lenW.toNat

def dupFrom (s : Stack) : Res Err Stack := do
  let (s, revIxW) ← pop s
  let revIx ← usizeOr revIxW .stackIndexOutOfBounds
  if s.length < revIx + 1 then .err .stackIndexOutOfBounds else
  match s[s.length - revIx - 1]? with
  | none => .err .stackIndexOutOfBounds
  | some w => push s w

def swapIndex (s : Stack) : Res Err Stack := do
  let (s, revIxW) ← pop s
  if s.length = 0 then .err .stackIndexOutOfBounds else
  let topIx := s.length - 1
  let revIx ← usizeOr revIxW .stackIndexOutOfBounds
  if topIx < revIx then .err .stackIndexOutOfBounds else
  let ix := topIx - revIx
  match s[ix]?, s[topIx]? with
  | some a, some b => .ok ((s.set ix b).set topIx a)
  | _, _ => .panic "swap index out of bounds"

def select (s : Stack) : Res Err Stack := do
  let (s, condW) ← pop s
  let (s, w0, w1) ← pop2 s
  match boolOfWord? condW with
  | none => .err .stackInvalidCondition
  | some c => push s (if c then w1 else w0)

/-- `Vec::copy_within(src..src+len, dst)`; panics when out of range -/
def copyWithin (s : Stack) (src len dst : Nat) : Res Err Stack :=
  if src + len ≤ s.length ∧ dst + len ≤ s.length then
    .ok (s.take dst ++ (s.drop src).take len ++ s.drop (dst + len))
  else .panic "copy_within out of bounds"

def selectRange (s : Stack) : Res Err Stack := do
  let (s, condW) ← pop s
  match boolOfWord? condW with
  | none => .err .stackInvalidCondition
  | some cond =>
    let (s, lenW) ← pop s
    let len ← usizeOr lenW .stackIndexOutOfBounds
    if len = 0 then pure s else
    -- `len.checked_mul(2)` and `self.len().checked_sub(..)`
    if 2 * len > usizeMax then .err .stackIndexOutOfBounds else
    if s.length < 2 * len then .err .stackIndexOutOfBounds else
    let arrB := s.length - len
    let s ← (if cond then copyWithin s arrB len (arrB - len) else .ok s)
    pure (s.take arrB)

def reserveZeroed (s : Stack) : Res Err Stack := do
  let (s, lenW) ← pop s
  let len ← usizeOr lenW .stackIndexOutOfBounds
  let start := s.length
  -- `saturating_add` then the limit check
  let newLen := if start + len > usizeMax then usizeMax else start + len
  if newLen > sizeLimit then .err .stackIndexOutOfBounds else
  let s := s ++ List.replicate (newLen - start) 0
  push s (start : Int)

def load (s : Stack) : Res Err Stack := do
  let (s, ixW) ← pop s
  let ix ← usizeOr ixW .stackIndexOutOfBounds
  match s[ix]? with
  | none => .err .stackIndexOutOfBounds
  | some w => push s w

def store (s : Stack) : Res Err Stack := do
  let (s, w, ixW) ← pop2 s
  let ix ← usizeOr ixW .stackIndexOutOfBounds
  if ix < s.length then .ok (s.set ix w) else .err .stackIndexOutOfBounds

/-- `pop_len_words(|_| Ok(()))`: the `Drop` op -/
def dropLenWords (s : Stack) : Res Err Stack := do
  let (rest, _) ← splitLenWords s
  pure rest

end Stack

/-! ### memory (`vm/src/memory.rs`) -/

namespace Memory

def sizeLimit : Nat := Consts.memorySizeLimit

def alloc (m : Memory) (size : Int) : Res Err Memory :=
  if size < 0 then .err .memoryOverflow else
  let newSize := m.length + size.toNat
  if newSize > usizeMax then .err .memoryOverflow else
  if newSize > sizeLimit then .err .memoryOverflow else
  .ok (m ++ List.replicate size.toNat 0)

def store (m : Memory) (addr w : Int) : Res Err Memory :=
  if addr < 0 then .err .memoryIndexOutOfBounds else
  if addr.toNat < m.length then .ok (m.set addr.toNat w) else .err .memoryIndexOutOfBounds

def load (m : Memory) (addr : Int) : Res Err Int :=
  if addr < 0 then .err .memoryIndexOutOfBounds else
  match m[addr.toNat]? with
  | some w => .ok w
  | none => .err .memoryIndexOutOfBounds

/-- `self.0[address..end].copy_from_slice(values)`; panics if the slice is out of range -/
def copyFromSlice (m : Memory) (addr : Nat) (vs : List Int) : Res Err Memory :=
  if addr + vs.length ≤ m.length then .ok (m.take addr ++ vs ++ m.drop (addr + vs.length))
  else .panic "slice index out of range"

def storeRange (m : Memory) (addr : Int) (vs : List Int) : Res Err Memory :=
  if addr < 0 then .err .memoryIndexOutOfBounds else
  let end_ := addr.toNat + vs.length
  if end_ > usizeMax then .err .memoryOverflow else
  if end_ > m.length then .err .memoryIndexOutOfBounds else
  copyFromSlice m addr.toNat vs

def loadRange (m : Memory) (addr size : Int) : Res Err (List Int) :=
  if addr < 0 then .err .memoryIndexOutOfBounds else
  if size < 0 then .err .memoryOverflow else
  let end_ := addr.toNat + size.toNat
  if end_ > usizeMax then .err .memoryOverflow else
  if end_ > m.length then .err .memoryIndexOutOfBounds else
  .ok ((m.drop addr.toNat).take size.toNat)

def free (m : Memory) (newLen : Int) : Res Err Memory :=
  if newLen < 0 then .err .memoryIndexOutOfBounds else
  if newLen.toNat > m.length then .err .memoryIndexOutOfBounds else
  .ok (m.take newLen.toNat)

end Memory

/-! ### ALU (`vm/src/alu.rs`) and predicates (`sync.rs::step_op_pred`, `pred.rs`, `sets.rs`) -/

namespace Alu

def add (a b : Int) : Res Err Int := if InI64 (a + b) then .ok (a + b) else .err .aluOverflow
def sub (a b : Int) : Res Err Int := if InI64 (a - b) then .ok (a - b) else .err .aluUnderflow
def mul (a b : Int) : Res Err Int := if InI64 (a * b) then .ok (a * b) else .err .aluOverflow
/-- `checked_div`: `None` for a zero divisor and for `MIN / -1` -/
def div (a b : Int) : Res Err Int :=
  if b = 0 ∨ (a = i64Min ∧ b = -1) then .err .aluDivideByZero else .ok (Int.tdiv a b)
/-- `checked_rem`: `None` for a zero divisor and for `MIN % -1` -/
def mod (a b : Int) : Res Err Int :=
  if b = 0 ∨ (a = i64Min ∧ b = -1) then .err .aluDivideByZero else .ok (Int.tmod a b)

def shiftOk (b : Int) : Bool := 0 ≤ b && b < 64

def toU64 (a : Int) : Nat := (a % 18446744073709551616).toNat

def shl (a b : Int) : Res Err Int :=
  if shiftOk b then .ok (wrapI64 (a * (2 ^ b.toNat : Int))) else .err .aluOverflow
/-- logical shift right: `((a as u64) >> b) as i64` -/
def shr (a b : Int) : Res Err Int :=
  if shiftOk b then .ok (wrapI64 ((toU64 a / 2 ^ b.toNat : Nat) : Int)) else .err .aluOverflow
/-- arithmetic shift right: `a >> b` (floor division) -/
def shrI (a b : Int) : Res Err Int :=
  if shiftOk b then .ok (a / (2 ^ b.toNat : Int)) else .err .aluOverflow

def bitAnd (a b : Int) : Int := wrapI64 ((toU64 a &&& toU64 b : Nat) : Int)
def bitOr (a b : Int) : Int := wrapI64 ((toU64 a ||| toU64 b : Nat) : Int)

end Alu

def boolWord (b : Bool) : Int := if b then 1 else 0

/-- `pop2_push1` -/
def pop2push1 (s : Stack) (f : Int → Int → Res Err Int) : Res Err Stack := do
  let (s, a, b) ← Stack.pop2 s
  let x ← f a b
  Stack.push s x

def pop1push1 (s : Stack) (f : Int → Res Err Int) : Res Err Stack := do
  let (s, a) ← Stack.pop s
  let x ← f a
  Stack.push s x

namespace Pred

def eqRange (s : Stack) : Res Err Stack := do
  let (s, len) ← Stack.pop s
  if len = 0 then Stack.push s 1 else
  -- `len.checked_mul(2)`
  if ¬ InI64 (len * 2) then .err .stackIndexOutOfBounds else
  let double := len * 2
  let lenN ← Stack.usizeOr len .stackIndexOutOfBounds
  let s ← Stack.push s double
  let (rest, words) ← Stack.splitLenWords s
  -- `words.split_at(len)` panics when `len > words.len()`
  if lenN > words.length then .panic "split_at out of bounds" else
  let eq := decide (words.take lenN = words.drop lenN)
  Stack.push rest (boolWord eq)

/-- `sets::decode_set` collected: items are read from the end; each is `[elems…, len]` -/
def decodeSet (all : List Int) : (fuel : Nat) → List Int → Res Err (List (List Int))
  | 0, _ => .ok []
  | fuel+1, ws =>
    match ws.getLast? with
    | none => .ok []
    | some len =>
      let rest := ws.dropLast
      if len < 0 then .err .stackOverflow else
      if rest.length < len.toNat then .err .decodeSet else
      let ix := rest.length - len.toNat
      (decodeSet all fuel (rest.take ix)).bind fun items => .ok (rest.drop ix :: items)

def sameSet (a b : List (List Int)) : Bool := a.all (b.contains ·) && b.all (a.contains ·)

def eqSet (s : Stack) : Res Err Stack := do
  let (rest, rhs) ← Stack.splitLenWords s
  let (rest, lhs) ← Stack.splitLenWords rest
  let l ← decodeSet lhs (lhs.length + 1) lhs
  let r ← decodeSet rhs (rhs.length + 1) rhs
  Stack.push rest (boolWord (sameSet l r))

end Pred

/-! ### repeat (`vm/src/repeat.rs`) -/

namespace Repeat

def repeatTo (r : List Slot) (loc : Nat) (limit : Int) : Res Err (List Slot) :=
  if r.length ≥ Stack.sizeLimit then .err .repeatOverflow
  else .ok (r ++ [{ counter := 0, limit := .up limit, repeatIndex := loc }])

def repeatFrom (r : List Slot) (loc : Nat) (amount : Int) : Res Err (List Slot) :=
  if r.length ≥ Stack.sizeLimit then .err .repeatOverflow
  else .ok (r ++ [{ counter := amount, limit := .down, repeatIndex := loc }])

/-- the `Repeat` op -/
def start (pc : Nat) (s : Stack) (r : List Slot) : Res Err (Stack × List Slot) := do
  let (s, num, countUp) ← Stack.pop2 s
  match boolOfWord? countUp with
  | none => .err .repeatInvalidCountDirection
  | some up =>
    if pc + 1 > usizeMax then .err .stackIndexOutOfBounds else
    let r ← (if up then repeatTo r (pc + 1) num else repeatFrom r (pc + 1) num)
    pure (s, r)

/-- `limit.saturating_sub(1)` on `i64` -/
def satSub1 (l : Int) : Int := if l - 1 < i64Min then i64Min else l - 1

/-- `Repeat::repeat` (the `RepeatEnd` op): new repeat stack and the pc to jump back to -/
def stepEnd (r : List Slot) : Res Err (List Slot × Option Nat) :=
  match r.getLast? with
  | none => .err .repeatEmpty
  | some slot =>
    match slot.limit with
    | .up limit =>
      if slot.counter ≥ satSub1 limit then .ok (r.dropLast, none)
      else if ¬ InI64 (slot.counter + 1) then .panic "attempt to add with overflow"
      else .ok (r.dropLast ++ [{ slot with counter := slot.counter + 1 }], some slot.repeatIndex)
    | .down =>
      if slot.counter ≤ 1 then .ok (r.dropLast, none)
      else if ¬ InI64 (slot.counter - 1) then .panic "attempt to subtract with overflow"
      else .ok (r.dropLast ++ [{ slot with counter := slot.counter - 1 }], some slot.repeatIndex)

def counter (r : List Slot) : Res Err Int :=
  match r.getLast? with
  | none => .err .repeatNoCounter
  | some s => .ok s.counter

end Repeat

/-! ### control flow (`vm/src/total_control_flow.rs`) -/

inductive Flow
  | next | pc (n : Nat) | halt | computeEnd | computeResult (pc : Nat) (gas : Nat) (halt : Bool)
deriving Repr, DecidableEq

namespace Tcf

def jumpIf (s : Stack) (pc : Nat) : Res Err (Stack × Flow) := do
  let (s, dist, condW) ← Stack.pop2 s
  match boolOfWord? condW with
  | none => .err .tcfInvalidJumpIfCondition
  | some false => pure (s, .next)
  | some true =>
    let neg := dist < 0
    let d := dist.natAbs            -- `unsigned_abs`, always fits a 64-bit `usize`
    if d = 0 then .err .tcfJumpedToSelf else
    if neg then
      if pc < d then .err .pcOverflow else pure (s, .pc (pc - d))
    else
      if pc + d > usizeMax then .err .pcOverflow else pure (s, .pc (pc + d))

def haltIf (s : Stack) : Res Err (Stack × Flow) := do
  let (s, condW) ← Stack.pop s
  match boolOfWord? condW with
  | none => .err .tcfInvalidHaltIfCondition
  | some c => pure (s, if c then .halt else .next)

def panicIf (s : Stack) : Res Err Stack := do
  let (s, condW) ← Stack.pop s
  match boolOfWord? condW with
  | none => .err .tcfInvalidPanicIfCondition
  | some c => if c then .err .tcfPanic else pure s

end Tcf

/-! ### access (`vm/src/access.rs`) -/

def word4OfBytes32 (bs : List Nat) : List Int := wordsOfBytes bs
def bytes32OfWord4 (ws : List Int) : List Nat := bytesOfWords ws

/-- `Access::this_solution` (an `expect`) -/
def thisSolution (env : Env) : Res Err Solution :=
  match env.solutions[env.index]? with
  | some s => .ok s
  | none => .panic "solution index out of range of solutions slice"

namespace Access

def predicateData (data : List (List Int)) (s : Stack) : Res Err Stack := do
  let (s, len) ← (Stack.pop s).mapErr fun _ => .accessMissingPredDataLen
  let (s, valueIx) ← (Stack.pop s).mapErr fun _ => .accessMissingPredDataValueIx
  let (s, slotIxW) ← (Stack.pop s).mapErr fun _ => .accessMissingPredDataSlotIx
  let slotIx ← Stack.usizeOr slotIxW .accessSlotIxOutOfBounds
  -- `range_from_start_len`
  if valueIx < 0 ∨ len < 0 then .err .accessInvalidAccessRange else
  let start := valueIx.toNat
  let end_ := start + len.toNat
  if end_ > usizeMax then .err .accessInvalidAccessRange else
  match data[slotIx]? with
  | none => .err .accessSlotIxOutOfBounds
  | some slot =>
    if end_ > slot.length then .err .accessValueRangeOutOfBounds else
    Stack.extend s ((slot.drop start).take len.toNat)

def predicateDataLen (data : List (List Int)) (s : Stack) : Res Err Stack := do
  let (s, slotIxW) ← (Stack.pop s).mapErr fun _ => .accessMissingPredDataSlotIx
  let slotIx ← Stack.usizeOr slotIxW .accessSlotIxOutOfBounds
  match data[slotIx]? with
  | none => .err .accessSlotIxOutOfBounds
  | some slot =>
    if (slot.length : Int) > i64Max then .err .accessValueTooLarge else
    -- `.expect("Can't fail because 1 is popped and 1 is pushed")`
    match Stack.push s slot.length with
    | .ok s => .ok s
    | _ => .panic "Can't fail because 1 is popped and 1 is pushed"

def predicateDataSlots (data : List (List Int)) (s : Stack) : Res Err Stack :=
  if (data.length : Int) > i64Max then .err .accessSlotsLengthTooLarge else Stack.push s data.length

/-- pre-image hashed per solution by `init_predicate_exists` -/
def predExistsPreimage (sol : Solution) : List Nat :=
  bytesOfWords (sol.data.flatMap (fun slot => (slot.length : Int) :: slot) ++
    word4OfBytes32 sol.contract ++ word4OfBytes32 sol.predicate)

def predicateExists (env : Env) (s : Stack) : Res Err Stack := do
  let (s, ws) ← Stack.pop4 s
  let hash := bytes32OfWord4 ws
  let found := env.solutions.any fun sol => env.sha256 (predExistsPreimage sol) == hash
  Stack.push s (boolWord found)

end Access

/-! ### crypto (`vm/src/crypto.rs`) -/

namespace Crypto

/-- `pop_bytes`: a byte length, then `ceil(len/8)` words, big-endian, truncated to `len` -/
def popBytes (s : Stack) : Res Err (Stack × List Nat) := do
  let (s, lenW) ← Stack.pop s
  let len ← Stack.usizeOr lenW .stackOverflow
  let numWords := (len + 7) / 8
  let (rest, words) ← Stack.splitLen s numWords
  pure (rest, (bytesOfWords words).take len)

def sha256 (env : Env) (s : Stack) : Res Err Stack := do
  let (s, data) ← popBytes s
  Stack.extend s (word4OfBytes32 (env.sha256 data))

def verifyEd25519 (env : Env) (s : Stack) : Res Err Stack := do
  let (s, pk) ← Stack.pop4 s
  let (s, sig) ← Stack.pop8 s
  let (s, data) ← popBytes s
  match env.edVerify (bytesOfWords pk) (bytesOfWords sig) data with
  | none => .err .cryptoEd25519
  | some v => Stack.push s (boolWord v)

/-- the 5-word encoding of a 33-byte public key (`sign::encode::public_key` and the op) -/
def encodePublicKey (bytes33 : List Nat) : List Int :=
  word4OfBytes32 (bytes33.take 32) ++ [wordOfBytes [0, 0, 0, 0, 0, 0, 0, bytes33.getD 32 0]]

def recoverSecp256k1 (env : Env) (s : Stack) : Res Err Stack := do
  let (s, bit) ← Stack.pop s
  let (s, sig) ← Stack.pop8 s
  let (s, hash) ← Stack.pop4 s
  -- `i32::try_from`
  if bit < -2147483648 ∨ bit > 2147483647 then .err .cryptoSecp256k1RecoveryId else
  -- `RecoveryId::try_from(i32)`
  if bit < 0 ∨ bit > 3 then .err .cryptoSecp256k1 else
  match env.secpRecover (bytesOfWords hash) (bytesOfWords sig) bit.toNat with
  | .badSig => .err .cryptoSecp256k1
  | .unrecoverable => Stack.extend s [0, 0, 0, 0, 0]
  | .key k => do
    let s ← Stack.extend s (word4OfBytes32 (k.take 32))
    Stack.push s (wordOfBytes [0, 0, 0, 0, 0, 0, 0, k.getD 32 0])

end Crypto

/-! ### state reads (`vm/src/state_read.rs`) -/

namespace StateRead

def popMemoryAddress (s : Stack) : Res Err (Stack × Nat) := do
  let (s, w) ← Stack.pop s
  let a ← Stack.usizeOr w .memoryIndexOutOfBounds
  pure (s, a)

def popKeyRangeArgs (s : Stack) : Res Err (Stack × List Int × Nat) := do
  let (s, numW) ← Stack.pop s
  let num ← Stack.usizeOr numW .stackIndexOutOfBounds
  let (rest, key) ← Stack.splitLenWords s
  pure (rest, key, num)

/-- the loop of `write_values_to_memory` -/
def writeLoop (mem : Memory) : (memAddr valueAddr : Int) → List (List Int) → Res Err Memory
  | _, _, [] => .ok mem
  | memAddr, valueAddr, v :: vs => do
    if (v.length : Int) > i64Max then .err .memoryOverflow else
    let valueLen : Int := v.length
    let mem ← Memory.storeRange mem memAddr [valueAddr, valueLen]
    let mem ← Memory.storeRange mem valueAddr v
    -- unchecked `value_addr += value_len; mem_addr += 2`
    if ¬ InI64 (valueAddr + valueLen) then .panic "attempt to add with overflow" else
    if ¬ InI64 (memAddr + 2) then .panic "attempt to add with overflow" else
    writeLoop mem (memAddr + 2) (valueAddr + valueLen) vs

def writeValuesToMemory (memAddr : Nat) (values : List (List Int)) (mem : Memory) : Res Err Memory :=
  if (values.length : Int) > i64Max then .err .memoryOverflow else
  let pairsLen : Int := (values.length : Int) * 2
  if ¬ InI64 pairsLen then .err .memoryOverflow else
  if (memAddr : Int) > i64Max then .err .memoryIndexOutOfBounds else
  if ¬ InI64 ((memAddr : Int) + pairsLen) then .err .memoryOverflow else
  writeLoop mem memAddr ((memAddr : Int) + pairsLen) values

def viewRead (view : StateView) (contract : List Nat) (key : List Int) (n : Nat) : Res Err (List (List Int)) :=
  match view contract key n with
  | .ok vs => .ok vs
  | .error c => .err (.stateRead c)

def keyRange (view : StateView) (contract : List Nat) (s : Stack) (mem : Memory) : Res Err (Stack × Memory) := do
  let (s, memAddr) ← popMemoryAddress s
  let (s, key, num) ← popKeyRangeArgs s
  let values ← viewRead view contract key num
  let mem ← writeValuesToMemory memAddr values mem
  pure (s, mem)

def keyRangeExt (view : StateView) (s : Stack) (mem : Memory) : Res Err (Stack × Memory) := do
  let (s, memAddr) ← popMemoryAddress s
  let (s, key, num) ← popKeyRangeArgs s
  let (s, addr) ← Stack.pop4 s
  let values ← viewRead view (bytes32OfWord4 addr) key num
  let mem ← writeValuesToMemory memAddr values mem
  pure (s, mem)

end StateRead

/-! ### compute (`vm/src/compute.rs`) -/

/-- how a child VM is executed: `(env, initial child vm) ↦ (gas, final child vm)` -/
abbrev ChildExec := Env → Vm → Res (Nat × Err) (Nat × Vm)

/-- sum of child gas with `checked_add` (the fix for D4): `none` on `u64` overflow -/
def sumGas : List Nat → Option Nat
  | [] => some 0
  | g :: gs => match sumGas gs with
    | some t => if g + t > u64Max then none else some (g + t)
    | none => none

/-- run the children `0..n` in index order; the first failing child (lowest index) decides -/
def runChildren (child : ChildExec) (env : Env) (mk : Nat → Res Err Vm) : List Nat → Res Err (List (Nat × Vm))
  | [] => .ok []
  | i :: is =>
    match mk i with
    | .err _ => .err .computeExec
    | .panic m => .panic m
    | .abort m => .abort m
    | .ok vm =>
      match child env vm with
      | .err _ => .err .computeExec
      | .panic m => .panic m
      | .abort m => .abort m
      | .ok r =>
        match runChildren child env mk is with
        | .ok rs => .ok (r :: rs)
        | .err e => .err e
        | .panic m => .panic m
        | .abort m => .abort m

/-- the `for_each` of `compute_effects`: `store_range` per child at a moving pointer -/
def storeChildren : Memory → Int → Nat → Bool → List (Nat × Vm) → Res Err (Memory × Nat × Bool)
  | m, _, pc, halt, [] => .ok (m, pc, halt)
  | m, ptr, pc, halt, r :: rs =>
    match Memory.storeRange m ptr r.2.memory with
    | .ok m' =>
      -- unchecked `memory_pointer += mem.len()` on `Word`s
      if ¬ InI64 (ptr + (r.2.memory.length : Int)) then .panic "attempt to add with overflow" else
      storeChildren m' (ptr + (r.2.memory.length : Int)) (max pc r.2.pc) (halt || r.2.halt) rs
    | .err _ => .panic "for now"
    | .panic msg => .panic msg
    | .abort msg => .abort msg

/-- `compute_effects`: one `alloc` for all child memories, then `store_range` per child -/
def computeEffects (mem : Memory) (pc : Nat) (halt : Bool) (rs : List (Nat × Vm)) : Res Err (Memory × Nat × Bool) :=
  let toAlloc : Nat := (rs.map fun r => r.2.memory.length).sum
  -- unchecked `memory_to_alloc += mem.len()` on `Word`s
  if (toAlloc : Int) > i64Max then .panic "attempt to add with overflow" else
  -- `.expect("memory has to have length")`
  if (mem.length : Int) > i64Max then .panic "memory has to have length" else
  (Memory.alloc mem (toAlloc : Int)).bind fun mem' =>
    storeChildren mem' (mem.length : Int) pc halt rs

/-- the VM of compute child `i`: the parent's stack (minus the breadth) plus the index, empty
memory, the parent's memory appended to the parent-memory list, the parent's repeat state, `pc + 1` -/
def childVm (vm : Vm) (stack : Stack) (i : Nat) : Res Err Vm :=
  (Stack.push stack (i : Int)).bind fun st =>
    if vm.pc + 1 > usizeMax then .panic "attempt to add with overflow" else
    .ok ({ pc := vm.pc + 1, stack := st, memory := [], parentMemory := vm.parentMemory ++ [vm.memory],
           halt := false, rep := vm.rep } : Vm)

def compute (child : ChildExec) (env : Env) (vm : Vm) : Res Err (Vm × Flow) := do
  let (stack, breadth) ← (Stack.pop vm.stack).mapErr fun _ => .computeStackEmpty
  if breadth < 1 then .err .computeInvalidBreadth else
  if ¬ (vm.parentMemory.length < Consts.maxComputeDepth) then .err .computeDepthReached else
  if breadth.toNat > env.maxBreadth then .abort "compute breadth exhausts memory" else
  let rs ← runChildren child env (childVm vm stack) (List.range breadth.toNat)
  match sumGas (rs.map (·.1)) with
  | none => .err .outOfGas
  | some total =>
    let (mem, pc, halt) ← computeEffects vm.memory vm.pc vm.halt rs
    pure ({ vm with stack := stack, memory := mem }, .computeResult pc total halt)

/-! ### op dispatch (`vm/src/sync.rs::step_op`) -/

def stk (vm : Vm) (r : Res Err Stack) : Res Err (Vm × Flow) :=
  r.bind fun s => .ok ({ vm with stack := s }, .next)

def stepOp (child : ChildExec) (env : Env) (vm : Vm) (op : Op) : Res Err (Vm × Flow) :=
  match op with
  -- Stack
  | .stackPush w => stk vm (Stack.push vm.stack w)
  | .stackPop => stk vm ((Stack.pop vm.stack).bind fun (s, _) => .ok s)
  | .stackDup => stk vm ((Stack.pop vm.stack).bind fun (s, w) => Stack.extend s [w, w])
  | .stackDupFrom => stk vm (Stack.dupFrom vm.stack)
  | .stackSwap => stk vm ((Stack.pop2 vm.stack).bind fun (s, a, b) => Stack.extend s [b, a])
  | .stackSwapIndex => stk vm (Stack.swapIndex vm.stack)
  | .stackSelect => stk vm (Stack.select vm.stack)
  | .stackSelectRange => stk vm (Stack.selectRange vm.stack)
  | .stackRepeat =>
    (Repeat.start vm.pc vm.stack vm.rep).bind fun (s, r) => .ok ({ vm with stack := s, rep := r }, .next)
  | .stackRepeatEnd =>
    (Repeat.stepEnd vm.rep).bind fun (r, j) =>
      .ok ({ vm with rep := r }, match j with | some p => .pc p | none => .next)
  | .stackReserve => stk vm (Stack.reserveZeroed vm.stack)
  | .stackLoad => stk vm (Stack.load vm.stack)
  | .stackStore => stk vm (Stack.store vm.stack)
  | .stackDrop => stk vm (Stack.dropLenWords vm.stack)
  -- Pred
  | .predEq => stk vm (pop2push1 vm.stack fun a b => .ok (boolWord (a == b)))
  | .predEqRange => stk vm (Pred.eqRange vm.stack)
  | .predGt => stk vm (pop2push1 vm.stack fun a b => .ok (boolWord (decide (a > b))))
  | .predLt => stk vm (pop2push1 vm.stack fun a b => .ok (boolWord (decide (a < b))))
  | .predGte => stk vm (pop2push1 vm.stack fun a b => .ok (boolWord (decide (a ≥ b))))
  | .predLte => stk vm (pop2push1 vm.stack fun a b => .ok (boolWord (decide (a ≤ b))))
  | .predAnd => stk vm (pop2push1 vm.stack fun a b => .ok (boolWord (a != 0 && b != 0)))
  | .predOr => stk vm (pop2push1 vm.stack fun a b => .ok (boolWord (a != 0 || b != 0)))
  | .predNot => stk vm (pop1push1 vm.stack fun a => .ok (boolWord (a == 0)))
  | .predEqSet => stk vm (Pred.eqSet vm.stack)
  | .predBitAnd => stk vm (pop2push1 vm.stack fun a b => .ok (Alu.bitAnd a b))
  | .predBitOr => stk vm (pop2push1 vm.stack fun a b => .ok (Alu.bitOr a b))
  -- Alu
  | .aluAdd => stk vm (pop2push1 vm.stack Alu.add)
  | .aluSub => stk vm (pop2push1 vm.stack Alu.sub)
  | .aluMul => stk vm (pop2push1 vm.stack Alu.mul)
  | .aluDiv => stk vm (pop2push1 vm.stack Alu.div)
  | .aluMod => stk vm (pop2push1 vm.stack Alu.mod)
  | .aluShl => stk vm (pop2push1 vm.stack Alu.shl)
  | .aluShr => stk vm (pop2push1 vm.stack Alu.shr)
  | .aluShrI => stk vm (pop2push1 vm.stack Alu.shrI)
  -- Access
  | .accessThisAddress =>
    (thisSolution env).bind fun sol => stk vm (Stack.extend vm.stack (word4OfBytes32 sol.predicate))
  | .accessThisContractAddress =>
    (thisSolution env).bind fun sol => stk vm (Stack.extend vm.stack (word4OfBytes32 sol.contract))
  | .accessRepeatCounter => stk vm ((Repeat.counter vm.rep).bind fun c => Stack.push vm.stack c)
  | .accessPredicateData => (thisSolution env).bind fun sol => stk vm (Access.predicateData sol.data vm.stack)
  | .accessPredicateDataLen => (thisSolution env).bind fun sol => stk vm (Access.predicateDataLen sol.data vm.stack)
  | .accessPredicateDataSlots => (thisSolution env).bind fun sol => stk vm (Access.predicateDataSlots sol.data vm.stack)
  | .accessPredicateExists => stk vm (Access.predicateExists env vm.stack)
  -- Crypto
  | .cryptoSha256 => stk vm (Crypto.sha256 env vm.stack)
  | .cryptoVerifyEd25519 => stk vm (Crypto.verifyEd25519 env vm.stack)
  | .cryptoRecoverSecp256k1 => stk vm (Crypto.recoverSecp256k1 env vm.stack)
  -- TotalControlFlow
  | .totalControlFlowHalt => .ok (vm, .halt)
  | .totalControlFlowHaltIf => (Tcf.haltIf vm.stack).bind fun (s, f) => .ok ({ vm with stack := s }, f)
  | .totalControlFlowJumpIf => (Tcf.jumpIf vm.stack vm.pc).bind fun (s, f) => .ok ({ vm with stack := s }, f)
  | .totalControlFlowPanicIf => stk vm (Tcf.panicIf vm.stack)
  -- Memory
  | .memoryAlloc =>
    (Stack.pop vm.stack).bind fun (s, w) =>
      if (vm.memory.length : Int) > i64Max then .err .memoryOverflow else
      (Memory.alloc vm.memory w).bind fun m =>
        (Stack.push s vm.memory.length).bind fun s => .ok ({ vm with stack := s, memory := m }, .next)
  | .memoryFree =>
    (Stack.pop vm.stack).bind fun (s, a) =>
      (Memory.free vm.memory a).bind fun m => .ok ({ vm with stack := s, memory := m }, .next)
  | .memoryLoad => stk vm (pop1push1 vm.stack fun a => Memory.load vm.memory a)
  | .memoryStore =>
    (Stack.pop2 vm.stack).bind fun (s, w, a) =>
      (Memory.store vm.memory a w).bind fun m => .ok ({ vm with stack := s, memory := m }, .next)
  | .memoryLoadRange =>
    stk vm ((Stack.pop2 vm.stack).bind fun (s, a, sz) =>
      (Memory.loadRange vm.memory a sz).bind fun ws => Stack.extend s ws)
  | .memoryStoreRange =>
    (Stack.pop vm.stack).bind fun (s, a) =>
      (Stack.splitLenWords s).bind fun (rest, words) =>
        (Memory.storeRange vm.memory a words).bind fun m => .ok ({ vm with stack := rest, memory := m }, .next)
  -- ParentMemory
  | .parentMemoryLoad =>
    match vm.parentMemory.getLast? with
    | none => .err .parentMemoryNoParent
    | some pm => stk vm (pop1push1 vm.stack fun a => Memory.load pm a)
  | .parentMemoryLoadRange =>
    match vm.parentMemory.getLast? with
    | none => .err .parentMemoryNoParent
    | some pm =>
      stk vm ((Stack.pop2 vm.stack).bind fun (s, a, sz) =>
        (Memory.loadRange pm a sz).bind fun ws => Stack.extend s ws)
  -- StateRead
  | .stateReadKeyRange =>
    (thisSolution env).bind fun sol =>
      (StateRead.keyRange env.pre sol.contract vm.stack vm.memory).bind fun (s, m) =>
        .ok ({ vm with stack := s, memory := m }, .next)
  | .stateReadKeyRangeExtern =>
    (thisSolution env).bind fun _ =>
      (StateRead.keyRangeExt env.pre vm.stack vm.memory).bind fun (s, m) =>
        .ok ({ vm with stack := s, memory := m }, .next)
  | .stateReadPostKeyRange =>
    (thisSolution env).bind fun sol =>
      (StateRead.keyRange env.post sol.contract vm.stack vm.memory).bind fun (s, m) =>
        .ok ({ vm with stack := s, memory := m }, .next)
  | .stateReadPostKeyRangeExtern =>
    (thisSolution env).bind fun _ =>
      (StateRead.keyRangeExt env.post vm.stack vm.memory).bind fun (s, m) =>
        .ok ({ vm with stack := s, memory := m }, .next)
  -- Compute
  | .computeCompute => compute child env vm
  | .computeComputeEnd => .ok (vm, .computeEnd)

/-! ### the exec loop (`vm/src/vm.rs::Vm::exec`) -/

inductive Outcome
  | done (gas : Nat) (vm : Vm)
  | cont (gas : Nat) (vm : Vm)
deriving Repr

/-- one iteration of the `while let Some(op)` loop; errors carry the pc of the failing op -/
def execStep (child : ChildExec) (env : Env) (gas : Nat) (vm : Vm) : Res (Nat × Err) Outcome :=
  match env.ops vm.pc with
  | none => .ok (.done gas vm)
  | some op =>
    let c := env.cost op
    if gas + c > u64Max ∨ gas + c > env.limit then .err (vm.pc, .outOfGas) else
    match stepOp child env vm op with
    | .err e => .err (vm.pc, e)
    | .panic m => .panic m
    | .abort m => .abort m
    | .ok (vm', .next) => .ok (.cont (gas + c) { vm' with pc := vm'.pc + 1 })
    | .ok (vm', .pc n) => .ok (.cont (gas + c) { vm' with pc := n })
    | .ok (vm', .halt) => .ok (.done (gas + c) vm')
    | .ok (vm', .computeEnd) => .ok (.done (gas + c) { vm' with pc := vm'.pc + 1 })
    | .ok (vm', .computeResult pc' g h) =>
      if gas + c + g > u64Max ∨ gas + c + g > env.limit then .err (vm.pc, .outOfGas)
      else
        let vm'' := { vm' with pc := pc', halt := vm'.halt || h }
        if vm''.halt then .ok (.done (gas + c + g) vm'') else .ok (.cont (gas + c + g) vm'')

/-- the loop, with fuel (an `outOfFuel` result means the model gave up, not the VM) -/
def execWith (child : ChildExec) (env : Env) : (fuel : Nat) → (gas : Nat) → Vm → Res (Nat × Err) (Option (Nat × Vm))
  | 0, _, _ => .ok none
  | fuel+1, gas, vm =>
    match execStep child env gas vm with
    | .err e => .err e
    | .panic m => .panic m
    | .abort m => .abort m
    | .ok (.done g vm') => .ok (some (g, vm'))
    | .ok (.cont g vm') => execWith child env fuel g vm'

/-- a child at the maximal depth can never spawn children (the depth check fails first) -/
def noChild : ChildExec := fun _ _ => .panic "unreachable: compute below the maximal depth"

def fuelOut : ChildExec → ChildExec := id

/-- exec of a compute child (depth 1): fuel exhaustion is reported as a panic of the *model* -/
def execChild (fuel : Nat) : ChildExec := fun env vm =>
  match execWith noChild env fuel 0 vm with
  | .ok (some r) => .ok r
  | .ok none => .abort "model out of fuel"
  | .err e => .err e
  | .panic m => .panic m
  | .abort m => .abort m

/-- `Vm::exec` at top level -/
def exec (fuel : Nat) (env : Env) (vm : Vm) : Res (Nat × Err) (Option (Nat × Vm)) :=
  execWith (execChild fuel) env fuel 0 vm

/-- `Vm::eval`: exec, then the top of the stack as a boolean -/
inductive EvalOut | bool (b : Bool) | invalid
deriving Repr, DecidableEq

def eval (fuel : Nat) (env : Env) (vm : Vm) : Res (Nat × Err) (Option EvalOut) :=
  match exec fuel env vm with
  | .ok (some (_, vm')) =>
    .ok (some (match vm'.stack.getLast? with
      | none => .invalid
      | some w => match boolOfWord? w with | some b => .bool b | none => .invalid))
  | .ok none => .ok none
  | .err e => .err e
  | .panic m => .panic m
  | .abort m => .abort m

end Essential
