/-
The hex text layer of `essential_types::convert` (`hex::encode` / `hex::decode` as used by
`hex_str_from_words` / `words_from_hex_str`): lower-case digits on output, both cases accepted on
input, an odd number of digits or a non-digit rejected.  Strings are `List Char`.
-/
import Essential.Model.Basic

namespace Essential

/-- value of one hex digit (`hex::decode`'s `val`): both cases accepted -/
def hexVal (c : Char) : Option Nat :=
  if '0' ≤ c ∧ c ≤ '9' then some (c.toNat - '0'.toNat)
  else if 'a' ≤ c ∧ c ≤ 'f' then some (c.toNat - 'a'.toNat + 10)
  else if 'A' ≤ c ∧ c ≤ 'F' then some (c.toNat - 'A'.toNat + 10)
  else none

/-- `hex::decode`: two digits per byte, high nibble first; odd length or a non-digit is an error -/
def parseHex : List Char → Option (List Nat)
  | [] => some []
  | a :: b :: rest =>
    match hexVal a, hexVal b, parseHex rest with
    | some x, some y, some r => some ((x * 16 + y) :: r)
    | _, _, _ => none
  | _ => none

/-- lower-case digit of a nibble (`hex::encode`'s table `0123456789abcdef`) -/
def hexDigit (n : Nat) : Char := if n < 10 then Char.ofNat (48 + n) else Char.ofNat (87 + n)

/-- the upper-case spelling of the same nibble (accepted on input only) -/
def hexDigitUpper (n : Nat) : Char := if n < 10 then Char.ofNat (48 + n) else Char.ofNat (55 + n)

/-- `hex::encode` -/
def hexChars (bs : List Nat) : List Char := bs.flatMap fun b => [hexDigit (b / 16 % 16), hexDigit (b % 16)]

/-- `hex::encode_upper` (what a user may hand to `words_from_hex_str`) -/
def hexCharsUpper (bs : List Nat) : List Char := bs.flatMap fun b => [hexDigitUpper (b / 16 % 16), hexDigitUpper (b % 16)]

/-- `hex_str_from_words` -/
def hexStrFromWords (ws : List Int) : List Char := hexChars (bytesOfWords ws)

/-- `words_from_hex_str`: decode, then `chunks_exact(8)` (an incomplete last chunk is dropped) -/
def wordsFromHexStr (cs : List Char) : Option (List Int) :=
  match parseHex cs with
  | some bs => some (wordsOfBytes bs)
  | none => none

end Essential
