/-
Explicit completion orders for the three parallel sections of the checker
(`check_set_predicates`: one task per solution; `check_predicate_inner`: one task per node of a
level; `compute`: one task per child).  A task is a pure function of an immutable snapshot;
results *arrive* in a completion order `σ` chosen by the scheduler and are then placed by
index (indexed `collect` / `partition`, `BTreeMap` keyed by node, `Result`-collect).
The rest of the model uses the sequential forms; `Props/C02.lean` proves that every completion
order gives the sequential result.
-/
import Essential.Model.Check

namespace Essential.Sched
open Essential

/-- the results of the tasks `f 0 … f (n-1)` in completion order `σ` (a list of task indices;
a task the scheduler never ran — possible after a short-circuit — simply does not occur) -/
def arrivals {β : Type} (f : Nat → β) (σ : List Nat) : List (Nat × β) := σ.map fun i => (i, f i)

/-- rayon's indexed `collect::<Vec<_>>()` / `partition`: slot `i` receives the result of task `i` -/
def collectVec {β : Type} (n : Nat) (arr : List (Nat × β)) : List β :=
  (List.range n).filterMap fun i => (arr.find? fun e => e.1 == i).map (·.2)

/-- `collect::<BTreeMap<u16, _>>()` followed by iteration: ascending keys below `bound`, each
with the value inserted for it -/
def collectMap {β : Type} (bound : Nat) (arr : List (Nat × β)) : List (Nat × β) :=
  (List.range bound).filterMap fun k => (arr.find? fun e => e.1 == k).map fun e => (k, e.2)

def errOf {β ε : Type} (e : Nat × Except ε β) : Option ε := match e.2 with | .error x => some x | .ok _ => none
def okOf {β ε : Type} (e : Nat × Except ε β) : Option (Nat × β) := match e.2 with | .ok v => some (e.1, v) | .error _ => none

/-- `collect::<Result<Vec<_>, _>>()`: all results in index order if no failure arrived;
otherwise *some* error among those that arrived — which one is up to the scheduler (`pick`) -/
def collectResult {β ε : Type} (n : Nat) (arr : List (Nat × Except ε β)) (pick : List ε → Option ε) : Except (Option ε) (List β) :=
  if arr.filterMap errOf = [] then .ok (collectVec n (arr.filterMap okOf)) else .error (pick (arr.filterMap errOf))

/-! ### the checker with a schedule oracle at every parallel section -/

/-- the scheduler: a completion order for the node tasks of a level and for `n` solution tasks -/
structure Oracle where
  level : List Nat → List Nat
  solutions : Nat → List Nat

/-- every task of a section completes exactly once -/
def Oracle.Fair (o : Oracle) : Prop := (∀ lv, (o.level lv).Perm lv) ∧ ∀ n, (o.solutions n).Perm (List.range n)

/-- `run_levels` with the node tasks of each level completing in the oracle's order and collected into a `BTreeMap` -/
def runLevelsSched (o : Oracle) (bound : Nat) (p : Predicate) (deferred : List Nat) (collectAll : Bool)
    (run : Nat → List (Stack × Memory) → Res String (NodeOut × Nat)) :
    List (List Nat) → LevelAcc → Res Unit (LevelAcc × Bool)
  | [], acc => .ok (acc, false)
  | lv :: rest, acc =>
    let results := collectMap bound (arrivals (fun node => run node (nodeInputs p acc node)) (o.level lv))
    match processResults p deferred collectAll results acc with
    | .ok (acc', true) => .ok (acc', true)
    | .ok (acc', false) => runLevelsSched o bound p deferred collectAll run rest acc'
    | .err e => .err e
    | .panic m => .panic m
    | .abort m => .abort m

def checkPredicateInnerSched (o : Oracle) (ce : CheckEnv) (sols : List Solution) (solIx : Nat) (p : Predicate)
    (collectAll : Bool) (mode : RunMode) (cache : Cache) : Res PredError (Nat × List Memory × Cache) :=
  match firstBadNode p with
  | some i => .err (.invalidNodeEdges i)
  | none =>
    match topoSort p with
    | .error e => .err e
    | .ok levels =>
      finishInner (runLevelsSched o p.nodes.length p (deferredOf ce p) collectAll (nodeRunner ce sols solIx p)
        (modeLevels mode levels (deferredOf ce p)) (emptyAcc cache))

/-- `check_set_predicates` with the solution tasks completing in the oracle's order (indexed `partition`) -/
def checkSetPredicatesSched (o : Oracle) (se : SetEnv) (ce : CheckEnv) (sols : List Solution) (mode : RunMode) (caches : List Cache) :
    Res SetError (Nat × List (Nat × List Memory) × List Cache) :=
  let results := collectVec sols.length (arrivals (fun i =>
    match sols[i]? with
    | some s => (i, checkPredicateInnerSched o ce sols i (se.predicate s.contract s.predicate) se.collectAll mode (caches.getD i []))
    | none => (i, .panic "unreachable")) (o.solutions sols.length))
  match (results.find? fun r => r.2.isPanic || r.2.isAbort).map (·.2) with
  | some (Res.panic m) => .panic m
  | some (Res.abort m) => .abort m
  | _ =>
    let failed := results.filterMap fun r => match r.2 with | .err e => some (r.1, e) | _ => none
    if failed ≠ [] then .err (.failed failed) else
    let oks := results.filterMap fun r => match r.2 with | .ok v => some (r.1, v) | _ => none
    .ok (oks.foldl (fun g r => satAdd g r.2.1) 0, oks.map fun r => (r.1, r.2.2.1), oks.map fun r => r.2.2.2)

def checkAndComputeSched (o : Oracle) (se : SetEnv) (ce : CheckEnv) (sols : List Solution) (mode : RunMode) (caches : List Cache) :
    Res SetError (Nat × List Solution × List Cache) :=
  match checkSetPredicatesSched o se ce sols mode caches with
  | .err e => .err e
  | .panic m => .panic m
  | .abort m => .abort m
  | .ok (gas, outs, caches') =>
    match applyOutputs outs sols (declaredSlots sols) with
    | .ok sols' => .ok (gas, sols', caches')
    | .err (i, e) => .err (.failed [(i, e)])
    | .panic m => .panic m
    | .abort m => .abort m

/-- the two-pass entry point under a schedule (one oracle per pass) -/
def twoPassSched (o₁ o₂ : Oracle) (se : SetEnv) (mkCe : StateView → CheckEnv) (pre : StateView) (sols : List Solution) :
    Res SetError (Nat × List Solution) :=
  let emptyPost : StateView := readOrFallback [] pre
  match checkAndComputeSched o₁ se (mkCe emptyPost) sols .outputs (sols.map fun _ => []) with
  | .err e => .err e
  | .panic m => .panic m
  | .abort m => .abort m
  | .ok (gas1, sols1, caches) =>
    let post := readOrFallback (buildPostState sols1) pre
    match checkAndComputeSched o₂ se (mkCe post) sols1 .checks caches with
    | .err e => .err e
    | .panic m => .panic m
    | .abort m => .abort m
    | .ok (gas2, sols2, _) => .ok (satAdd gas1 gas2, sols2)

/-- the task of compute child `i`: its result, or "failed" -/
def childTask (child : ChildExec) (env : Env) (mk : Nat → Res Err Vm) (i : Nat) : Except Unit (Nat × Vm) :=
  match mk i with
  | .ok vm => (match child env vm with | .ok r => .ok r | _ => .error ())
  | _ => .error ()

/-- the `Result`-collect of the compute children under a completion order: all children in index
order, or the parent's `Compute.Exec` error if any child that ran failed -/
def runChildrenSched (child : ChildExec) (env : Env) (mk : Nat → Res Err Vm) (n : Nat) (σ : List Nat)
    (pick : List Unit → Option Unit) : Res Err (List (Nat × Vm)) :=
  match collectResult n (arrivals (childTask child env mk) σ) pick with
  | .ok rs => .ok rs
  | .error _ => .err .computeExec

end Essential.Sched
