/-
Model of `crates/hash`: the byte strings fed to SHA-256 for every kind of content address,
including the `postcard` serialisation of a `Solution` (the hash function itself is a parameter).
-/
import Essential.Model.Types

namespace Essential

/-! ### postcard primitives -/

/-- LEB128 varint (`postcard` encodes `usize`/`u16`/`u64` this way) -/
def varint (n : Nat) : List Nat :=
  if n < 128 then [n] else (n % 128 + 128) :: varint (n / 128)
termination_by n
decreasing_by omega

/-- zigzag encoding of an `i64` -/
def zigzag (w : Int) : Nat := if 0 ≤ w then 2 * w.toNat else 2 * (-w).toNat - 1

/-- a byte sequence: `&[u8]` / `Vec<u8>` serialised as a seq of `u8` -/
def pcBytes (bs : List Nat) : List Nat := varint bs.length ++ bs

/-- `Vec<Word>` -/
def pcWords (ws : List Int) : List Nat := varint ws.length ++ ws.flatMap fun w => varint (zigzag w)

/-- `Vec<T>` given the encoding of `T` -/
def pcVec {α} (enc : α → List Nat) (l : List α) : List Nat := varint l.length ++ l.flatMap enc

def pcMutation (m : List Int × List Int) : List Nat := pcWords m.1 ++ pcWords m.2

/-- `postcard::to_allocvec(&Solution)` -/
def pcSolution (s : Solution) : List Nat :=
  pcBytes s.contract ++ pcBytes s.predicate ++ pcVec pcWords s.data ++ pcVec pcMutation s.mutations

/-! ### addresses -/

/-- `[u8; 32]`'s derived `Ord`: lexicographic -/
def addrLe (a b : List Nat) : Bool := decide (a ≤ b)

/-- `slice::sort` of content addresses, by its contract: the sorted permutation -/
def sortAddrs (l : List (List Nat)) : List (List Nat) := l.mergeSort addrLe

def zeroAddr : List Nat := List.replicate 32 0

/-- `Address for Predicate`: SHA-256 of the binary encoding, all zeros if it cannot be encoded -/
def predicateAddr (sha : List Nat → List Nat) (p : Predicate) : List Nat :=
  match encodePredicate p with
  | .ok bs => sha bs
  | .error _ => zeroAddr

/-- bytes hashed by `contract_addr::from_predicate_addrs_slice` -/
def contractPreimage (addrs : List (List Nat)) (salt : List Nat) : List Nat := (sortAddrs addrs).flatten ++ salt

def contractAddr (sha : List Nat → List Nat) (preds : List Predicate) (salt : List Nat) : List Nat :=
  sha (contractPreimage (preds.map (predicateAddr sha)) salt)

def solutionAddr (sha : List Nat → List Nat) (s : Solution) : List Nat := sha (pcSolution s)

/-- bytes hashed by `solution_set_addr::from_solution_addrs_slice` -/
def setPreimage (addrs : List (List Nat)) : List Nat := (sortAddrs addrs).flatten

def setAddr (sha : List Nat → List Nat) (sols : List Solution) : List Nat :=
  sha (setPreimage (sols.map (solutionAddr sha)))

end Essential
