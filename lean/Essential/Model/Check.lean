/-
Model of `crates/check/src/solution.rs`: the predicate-graph scheduler (parent map, Kahn
levels, deferral), `run_program`, `check_predicate(_inner)`, `check_set_predicates`,
`check_and_compute_solution_set` and the two-pass entry point with its post-state overlay.

Parallel sections (solutions, nodes of a level, compute children) are modelled by their
index-ordered sequential semantics; schedule independence is C02's subject (`Model/Sched.lean`).
-/
import Essential.Model.Types
import Essential.Model.Asm

namespace Essential
open Spec

/-! ### graph functions -/

inductive PredError
  | invalidNodeEdges (n : Nat)
  | programErrors (l : List (Nat × String))      -- (node, kind)
  | constraintsUnsatisfied (l : List Nat)
  | mutationsDuplicate
  | mutationsDecode
deriving Repr, DecidableEq

/-- `create_parent_map`: the first node whose edge slice is invalid is reported -/
def firstBadNode (p : Predicate) : Option Nat :=
  (List.range p.nodes.length).find? fun i => (p.nodeEdges i).isNone

def edgesOf (p : Predicate) (i : Nat) : List Nat := (p.nodeEdges i).getD []

/-- `parent_map[v]`: the parents of `v` in ascending order, with multiplicity -/
def parentsOf (p : Predicate) (v : Nat) : List Nat :=
  (List.range p.nodes.length).flatMap fun u => ((edgesOf p u).filter (· == v)).map fun _ => u

/-- `in_degrees` as an index-addressed map over `0..n` (`none` = removed) -/
abbrev Deg := List (Option Nat)

def inDegrees (p : Predicate) : Deg := (List.range p.nodes.length).map fun v => some (parentsOf p v).length

def reduceOne (d : Deg) (c : Nat) : Deg :=
  match d[c]? with
  | some (some x) => d.set c (some (x - 1))
  | _ => d

def reduceDeg (d : Deg) (cs : List Nat) : Deg := cs.foldl reduceOne d

/-- `find_nodes_with_no_parents` -/
def levelOf (d : Deg) : List Nat := (List.range d.length).filter fun k => d[k]? == some (some 0)

def removeNode (p : Predicate) (d : Deg) (u : Nat) : Deg := (reduceDeg d (edgesOf p u)).set u none

def remaining (d : Deg) : List Nat := (List.range d.length).filter fun k => (d[k]?.join).isSome

/-- `parallel_topo_sort` (fuel = number of nodes + 1) -/
def topoLevels (p : Predicate) : Nat → Deg → Option (List (List Nat))
  | 0, d => if remaining d = [] then some [] else none
  | f+1, d =>
    if remaining d = [] then some [] else
    let lv := levelOf d
    if lv = [] then none else (topoLevels p f (lv.foldl (removeNode p) d)).map (lv :: ·)

def topoSort (p : Predicate) : Except PredError (List (List Nat)) :=
  match topoLevels p (p.nodes.length + 1) (inDegrees p) with
  | some l => .ok l
  | none => .error (.invalidNodeEdges 0)

/-- drop repeated elements (the code's `HashSet::insert` guard) -/
def dedup : List Nat → List Nat
  | [] => []
  | a :: as => if as.contains a then dedup as else a :: dedup as

/-- one round of propagating deferral to children: every child not yet in the set, once -/
def deferStep (p : Predicate) (d : List Nat) : List Nat :=
  d ++ dedup ((d.flatMap fun u => edgesOf p u).filter fun c => !d.contains c)

/-- `find_deferred` (after the fix): all descendants of the nodes selected by `isDef`
(as a duplicate-free-up-to-membership list; only membership is ever used) -/
def findDeferred (p : Predicate) (isDef : Nat → Bool) : List Nat :=
  let start := (List.range p.nodes.length).filter isDef
  (List.range (p.nodes.length + p.edges.length + 1)).foldl (fun d _ => deferStep p d) start

def shouldCache (p : Predicate) (deferred : List Nat) (node : Nat) : Bool :=
  !deferred.contains node && (edgesOf p node).any fun c => deferred.contains c

def removeDeferred (levels : List (List Nat)) (deferred : List Nat) : List (List Nat) :=
  (levels.map fun lv => lv.filter fun n => !deferred.contains n).filter fun lv => lv != []

def removeNotDeferred (levels : List (List Nat)) (deferred : List Nat) : List (List Nat) :=
  (levels.map fun lv => lv.filter fun n => deferred.contains n).filter fun lv => lv != []

/-! ### running one node -/

inductive NodeOut
  | parent (stack : Stack) (memory : Memory)
  | satisfied (b : Bool)
  | data (memory : Memory)
deriving Repr, DecidableEq

inductive RunMode | outputs | checks
deriving Repr, DecidableEq

/-- everything a node's program execution depends on besides its inputs -/
structure CheckEnv where
  /-- `GetProgram` -/
  program : List Nat → List Nat
  /-- the VM environment for a program, up to the solution set and index (gas costs and limit,
  pre- and post-state views, crypto primitives) -/
  baseEnv : (Nat → Option Op) → Env
  fuel : Nat

/-- the VM environment for `(solution set, solution index, program ops)`: `Access { solutions, index, .. }` -/
def CheckEnv.vmEnv (ce : CheckEnv) (sols : List Solution) (solIx : Nat) (ops : Nat → Option Op) : Env :=
  { ce.baseEnv ops with solutions := sols, index := solIx }

/-- concatenating the parents' stacks and memories (`try_into` enforces the limits after every parent) -/
def concatParents : List (Stack × Memory) → Stack → Memory → Except String (Stack × Memory)
  | [], s, m => .ok (s, m)
  | (ps, pm) :: rest, s, m =>
    if (s ++ ps).length > Stack.sizeLimit then .error "ParentStackConcatOverflow" else
    if (m ++ pm).length > Memory.sizeLimit then .error "ParentMemoryConcatOverflow" else
    concatParents rest (s ++ ps) (m ++ pm)

/-- `run_program`: result and gas, or the kind of `ProgramError`; `Res` so that a VM panic stays visible -/
def runProgram (ce : CheckEnv) (sols : List Solution) (solIx : Nat) (progBytes : List Nat)
    (parents : List (Stack × Memory)) (leaf : Bool) : Res String (NodeOut × Nat) :=
  match decode progBytes with
  | .error _ => .err "OpsFromBytesError"
  | .ok ops =>
    match concatParents parents [] [] with
    | .error e => .err e
    | .ok (stack, memory) =>
      let arr := ops.toArray
      let env := ce.vmEnv sols solIx (fun i => arr[i]?)
      match exec ce.fuel env { stack := stack, memory := memory } with
      | .err (pc, e) => .err s!"Vm:{pc}:{e.toString}"
      | .panic m => .panic m
      | .abort m => .abort m
      | .ok none => .abort "model out of fuel"
      | .ok (some (gas, vm)) =>
        if leaf then
          if vm.stack = [2] then .ok (.data vm.memory, gas)
          else if vm.stack = [1] then .ok (.satisfied true, gas)
          else .ok (.satisfied false, gas)
        else .ok (.parent vm.stack vm.memory, gas)

/-! ### `check_predicate_inner` -/

abbrev Cache := List (Nat × (Stack × Memory))

def Cache.get (c : Cache) (k : Nat) : Option (Stack × Memory) := (c.find? fun e => e.1 == k).map (·.2)
def Cache.insert (c : Cache) (k : Nat) (v : Stack × Memory) : Cache := (k, v) :: c.filter fun e => e.1 != k

def satAdd (a b : Nat) : Nat := if a + b > u64Max then u64Max else a + b

structure LevelAcc where
  cache : Cache
  local_ : Cache
  failed : List (Nat × String)
  gas : Nat
  unsatisfied : List Nat
  dataOut : List Memory

/-- processing the (key-ordered) results of one level; `stop` = return immediately -/
def processResults (p : Predicate) (deferred : List Nat) (collectAll : Bool) :
    List (Nat × Res String (NodeOut × Nat)) → LevelAcc → Res Unit (LevelAcc × Bool)
  | [], acc => .ok (acc, false)
  | (node, r) :: rest, acc =>
    match r with
    | .panic m => .panic m
    | .abort m => .abort m
    | .err e =>
      let acc := { acc with failed := acc.failed ++ [(node, e)] }
      if collectAll then processResults p deferred collectAll rest acc else .ok (acc, true)
    | .ok (.parent s m, g) =>
      let acc := if shouldCache p deferred node then { acc with cache := acc.cache.insert node (s, m) }
                 else { acc with local_ := acc.local_.insert node (s, m) }
      processResults p deferred collectAll rest { acc with gas := satAdd acc.gas g }
    | .ok (.satisfied false, g) =>
      processResults p deferred collectAll rest { acc with unsatisfied := acc.unsatisfied ++ [node], gas := satAdd acc.gas g }
    | .ok (.satisfied true, g) =>
      processResults p deferred collectAll rest { acc with gas := satAdd acc.gas g }
    | .ok (.data m, g) =>
      processResults p deferred collectAll rest { acc with dataOut := acc.dataOut ++ [m], gas := satAdd acc.gas g }

/-- the inputs of a node: its parents' outputs, cross-pass cache first, then the local one;
parents without an output are silently skipped (`filter_map`) -/
def nodeInputs (p : Predicate) (acc : LevelAcc) (node : Nat) : List (Stack × Memory) :=
  (parentsOf p node).filterMap fun u => (acc.cache.get u).orElse fun _ => acc.local_.get u

def runLevels (p : Predicate) (deferred : List Nat) (collectAll : Bool)
    (run : Nat → List (Stack × Memory) → Res String (NodeOut × Nat)) :
    List (List Nat) → LevelAcc → Res Unit (LevelAcc × Bool)
  | [], acc => .ok (acc, false)
  | lv :: rest, acc =>
    -- every node of the level runs on the caches as they were before the level
    let results := lv.map fun node => (node, run node (nodeInputs p acc node))
    match processResults p deferred collectAll results acc with
    | .ok (acc', true) => .ok (acc', true)
    | .ok (acc', false) => runLevels p deferred collectAll run rest acc'
    | .err e => .err e
    | .panic m => .panic m
    | .abort m => .abort m

/-- which nodes contain a post-state read (the `deferred_filter`) -/
def isDeferredNode (ce : CheckEnv) (p : Predicate) (i : Nat) : Bool :=
  match p.nodes[i]? with
  | some n => bytesContainsAny (Consts.effPostKeyRange ||| Consts.effPostKeyRangeExtern) (ce.program n.programAddress)
  | none => false

def deferredOf (ce : CheckEnv) (p : Predicate) : List Nat := findDeferred p (isDeferredNode ce p)

/-- the `run` closure of `check_predicate` -/
def nodeRunner (ce : CheckEnv) (sols : List Solution) (solIx : Nat) (p : Predicate) :
    Nat → List (Stack × Memory) → Res String (NodeOut × Nat) := fun node inputs =>
  match p.nodes[node]? with
  | some n => runProgram ce sols solIx (ce.program n.programAddress) inputs ((p.nodeEdges node) == some [])
  | none => .panic "index out of bounds: node"

def modeLevels (mode : RunMode) (levels : List (List Nat)) (deferred : List Nat) : List (List Nat) :=
  match mode with
  | .outputs => removeDeferred levels deferred
  | .checks => removeNotDeferred levels deferred

def emptyAcc (cache : Cache) : LevelAcc :=
  { cache := cache, local_ := [], failed := [], gas := 0, unsatisfied := [], dataOut := [] }

/-- the end of `check_predicate_inner`: program errors first, then unsatisfied constraints -/
def finishInner (r : Res Unit (LevelAcc × Bool)) : Res PredError (Nat × List Memory × Cache) :=
  match r with
  | .panic m => .panic m
  | .abort m => .abort m
  | .err _ => .panic "unreachable"
  | .ok (acc, _) =>
    if acc.failed ≠ [] then .err (.programErrors acc.failed)
    else if acc.unsatisfied ≠ [] then .err (.constraintsUnsatisfied acc.unsatisfied)
    else .ok (acc.gas, acc.dataOut, acc.cache)

/-- `check_predicate` / `check_predicate_inner` for one solution: `(gas, data outputs, cache')` -/
def checkPredicateInner (ce : CheckEnv) (sols : List Solution) (solIx : Nat) (p : Predicate)
    (collectAll : Bool) (mode : RunMode) (cache : Cache) : Res PredError (Nat × List Memory × Cache) :=
  match firstBadNode p with
  | some i => .err (.invalidNodeEdges i)
  | none =>
    match topoSort p with
    | .error e => .err e
    | .ok levels =>
      finishInner (runLevels p (deferredOf ce p) collectAll (nodeRunner ce sols solIx p)
        (modeLevels mode levels (deferredOf ce p)) (emptyAcc cache))

/-! ### the set level -/

structure SetEnv where
  ce : CheckEnv
  /-- `GetPredicate` -/
  predicate : List Nat → List Nat → Predicate
  collectAll : Bool

inductive SetError
  | failed (l : List (Nat × PredError))
deriving Repr, DecidableEq

/-- `check_set_predicates`: per-solution results in index order -/
def checkSetPredicates (se : SetEnv) (ce : CheckEnv) (sols : List Solution) (mode : RunMode) (caches : List Cache) :
    Res SetError (Nat × List (Nat × List Memory) × List Cache) :=
  let results := (List.range sols.length).map fun i =>
    match sols[i]? with
    | some s => (i, checkPredicateInner ce sols i (se.predicate s.contract s.predicate) se.collectAll mode (caches.getD i []))
    | none => (i, .panic "unreachable")
  match (results.find? fun r => r.2.isPanic || r.2.isAbort).map (·.2) with
  | some (Res.panic m) => .panic m
  | some (Res.abort m) => .abort m
  | _ =>
    let failed := results.filterMap fun r => match r.2 with | .err e => some (r.1, e) | _ => none
    if failed ≠ [] then .err (.failed failed) else
    let oks := results.filterMap fun r => match r.2 with | .ok v => some (r.1, v) | _ => none
    .ok (oks.foldl (fun g r => satAdd g r.2.1) 0, oks.map fun r => (r.1, r.2.2.1), oks.map fun r => r.2.2.2)

/-- `decode_mutations` of the check crate (after the fix: the duplicate set starts from every
slot already mutated anywhere in the set) -/
def applyOutputs : List (Nat × List Memory) → List Solution → List (List Nat × List Int) → Res (Nat × PredError) (List Solution)
  | [], sols, _ => .ok sols
  | (i, mems) :: rest, sols, seen =>
    match sols[i]? with
    | none => .panic "index out of bounds: solution"
    | some s =>
      let rec goMems : List Memory → Solution → List (List Nat × List Int) → Res (Nat × PredError) (Solution × List (List Nat × List Int))
        | [], s, seen => .ok (s, seen)
        | mem :: ms, s, seen =>
          match decodeMutations mem with
          | .err _ => .err (i, .mutationsDecode)
          | .panic m => .panic m
          | .abort m => .abort m
          | .ok muts =>
            let rec goMuts : List Mutation → Solution → List (List Nat × List Int) → Res (Nat × PredError) (Solution × List (List Nat × List Int))
              | [], s, seen => .ok (s, seen)
              | mu :: mus, s, seen =>
                if seen.contains (s.contract, mu.key) then .err (i, .mutationsDuplicate)
                else goMuts mus { s with mutations := s.mutations ++ [(mu.key, mu.value)] } ((s.contract, mu.key) :: seen)
            match goMuts muts s seen with
            | .ok (s', seen') => goMems ms s' seen'
            | .err e => .err e
            | .panic m => .panic m
            | .abort m => .abort m
      match goMems mems s seen with
      | .ok (s', seen') => applyOutputs rest (sols.set i s') seen'
      | .err e => .err e
      | .panic m => .panic m
      | .abort m => .abort m

def declaredSlots (sols : List Solution) : List (List Nat × List Int) :=
  sols.flatMap fun s => s.mutations.map fun m => (s.contract, m.1)

/-- `check_and_compute_solution_set` -/
def checkAndCompute (se : SetEnv) (ce : CheckEnv) (sols : List Solution) (mode : RunMode) (caches : List Cache) :
    Res SetError (Nat × List Solution × List Cache) :=
  match checkSetPredicates se ce sols mode caches with
  | .err e => .err e
  | .panic m => .panic m
  | .abort m => .abort m
  | .ok (gas, outs, caches') =>
    match applyOutputs outs sols (declaredSlots sols) with
    | .ok sols' => .ok (gas, sols', caches')
    | .err (i, e) => .err (.failed [(i, e)])
    | .panic m => .panic m
    | .abort m => .abort m

/-! ### post-state overlay -/

/-- `next_key`: increment the key as a big-endian number of `i64` digits; `none` when it wraps -/
def nextKey (key : List Int) : Option (List Int) :=
  let rec go : List Int → Option (List Int)   -- on the reversed key
    | [] => none
    | w :: rest => if w = i64Max then (go rest).map (i64Min :: ·) else some ((w + 1) :: rest)
  (go key.reverse).map List.reverse

/-- the post state `HashMap<ContentAddress, HashMap<Key, Value>>`, represented by its insertion log,
newest first: a lookup finds the latest insertion for (contract, key); a contract is present iff
something was inserted for it -/
abbrev PostState := List (List Nat × List Int × List Int)

def PostState.contract (ps : PostState) (c : List Nat) : Option (List (List Int × List Int)) :=
  let kvs := (ps.filter fun e => e.1 == c).map (·.2)
  if kvs = [] then none else some kvs

def kvGet (kvs : List (List Int × List Int)) (k : List Int) : Option (List Int) :=
  (kvs.find? fun e => e.1 == k).map (·.2)

def PostState.insert (ps : PostState) (c : List Nat) (k v : List Int) : PostState := (c, k, v) :: ps

/-- applying every mutation of every solution in order -/
def buildPostState (sols : List Solution) : PostState :=
  sols.foldl (fun ps s => s.mutations.foldl (fun ps m => ps.insert s.contract m.1 m.2) ps) []

/-- the loop of `read_or_fallback` for a contract that has proposed mutations -/
def readLoop (kvs : List (List Int × List Int)) (pre : StateView) (c : List Nat) : Nat → List Int → Except Int (List (List Int))
  | 0, _ => .ok []
  | n+1, key =>
    let v : Except Int (List Int) := match kvGet kvs key with
      | some v => .ok v
      | none => match pre c key 1 with
        | .ok vs => .ok (vs.getLast?.getD [])      -- `value.pop().unwrap_or_default()`
        | .error e => .error e
    match v with
    | .error e => .error e
    | .ok v =>
      match nextKey key with
      | none => .ok [v]
      | some k' => (readLoop kvs pre c n k').map (v :: ·)

/-- `read_or_fallback` = `PostStateArc::key_range` -/
def readOrFallback (ps : PostState) (pre : StateView) : StateView := fun c key n =>
  match ps.contract c with
  | some kvs => readLoop kvs pre c n key
  | none => pre c key n

/-! ### the two-pass entry point -/

/-- `check_and_compute_solution_set_two_pass`; `mkCe post` = the check environment whose VM
environments read `pre` for pre-state reads and `post` for post-state reads -/
def twoPass (se : SetEnv) (mkCe : StateView → CheckEnv) (pre : StateView) (sols : List Solution) :
    Res SetError (Nat × List Solution) :=
  let emptyPost : StateView := readOrFallback [] pre
  match checkAndCompute se (mkCe emptyPost) sols .outputs (sols.map fun _ => []) with
  | .err e => .err e
  | .panic m => .panic m
  | .abort m => .abort m
  | .ok (gas1, sols1, caches) =>
    let post := readOrFallback (buildPostState sols1) pre
    match checkAndCompute se (mkCe post) sols1 .checks caches with
    | .err e => .err e
    | .panic m => .panic m
    | .abort m => .abort m
    | .ok (gas2, sols2, _) => .ok (satAdd gas1 gas2, sols2)

end Essential
