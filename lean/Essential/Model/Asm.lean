/-
Model of `crates/asm` (the generated codec, `from_bytes`, `to_bytes`, `effects.rs`) and of
`crates/vm/src/bytecode.rs` (`BytecodeMapped`).  The op table itself is *generated* from
`asm.yml` (`Essential.Gen.Spec`); everything here is generic in that table.
-/
import Essential.Model.Basic
import Essential.Gen.Spec
import Essential.Gen.Consts

namespace Essential
open Spec

/-! ### `to_bytes` -/

/-- `Op::to_bytes`: the opcode byte followed by the big-endian immediate (if any) -/
def encodeOp (op : Op) : List Nat :=
  op.opcode :: (match op.imm with | some w => bytesOfWord w | none => [])

/-- `asm::to_bytes` -/
def encode (ops : List Op) : List Nat := ops.flatMap encodeOp

/-! ### `from_bytes` -/

inductive DecErr | invalidOpcode (b : Nat) | notEnoughBytes
deriving Repr, DecidableEq

/-- `Op::try_from_bytes` on a non-empty input `b :: rest`: the result and the bytes left in
the iterator afterwards.  An invalid opcode consumes one byte; a truncated immediate
consumes everything (the generated `parse_word_bytes` pulls until the iterator is dry). -/
def tryFromBytes (b : Nat) (rest : List Nat) : Except DecErr Op × List Nat :=
  match immBytes b with
  | none => (.error (.invalidOpcode b), rest)
  | some k =>
    if rest.length < k then (.error .notEnoughBytes, [])
    else
      match ofOpcode b (wordOfBytes (rest.take k)) with
      | some op => (.ok op, rest.drop k)
      | none => (.error (.invalidOpcode b), rest)

/-- the same function without walking the whole remaining input for every op (used by compiled code only:
the `csimp` lemma below is a kernel-checked equality, not an assumption) -/
def tryFromBytesFast (b : Nat) (rest : List Nat) : Except DecErr Op × List Nat :=
  match immBytes b with
  | none => (.error (.invalidOpcode b), rest)
  | some k =>
    if (rest.take k).length < k then (.error .notEnoughBytes, [])
    else
      match ofOpcode b (wordOfBytes (rest.take k)) with
      | some op => (.ok op, rest.drop k)
      | none => (.error (.invalidOpcode b), rest)

@[csimp] theorem tryFromBytes_eq_fast : @tryFromBytes = @tryFromBytesFast := by
  funext b rest
  unfold tryFromBytes tryFromBytesFast
  cases immBytes b with
  | none => rfl
  | some k =>
    simp only [List.length_take]
    have : (min k rest.length < k) = (rest.length < k) := by
      apply propext
      constructor <;> intro h <;> omega
    simp only [this]

theorem tryFromBytes_length (b : Nat) (rest : List Nat) : (tryFromBytes b rest).2.length ≤ rest.length := by
  unfold tryFromBytes
  split
  · simp
  · split
    · simp
    · split <;> simp

/-- `asm::from_bytes`: the stream of results (it does not stop after an error) -/
def decodeStream : List Nat → List (Except DecErr Op)
  | [] => []
  | b :: rest =>
    (tryFromBytes b rest).1 :: decodeStream (tryFromBytes b rest).2
termination_by l => l.length
decreasing_by
  have := tryFromBytes_length b rest
  simp only [List.length_cons]; omega

/-- `.collect::<Result<Vec<_>, _>>()`: all ops, or the first error -/
def collect : List (Except DecErr Op) → Except DecErr (List Op)
  | [] => .ok []
  | .error e :: _ => .error e
  | .ok op :: rest => (collect rest).map (op :: ·)

/-- `from_bytes(bytes).collect::<Result<Vec<_>, _>>()` as used by the checker -/
def decode (bs : List Nat) : Except DecErr (List Op) := collect (decodeStream bs)

/-! ### `BytecodeMapped` -/

/-- `BytecodeMapped::try_from_bytes`: byte offsets of the ops, or the first error.
`off` is the offset of the head of `bs` in the whole byte string. -/
def mapIndices (off : Nat) : List Nat → Except DecErr (List Nat)
  | [] => .ok []
  | b :: rest =>
    match immBytes b with
    | none => .error (.invalidOpcode b)
    | some k =>
      if rest.length < k then .error .notEnoughBytes
      else (mapIndices (off + 1 + k) (rest.drop k)).map (off :: ·)
termination_by l => l.length
decreasing_by simp only [List.length_cons, List.length_drop]; omega

structure Mapped where
  bytecode : List Nat
  opIndices : List Nat
deriving Repr, DecidableEq

def Mapped.tryFromBytes (bs : List Nat) : Except DecErr Mapped :=
  (mapIndices 0 bs).map fun ix => { bytecode := bs, opIndices := ix }

/-- one element of `expect_ops_from_indices`: re-parse at a byte offset; the two `expect`s
are panics in the model -/
def expectOpAt (bytecode : List Nat) (ix : Nat) : Res Unit Op :=
  if ix > bytecode.length then .panic "slice index starts out of range" else
  match bytecode.drop ix with
  | [] => .panic "validated upon construction"
  | b :: rest =>
    match (tryFromBytes b rest).1 with
    | .ok op => .ok op
    | .error _ => .panic "validated upon construction"

/-- `BytecodeMapped::op(ix)` -/
def Mapped.op (m : Mapped) (i : Nat) : Res Unit (Option Op) :=
  match m.opIndices[i]? with
  | none => .ok none
  | some ix => (expectOpAt m.bytecode ix).bind fun op => .ok (some op)

/-- collect an iterator of results that may panic -/
def allOk : List (Res Unit Op) → Res Unit (List Op)
  | [] => .ok []
  | r :: rs => r.bind fun a => (allOk rs).bind fun as => .ok (a :: as)

/-- `BytecodeMapped::ops()` collected -/
def Mapped.ops (m : Mapped) : Res Unit (List Op) :=
  allOk (m.opIndices.map (expectOpAt m.bytecode))

/-- `FromIterator<Op>` / `push_op` -/
def Mapped.fromOps (ops : List Op) : Mapped :=
  ops.foldl (fun m op => { bytecode := m.bytecode ++ encodeOp op, opIndices := m.opIndices ++ [m.bytecode.length] })
    { bytecode := [], opIndices := [] }

/-! ### effects (`asm/src/effects.rs`) — effect sets are bit masks over the generated flag values -/

/-- `Effects::contains(flag)` -/
def effContains (E flag : Nat) : Bool := E &&& flag == flag

/-- `Effects::all()` -/
def effAll : Nat :=
  Consts.effKeyRange ||| Consts.effKeyRangeExtern ||| Consts.effThisAddress |||
  Consts.effThisContractAddress ||| Consts.effPostKeyRange ||| Consts.effPostKeyRangeExtern

/-- the effect flag of an operation as the documentation of `Effects` defines it
(specification, independent of both implementations below) -/
def effectOf : Op → Nat
  | .stateReadKeyRange => Consts.effKeyRange
  | .stateReadKeyRangeExtern => Consts.effKeyRangeExtern
  | .stateReadPostKeyRange => Consts.effPostKeyRange
  | .stateReadPostKeyRangeExtern => Consts.effPostKeyRangeExtern
  | .accessThisAddress => Consts.effThisAddress
  | .accessThisContractAddress => Consts.effThisContractAddress
  | _ => 0

/-- `effects::bytes_contains_any` -/
def bytesContainsAny (E : Nat) : List Nat → Bool
  | [] => false
  | b :: rest =>
    if b = Op.stateReadKeyRange.opcode ∧ effContains E Consts.effKeyRange then true
    else if b = Op.stateReadKeyRangeExtern.opcode ∧ effContains E Consts.effKeyRangeExtern then true
    else if b = Op.stateReadPostKeyRange.opcode ∧ effContains E Consts.effPostKeyRange then true
    else if b = Op.stateReadPostKeyRangeExtern.opcode ∧ effContains E Consts.effPostKeyRangeExtern then true
    else if b = Op.accessThisAddress.opcode ∧ effContains E Consts.effThisAddress then true
    else if b = Op.accessThisContractAddress.opcode ∧ effContains E Consts.effThisContractAddress then true
    else if b = (Op.stackPush 0).opcode then bytesContainsAny E (rest.drop 8)
    else bytesContainsAny E rest
termination_by l => l.length
decreasing_by all_goals (simp only [List.length_cons, List.length_drop]; omega)

/-- what one iteration of the loop in `effects::analyze` adds -/
def analyzeStep : Op → Nat
  | .stateReadKeyRangeExtern => Consts.effKeyRangeExtern
  | .stateReadKeyRange => Consts.effKeyRange
  | .accessThisAddress => Consts.effThisAddress
  | .accessThisContractAddress => Consts.effThisContractAddress
  | .stateReadPostKeyRange => Consts.effPostKeyRange
  | .stateReadPostKeyRangeExtern => Consts.effPostKeyRangeExtern
  | _ => 0

/-- `effects::analyze` (with its early exit once every flag is set) -/
def analyzeFrom (acc : Nat) : List Op → Nat
  | [] => acc
  | op :: rest =>
    let acc' := acc ||| analyzeStep op
    if acc' = effAll then acc' else analyzeFrom acc' rest

def analyze (ops : List Op) : Nat := analyzeFrom 0 ops

end Essential
