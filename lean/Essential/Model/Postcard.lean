/-
postcard (binary serde) *decoding* of the solution data types, mirroring `postcard`'s
deserializer: LEB128 varints of at most ten bytes whose tenth byte may only be 0 or 1
(non-canonical encodings with redundant continuation bytes are accepted, as postcard does),
zigzag `i64`s, length-prefixed sequences, and 32-byte addresses that arrive as a byte sequence and
must have length exactly 32.  The encoders are in `Model/Hash.lean`.
-/
import Essential.Model.Hash

namespace Essential.Postcard
open Essential

/-- `try_take_varint_u64`: `i` = index of the byte, `m = 128^i` -/
def unvarintGo : (fuel : Nat) → (i m : Nat) → List Nat → Option (Nat × List Nat)
  | 0, _, _, _ => none
  | _+1, _, _, [] => none
  | f+1, i, m, b :: rest =>
    if b < 128 then (if i = 9 ∧ b > 1 then none else some (b * m, rest))
    else match unvarintGo f (i + 1) (m * 128) rest with
      | some (v, r) => some ((b - 128) * m + v, r)
      | none => none

def unvarint (bs : List Nat) : Option (Nat × List Nat) := unvarintGo 10 0 1 bs

/-- `de_zig_zag_i64` -/
def unzigzag (n : Nat) : Int := if n % 2 = 0 then ((n / 2 : Nat) : Int) else -((n / 2 : Nat) : Int) - 1

/-- `n` elements one after the other -/
def takeN {α : Type} (dec : List Nat → Option (α × List Nat)) : Nat → List Nat → Option (List α × List Nat)
  | 0, bs => some ([], bs)
  | n+1, bs =>
    match dec bs with
    | none => none
    | some (a, r) =>
      match takeN dec n r with
      | none => none
      | some (as, r') => some (a :: as, r')

def unpcVec {α : Type} (dec : List Nat → Option (α × List Nat)) (bs : List Nat) : Option (List α × List Nat) :=
  match unvarint bs with
  | none => none
  | some (n, r) => takeN dec n r

def unbyte : List Nat → Option (Nat × List Nat)
  | [] => none
  | b :: r => some (b, r)

def unpcBytes : List Nat → Option (List Nat × List Nat) := unpcVec unbyte

def unword (bs : List Nat) : Option (Int × List Nat) :=
  match unvarint bs with
  | none => none
  | some (n, r) => some (unzigzag n, r)

def unpcWords : List Nat → Option (List Int × List Nat) := unpcVec unword

def unpcMutation (bs : List Nat) : Option ((List Int × List Int) × List Nat) :=
  match unpcWords bs with
  | none => none
  | some (k, r) =>
    match unpcWords r with
    | none => none
    | some (v, r') => some ((k, v), r')

/-- a `ContentAddress`: a byte sequence that must have 32 elements -/
def unaddr (bs : List Nat) : Option (List Nat × List Nat) :=
  match unpcBytes bs with
  | none => none
  | some (a, r) => if a.length = 32 then some (a, r) else none

/-- `postcard::take_from_bytes::<Solution>` -/
def unpcSolution (bs : List Nat) : Option (Solution × List Nat) :=
  match unaddr bs with
  | none => none
  | some (c, r1) =>
    match unaddr r1 with
    | none => none
    | some (p, r2) =>
      match unpcVec unpcWords r2 with
      | none => none
      | some (d, r3) =>
        match unpcVec unpcMutation r3 with
        | none => none
        | some (m, r4) => some (⟨c, p, d, m⟩, r4)

/-- `postcard::take_from_bytes::<SolutionSet>` -/
def unpcSet : List Nat → Option (List Solution × List Nat) := unpcVec unpcSolution

/-- `postcard::to_allocvec(&SolutionSet)` -/
def pcSet (sols : List Solution) : List Nat := pcVec pcSolution sols

end Essential.Postcard
