/-
Basic vocabulary of the executable model: the result monad with explicit `panic` and
`abort` outcomes, machine-integer helpers, byte/word conversions (`types/src/convert.rs`).

Import-free (core only) so that the driver can be linked as a `lean_exe`.
-/
namespace Essential

/-- Outcome of a modelled Rust function.
* `ok a`     – returned `Ok(a)` / a value
* `err e`    – returned a typed error
* `panic m`  – the Rust code would panic here (index out of bounds, `expect`, arithmetic
               overflow in a checked build, `copy_within` out of range …)
* `abort m`  – the process would abort on resource exhaustion (allocation failure) -/
inductive Res (ε α : Type) where
  | ok (a : α) | err (e : ε) | panic (m : String) | abort (m : String)
deriving Repr, DecidableEq

namespace Res

@[inline] def bind (x : Res ε α) (f : α → Res ε β) : Res ε β :=
  match x with
  | .ok a => f a | .err e => .err e | .panic m => .panic m | .abort m => .abort m

instance : Monad (Res ε) where
  pure := .ok
  bind := Res.bind

/-- map the error type (Rust `map_err`) -/
@[inline] def mapErr (f : ε → ε') : Res ε α → Res ε' α
  | .ok a => .ok a | .err e => .err (f e) | .panic m => .panic m | .abort m => .abort m

/-- no panic, no abort, and every `ok` result satisfies `Q` -/
def wp (r : Res ε α) (Q : α → Prop) : Prop :=
  match r with | .ok a => Q a | .err _ => True | .panic _ => False | .abort _ => False

/-- no panic (aborts on resource exhaustion allowed), every `ok` result satisfies `Q` -/
def wpA (r : Res ε α) (Q : α → Prop) : Prop :=
  match r with | .ok a => Q a | .err _ => True | .panic _ => False | .abort _ => True

def isOk : Res ε α → Bool | .ok _ => true | _ => false
def isErr : Res ε α → Bool | .err _ => true | _ => false
def isPanic : Res ε α → Bool | .panic _ => true | _ => false
def isAbort : Res ε α → Bool | .abort _ => true | _ => false

/-- total: a value or a typed error -/
def Total (r : Res ε α) : Prop := r.wp (fun _ => True)

@[simp] theorem wp_ok (a : α) (Q : α → Prop) : (Res.ok a : Res ε α).wp Q = Q a := rfl
@[simp] theorem wp_pure (a : α) (Q : α → Prop) : (pure a : Res ε α).wp Q = Q a := rfl
@[simp] theorem wp_err (e : ε) (Q : α → Prop) : (Res.err e : Res ε α).wp Q = True := rfl
@[simp] theorem wp_panic (m) (Q : α → Prop) : (Res.panic m : Res ε α).wp Q = False := rfl
@[simp] theorem wp_abort (m) (Q : α → Prop) : (Res.abort m : Res ε α).wp Q = False := rfl
@[simp] theorem wpA_ok (a : α) (Q : α → Prop) : (Res.ok a : Res ε α).wpA Q = Q a := rfl
@[simp] theorem wpA_pure (a : α) (Q : α → Prop) : (pure a : Res ε α).wpA Q = Q a := rfl
@[simp] theorem wpA_err (e : ε) (Q : α → Prop) : (Res.err e : Res ε α).wpA Q = True := rfl
@[simp] theorem wpA_panic (m) (Q : α → Prop) : (Res.panic m : Res ε α).wpA Q = False := rfl
@[simp] theorem wpA_abort (m) (Q : α → Prop) : (Res.abort m : Res ε α).wpA Q = True := rfl

theorem wp_bind (x : Res ε α) (f : α → Res ε β) (Q : β → Prop) :
    (x >>= f).wp Q = x.wp (fun a => (f a).wp Q) := by
  cases x <;> rfl
theorem wpA_bind (x : Res ε α) (f : α → Res ε β) (Q : β → Prop) :
    (x >>= f).wpA Q = x.wpA (fun a => (f a).wpA Q) := by
  cases x <;> rfl
@[simp] theorem bind_ok (a : α) (f : α → Res ε β) : (Res.ok a >>= f) = f a := rfl
@[simp] theorem bind_err (e : ε) (f : α → Res ε β) : ((Res.err e : Res ε α) >>= f) = .err e := rfl
@[simp] theorem bind_panic (m) (f : α → Res ε β) : ((Res.panic m : Res ε α) >>= f) = .panic m := rfl
@[simp] theorem bind_abort (m) (f : α → Res ε β) : ((Res.abort m : Res ε α) >>= f) = .abort m := rfl
@[simp] theorem pure_eq_ok (a : α) : (pure a : Res ε α) = .ok a := rfl
@[simp] theorem map_ok (g : α → β) (a : α) : (g <$> (Res.ok a : Res ε α)) = .ok (g a) := rfl
@[simp] theorem map_err (g : α → β) (e : ε) : (g <$> (Res.err e : Res ε α)) = .err e := rfl

theorem wp_bind' (x : Res ε α) (f : α → Res ε β) (Q : β → Prop) :
    (x.bind f).wp Q = x.wp (fun a => (f a).wp Q) := by cases x <;> rfl
theorem wpA_bind' (x : Res ε α) (f : α → Res ε β) (Q : β → Prop) :
    (x.bind f).wpA Q = x.wpA (fun a => (f a).wpA Q) := by cases x <;> rfl
@[simp] theorem bind_eq_bind (x : Res ε α) (f : α → Res ε β) : (x >>= f) = x.bind f := rfl

theorem wp_mono {r : Res ε α} {Q Q' : α → Prop} (h : r.wp Q) (hq : ∀ a, Q a → Q' a) : r.wp Q' := by
  cases r <;> simp_all [wp]
theorem wpA_mono {r : Res ε α} {Q Q' : α → Prop} (h : r.wpA Q) (hq : ∀ a, Q a → Q' a) : r.wpA Q' := by
  cases r <;> simp_all [wpA]
theorem wp_wpA {r : Res ε α} {Q : α → Prop} (h : r.wp Q) : r.wpA Q := by
  cases r <;> simp_all [wp, wpA]
theorem wp_mapErr (f : ε → ε') (r : Res ε α) (Q : α → Prop) : (r.mapErr f).wp Q = r.wp Q := by
  cases r <;> rfl
theorem wpA_mapErr (f : ε → ε') (r : Res ε α) (Q : α → Prop) : (r.mapErr f).wpA Q = r.wpA Q := by
  cases r <;> rfl
theorem wp_of_eq_ok {r : Res ε α} {a : α} {Q : α → Prop} (h : r.wp Q) (e : r = .ok a) : Q a := by
  subst e; exact h
theorem wp_iff (r : Res ε α) (Q : α → Prop) :
    r.wp Q ↔ (∀ m, r ≠ .panic m) ∧ (∀ m, r ≠ .abort m) ∧ ∀ a, r = .ok a → Q a := by
  cases r <;> simp [wp]

end Res

/-! ### machine integers -/

def i64Min : Int := -9223372036854775808
def i64Max : Int := 9223372036854775807
def u64Max : Nat := 18446744073709551615
/-- `usize::MAX` (64-bit target) -/
def usizeMax : Nat := 18446744073709551615
/-- `isize::MAX` (64-bit target): the largest allocation size in bytes -/
def isizeMax : Nat := 9223372036854775807

/-- the value is representable as an `i64` -/
def InI64 (w : Int) : Prop := -9223372036854775808 ≤ w ∧ w ≤ 9223372036854775807
instance (w : Int) : Decidable (InI64 w) := by unfold InI64; infer_instance

def inI64 (w : Int) : Bool := decide (InI64 w)

/-- all words of a list are `i64`s -/
def AllI64 (ws : List Int) : Prop := ∀ w ∈ ws, InI64 w

/-- wrap an integer into `i64` (two's complement), the result of `as i64` / wrapping ops -/
def wrapI64 (x : Int) : Int :=
  let m := x % 18446744073709551616
  if m < 9223372036854775808 then m else m - 18446744073709551616

/-- `usize::try_from(w).ok()` for an `i64` word -/
def usizeOfWord? (w : Int) : Option Nat := if 0 ≤ w then some w.toNat else none

/-- `bool_from_word` -/
def boolOfWord? (w : Int) : Option Bool := if w = 0 then some false else if w = 1 then some true else none

/-! ### bytes and words (`types/src/convert.rs`) — bytes are `Nat`s `< 256` -/

def AllBytes (bs : List Nat) : Prop := ∀ b ∈ bs, b < 256

/-- `bytes_from_word`: big-endian two's complement bytes of an i64 -/
def bytesOfWord (w : Int) : List Nat :=
  let n := (w % 18446744073709551616).toNat
  [n / 72057594037927936 % 256, n / 281474976710656 % 256, n / 1099511627776 % 256, n / 4294967296 % 256,
   n / 16777216 % 256, n / 65536 % 256, n / 256 % 256, n % 256]

/-- `word_from_bytes` on exactly 8 bytes (anything else is not a `[u8; 8]`: `0`) -/
def wordOfBytes : List Nat → Int
  | [a, b, c, d, e, f, g, h] =>
    let n := ((((((a*256+b)*256+c)*256+d)*256+e)*256+f)*256+g)*256+h
    if n < 9223372036854775808 then (n : Int) else (n : Int) - 18446744073709551616
  | _ => 0

def bytesOfWords (ws : List Int) : List Nat := ws.flatMap bytesOfWord

/-- split a byte list into words, 8 bytes at a time, dropping an incomplete tail (`chunks_exact(8)`) -/
def wordsOfBytes : List Nat → List Int
  | a :: b :: c :: d :: e :: f :: g :: h :: rest => wordOfBytes [a, b, c, d, e, f, g, h] :: wordsOfBytes rest
  | _ => []

/-- `u16::to_be_bytes` -/
def bytesOfU16 (n : Nat) : List Nat := [n / 256 % 256, n % 256]
def u16OfBytes : List Nat → Nat
  | [a, b] => a * 256 + b
  | _ => 0

theorem bytesOfWord_length (w : Int) : (bytesOfWord w).length = 8 := by simp [bytesOfWord]

theorem bytesOfWord_allBytes (w : Int) : AllBytes (bytesOfWord w) := by
  intro b hb
  simp only [bytesOfWord, List.mem_cons, List.not_mem_nil, or_false] at hb
  omega

theorem wordOfBytes_bytesOfWord (w : Int) (h : InI64 w) : wordOfBytes (bytesOfWord w) = w := by
  unfold InI64 at h
  simp only [bytesOfWord, wordOfBytes]
  omega

theorem wordOfBytes_inI64 (bs : List Nat) (h : AllBytes bs) : InI64 (wordOfBytes bs) := by
  unfold wordOfBytes
  split
  · rename_i a b c d e f g hh
    have ha := h a (by simp); have hb := h b (by simp); have hc := h c (by simp)
    have hd := h d (by simp); have he := h e (by simp); have hf := h f (by simp)
    have hg := h g (by simp); have h8 := h hh (by simp)
    unfold InI64
    simp only []
    split <;> omega
  · unfold InI64; omega

theorem bytesOfWord_wordOfBytes (a b c d e f g h : Nat)
    (ha : a < 256) (hb : b < 256) (hc : c < 256) (hd : d < 256) (he : e < 256) (hf : f < 256)
    (hg : g < 256) (hh : h < 256) :
    bytesOfWord (wordOfBytes [a, b, c, d, e, f, g, h]) = [a, b, c, d, e, f, g, h] := by
  simp only [bytesOfWord, wordOfBytes]
  split <;> simp only [List.cons.injEq, and_true] <;> omega

end Essential
