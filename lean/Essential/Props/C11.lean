/-
C11 — State-read ops pass the exact request and lay results out as documented.
-/
import Essential.Props.C08

set_option linter.unusedSimpArgs false
namespace Essential.C11
open Essential Spec

/-! ### the request: which view, which contract, which key and count -/

section request
variable (child : ChildExec) (env : Env) (vm : Vm)

/-- what the four ops do after popping their operands: read `(view, contract, key, n)`,
write the values at `addr`, leave `t` on the stack -/
def readThenWrite (view : StateView) (contract : List Nat) (key : List Int) (n addr : Nat) (t : List Int) :
    Res Err (Vm × Flow) :=
  (StateRead.viewRead view contract key n).bind fun vs =>
    (StateRead.writeValuesToMemory addr vs vm.memory).bind fun m =>
      .ok ({ vm with stack := t, memory := m }, .next)

theorem Res.bind_ok' {ε α β} (a : α) (f : α → Res ε β) : (Res.ok a : Res ε α).bind f = f a := rfl

theorem splitLenWords_snoc' (t key : List Int) :
    Stack.splitLenWords (t ++ (key ++ [(key.length : Int)])) = .ok (t, key) := by
  simp [Stack.splitLenWords, Stack.splitLen, ← List.append_assoc]

theorem splitLenWords_snoc (t key : List Int) :
    Stack.splitLenWords (t ++ key ++ [(key.length : Int)]) = .ok (t, key) := by
  simp [Stack.splitLenWords, Stack.splitLen]

theorem popMemoryAddress_snoc (s : List Int) (a : Nat) :
    StateRead.popMemoryAddress (s ++ [(a : Int)]) = .ok (s, a) := by
  unfold StateRead.popMemoryAddress
  rw [pop_append_singleton]
  simp [Stack.usizeOr, Res.bind]

theorem popKeyRangeArgs_snoc (t key : List Int) (n : Nat) :
    StateRead.popKeyRangeArgs ((t ++ key ++ [(key.length : Int)]) ++ [(n : Int)]) = .ok (t, key, n) := by
  unfold StateRead.popKeyRangeArgs
  rw [pop_append_singleton]
  simp [Res.bind, Stack.usizeOr, splitLenWords_snoc']

theorem pop4_snoc (t : List Int) (w0 w1 w2 w3 : Int) :
    Stack.pop4 ((((t ++ [w0]) ++ [w1]) ++ [w2]) ++ [w3]) = .ok (t, [w0, w1, w2, w3]) := by
  unfold Stack.pop4 Stack.pop3 Stack.pop2
  simp only [pop_append_singleton, Res.bind_eq_bind, Res.bind, Res.pure_eq_ok]

theorem readThenWrite_eq (view : StateView) (contract : List Nat) (key : List Int) (n addr : Nat) (t : List Int) :
    ((StateRead.viewRead view contract key n).bind fun values =>
      (StateRead.writeValuesToMemory addr values vm.memory).bind fun mem =>
        (Res.ok (t, mem) : Res Err (Stack × Memory))).bind
      (fun (s, m) => (Res.ok ({ vm with stack := s, memory := m }, Flow.next) : Res Err (Vm × Flow))) =
    readThenWrite vm view contract key n addr t := by
  unfold readThenWrite
  cases StateRead.viewRead view contract key n with
  | ok vs =>
    simp only [Res.bind_ok]
    cases hw : StateRead.writeValuesToMemory addr vs vm.memory <;> simp [Res.bind, hw]
  | err e => rfl
  | panic m => rfl
  | abort m => rfl

/-- **KeyRange asks the pre-state view for the solved predicate's own contract** with exactly
the popped key and count; **PostKeyRange asks the post-state view** -/
theorem key_range_request (sol : Solution) (hsol : env.solutions[env.index]? = some sol)
    (t key : List Int) (n addr : Nat) (hs : vm.stack = t ++ key ++ [(key.length : Int), (n : Int), (addr : Int)]) :
    stepOp child env vm .stateReadKeyRange = readThenWrite vm env.pre sol.contract key n addr t ∧
    stepOp child env vm .stateReadPostKeyRange = readThenWrite vm env.post sol.contract key n addr t := by
  have hs' : vm.stack = ((t ++ key ++ [(key.length : Int)]) ++ [(n : Int)]) ++ [(addr : Int)] := by rw [hs]; simp
  constructor <;>
  · simp only [stepOp, thisSolution, hsol, StateRead.keyRange, hs', popMemoryAddress_snoc,
      Res.bind_eq_bind, Res.bind_ok', popKeyRangeArgs_snoc, Res.pure_eq_ok]
    exact readThenWrite_eq vm _ _ _ _ _ _

/-- **the extern variants take the contract from the 4 words below the key**, as 32 big-endian bytes -/
theorem key_range_extern_request (sol : Solution) (hsol : env.solutions[env.index]? = some sol)
    (t key : List Int) (w0 w1 w2 w3 : Int) (n addr : Nat)
    (hs : vm.stack = t ++ [w0, w1, w2, w3] ++ key ++ [(key.length : Int), (n : Int), (addr : Int)]) :
    stepOp child env vm .stateReadKeyRangeExtern =
      readThenWrite vm env.pre (bytesOfWords [w0, w1, w2, w3]) key n addr t ∧
    stepOp child env vm .stateReadPostKeyRangeExtern =
      readThenWrite vm env.post (bytesOfWords [w0, w1, w2, w3]) key n addr t := by
  have hs' : vm.stack = (((((((t ++ [w0]) ++ [w1]) ++ [w2]) ++ [w3]) ++ key ++ [(key.length : Int)]) ++ [(n : Int)])
      ++ [(addr : Int)]) := by rw [hs]; simp
  constructor <;>
  · simp only [stepOp, thisSolution, hsol, StateRead.keyRangeExt, hs', popMemoryAddress_snoc,
      Res.bind_eq_bind, Res.bind_ok', popKeyRangeArgs_snoc, pop4_snoc, Res.pure_eq_ok, bytes32OfWord4]
    exact readThenWrite_eq vm _ _ _ _ _ _

/-- a state error is returned unchanged -/
theorem state_error_passthrough (view : StateView) (c : List Nat) (k : List Int) (n : Nat) (code : Int)
    (h : view c k n = .error code) : StateRead.viewRead view c k n = .err (.stateRead code) := by
  simp [StateRead.viewRead, h]

end request

/-! ### the layout written into memory -/

theorem storeRange_eq_ok (m : Memory) (a : Nat) (vs : List Int) (m' : Memory)
    (h : Memory.storeRange m (a : Int) vs = .ok m') :
    a + vs.length ≤ m.length ∧ m' = m.take a ++ vs ++ m.drop (a + vs.length) := by
  unfold Memory.storeRange Memory.copyFromSlice at h
  simp only [C08.natCast_lt_zero, if_false, Int.toNat_natCast] at h
  split at h
  · cases h
  · split at h
    · cases h
    · split at h
      · cases h; exact ⟨by omega, rfl⟩
      · cases h

/-- sum of the lengths of the first `i` values -/
def offs (vs : List (List Int)) (i : Nat) : Nat := ((vs.take i).map List.length).sum

theorem offs_cons_succ (v : List Int) (vs : List (List Int)) (i : Nat) : offs (v :: vs) (i + 1) = v.length + offs vs i := by
  simp [offs]
theorem offs_zero (vs : List (List Int)) : offs vs 0 = 0 := by simp [offs]

/-- **layout of the loop**: pair `i` is `[value address, value length]`, values are stored back
to back in order, nothing else changes, memory does not grow -/
theorem writeLoop_layout (vs : List (List Int)) : ∀ (mem : Memory) (ma va : Nat) (m' : Memory),
    ma + 2 * vs.length ≤ va →
    StateRead.writeLoop mem (ma : Int) (va : Int) vs = .ok m' →
    m'.length = mem.length ∧
    (∀ i (hi : i < vs.length), m'[ma + 2 * i]? = some ((va + offs vs i : Nat) : Int) ∧
        m'[ma + 2 * i + 1]? = some ((vs[i].length : Nat) : Int)) ∧
    (∀ i (hi : i < vs.length) k, k < vs[i].length → m'[va + offs vs i + k]? = vs[i][k]?) ∧
    (∀ j, (j < ma ∨ (ma + 2 * vs.length ≤ j ∧ j < va) ∨ va + offs vs vs.length ≤ j) → m'[j]? = mem[j]?) := by
  induction vs with
  | nil =>
    intro mem ma va m' _ h
    simp only [StateRead.writeLoop, Res.ok.injEq] at h
    subst h
    exact ⟨rfl, fun i hi => by simp at hi, fun i hi => by simp at hi, fun j _ => rfl⟩
  | cons v rest ih =>
    intro mem ma va m' hsep h
    simp only [List.length_cons] at hsep
    unfold StateRead.writeLoop at h
    split at h
    · cases h
    · simp only [Res.bind_eq_bind] at h
      cases h1 : Memory.storeRange mem (ma : Int) [(va : Int), (v.length : Int)] with
      | err e => simp [h1, Res.bind] at h
      | panic m => simp [h1, Res.bind] at h
      | abort m => simp [h1, Res.bind] at h
      | ok m1 =>
        simp only [h1, Res.bind_ok'] at h
        cases h2 : Memory.storeRange m1 (va : Int) v with
        | err e => simp [h2, Res.bind] at h
        | panic m => simp [h2, Res.bind] at h
        | abort m => simp [h2, Res.bind] at h
        | ok m2 =>
          simp only [h2, Res.bind_ok'] at h
          split at h
          · cases h
          · split at h
            · cases h
            · -- the recursive call, with the pointers as naturals again
              have e1 : (ma : Int) + 2 = ((ma + 2 : Nat) : Int) := by omega
              have e2 : (va : Int) + (v.length : Int) = ((va + v.length : Nat) : Int) := by omega
              rw [e1, e2] at h
              obtain ⟨hl1, hm1⟩ := storeRange_eq_ok mem ma _ m1 h1
              obtain ⟨hl2, hm2⟩ := storeRange_eq_ok m1 va v m2 h2
              simp only [List.length_cons, List.length_nil] at hl1
              have f1 := C08.store_range_frame mem [(va : Int), (v.length : Int)] ma (by simpa using hl1)
              rw [← hm1] at f1
              have f2 := C08.store_range_frame m1 v va hl2
              rw [← hm2] at f2
              obtain ⟨l1, b1, a1, i1⟩ := f1
              obtain ⟨l2, b2, a2, i2⟩ := f2
              simp only [List.length_cons, List.length_nil] at a1 i1
              obtain ⟨hlen, hpairs, hvals, hframe⟩ := ih m2 (ma + 2) (va + v.length) m' (by omega) h
              -- memory cells of m2 in terms of mem
              have m2_low : ∀ j, j < ma → m2[j]? = mem[j]? := fun j hj => by rw [b2 j (by omega), b1 j hj]
              refine ⟨by omega, ?_, ?_, ?_⟩
              · intro i hi
                cases i with
                | zero =>
                  simp only [Nat.mul_zero, Nat.add_zero, offs_zero, List.getElem_cons_zero]
                  constructor
                  · rw [hframe ma (Or.inl (by omega)), b2 ma (by omega)]
                    have := i1 0 (by omega)
                    simpa using this
                  · rw [hframe (ma + 1) (Or.inl (by omega)), b2 (ma + 1) (by omega)]
                    have := i1 1 (by omega)
                    simpa using this
                | succ i =>
                  have hi' : i < rest.length := by simpa using hi
                  obtain ⟨p1, p2⟩ := hpairs i hi'
                  simp only [offs_cons_succ, List.getElem_cons_succ]
                  constructor
                  · have : ma + 2 * (i + 1) = ma + 2 + 2 * i := by omega
                    rw [this, p1]; congr 2; omega
                  · have : ma + 2 * (i + 1) + 1 = ma + 2 + 2 * i + 1 := by omega
                    rw [this, p2]
              · intro i hi k hk
                cases i with
                | zero =>
                  simp only [offs_zero, Nat.add_zero, List.getElem_cons_zero] at hk ⊢
                  rw [hframe (va + k) (Or.inr (Or.inl ⟨by omega, by omega⟩))]
                  exact i2 k hk
                | succ i =>
                  have hi' : i < rest.length := by simpa using hi
                  simp only [List.getElem_cons_succ] at hk ⊢
                  have := hvals i hi' k hk
                  rw [offs_cons_succ]
                  have e : va + (v.length + offs rest i) + k = va + v.length + offs rest i + k := by omega
                  rw [e, this]
              · intro j hj
                simp only [List.length_cons, offs_cons_succ] at hj
                rcases hj with hj | ⟨hj1, hj2⟩ | hj
                · rw [hframe j (Or.inl (by omega)), m2_low j hj]
                · rw [hframe j (Or.inr (Or.inl ⟨by omega, by omega⟩)), b2 j hj2, a1 j (by omega)]
                · rw [hframe j (Or.inr (Or.inr (by omega))), a2 j (by omega), a1 j (by omega)]

/-- **layout of a successful state read** at address `a` with returned values `vs`
(`m = |vs|`, which may differ from the requested count): `mem'[a+2i] = a+2m+Σ_{j<i}|v_j|`,
`mem'[a+2i+1] = |v_i|`, the values follow back to back, every other word and the length of
memory are unchanged -/
theorem state_read_layout (a : Nat) (vs : List (List Int)) (mem m' : Memory)
    (h : StateRead.writeValuesToMemory a vs mem = .ok m') :
    m'.length = mem.length ∧
    (∀ i (hi : i < vs.length), m'[a + 2 * i]? = some ((a + 2 * vs.length + offs vs i : Nat) : Int) ∧
        m'[a + 2 * i + 1]? = some ((vs[i].length : Nat) : Int)) ∧
    (∀ i (hi : i < vs.length) k, k < vs[i].length → m'[a + 2 * vs.length + offs vs i + k]? = vs[i][k]?) ∧
    (∀ j, (j < a ∨ a + 2 * vs.length + offs vs vs.length ≤ j) → m'[j]? = mem[j]?) := by
  unfold StateRead.writeValuesToMemory at h
  split at h
  · cases h
  · simp only [] at h
    split at h
    · cases h
    · split at h
      · cases h
      · split at h
        · cases h
        · have e : (a : Int) + (vs.length : Int) * 2 = ((a + 2 * vs.length : Nat) : Int) := by omega
          rw [e] at h
          obtain ⟨h1, h2, h3, h4⟩ := writeLoop_layout vs mem a (a + 2 * vs.length) m' (by omega) h
          refine ⟨h1, h2, h3, fun j hj => h4 j ?_⟩
          rcases hj with hj | hj
          · exact Or.inl hj
          · exact Or.inr (Or.inr hj)

/-- results that do not fit in the memory already allocated are an error: memory is never grown -/
theorem state_read_never_grows (a : Nat) (vs : List (List Int)) (mem m' : Memory)
    (h : StateRead.writeValuesToMemory a vs mem = .ok m') : m'.length = mem.length :=
  (state_read_layout a vs mem m' h).1

end Essential.C11
