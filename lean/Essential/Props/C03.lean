/-
C03 — Post-state reads see pre-state overlaid with all of the set's mutations.
-/
import Essential.Model.Check
import Essential.Props.C11
import Essential.Props.C15

set_option linter.unusedSimpArgs false
namespace Essential.C03
open Essential Spec

/-! ### `next_key`: the lexicographic successor with carry -/

theorem nextKey_go_none (ws : List Int) : nextKey.go ws = none ↔ ∀ w ∈ ws, w = i64Max := by
  induction ws with
  | nil => simp [nextKey.go]
  | cons w rest ih =>
    unfold nextKey.go
    by_cases h : w = i64Max
    · simp [h, ih]
    · simp [h]

/-- there is no next key exactly when every word is `i64::MAX` (including the empty key) -/
theorem next_key_none_iff (key : List Int) : nextKey key = none ↔ ∀ w ∈ key, w = i64Max := by
  unfold nextKey
  simp only [Option.map_eq_none_iff, nextKey_go_none, List.mem_reverse]

theorem nextKey_go_carry (m : Nat) (w : Int) (rest : List Int) (h : w ≠ i64Max) :
    nextKey.go (List.replicate m i64Max ++ w :: rest) = some (List.replicate m i64Min ++ (w + 1) :: rest) := by
  induction m with
  | zero => simp [nextKey.go, h]
  | succ m ih =>
    simp only [List.replicate_succ, List.cons_append]
    unfold nextKey.go
    simp [ih]

/-- the successor increments the last word that is not `MAX` and resets the `MAX` words after it to `MIN` -/
theorem next_key_carry (pre : List Int) (w : Int) (m : Nat) (h : w ≠ i64Max) :
    nextKey (pre ++ [w] ++ List.replicate m i64Max) = some (pre ++ [w + 1] ++ List.replicate m i64Min) := by
  unfold nextKey
  simp only [List.reverse_append, List.reverse_replicate, List.reverse_cons, List.reverse_nil, List.nil_append,
    List.append_assoc, List.singleton_append]
  rw [nextKey_go_carry m w pre.reverse h]
  simp

/-! ### the overlay -/

/-- the keys a range read of `n` keys from `key` visits (it stops when the key wraps) -/
def keysFrom : Nat → List Int → List (List Int)
  | 0, _ => []
  | n+1, key => key :: (match nextKey key with | some k' => keysFrom n k' | none => [])

/-- **per-key overlay**: with a pre-state that answers single-key reads without error, a
post-state range read over a contract that has proposed mutations returns, for every visited
key, the proposed value if there is one (an empty value = deletion) and otherwise the pre-state value -/
theorem read_loop_spec (kvs : List (List Int × List Int)) (pre : StateView) (c : List Nat)
    (preVal : List Int → List Int) (hpre : ∀ k, ∃ vs, pre c k 1 = .ok vs ∧ vs.getLast?.getD [] = preVal k) :
    ∀ (n : Nat) (key : List Int),
      readLoop kvs pre c n key = .ok ((keysFrom n key).map fun k => (kvGet kvs k).getD (preVal k)) := by
  intro n
  induction n with
  | zero => intro key; rfl
  | succ n ih =>
    intro key
    unfold readLoop keysFrom
    obtain ⟨vs, hv1, hv2⟩ := hpre key
    cases hk : kvGet kvs key with
    | some v =>
      simp only [hk, Option.getD_some]
      cases hn : nextKey key with
      | none => simp [hk]
      | some k' => simp [ih k', Except.map, hk]
    | none =>
      simp only [hk, hv1, hv2, Option.getD_none]
      cases hn : nextKey key with
      | none => simp [hk]
      | some k' => simp [ih k', Except.map, hk]

/-- a contract without proposed mutations reads straight from the pre-state; **pre-state
reads never consult the overlay** (routing: `C11.key_range_request`) -/
theorem read_or_fallback_untouched (ps : PostState) (pre : StateView) (c : List Nat) (key : List Int) (n : Nat)
    (h : ps.contract c = none) : readOrFallback ps pre c key n = pre c key n := by
  simp [readOrFallback, h]

theorem read_or_fallback_overlay (ps : PostState) (pre : StateView) (c : List Nat) (kvs : List (List Int × List Int))
    (h : ps.contract c = some kvs) (key : List Int) (n : Nat) :
    readOrFallback ps pre c key n = readLoop kvs pre c n key := by
  simp [readOrFallback, h]

/-- a pre-state error during the overlay is returned unchanged -/
theorem read_loop_error (kvs : List (List Int × List Int)) (pre : StateView) (c : List Nat) (key : List Int) (n : Nat)
    (code : Int) (hk : kvGet kvs key = none) (he : pre c key 1 = .error code) :
    readLoop kvs pre c (n + 1) key = .error code := by
  simp [readLoop, hk, he]

/-! ### the post-state is the fold of all mutations, later ones winning -/

/-- what the post-state holds for `(c, k)` -/
def lookup (ps : PostState) (c : List Nat) (k : List Int) : Option (List Int) :=
  (ps.contract c).bind fun kvs => kvGet kvs k

/-- the value proposed for `(c, k)` by mutations applied in order: the last one -/
def proposed (ms : List (List Nat × List Int × List Int)) (c : List Nat) (k : List Int) : Option (List Int) :=
  (ms.reverse.find? fun m => m.1 == c && m.2.1 == k).map (·.2.2)

theorem lookup_eq_find (ps : PostState) (c : List Nat) (k : List Int) :
    lookup ps c k = (ps.find? fun m => m.1 == c && m.2.1 == k).map (·.2.2) := by
  unfold lookup PostState.contract kvGet
  induction ps with
  | nil => simp
  | cons e es ih =>
    obtain ⟨ec, ek, ev⟩ := e
    by_cases hc : ec = c
    · subst hc
      by_cases hk : ek = k
      · subst hk; simp
      · simp only [List.filter_cons, beq_self_eq_true, if_true, List.map_cons, List.find?_cons, Bool.true_and]
        have : (ek == k) = false := by simp [hk]
        simp only [this, List.cons_ne_nil, if_false, Option.bind_some, List.find?_cons]
        -- the rest of the log
        simp only [List.cons_ne_nil, if_false] at ih ⊢
        by_cases hn : (List.map (fun x => x.2) (List.filter (fun e => e.1 == ec) es)) = []
        · simp only [hn, if_true, Option.bind_none] at ih
          simp [hn, ← ih]
        · simp only [hn, if_false, Option.bind_some] at ih
          exact ih
    · have : (ec == c) = false := by simp [hc]
      simp only [List.filter_cons, this, Bool.false_eq_true, if_false, List.find?_cons, Bool.false_and]
      exact ih

theorem buildPostState_eq (sols : List Solution) : buildPostState sols = (setMutations sols).reverse := by
  unfold buildPostState setMutations
  have inner : ∀ (s : Solution) (ms : List (List Int × List Int)) (ps : PostState),
      ms.foldl (fun ps m => ps.insert s.contract m.1 m.2) ps = (ms.map fun x => (s.contract, x.1, x.2)).reverse ++ ps := by
    intro s ms
    induction ms with
    | nil => intro ps; rfl
    | cons m ms ih => intro ps; simp [List.foldl_cons, ih, PostState.insert]
  have outer : ∀ (l : List Solution) (ps : PostState),
      l.foldl (fun ps s => s.mutations.foldl (fun ps m => ps.insert s.contract m.1 m.2) ps) ps =
        (l.flatMap fun s => s.mutations.map fun x => (s.contract, x.1, x.2)).reverse ++ ps := by
    intro l
    induction l with
    | nil => intro ps; rfl
    | cons s l ih =>
      intro ps
      rw [List.foldl_cons, ih, inner, List.flatMap_cons, List.reverse_append, List.append_assoc]
  have := outer sols []
  simpa using this

/-- **the post-state is exactly the set's proposal**: for every contract and key it holds the
value of the last mutation of that slot in the set (declared or computed in the first pass — both
are in `setMutations` of the set handed to the second pass); an empty value is stored as such (a deletion) -/
theorem post_state_spec (sols : List Solution) (c : List Nat) (k : List Int) :
    lookup (buildPostState sols) c k = proposed (setMutations sols) c k := by
  rw [lookup_eq_find, buildPostState_eq]; rfl

/-- with at most one mutation per slot (an accepted set, C04) the proposal is simply "the" mutation of that slot -/
theorem proposed_unique (ms : List (List Nat × List Int × List Int)) (hn : (ms.map fun x => (x.1, x.2.1)).Nodup)
    (c : List Nat) (k v : List Int) : proposed ms c k = some v ↔ (c, k, v) ∈ ms := by
  unfold proposed
  constructor
  · intro h
    rw [Option.map_eq_some_iff] at h
    obtain ⟨m, hm, rfl⟩ := h
    have := List.find?_some hm
    have hmem := List.mem_of_find?_eq_some hm
    simp only [Bool.and_eq_true, beq_iff_eq] at this
    obtain ⟨mc, mk, mv⟩ := m
    simp only at this
    rw [← this.1, ← this.2]
    exact List.mem_reverse.mp hmem
  · intro h
    induction ms with
    | nil => cases h
    | cons m ms ih =>
      simp only [List.map_cons, List.nodup_cons] at hn
      simp only [List.reverse_cons, List.find?_append]
      simp only [List.mem_cons] at h
      rcases h with rfl | h
      · -- no later mutation of the same slot exists
        have : ms.reverse.find? (fun m => m.1 == c && m.2.1 == k) = none := by
          rw [List.find?_eq_none]
          intro x hx hh
          simp only [Bool.and_eq_true, beq_iff_eq] at hh
          apply hn.1
          rw [List.mem_map]
          exact ⟨x, List.mem_reverse.mp hx, by rw [hh.1, hh.2]⟩
        simp [this]
      · have := ih hn.2 h
        rw [Option.map_eq_some_iff] at this
        obtain ⟨m', hm', hv⟩ := this
        simp [hm', hv]

/-! ### deferral: post-state readers and everything below them run in the second pass only -/

/-- `c` is reachable from a start node along edges -/
inductive Reach (p : Predicate) (start : List Nat) : Nat → Prop
  | base {x} : x ∈ start → Reach p start x
  | step {u c} : Reach p start u → c ∈ edgesOf p u → Reach p start c

def Closed (p : Predicate) (d : List Nat) : Prop := ∀ u ∈ d, ∀ c ∈ edgesOf p u, c ∈ d

theorem mem_dedup (l : List Nat) (x : Nat) : x ∈ dedup l ↔ x ∈ l := by
  induction l with
  | nil => simp [dedup]
  | cons a as ih =>
    unfold dedup
    by_cases h : as.contains a = true
    · simp only [h, if_true, ih, List.mem_cons]
      constructor
      · intro hx; exact Or.inr hx
      · rintro (rfl | hx)
        · simpa using h
        · exact hx
    · have h' : as.contains a = false := by simpa using h
      rw [h']
      simp only [Bool.false_eq_true, if_false, List.mem_cons, ih]

theorem deferStep_sub (p : Predicate) (d : List Nat) : ∀ x ∈ d, x ∈ deferStep p d := by
  intro x hx; unfold deferStep; exact List.mem_append_left _ hx

theorem deferStep_children (p : Predicate) (d : List Nat) (u c : Nat) (hu : u ∈ d) (hc : c ∈ edgesOf p u) :
    c ∈ deferStep p d := by
  unfold deferStep
  by_cases h : c ∈ d
  · exact List.mem_append_left _ h
  · apply List.mem_append_right
    rw [mem_dedup]
    simp only [List.mem_filter, List.mem_flatMap, List.contains_eq_mem, Bool.not_eq_eq_eq_not, Bool.not_true,
      decide_eq_false_iff_not]
    exact ⟨⟨u, hu, hc⟩, h⟩

theorem deferStep_reach (p : Predicate) (start d : List Nat) (h : ∀ x ∈ d, Reach p start x) :
    ∀ x ∈ deferStep p d, Reach p start x := by
  intro x hx
  unfold deferStep at hx
  rcases List.mem_append.mp hx with hx | hx
  · exact h x hx
  · rw [mem_dedup] at hx
    simp only [List.mem_filter, List.mem_flatMap] at hx
    obtain ⟨⟨u, hu, hc⟩, _⟩ := hx
    exact Reach.step (h u hu) hc

/-- the slice of one node's edges is part of the edge list -/
theorem nodeEdges_sub (p : Predicate) (u : Nat) (l : List Nat) (h : p.nodeEdges u = some l) : ∀ c ∈ l, c ∈ p.edges := by
  unfold Predicate.nodeEdges at h
  repeat' split at h
  all_goals first
    | (cases h; done)
    | (cases h; intro c hc; first | (cases hc; done) | exact List.mem_of_mem_drop (List.mem_of_mem_take hc))
    | (rw [Option.ite_none_right_eq_some] at h
       obtain ⟨_, h⟩ := h
       cases h; intro c hc; exact List.mem_of_mem_drop (List.mem_of_mem_take hc))

theorem edgesOf_sub (p : Predicate) (u c : Nat) (h : c ∈ edgesOf p u) : c ∈ p.edges := by
  unfold edgesOf at h
  cases hn : p.nodeEdges u with
  | none => simp [hn] at h
  | some l => rw [hn] at h; exact nodeEdges_sub p u l hn c h

/-- edge targets still missing from `d` -/
def miss (p : Predicate) (d : List Nat) : Nat := (p.edges.filter fun c => !d.contains c).length

theorem filter_lt (l d d' : List Nat) (hs : ∀ x ∈ d, x ∈ d') (c : Nat) (hc : c ∈ l) (h1 : c ∉ d) (h2 : c ∈ d') :
    (l.filter fun c => !d'.contains c).length < (l.filter fun c => !d.contains c).length := by
  have le : ∀ (l : List Nat), (l.filter fun c => !d'.contains c).length ≤ (l.filter fun c => !d.contains c).length := by
    intro l
    induction l with
    | nil => simp
    | cons a l ih =>
      simp only [List.filter_cons, List.contains_eq_mem]
      by_cases ha : a ∈ d
      · simp [ha, hs a ha]; simpa using ih
      · by_cases ha' : a ∈ d'
        · simp [ha, ha']; have := ih; simp at this; omega
        · simp [ha, ha']; simpa using ih
  induction l with
  | nil => cases hc
  | cons a l ih =>
    simp only [List.filter_cons, List.contains_eq_mem]
    rcases List.mem_cons.mp hc with rfl | hc
    · have := le l
      simp only [List.contains_eq_mem] at this
      simp [h1, h2]; omega
    · have := ih hc
      simp only [List.contains_eq_mem] at this
      by_cases ha : a ∈ d
      · simp [ha, hs a ha]; simpa using this
      · by_cases ha' : a ∈ d'
        · simp [ha, ha']; simp at this; omega
        · simp [ha, ha']; simpa using this

theorem deferStep_progress (p : Predicate) (d : List Nat) : Closed p d ∨ miss p (deferStep p d) < miss p d := by
  by_cases h : Closed p d
  · exact Or.inl h
  · right
    unfold Closed at h
    simp only [Classical.not_forall] at h
    obtain ⟨u, hu, c, hc, hn⟩ := h
    exact filter_lt p.edges d (deferStep p d) (deferStep_sub p d) c (edgesOf_sub p u c hc) hn
      (deferStep_children p d u c hu hc)

theorem closed_step (p : Predicate) (d : List Nat) (h : Closed p d) : deferStep p d = d := by
  unfold deferStep
  have : ((d.flatMap fun u => edgesOf p u).filter fun c => !d.contains c) = [] := by
    rw [List.filter_eq_nil_iff]
    intro c hc
    simp only [List.mem_flatMap] at hc
    obtain ⟨u, hu, hc⟩ := hc
    simp [h u hu c hc]
  rw [this]
  simp [dedup]

theorem iterate_closed (p : Predicate) : ∀ (k : Nat) (d : List Nat), miss p d < k →
    Closed p ((List.range k).foldl (fun d _ => deferStep p d) d) := by
  intro k
  induction k with
  | zero => intro d h; omega
  | succ k ih =>
    intro d h
    have shift : ∀ (k : Nat) (d : List Nat), (List.range (k+1)).foldl (fun d _ => deferStep p d) d =
        (List.range k).foldl (fun d _ => deferStep p d) (deferStep p d) := by
      intro k d
      rw [List.range_succ_eq_map, List.foldl_cons, List.foldl_map]
    rw [shift]
    rcases deferStep_progress p d with hc | hlt
    · rw [closed_step p d hc]
      have stay : ∀ (k : Nat), (List.range k).foldl (fun d _ => deferStep p d) d = d := by
        intro k
        induction k with
        | zero => rfl
        | succ k ih => rw [List.range_succ, List.foldl_append, ih]; simp [closed_step p d hc]
      rw [stay]; exact hc
    · exact ih _ (by omega)

theorem iterate_sub (p : Predicate) (k : Nat) (d : List Nat) :
    ∀ x ∈ d, x ∈ (List.range k).foldl (fun d _ => deferStep p d) d := by
  induction k with
  | zero => intro x hx; simpa using hx
  | succ k ih =>
    intro x hx
    rw [List.range_succ, List.foldl_append]
    exact deferStep_sub p _ x (ih x hx)

theorem iterate_reach (p : Predicate) (start : List Nat) (k : Nat) :
    ∀ x ∈ (List.range k).foldl (fun d _ => deferStep p d) start, Reach p start x := by
  induction k with
  | zero => intro x hx; exact Reach.base (by simpa using hx)
  | succ k ih =>
    intro x hx
    rw [List.range_succ, List.foldl_append] at hx
    exact deferStep_reach p start _ ih x hx

/-- **`find_deferred` is exactly the set of nodes reachable from a post-state reader**: the readers
themselves, everything depending on one (however deep, along every path), and nothing else -/
theorem find_deferred_spec (p : Predicate) (isDef : Nat → Bool) (x : Nat) :
    x ∈ findDeferred p isDef ↔ Reach p ((List.range p.nodes.length).filter isDef) x := by
  unfold findDeferred
  constructor
  · exact iterate_reach p _ _ x
  · intro h
    have cl := iterate_closed p (p.nodes.length + p.edges.length + 1) ((List.range p.nodes.length).filter isDef)
      (by unfold miss; have := List.length_filter_le (fun c => !((List.range p.nodes.length).filter isDef).contains c) p.edges; omega)
    induction h with
    | base hx => exact iterate_sub p _ _ _ hx
    | step _ hc ih => exact cl _ ih _ hc

/-- **the two passes partition the level order**: a node is run in the first pass iff it is not
deferred, in the second pass iff it is, and the number of times it is run over both passes is the
number of times it occurs in the level order (once, for a topological order) -/
theorem passes_partition (levels : List (List Nat)) (d : List Nat) (n : Nat) :
    (n ∈ (modeLevels .outputs levels d).flatten ↔ n ∈ levels.flatten ∧ n ∉ d) ∧
    (n ∈ (modeLevels .checks levels d).flatten ↔ n ∈ levels.flatten ∧ n ∈ d) ∧
    (modeLevels .outputs levels d).flatten.count n + (modeLevels .checks levels d).flatten.count n
      = levels.flatten.count n := by
  unfold modeLevels removeDeferred removeNotDeferred
  have fl : ∀ (l : List (List Nat)), (l.filter fun lv => lv != []).flatten = l.flatten := by
    intro l
    induction l with
    | nil => rfl
    | cons a l ih =>
      cases a with
      | nil => simp [List.filter_cons, ih]
      | cons x xs => simp [List.filter_cons, ih]
  simp only [fl]
  refine ⟨?_, ?_, ?_⟩
  · simp only [List.mem_flatten, List.mem_map]
    constructor
    · rintro ⟨l, ⟨lv, hlv, rfl⟩, hn⟩
      simp only [List.mem_filter, List.contains_eq_mem, Bool.not_eq_eq_eq_not, Bool.not_true, decide_eq_false_iff_not] at hn
      exact ⟨⟨lv, hlv, hn.1⟩, hn.2⟩
    · rintro ⟨⟨lv, hlv, hn⟩, hd⟩
      exact ⟨_, ⟨lv, hlv, rfl⟩, by simp [hn, hd]⟩
  · simp only [List.mem_flatten, List.mem_map]
    constructor
    · rintro ⟨l, ⟨lv, hlv, rfl⟩, hn⟩
      simp only [List.mem_filter, List.contains_eq_mem, decide_eq_true_eq] at hn
      exact ⟨⟨lv, hlv, hn.1⟩, hn.2⟩
    · rintro ⟨⟨lv, hlv, hn⟩, hd⟩
      exact ⟨_, ⟨lv, hlv, rfl⟩, by simp [hn, hd]⟩
  · induction levels with
    | nil => rfl
    | cons lv rest ih =>
      simp only [List.map_cons, List.flatten_cons, List.count_append]
      have one : ∀ (l : List Nat), (l.filter fun n => !d.contains n).count n + (l.filter fun n => d.contains n).count n = l.count n := by
        intro l
        induction l with
        | nil => rfl
        | cons a l ih =>
          by_cases ha : a ∈ d
          · simp [List.filter_cons, ha, List.count_cons]; simp at ih; omega
          · simp [List.filter_cons, ha, List.count_cons]; simp at ih; omega
      have := one lv
      omega

/-- non-vacuity: a three-node chain `0 → 1 → 2` whose middle node reads post-state -/
example : findDeferred ⟨[⟨0, [1]⟩, ⟨1, [2]⟩, ⟨65535, [3]⟩], [1, 2]⟩ (fun n => n == 1) = [1, 2] := by decide

end Essential.C03
