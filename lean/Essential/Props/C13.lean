/-
C13 — Bytecode encoding is a bijection that matches the assembly specification.

All theorems are about `Model/Asm.lean` instantiated with the op table *generated from
asm.yml on every run* (`Gen/Spec.lean`) and the pinned table (`Gen/Pinned.lean`).
-/
import Essential.Lemmas.Codec
import Essential.Gen.Pinned

namespace Essential.C13
open Essential Spec

/-- serialising any op sequence and parsing it back yields the same sequence -/
theorem decode_encode (ops : List Op) (h : ∀ op ∈ ops, op.WF) : decode (encode ops) = .ok ops :=
  Codec.decode_encode ops h

/-- parsing any byte string either fails or yields ops that serialise to exactly those bytes
(hence the encoding is unambiguous: `encode` is injective on parse results) -/
theorem encode_decode (bs : List Nat) (hb : AllBytes bs) (ops : List Op) (h : decode bs = .ok ops) :
    encode ops = bs ∧ ∀ op ∈ ops, op.WF :=
  Codec.encode_decode bs hb ops h

/-- two op sequences with the same bytes are the same sequence -/
theorem encode_injective (a b : List Op) (ha : ∀ op ∈ a, op.WF) (hb : ∀ op ∈ b, op.WF)
    (h : encode a = encode b) : a = b :=
  Codec.encode_injective a b ha hb h

/-- a byte that is not a declared opcode is rejected as an invalid opcode, at its position
(after any valid prefix) -/
theorem invalid_opcode_rejected (ops : List Op) (h : ∀ op ∈ ops, op.WF) (b : Nat) (rest : List Nat)
    (hb : immBytes b = none) : decode (encode ops ++ b :: rest) = .error (.invalidOpcode b) := by
  unfold decode
  rw [decodeStream_encode_append ops h, collect_map_ok_append, decodeStream_cons]
  simp [tryFromBytes, hb, collect, Except.map]

/-- a truncated immediate is rejected as not-enough-bytes -/
theorem truncated_imm_rejected (ops : List Op) (h : ∀ op ∈ ops, op.WF) (b k : Nat) (rest : List Nat)
    (hb : immBytes b = some k) (hk : rest.length < k) :
    decode (encode ops ++ b :: rest) = .error .notEnoughBytes := by
  unfold decode
  rw [decodeStream_encode_append ops h, collect_map_ok_append, decodeStream_cons]
  simp [tryFromBytes, hb, hk, collect, Except.map]

/-- every declared opcode byte denotes an op (with any immediate word) -/
theorem valid_opcode_accepted (b k : Nat) (w : Int) (h : immBytes b = some k) : (ofOpcode b w).isSome :=
  ofOpcode_isSome_of_immBytes b k w h

/-- the set of valid opcode bytes is exactly the set declared in the specification table -/
theorem of_opcode_complete :
    ∀ b, b < 256 → ((immBytes b).isSome ↔ b ∈ Spec.table.map (·.1)) := by
  decide +kernel

/-- bytes ≥ 256 never arise; for completeness: nothing outside the table parses -/
theorem of_opcode_none_outside (b : Nat) (h : b ∉ Spec.table.map (·.1)) : immBytes b = none := by
  unfold immBytes
  split <;> first | rfl | (exfalso; apply h; decide)

/-- the spec table is exactly what the generated functions say, op by op -/
theorem table_consistent :
    Spec.table = allOps.map (fun op => (op.opcode, op.name,
      (match op.imm with | some _ => 8 | none => 0), op.shortName)) := by
  decide +kernel

/-- `allOps` has one representative of every constructor -/
theorem allOps_complete (op : Op) : ∃ o ∈ allOps, o.opcode = op.opcode ∧ o.name = op.name ∧
    o.shortName = op.shortName ∧ o.imm.isSome = op.imm.isSome := by
  cases op with
  | stackPush w => exact ⟨.stackPush 0, by simp [allOps], rfl, rfl, rfl, rfl⟩
  | _ => exact ⟨_, by simp [allOps], rfl, rfl, rfl, rfl⟩

/-- immediates: 8 big-endian bytes for `Stack.Push`, none otherwise -/
theorem imm_widths : ∀ r ∈ Spec.table, (r.2.2.1 = if r.2.1 = "Stack.Push" then 8 else 0) := by
  decide +kernel

theorem imm_big_endian (w : Int) : encodeOp (.stackPush w) = 1 :: bytesOfWord w := rfl

/-- no two ops share an opcode byte or a short name -/
theorem spec_nodup : (Spec.table.map (·.1)).Nodup ∧ (Spec.table.map (·.2.2.2)).Nodup := by
  decide +kernel

/-- the table is byte-compatible with the pinned opcode table -/
theorem spec_eq_pinned : Spec.table = Pinned.table := by
  decide +kernel

/-! non-vacuity: concrete instances of the hypotheses -/
example : ∀ op ∈ [Op.stackPush (-1), .aluAdd, .stackPush 9223372036854775807], op.WF := by decide
example : decode (encode [Op.stackPush (-1), .aluAdd]) = .ok [Op.stackPush (-1), .aluAdd] :=
  decode_encode _ (by decide)
example : immBytes 0 = none ∧ immBytes 255 = none ∧ immBytes 1 = some 8 := by decide

end Essential.C13
