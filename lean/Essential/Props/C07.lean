/-
C07 — Gas is accounted exactly and the total limit is never exceeded.
-/
import Essential.Lemmas.VmExec

set_option linter.unusedSimpArgs false
namespace Essential.C07
open Essential Spec

/-! ### the limit is never exceeded; gas arithmetic never leaves `u64` -/

theorem execStep_gas_le (child : ChildExec) (env : Env) (gas : Nat) (vm : Vm) (o : Outcome)
    (hg : gas ≤ env.limit ∧ gas ≤ u64Max) (h : execStep child env gas vm = .ok o) :
    o.gas ≤ env.limit ∧ o.gas ≤ u64Max := by
  unfold execStep at h
  split at h
  · cases h; exact hg
  · simp only [] at h
    split at h
    · cases h
    · rename_i hlim
      split at h <;> (try cases h) <;> (try (simp only [Outcome.gas]; omega))
      split at h
      · cases h
      · split at h <;> cases h <;> simp only [Outcome.gas] <;> omega

/-- **a successful execution never reports more than the total limit** (any program, any cost
function, any limit; compute children included: their sum is checked at the join) -/
theorem gas_within_limit (child : ChildExec) (env : Env) (fuel : Nat) : ∀ (gas : Nat) (vm : Vm) (g : Nat) (vm' : Vm),
    gas ≤ env.limit ∧ gas ≤ u64Max → execWith child env fuel gas vm = .ok (some (g, vm')) →
    g ≤ env.limit ∧ g ≤ u64Max := by
  induction fuel with
  | zero => intro gas vm g vm' _ h; simp [execWith] at h
  | succ fuel ih =>
    intro gas vm g vm' hg h
    unfold execWith at h
    split at h <;> try cases h
    · rename_i hs; exact execStep_gas_le _ _ _ _ _ hg hs
    · rename_i g2 vm2 hs
      exact ih _ _ _ _ (execStep_gas_le _ _ _ _ _ hg hs) h

theorem exec_gas_within_limit (fuel : Nat) (env : Env) (vm : Vm) (g : Nat) (vm' : Vm)
    (h : exec fuel env vm = .ok (some (g, vm'))) : g ≤ env.limit ∧ g ≤ u64Max :=
  gas_within_limit _ env fuel 0 vm g vm' ⟨Nat.zero_le _, Nat.zero_le _⟩ h

/-! ### out of gas: the op has no effect -/

/-- **if the next op's cost would exceed the limit (or `u64`), execution stops with the
out-of-gas error at that op** — the result carries no machine state, so the op had no effect -/
theorem out_of_gas_before_effect (child : ChildExec) (env : Env) (gas : Nat) (vm : Vm) (op : Op)
    (hop : env.ops vm.pc = some op) (h : gas + env.cost op > env.limit ∨ gas + env.cost op > u64Max) :
    execStep child env gas vm = .err (vm.pc, .outOfGas) := by
  unfold execStep
  simp only [hop]
  rw [if_pos (by omega)]

/-! ### termination: positive costs and a finite limit bound the number of steps -/

theorem execStep_gas_grows (child : ChildExec) (env : Env) (gas : Nat) (vm : Vm) (g : Nat) (vm' : Vm)
    (hc : ∀ op, 1 ≤ env.cost op) (h : execStep child env gas vm = .ok (.cont g vm')) : gas + 1 ≤ g := by
  unfold execStep at h
  split at h
  · cases h
  · rename_i op _
    have := hc op
    simp only [] at h
    split at h
    · cases h
    · split at h <;> (try cases h) <;> (try omega)
      split at h
      · cases h
      · split at h <;> cases h; omega

theorem execStep_gas_le_limit (child : ChildExec) (env : Env) (gas : Nat) (vm : Vm) (o : Outcome)
    (hg : gas ≤ env.limit) (h : execStep child env gas vm = .ok o) : o.gas ≤ env.limit := by
  unfold execStep at h
  split at h
  · cases h; exact hg
  · simp only [] at h
    split at h
    · cases h
    · split at h <;> (try cases h) <;> (try (simp only [Outcome.gas]; omega))
      split at h
      · cases h
      · split at h <;> cases h <;> simp only [Outcome.gas] <;> omega

/-- **with positive costs every execution ends within `limit + 1` loop iterations**: the model's
fuel `limit + 1` is never exhausted -/
theorem terminates (child : ChildExec) (env : Env) (hc : ∀ op, 1 ≤ env.cost op) (fuel : Nat) :
    ∀ (gas : Nat) (vm : Vm), gas ≤ env.limit → env.limit - gas < fuel →
    execWith child env fuel gas vm ≠ .ok none := by
  induction fuel with
  | zero => intro gas vm _ h; omega
  | succ fuel ih =>
    intro gas vm hg hf
    unfold execWith
    cases hs : execStep child env gas vm with
    | err e => simp
    | panic m => simp
    | abort m => simp
    | ok o =>
      cases o with
      | done g v => simp
      | cont g v =>
        simp only []
        have h1 := execStep_gas_grows child env gas vm g v hc hs
        have h2 : g ≤ env.limit := execStep_gas_le_limit child env gas vm _ hg hs
        exact ih g v h2 (by omega)

theorem exec_terminates (env : Env) (hc : ∀ op, 1 ≤ env.cost op) (vm : Vm) :
    exec (env.limit + 1) env vm ≠ .ok none :=
  terminates _ env hc _ 0 vm (Nat.zero_le _) (by omega)

/-! ### exactness: the reported gas is the sum of the costs of the executed ops -/

def sumCost (env : Env) (ops : List Op) : Nat := (ops.map env.cost).sum

theorem sumCost_append (env : Env) (a b : List Op) : sumCost env (a ++ b) = sumCost env a + sumCost env b := by
  simp [sumCost]

/-- the ops executed by the compute children that `op` spawns at `vm`, in index order
(`childTrace` = the trace of one child run) -/
def childRuns (childTrace : Env → Vm → List Op) (env : Env) (vm : Vm) : Op → List Op
  | .computeCompute =>
    match Stack.pop vm.stack with
    | .ok (stack, b) =>
      (List.range b.toNat).flatMap fun i =>
        match childVm vm stack i with
        | .ok cvm => childTrace env cvm
        | _ => []
    | _ => []
  | _ => []

/-- ghost trace of the exec loop: every executed op, each followed by the ops its compute
children executed -/
def traceWith (childTrace : Env → Vm → List Op) (child : ChildExec) (env : Env) : Nat → Nat → Vm → List Op
  | 0, _, _ => []
  | fuel+1, gas, vm =>
    match env.ops vm.pc with
    | none => []
    | some op =>
      match execStep child env gas vm with
      | .ok (.cont g vm') => op :: (childRuns childTrace env vm op ++ traceWith childTrace child env fuel g vm')
      | .ok (.done _ _) => op :: childRuns childTrace env vm op
      | _ => []

theorem sumGas_eq (l : List Nat) (t : Nat) (h : sumGas l = some t) : t = l.sum := by
  induction l generalizing t with
  | nil => simp [sumGas] at h; simp [h]
  | cons g gs ih =>
    simp only [sumGas] at h
    cases hs : sumGas gs with
    | none => rw [hs] at h; cases h
    | some t' =>
      rw [hs] at h
      simp only [] at h
      split at h
      · cases h
      · cases h; simp [ih t' hs]

theorem runChildren_gas (childTrace : Env → Vm → List Op) (child : ChildExec) (env : Env)
    (hchild : ∀ cvm cg cvm', child env cvm = .ok (cg, cvm') → cg = sumCost env (childTrace env cvm))
    (mk : Nat → Res Err Vm) (is : List Nat) (rs : List (Nat × Vm)) (h : runChildren child env mk is = .ok rs) :
    (rs.map (·.1)).sum =
      sumCost env (is.flatMap fun i => match mk i with | .ok cvm => childTrace env cvm | _ => []) := by
  induction is generalizing rs with
  | nil => simp [runChildren] at h; subst h; simp [sumCost]
  | cons i is ih =>
    unfold runChildren at h
    cases hm : mk i with
    | err e => rw [hm] at h; cases h
    | panic m => rw [hm] at h; cases h
    | abort m => rw [hm] at h; cases h
    | ok cvm =>
      rw [hm] at h
      simp only [] at h
      cases hc : child env cvm with
      | err e => rw [hc] at h; cases h
      | panic m => rw [hc] at h; cases h
      | abort m => rw [hc] at h; cases h
      | ok r =>
        rw [hc] at h
        simp only [] at h
        cases hr : runChildren child env mk is with
        | err e => rw [hr] at h; cases h
        | panic m => rw [hr] at h; cases h
        | abort m => rw [hr] at h; cases h
        | ok rs' =>
          rw [hr] at h
          cases h
          have := ih rs' hr
          have hg := hchild cvm r.1 r.2 (by rw [hc])
          simp only [List.map_cons, List.sum_cons, List.flatMap_cons, hm, sumCost_append, this, hg]

/-- the gas a `Compute` adds is the sum of the costs of everything its children executed -/
theorem compute_gas (childTrace : Env → Vm → List Op) (child : ChildExec) (env : Env)
    (hchild : ∀ cvm cg cvm', child env cvm = .ok (cg, cvm') → cg = sumCost env (childTrace env cvm))
    (vm vm' : Vm) (f : Flow) (h : compute child env vm = .ok (vm', f)) :
    ∃ pc h', f = .computeResult pc (sumCost env (childRuns childTrace env vm .computeCompute)) h' := by
  unfold compute at h
  simp only [Res.bind_eq_bind] at h
  cases hp : Stack.pop vm.stack with
  | err e => simp [hp, Res.mapErr, Res.bind] at h
  | panic m => simp [hp, Res.mapErr, Res.bind] at h
  | abort m => simp [hp, Res.mapErr, Res.bind] at h
  | ok p =>
    obtain ⟨stack, b⟩ := p
    simp only [hp, Res.mapErr, Res.bind] at h
    split at h
    · cases h
    · split at h
      · cases h
      · split at h
        · cases h
        · cases hr : runChildren child env (childVm vm stack) (List.range b.toNat) with
          | err e => simp [hr, Res.bind] at h
          | panic m => simp [hr, Res.bind] at h
          | abort m => simp [hr, Res.bind] at h
          | ok rs =>
            simp only [hr] at h
            have hg := runChildren_gas childTrace child env hchild _ _ rs hr
            split at h
            · cases h
            · rename_i total hs
              have ht := sumGas_eq _ _ hs
              cases he : computeEffects vm.memory vm.pc vm.halt rs with
              | err e => simp [he, Res.bind] at h
              | panic m => simp [he, Res.bind] at h
              | abort m => simp [he, Res.bind] at h
              | ok q =>
                simp only [he, Res.pure_eq_ok, Res.ok.injEq, Prod.mk.injEq] at h
                refine ⟨q.2.1, q.2.2, ?_⟩
                rw [← h.2, ht, hg]
                simp [childRuns, hp]

/-! only `Compute` can return a `ComputeResult` -/

def NoCR (r : Res Err (Vm × Flow)) : Prop := ∀ vm' pc g h, r ≠ .ok (vm', .computeResult pc g h)

theorem noCR_bind {α} (x : Res Err α) (f : α → Res Err (Vm × Flow)) (h : ∀ a, NoCR (f a)) : NoCR (x.bind f) := by
  intro vm' pc g hh e
  cases x with
  | ok a => exact h a vm' pc g hh e
  | err _ => cases e
  | panic _ => cases e
  | abort _ => cases e
theorem noCR_stk (vm : Vm) (r : Res Err Stack) : NoCR (stk vm r) := by
  unfold stk; apply noCR_bind; intro a; simp [NoCR]
theorem noCR_err (e : Err) : NoCR (.err e) := by simp [NoCR]
theorem noCR_ok (v : Vm) (f : Flow) (hf : ∀ pc g h, f ≠ .computeResult pc g h) : NoCR (.ok (v, f)) := by
  intro vm' pc g h e; cases e; exact hf pc g h rfl

theorem haltIf_flow (s s' : Stack) (f : Flow) (h : Tcf.haltIf s = .ok (s', f)) :
    ∀ pc g hh, f ≠ .computeResult pc g hh := by
  unfold Tcf.haltIf at h
  simp only [Res.bind_eq_bind] at h
  cases hp : Stack.pop s with
  | ok p =>
    simp only [hp, Res.bind] at h
    split at h
    · cases h
    · simp only [Res.pure_eq_ok, Res.ok.injEq, Prod.mk.injEq] at h
      intro pc g hh e; rw [← h.2] at e; split at e <;> cases e
  | err e => simp [hp, Res.bind] at h
  | panic m => simp [hp, Res.bind] at h
  | abort m => simp [hp, Res.bind] at h

theorem jumpIf_flow (s s' : Stack) (pc0 : Nat) (f : Flow) (h : Tcf.jumpIf s pc0 = .ok (s', f)) :
    ∀ pc g hh, f ≠ .computeResult pc g hh := by
  unfold Tcf.jumpIf at h
  simp only [Res.bind_eq_bind] at h
  cases hp : Stack.pop2 s with
  | ok p =>
    simp only [hp, Res.bind] at h
    split at h
    · cases h
    · cases h; intro _ _ _ e; cases e
    · split at h
      · cases h
      · split at h
        · split at h <;> cases h <;> (intro _ _ _ e; cases e)
        · split at h <;> cases h <;> (intro _ _ _ e; cases e)
  | err e => simp [hp, Res.bind] at h
  | panic m => simp [hp, Res.bind] at h
  | abort m => simp [hp, Res.bind] at h

theorem noCR_of_flow {α} (x : Res Err (α × Flow)) (k : α → Vm)
    (hx : ∀ a f, x = .ok (a, f) → ∀ pc g hh, f ≠ .computeResult pc g hh) :
    NoCR (x.bind fun (a, f) => .ok (k a, f)) := by
  intro vm' pc g hh e
  cases x with
  | ok p =>
    obtain ⟨a, f⟩ := p
    simp only [Res.bind, Res.ok.injEq, Prod.mk.injEq] at e
    exact hx a f rfl pc g hh e.2
  | err _ => cases e
  | panic _ => cases e
  | abort _ => cases e

macro "noCR_tac" : tactic => `(tactic| repeat' (first
  | exact noCR_stk _ _
  | exact noCR_err _
  | (apply noCR_ok; intros; simp; done)
  | (apply noCR_bind; intro _)
  | split))

theorem stepOp_noCR (child : ChildExec) (env : Env) (vm : Vm) (op : Op) (hne : op ≠ .computeCompute) :
    NoCR (stepOp child env vm op) := by
  cases op with
  | computeCompute => exact absurd rfl hne
  | totalControlFlowHaltIf =>
    intro vm' pc g hh e
    simp only [stepOp] at e
    cases hx : Tcf.haltIf vm.stack with
    | ok p =>
      obtain ⟨a, f⟩ := p
      simp only [hx, Res.bind, Res.ok.injEq, Prod.mk.injEq] at e
      exact haltIf_flow _ a f hx pc g hh e.2
    | err _ => simp [hx, Res.bind] at e
    | panic _ => simp [hx, Res.bind] at e
    | abort _ => simp [hx, Res.bind] at e
  | totalControlFlowJumpIf =>
    intro vm' pc g hh e
    simp only [stepOp] at e
    cases hx : Tcf.jumpIf vm.stack vm.pc with
    | ok p =>
      obtain ⟨a, f⟩ := p
      simp only [hx, Res.bind, Res.ok.injEq, Prod.mk.injEq] at e
      exact jumpIf_flow _ a _ f hx pc g hh e.2
    | err _ => simp [hx, Res.bind] at e
    | panic _ => simp [hx, Res.bind] at e
    | abort _ => simp [hx, Res.bind] at e
  | _ => simp only [stepOp]; noCR_tac

/-- one loop iteration adds exactly the cost of its op plus the cost of everything the op's
compute children executed -/
theorem execStep_gas_exact (childTrace : Env → Vm → List Op) (child : ChildExec) (env : Env)
    (hchild : ∀ cvm cg cvm', child env cvm = .ok (cg, cvm') → cg = sumCost env (childTrace env cvm))
    (gas : Nat) (vm : Vm) (op : Op) (hop : env.ops vm.pc = some op) (o : Outcome)
    (h : execStep child env gas vm = .ok o) :
    o.gas = gas + env.cost op + sumCost env (childRuns childTrace env vm op) := by
  unfold execStep at h
  simp only [hop] at h
  split at h
  · cases h
  · cases hs : stepOp child env vm op with
    | err e => simp [hs] at h
    | panic m => simp [hs] at h
    | abort m => simp [hs] at h
    | ok r =>
      obtain ⟨vm', f⟩ := r
      by_cases hc : op = .computeCompute
      · subst hc
        simp only [stepOp] at hs
        obtain ⟨pc, hh, rfl⟩ := compute_gas childTrace child env hchild vm vm' f hs
        have e : stepOp child env vm .computeCompute = compute child env vm := rfl
        rw [e, hs] at h
        simp only [] at h
        split at h
        · cases h
        · split at h <;> cases h <;> simp [Outcome.gas]
      · have hn := stepOp_noCR child env vm op hc
        have hcr : childRuns childTrace env vm op = [] := by cases op <;> first | rfl | exact absurd rfl hc
        rw [hs] at h
        cases f with
        | computeResult pc g hh => exact absurd hs (hn vm' pc g hh)
        | next => cases h; simp [Outcome.gas, hcr, sumCost]
        | pc n => cases h; simp [Outcome.gas, hcr, sumCost]
        | halt => cases h; simp [Outcome.gas, hcr, sumCost]
        | computeEnd => cases h; simp [Outcome.gas, hcr, sumCost]

/-- **gas is exact**: a successful execution reports exactly the sum of the costs of all
operations it executed, including those executed by compute children -/
theorem gas_exact (childTrace : Env → Vm → List Op) (child : ChildExec) (env : Env)
    (hchild : ∀ cvm cg cvm', child env cvm = .ok (cg, cvm') → cg = sumCost env (childTrace env cvm))
    (fuel : Nat) : ∀ (gas : Nat) (vm : Vm) (g : Nat) (vm' : Vm),
    execWith child env fuel gas vm = .ok (some (g, vm')) →
    g = gas + sumCost env (traceWith childTrace child env fuel gas vm) := by
  induction fuel with
  | zero => intro gas vm g vm' h; simp [execWith] at h
  | succ fuel ih =>
    intro gas vm g vm' h
    unfold execWith at h
    unfold traceWith
    cases hop : env.ops vm.pc with
    | none =>
      have : execStep child env gas vm = .ok (.done gas vm) := by unfold execStep; simp [hop]
      rw [this] at h
      cases h; simp [sumCost]
    | some op =>
      simp only []
      cases hs : execStep child env gas vm with
      | err e => rw [hs] at h; cases h
      | panic m => rw [hs] at h; cases h
      | abort m => rw [hs] at h; cases h
      | ok o =>
        have hx := execStep_gas_exact childTrace child env hchild gas vm op hop o hs
        rw [hs] at h
        cases o with
        | done g2 v2 =>
          cases h
          simp only [Outcome.gas] at hx
          simp only [sumCost, List.map_cons, List.sum_cons] at hx ⊢
          omega
        | cont g2 v2 =>
          simp only [] at h
          have := ih g2 v2 g vm' h
          simp only [Outcome.gas] at hx
          rw [this, hx]
          simp only [sumCost, List.map_cons, List.sum_cons, List.map_append, List.sum_append]
          omega

/-- trace of one compute child (children cannot spawn children) -/
def childTrace (fuel : Nat) : Env → Vm → List Op :=
  fun env cvm => traceWith (fun _ _ => []) noChild env fuel 0 cvm

/-- trace of a top-level execution -/
def execTrace (fuel : Nat) (env : Env) (vm : Vm) : List Op :=
  traceWith (childTrace fuel) (execChild fuel) env fuel 0 vm

theorem execChild_gas_exact (fuel : Nat) (env : Env) (cvm : Vm) (cg : Nat) (cvm' : Vm)
    (h : execChild fuel env cvm = .ok (cg, cvm')) : cg = sumCost env (childTrace fuel env cvm) := by
  unfold execChild at h
  cases hx : execWith noChild env fuel 0 cvm with
  | ok r =>
    rw [hx] at h
    cases r with
    | none => cases h
    | some p =>
      obtain ⟨pg, pv⟩ := p
      simp only [Res.ok.injEq, Prod.mk.injEq] at h
      obtain ⟨rfl, rfl⟩ := h
      have := gas_exact (fun _ _ => []) noChild env (by intro _ _ _ hh; cases hh) fuel 0 cvm pg pv hx
      simpa [childTrace] using this
  | err e => rw [hx] at h; cases h
  | panic m => rw [hx] at h; cases h
  | abort m => rw [hx] at h; cases h

/-- **`Vm::exec` reports exactly the audited cost of everything it and its compute children executed** -/
theorem exec_gas_exact (fuel : Nat) (env : Env) (vm : Vm) (g : Nat) (vm' : Vm)
    (h : exec fuel env vm = .ok (some (g, vm'))) : g = sumCost env (execTrace fuel env vm) := by
  have := gas_exact (childTrace fuel) (execChild fuel) env (execChild_gas_exact fuel env) fuel 0 vm g vm' h
  simpa [execTrace] using this

/-! ### the two inputs that violated the property before the `fix:` commit, now in the model -/

/-- children's gas counts against the limit: 3 children × 2 ops of cost 1 plus the parent's
2 ops exceed a limit of 7 -/
example : sumGas [2, 2, 2] = some 6 ∧ ¬ (2 + 6 ≤ 7) := by decide
/-- and a sum beyond `u64::MAX` is reported, not wrapped -/
example : sumGas [4611686018427387904, 4611686018427387904, 4611686018427387904, 4611686018427387904] = none := by
  decide

end Essential.C07
