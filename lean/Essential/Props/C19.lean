/-
C19 — Contract signatures bind the signer to the contract's content.
ECDSA itself is a parameter: `E.Correct` is an explicit hypothesis, never an axiom.
-/
import Essential.Model.Sign
import Essential.Props.C17
import Essential.Props.C12

set_option linter.unusedSimpArgs false
namespace Essential.C19
open Essential

/-- **sign then recover returns the signer's key, and verification succeeds** -/
theorem sign_recover (E : Ecdsa) (hE : E.Correct) (sha : List Nat → List Nat) (preds : List Predicate)
    (salt sk : List Nat) :
    recoverContract E sha preds salt (signContract E sha preds salt sk).1 (signContract E sha preds salt sk).2
      = some (E.pk sk) ∧
    verifyContract E sha preds salt (signContract E sha preds salt sk).1 (signContract E sha preds salt sk).2 = true := by
  obtain ⟨h1, h2⟩ := hE (contractAddr sha preds salt) sk
  have : recoverContract E sha preds salt (signContract E sha preds salt sk).1 (signContract E sha preds salt sk).2
      = some (E.pk sk) := by
    unfold recoverContract recoverHash signContract
    rw [if_neg (by omega), h2]
  exact ⟨this, by unfold verifyContract; rw [this]; rfl⟩

/-- **independent of predicate order**: the same signature is produced and accepted -/
theorem sign_perm_invariant (E : Ecdsa) (sha : List Nat → List Nat) (p₁ p₂ : List Predicate) (salt sk sig : List Nat)
    (id : Nat) (h : p₁.Perm p₂) :
    signContract E sha p₁ salt sk = signContract E sha p₂ salt sk ∧
    recoverContract E sha p₁ salt sig id = recoverContract E sha p₂ salt sig id := by
  unfold signContract recoverContract
  rw [C17.contract_addr_perm sha p₁ p₂ salt h]
  exact ⟨rfl, rfl⟩

/-- **tampering changes the signed message**: if the multiset of predicate addresses or the
salt differs, the bytes hashed into the signed content address differ (so recovery returns
the signer's key only if SHA-256 collides or the scheme recovers one key for two messages) -/
theorem tamper_changes_message (a₁ a₂ : List (List Nat)) (s₁ s₂ : List Nat)
    (h1 : ∀ a ∈ a₁, a.length = 32) (h2 : ∀ a ∈ a₂, a.length = 32) (hs : s₁.length = s₂.length) (hl : a₁.length = a₂.length)
    (hne : ¬ a₁.Perm a₂ ∨ s₁ ≠ s₂) : contractPreimage a₁ s₁ ≠ contractPreimage a₂ s₂ := by
  intro e
  obtain ⟨p, s⟩ := C17.contract_preimage_injective a₁ a₂ s₁ s₂ h1 h2 hs hl e
  rcases hne with hne | hne
  · exact hne p
  · exact hne s

/-- a different number of predicates changes the length of the hashed bytes -/
theorem tamper_changes_length (a₁ a₂ : List (List Nat)) (s : List Nat)
    (h1 : ∀ a ∈ a₁, a.length = 32) (h2 : ∀ a ∈ a₂, a.length = 32) (hl : a₁.length ≠ a₂.length) :
    contractPreimage a₁ s ≠ contractPreimage a₂ s := by
  intro e
  have len : ∀ (l : List (List Nat)), (∀ a ∈ l, a.length = 32) → (sortAddrs l).flatten.length = 32 * l.length := by
    intro l hl'
    have p := List.mergeSort_perm l addrLe
    have m : ∀ a ∈ sortAddrs l, a.length = 32 := fun a ha => hl' a (p.mem_iff.mp ha)
    have gen : ∀ (x : List (List Nat)), (∀ a ∈ x, a.length = 32) → x.flatten.length = 32 * x.length := by
      intro x; induction x with
      | nil => intro _; rfl
      | cons y ys ih => intro hy; simp [hy y (by simp), ih (fun a ha => hy a (by simp [ha]))]; omega
    rw [gen _ m]; unfold sortAddrs; rw [p.length_eq]
  have := congrArg List.length e
  simp only [contractPreimage, List.length_append, len a₁ h1, len a₂ h2] at this
  omega

/-- **a malformed recovery id is an error** (never a panic: the model function is total) -/
theorem malformed_id_is_error (E : Ecdsa) (hash sig : List Nat) (id : Nat) (h : id > 3) :
    recoverHash E hash sig id = none := by
  unfold recoverHash; rw [if_pos h]

theorem malformed_sig_is_error (E : Ecdsa) (hash sig : List Nat) (id : Nat) (h : E.recover hash sig id = .badSig) :
    recoverHash E hash sig id = none := by
  unfold recoverHash; split <;> simp [h]

/-! ### encodings are injective and are the ones the VM op uses -/

theorem wordsOfBytes_injective : ∀ (n : Nat) (a b : List Nat), a.length = 8 * n → b.length = 8 * n → AllBytes a → AllBytes b →
    wordsOfBytes a = wordsOfBytes b → a = b := by
  intro n a b ha hb ba bb h
  rw [← C18.bytes_words_bytes n a ha ba, ← C18.bytes_words_bytes n b hb bb, h]

theorem wordsOfBytes_length : ∀ (n : Nat) (bs : List Nat), bs.length = 8 * n → (wordsOfBytes bs).length = n
  | 0, bs, hl => by
    have : bs = [] := List.length_eq_zero_iff.mp (by omega)
    subst this; rfl
  | n+1, bs, hl => by
    match bs, hl with
    | a :: b :: c :: d :: e :: f :: g :: h :: rest, hl =>
      have hr : rest.length = 8 * n := by simp at hl; omega
      simp [wordsOfBytes, wordsOfBytes_length n rest hr]

/-- the 5-word public-key encoding is injective on 33-byte keys -/
theorem encode_public_key_injective (k₁ k₂ : List Nat) (h1 : k₁.length = 33) (h2 : k₂.length = 33)
    (b1 : AllBytes k₁) (b2 : AllBytes k₂) (h : Crypto.encodePublicKey k₁ = Crypto.encodePublicKey k₂) : k₁ = k₂ := by
  unfold Crypto.encodePublicKey word4OfBytes32 at h
  have l1 : (k₁.take 32).length = 8 * 4 := by simp; omega
  have l2 : (k₂.take 32).length = 8 * 4 := by simp; omega
  have w1 : (wordsOfBytes (k₁.take 32)).length = 4 := by rw [C12.wordsOfBytes_32 _ l1]; rfl
  have w2 : (wordsOfBytes (k₂.take 32)).length = 4 := by rw [C12.wordsOfBytes_32 _ l2]; rfl
  obtain ⟨e1, e2⟩ := List.append_inj h (by omega)
  have t := wordsOfBytes_injective 4 _ _ l1 l2 (fun x hx => b1 x (List.mem_of_mem_take hx))
    (fun x hx => b2 x (List.mem_of_mem_take hx)) e1
  have g1 : k₁.getD 32 0 < 256 := by
    rw [List.getD_eq_getElem?_getD, List.getElem?_eq_getElem (by omega)]; exact b1 _ (List.getElem_mem _)
  have g2 : k₂.getD 32 0 < 256 := by
    rw [List.getD_eq_getElem?_getD, List.getElem?_eq_getElem (by omega)]; exact b2 _ (List.getElem_mem _)
  have e3 : k₁.getD 32 0 = k₂.getD 32 0 := by
    simp only [List.cons.injEq, and_true, wordOfBytes] at e2
    split at e2 <;> split at e2 <;> omega
  have d1 : k₁ = k₁.take 32 ++ [k₁.getD 32 0] := by
    have dd : k₁.drop 32 = [k₁.getD 32 0] := by
      rw [List.drop_eq_getElem_cons (by omega : 32 < k₁.length)]
      simp [List.getD_eq_getElem?_getD, List.getElem?_eq_getElem (by omega : 32 < k₁.length),
        List.drop_of_length_le (by omega : k₁.length ≤ 33)]
    rw [← dd, List.take_append_drop]
  have d2 : k₂ = k₂.take 32 ++ [k₂.getD 32 0] := by
    have dd : k₂.drop 32 = [k₂.getD 32 0] := by
      rw [List.drop_eq_getElem_cons (by omega : 32 < k₂.length)]
      simp [List.getD_eq_getElem?_getD, List.getElem?_eq_getElem (by omega : 32 < k₂.length),
        List.drop_of_length_le (by omega : k₂.length ≤ 33)]
    rw [← dd, List.take_append_drop]
  rw [d1, d2, t, e3]

/-- the 9-word signature encoding is injective -/
theorem encode_signature_injective (s₁ s₂ : List Nat) (i₁ i₂ : Nat) (h1 : s₁.length = 64) (h2 : s₂.length = 64)
    (b1 : AllBytes s₁) (b2 : AllBytes s₂) (h : encodeSignature s₁ i₁ = encodeSignature s₂ i₂) : s₁ = s₂ ∧ i₁ = i₂ := by
  unfold encodeSignature at h
  have w : ∀ (s : List Nat), s.length = 64 → (wordsOfBytes s).length = 8 := fun s hs =>
    wordsOfBytes_length 8 s (by omega)
  obtain ⟨e1, e2⟩ := List.append_inj h (by rw [w s₁ h1, w s₂ h2])
  refine ⟨wordsOfBytes_injective 8 _ _ (by omega) (by omega) b1 b2 e1, ?_⟩
  simp only [List.cons.injEq, and_true] at e2
  omega

/-- the VM's `RecoverSecp256k1` pushes exactly the sign crate's encoding of the recovered key
(both are `Crypto.encodePublicKey`; see `C12.recover_op_spec`) -/
theorem encoding_matches_vm_op (k : List Nat) :
    Crypto.encodePublicKey k = wordsOfBytes (k.take 32) ++ [wordOfBytes [0, 0, 0, 0, 0, 0, 0, k.getD 32 0]] :=
  C12.encode_public_key_spec k

/-! non-vacuity: a toy scheme that is `Correct` -/
def toy : Ecdsa where
  sign := fun h sk => (h ++ sk, 1)
  recover := fun h sig _ => if sig.take h.length = h then .key (sig.drop h.length) else .unrecoverable
  pk := fun sk => sk

example : toy.Correct := by
  intro h sk
  simp [toy]

end Essential.C19
