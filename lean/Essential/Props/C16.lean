/-
C16 — Validators accept exactly the documented limits; computed sets stay valid.

The limits appear as *literals* in the statements; the model uses the constants scraped
from the Rust sources on every run (`Gen/Consts.lean`), so a changed constant breaks these
proofs.
-/
import Essential.Model.Types

set_option linter.unusedSimpArgs false
namespace Essential.C16
open Essential

theorem limits_match_source :
    Consts.maxSolutions = 100 ∧ Consts.maxPredicateData = 100 ∧ Consts.maxValueSize = 10000 ∧
    Consts.maxKeySize = 1000 ∧ Consts.maxStateMutations = 1000 ∧ Consts.maxNodes = 1000 ∧
    Consts.maxEdges = 1000 ∧ Consts.maxPredicates = 100 := by decide

theorem checkSolutionsLoop_iff (sols : List Solution) :
    checkSolutionsLoop sols = .ok () ↔ ∀ s ∈ sols, s.data.length ≤ 100 ∧ ∀ v ∈ s.data, v.length ≤ 10000 := by
  induction sols with
  | nil => simp [checkSolutionsLoop]
  | cons s rest ih =>
    unfold checkSolutionsLoop
    have h1 : Consts.maxPredicateData = 100 := rfl
    have h2 : Consts.maxValueSize = 10000 := rfl
    have hany : (s.data.any fun v => decide (v.length > Consts.maxValueSize)) = true ↔ ∃ v ∈ s.data, v.length > 10000 := by
      rw [List.any_eq_true]; simp [h2]
    by_cases hd : s.data.length > Consts.maxPredicateData
    · rw [if_pos hd]
      constructor
      · intro h; cases h
      · intro h; have := (h s (by simp)).1; omega
    · rw [if_neg hd]
      by_cases hv : ∃ v ∈ s.data, v.length > 10000
      · rw [if_pos (hany.mpr hv)]
        constructor
        · intro h; cases h
        · intro h
          obtain ⟨v, hvm, hvl⟩ := hv
          have := (h s (by simp)).2 v hvm
          omega
      · rw [if_neg (fun h => hv (hany.mp h)), ih]
        constructor
        · intro h x hx
          simp only [List.mem_cons] at hx
          rcases hx with rfl | hx
          · exact ⟨by omega, fun v hvm => by
              by_cases hc : v.length ≤ 10000
              · exact hc
              · exact absurd ⟨v, hvm, by omega⟩ hv⟩
          · exact h x hx
        · intro h x hx; exact h x (by simp [hx])

/-- **`check_solutions`**: 1..=100 solutions, each with at most 100 slots of at most 10000 words -/
theorem check_solutions_iff (sols : List Solution) :
    checkSolutions sols = .ok () ↔
      1 ≤ sols.length ∧ sols.length ≤ 100 ∧ ∀ s ∈ sols, s.data.length ≤ 100 ∧ ∀ v ∈ s.data, v.length ≤ 10000 := by
  unfold checkSolutions
  have h1 : Consts.maxSolutions = 100 := rfl
  by_cases he : sols = []
  · subst he; simp
  · have : 1 ≤ sols.length := by
      cases sols with
      | nil => exact absurd rfl he
      | cons a b => simp
    simp only [he, if_false]
    by_cases ht : sols.length > Consts.maxSolutions
    · simp only [ht, if_true]
      constructor
      · intro h; cases h
      · intro h; omega
    · simp only [ht, if_false, checkSolutionsLoop_iff]
      constructor
      · intro h; exact ⟨this, by omega, h⟩
      · intro h; exact h.2.2

theorem checkMutLoop_iff (l : List (List Nat × List Int × List Int)) : ∀ (seen : List (List Nat × List Int)),
    checkMutLoop seen l = .ok () ↔
      (∀ x ∈ l, x.2.1.length ≤ 1000 ∧ x.2.2.length ≤ 10000) ∧
      (l.map fun x => (x.1, x.2.1)).Nodup ∧ ∀ x ∈ l, (x.1, x.2.1) ∉ seen := by
  induction l with
  | nil => intro seen; simp [checkMutLoop]
  | cons x rest ih =>
    intro seen
    obtain ⟨c, k, v⟩ := x
    unfold checkMutLoop
    have h1 : Consts.maxKeySize = 1000 := rfl
    have h2 : Consts.maxValueSize = 10000 := rfl
    by_cases hs : seen.contains (c, k) = true
    · rw [if_pos hs]
      constructor
      · intro h; cases h
      · intro h; exact absurd (List.contains_iff_mem.mp hs) (h.2.2 (c, k, v) (by simp))
    · rw [if_neg hs]
      have hs' : (c, k) ∉ seen := fun hm => hs (List.contains_iff_mem.mpr hm)
      by_cases hk : k.length > Consts.maxKeySize
      · rw [if_pos hk]
        constructor
        · intro h; cases h
        · intro h; have := (h.1 (c, k, v) (by simp)).1; simp at this; omega
      · rw [if_neg hk]
        by_cases hv : v.length > Consts.maxValueSize
        · rw [if_pos hv]
          constructor
          · intro h; cases h
          · intro h; have := (h.1 (c, k, v) (by simp)).2; simp at this; omega
        · rw [if_neg hv, ih]
          constructor
          · rintro ⟨a1, a2, a3⟩
            refine ⟨?_, ?_, ?_⟩
            · intro y hy
              simp only [List.mem_cons] at hy
              rcases hy with rfl | hy
              · exact ⟨by simp; omega, by simp; omega⟩
              · exact a1 y hy
            · simp only [List.map_cons, List.nodup_cons]
              refine ⟨?_, a2⟩
              intro hm
              simp only [List.mem_map] at hm
              obtain ⟨y, hy, hye⟩ := hm
              have := a3 y hy
              rw [hye] at this
              exact this (by simp)
            · intro y hy
              simp only [List.mem_cons] at hy
              rcases hy with rfl | hy
              · exact hs'
              · intro hm; exact a3 y hy (by simp [hm])
          · rintro ⟨a1, a2, a3⟩
            simp only [List.map_cons, List.nodup_cons] at a2
            refine ⟨fun y hy => a1 y (by simp [hy]), a2.2, ?_⟩
            intro y hy hm
            simp only [List.mem_cons] at hm
            rcases hm with hm | hm
            · exact a2.1 (by rw [← hm]; exact List.mem_map.mpr ⟨y, hy, rfl⟩)
            · exact a3 y (by simp [hy]) hm

/-- **`check_set`** accepts a set exactly when it has 1..=100 solutions, each with at most 100
predicate-data slots of at most 10000 words, at most 1000 mutations in total with keys of at
most 1000 and values of at most 10000 words, and no slot (contract, key) mutated twice -/
theorem check_set_iff (sols : List Solution) :
    checkSet sols = .ok () ↔
      1 ≤ sols.length ∧ sols.length ≤ 100 ∧
      (∀ s ∈ sols, s.data.length ≤ 100 ∧ ∀ v ∈ s.data, v.length ≤ 10000) ∧
      (sols.map fun s => s.mutations.length).sum ≤ 1000 ∧
      (∀ x ∈ setMutations sols, x.2.1.length ≤ 1000 ∧ x.2.2.length ≤ 10000) ∧
      ((setMutations sols).map fun x => (x.1, x.2.1)).Nodup := by
  unfold checkSet
  have hm : Consts.maxStateMutations = 1000 := rfl
  cases hcs : checkSolutions sols with
  | error e =>
    simp only []
    constructor
    · intro h; cases h
    · intro h
      have := (check_solutions_iff sols).mpr ⟨h.1, h.2.1, h.2.2.1⟩
      rw [hcs] at this; cases this
  | ok u =>
    have h0 := (check_solutions_iff sols).mp (by rw [hcs])
    simp only [checkSetStateMutations]
    by_cases ht : (sols.map fun s => s.mutations.length).sum > Consts.maxStateMutations
    · simp only [ht, if_true]
      constructor
      · intro h; cases h
      · intro h; omega
    · simp only [ht, if_false, checkMutLoop_iff]
      constructor
      · rintro ⟨a1, a2, _⟩; exact ⟨h0.1, h0.2.1, h0.2.2, by omega, a1, a2⟩
      · intro h; exact ⟨h.2.2.2.2.1, h.2.2.2.2.2, by simp⟩

theorem nodup_of_flatMap_mem {α β} (f : α → List β) (l : List α) (a : α) (ha : a ∈ l)
    (h : (l.flatMap f).Nodup) : (f a).Nodup := by
  induction l with
  | nil => cases ha
  | cons x xs ih =>
    simp only [List.flatMap_cons] at h
    have := List.nodup_append.mp h
    simp only [List.mem_cons] at ha
    rcases ha with rfl | ha
    · exact this.1
    · exact ih ha this.2.1

/-- in particular no *solution* mutates the same key twice (the clause as worded in the property) -/
theorem check_set_no_solution_dup (sols : List Solution) (h : checkSet sols = .ok ()) (s : Solution) (hs : s ∈ sols) :
    (s.mutations.map (·.1)).Nodup := by
  have hn := ((check_set_iff sols).mp h).2.2.2.2.2
  unfold setMutations at hn
  rw [List.map_flatMap] at hn
  have := nodup_of_flatMap_mem _ sols s hs hn
  simp only [List.map_map] at this
  have e : (s.mutations.map ((fun (x : List Nat × List Int × List Int) => (x.1, x.2.1)) ∘
        fun (x : List Int × List Int) => (s.contract, x.1, x.2))) =
      (s.mutations.map (·.1)).map fun k => (s.contract, k) := by simp [Function.comp]
  rw [e] at this
  exact List.Pairwise.of_map (fun k => (s.contract, k)) (fun a b hab he => hab (by rw [he])) this

/-- **predicate / contract validation**: exactly up to 1000 nodes, 1000 edges, 100 predicates;
a signed contract additionally needs a recoverable signature -/
theorem check_predicate_iff (p : Predicate) :
    checkPredicate p = .ok () ↔ p.nodes.length ≤ 1000 ∧ p.edges.length ≤ 1000 := by
  unfold checkPredicate
  have h1 : Consts.maxNodes = 1000 := rfl
  have h2 : Consts.maxEdges = 1000 := rfl
  by_cases a : p.nodes.length > Consts.maxNodes
  · simp only [a, if_true]; constructor
    · intro h; cases h
    · intro h; omega
  · by_cases b : p.edges.length > Consts.maxEdges
    · simp only [a, b, if_true, if_false]; constructor
      · intro h; cases h
      · intro h; omega
    · simp only [a, b, if_false]; constructor
      · intro _; omega
      · intro _; trivial

theorem checkContractFrom_iff (ps : List Predicate) : ∀ i,
    checkContractFrom i ps = .ok () ↔ ∀ p ∈ ps, p.nodes.length ≤ 1000 ∧ p.edges.length ≤ 1000 := by
  induction ps with
  | nil => intro i; simp [checkContractFrom]
  | cons p ps ih =>
    intro i
    unfold checkContractFrom
    cases hc : checkPredicate p with
    | error e =>
      simp only []
      constructor
      · intro h; cases h
      · intro h
        have := (check_predicate_iff p).mpr (h p (by simp))
        rw [hc] at this; cases this
    | ok u =>
      have hp := (check_predicate_iff p).mp (by rw [hc])
      simp only [ih]
      constructor
      · intro h x hx
        simp only [List.mem_cons] at hx
        rcases hx with rfl | hx
        · exact hp
        · exact h x hx
      · intro h x hx; exact h x (by simp [hx])

theorem check_contract_iff (ps : List Predicate) :
    checkContract ps = .ok () ↔ ps.length ≤ 100 ∧ ∀ p ∈ ps, p.nodes.length ≤ 1000 ∧ p.edges.length ≤ 1000 := by
  unfold checkContract
  have h1 : Consts.maxPredicates = 100 := rfl
  by_cases a : ps.length > Consts.maxPredicates
  · simp only [a, if_true]; constructor
    · intro h; cases h
    · intro h; omega
  · simp only [a, if_false, checkContractFrom_iff]
    constructor
    · intro h; exact ⟨by omega, h⟩
    · intro h; exact h.2

theorem check_signed_iff (recovers : Bool) (ps : List Predicate) :
    checkSignedContract recovers ps = .ok () ↔
      recovers = true ∧ ps.length ≤ 100 ∧ ∀ p ∈ ps, p.nodes.length ≤ 1000 ∧ p.edges.length ≤ 1000 := by
  unfold checkSignedContract
  cases recovers <;> simp [check_contract_iff]

/-! non-vacuity -/
example : checkSet [{ contract := [1], predicate := [2], data := [[1, 2]], mutations := [([1], [2]), ([2], [3])] },
                    { contract := [1], predicate := [3], data := [], mutations := [([3], [])] }] = .ok () := by rfl
example : checkSet [{ contract := [1], predicate := [2], data := [], mutations := [([1], [2])] },
                    { contract := [1], predicate := [3], data := [], mutations := [([1], [5])] }]
            = .error .multipleMutationsForSlot := by rfl

end Essential.C16
