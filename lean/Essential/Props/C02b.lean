/-
C02 (continued) — the completion order of Compute children, threaded through `Vm::exec`: an execution in which every `Compute` op
collects its children under an arbitrary (fair) completion order and keeps an arbitrary child's error gives the result of the
sequential execution, step for step.
-/
import Essential.Props.C02
import Essential.Lemmas.VmExec

set_option linter.unusedSimpArgs false
namespace Essential.C02
open Essential Essential.Sched Spec

/-! ### the exec loop with a scheduler at every `Compute` -/

/-- `compute` with the collection of the children left open -/
def computeWith (run : (Nat → Res Err Vm) → Nat → Res Err (List (Nat × Vm))) (env : Env) (vm : Vm) : Res Err (Vm × Flow) := do
  let (stack, breadth) ← (Stack.pop vm.stack).mapErr fun _ => .computeStackEmpty
  if breadth < 1 then .err .computeInvalidBreadth else
  if ¬ (vm.parentMemory.length < Consts.maxComputeDepth) then .err .computeDepthReached else
  if breadth.toNat > env.maxBreadth then .abort "compute breadth exhausts memory" else
  let rs ← run (childVm vm stack) breadth.toNat
  match sumGas (rs.map (·.1)) with
  | none => .err .outOfGas
  | some total =>
    let (mem, pc, halt) ← computeEffects vm.memory vm.pc vm.halt rs
    pure ({ vm with stack := stack, memory := mem }, .computeResult pc total halt)

/-- the model's `compute` is the sequential instance -/
theorem compute_eq_with (child : ChildExec) (env : Env) (vm : Vm) :
    compute child env vm = computeWith (fun mk n => runChildren child env mk (List.range n)) env vm := rfl

/-- a completion order and an error choice for the children of one `Compute` -/
abbrev Sched1 := List Nat × (List Unit → Option Unit)

/-- `Compute` whose children complete in the order `s.1`, the collection keeping the error `s.2` picks -/
def computeS (child : ChildExec) (env : Env) (s : Nat → Sched1) (vm : Vm) : Res Err (Vm × Flow) :=
  computeWith (fun mk n => runChildrenSched child env mk n (s n).1 (s n).2) env vm

theorem computeWith_congr (r1 r2 : (Nat → Res Err Vm) → Nat → Res Err (List (Nat × Vm))) (env : Env) (vm : Vm)
    (h : ∀ stack b, Stack.pop vm.stack = .ok (stack, b) → 1 ≤ b → r1 (childVm vm stack) b.toNat = r2 (childVm vm stack) b.toNat) :
    computeWith r1 env vm = computeWith r2 env vm := by
  unfold computeWith
  cases hp : Stack.pop vm.stack with
  | err e => rfl
  | panic m => rfl
  | abort m => rfl
  | ok p =>
    obtain ⟨stack, b⟩ := p
    have hok : ∀ (f : Stack × Int → Res Err (Vm × Flow)), ((Res.ok (stack, b) : Res Err (Stack × Int)).bind f) = f (stack, b) :=
      fun _ => rfl
    simp only [Res.mapErr, Res.bind_eq_bind, hok]
    by_cases hb : b < 1
    · simp [hb]
    · simp only [hb, if_false]
      rw [h stack b hp (by omega)]

/-- one op, `Compute` scheduled -/
def stepOpS (child : ChildExec) (env : Env) (s : Nat → Sched1) (vm : Vm) (op : Op) : Res Err (Vm × Flow) :=
  match op with
  | .computeCompute => computeS child env s vm
  | op => stepOp child env vm op

/-- one iteration of the exec loop, `Compute` scheduled -/
def execStepS (child : ChildExec) (env : Env) (s : Nat → Sched1) (gas : Nat) (vm : Vm) : Res (Nat × Err) Outcome :=
  match env.ops vm.pc with
  | none => .ok (.done gas vm)
  | some op =>
    let c := env.cost op
    if gas + c > u64Max ∨ gas + c > env.limit then .err (vm.pc, .outOfGas) else
    match stepOpS child env s vm op with
    | .err e => .err (vm.pc, e)
    | .panic m => .panic m
    | .abort m => .abort m
    | .ok (vm', .next) => .ok (.cont (gas + c) { vm' with pc := vm'.pc + 1 })
    | .ok (vm', .pc n) => .ok (.cont (gas + c) { vm' with pc := n })
    | .ok (vm', .halt) => .ok (.done (gas + c) vm')
    | .ok (vm', .computeEnd) => .ok (.done (gas + c) { vm' with pc := vm'.pc + 1 })
    | .ok (vm', .computeResult pc' g h) =>
      if gas + c + g > u64Max ∨ gas + c + g > env.limit then .err (vm.pc, .outOfGas)
      else
        let vm'' := { vm' with pc := pc', halt := vm'.halt || h }
        if vm''.halt then .ok (.done (gas + c + g) vm'') else .ok (.cont (gas + c + g) vm'')

/-- the scheduler of a whole execution: a completion order for the `Compute` executed when `t` iterations remain, for every
breadth -/
abbrev ExecSched := Nat → Nat → Sched1

def ExecSched.Fair (o : ExecSched) : Prop := ∀ t n, (o t n).1.Perm (List.range n)

/-- the exec loop, every `Compute` scheduled by `o` -/
def execWithS (child : ChildExec) (env : Env) (o : ExecSched) : (fuel : Nat) → (gas : Nat) → Vm → Res (Nat × Err) (Option (Nat × Vm))
  | 0, _, _ => .ok none
  | fuel+1, gas, vm =>
    match execStepS child env (o fuel) gas vm with
    | .err e => .err e
    | .panic m => .panic m
    | .abort m => .abort m
    | .ok (.done g vm') => .ok (some (g, vm'))
    | .ok (.cont g vm') => execWithS child env o fuel g vm'

/-! ### the scheduled loop is the sequential loop -/

/-- no child of a `Compute` executed from a machine state satisfying the invariant panics or aborts (for the real executor of
children this is C05 — `execChild_spec` — plus enough fuel for the model's loop) -/
def ComputeQuiet (child : ChildExec) (env : Env) : Prop :=
  ∀ vm stack b, VmInv 0 vm → env.ops vm.pc = some .computeCompute → Stack.pop vm.stack = .ok (stack, b) →
    NoPanic child env (childVm vm stack) (List.range b.toNat)

theorem stepOpS_eq (child : ChildExec) (env : Env) (s : Nat → Sched1) (hs : ∀ n, (s n).1.Perm (List.range n))
    (vm : Vm) (op : Op) (hop : env.ops vm.pc = some op) (hv : VmInv 0 vm) (hq : ComputeQuiet child env) :
    stepOpS child env s vm op = stepOp child env vm op := by
  cases op <;> try rfl
  case computeCompute =>
    show computeS child env s vm = compute child env vm
    rw [compute_eq_with]
    unfold computeS
    apply computeWith_congr
    intro stack b hpop _
    exact compute_schedule_irrelevant child env (childVm vm stack) b.toNat (s b.toNat).1 (s b.toNat).2 (hs _)
      (hq vm stack b hv hop hpop)

theorem execStepS_eq (child : ChildExec) (env : Env) (s : Nat → Sched1) (hs : ∀ n, (s n).1.Perm (List.range n))
    (gas : Nat) (vm : Vm) (hv : VmInv 0 vm) (hq : ComputeQuiet child env) :
    execStepS child env s gas vm = execStep child env gas vm := by
  unfold execStepS execStep
  cases hop : env.ops vm.pc with
  | none => rfl
  | some op =>
    simp only [stepOpS_eq child env s hs vm op hop hv hq]
    rfl

/-- **`Vm::exec` under any completion orders**: whatever order the children of each `Compute` complete in, and whichever failing
child's error each collection keeps, the execution returns what the sequential execution returns — result, gas, final machine
state, or the same error at the same pc. -/
theorem exec_schedule_irrelevant (child : ChildExec) (env : Env) (o : ExecSched) (ho : o.Fair) (hq : ComputeQuiet child env)
    (hc : ChildSpec child env) (he : EnvOk env) (hb : BreadthOk env) (hp : ProgOk env) :
    ∀ (fuel gas : Nat) (vm : Vm), VmInv 0 vm → execWithS child env o fuel gas vm = execWith child env fuel gas vm := by
  intro fuel
  induction fuel with
  | zero => intro gas vm _; rfl
  | succ fuel ih =>
    intro gas vm hv
    unfold execWithS execWith
    rw [execStepS_eq child env (o fuel) (ho fuel) gas vm hv hq]
    have hinv := execStep_inv child 0 env (fun _ => hc) he hb hp gas vm hv
    cases hs : execStep child env gas vm with
    | err e => rfl
    | panic m => rfl
    | abort m => rfl
    | ok out =>
      cases out with
      | done g v => rfl
      | cont g v =>
        rw [hs] at hinv
        simp only [Res.wpA_ok, Outcome.vm] at hinv
        exact ih g v hinv

/-- `ComputeQuiet` for the real executor of children: children never panic (C05: `execChild_spec`, the child machine built by
`Compute` satisfies the invariant), and they abort only where the *model* gives up (its fuel), which is the remaining hypothesis -/
theorem compute_quiet (fuel : Nat) (env : Env) (he : EnvOk env) (hb : BreadthOk env) (hp : ProgOk env)
    (hna : ∀ vm, VmInv 1 vm → ∀ m, execChild fuel env vm ≠ .abort m) :
    ComputeQuiet (execChild fuel) env := by
  intro vm stack b hv hop hpop i hi
  have hpc : vm.pc < isizeMax := hp.bound _ _ hop
  have hst : StackOk stack ∧ InI64 b := by
    have := pop_ok vm.stack hv.stack (fun p => StackOk p.1 ∧ InI64 p.2) (fun t w h1 h2 _ => ⟨h1, h2⟩)
    rw [hpop] at this
    simpa [Res.wp] using this
  have hd0 : vm.parentMemory.length = 0 := by have := hv.depth; omega
  have hmk : (childVm vm stack i).wp (VmInv 1) := by
    unfold childVm
    rw [Res.wp_bind']
    have hi' : InI64 (i : Int) := by
      have := List.mem_range.mp hi
      have := hst.2
      unfold InI64 at *; omega
    apply Res.wp_mono (push_ok' stack (i : Int) hst.1 hi')
    intro st hst'
    rw [if_neg (by unfold usizeMax isizeMax at *; omega)]
    simp only [Res.wp_ok]
    refine ⟨hst', ⟨by simp, AllI64_nil⟩, hv.repLen, hv.repTyped, by simp [hd0], by omega, ?_⟩
    intro pm hpm
    simp only [List.mem_append, List.mem_singleton] at hpm
    rcases hpm with hpm | rfl
    · exact hv.parents pm hpm
    · exact hv.memory
  refine ⟨?_, ?_, ?_⟩
  · intro m hm; rw [hm] at hmk; simp [Res.wp] at hmk
  · intro m hm; rw [hm] at hmk; simp [Res.wp] at hmk
  · intro cvm hcvm
    rw [hcvm] at hmk
    simp only [Res.wp_ok] at hmk
    have hs := execChild_spec fuel env he hb hp cvm hmk
    constructor
    · intro m hm; rw [hm] at hs; simp [Res.wpA] at hs
    · exact hna cvm hmk

/-- `Vm::exec` itself (children run by the same loop): any completion orders give the sequential result -/
theorem vm_exec_schedule_irrelevant (fuel : Nat) (env : Env) (o : ExecSched) (ho : o.Fair) (he : EnvOk env) (hb : BreadthOk env)
    (hp : ProgOk env) (hna : ∀ vm, VmInv 1 vm → ∀ m, execChild fuel env vm ≠ .abort m) (vm : Vm) (hv : VmInv 0 vm) :
    execWithS (execChild fuel) env o fuel 0 vm = exec fuel env vm :=
  exec_schedule_irrelevant (execChild fuel) env o ho (compute_quiet fuel env he hb hp hna)
    (execChild_spec fuel env he hb hp) he hb hp fuel 0 vm hv

/-- two schedulers give the same execution -/
theorem exec_two_schedules (child : ChildExec) (env : Env) (o₁ o₂ : ExecSched) (h₁ : o₁.Fair) (h₂ : o₂.Fair)
    (hq : ComputeQuiet child env) (hc : ChildSpec child env) (he : EnvOk env) (hb : BreadthOk env) (hp : ProgOk env)
    (fuel gas : Nat) (vm : Vm) (hv : VmInv 0 vm) :
    execWithS child env o₁ fuel gas vm = execWithS child env o₂ fuel gas vm := by
  rw [exec_schedule_irrelevant child env o₁ h₁ hq hc he hb hp fuel gas vm hv,
      exec_schedule_irrelevant child env o₂ h₂ hq hc he hb hp fuel gas vm hv]

/-- non-vacuity: the scheduler that completes the children of every `Compute` in reverse order is fair -/
example : ExecSched.Fair (fun _ n => ((List.range n).reverse, fun es => es.getLast?)) :=
  fun _ n => List.reverse_perm _

end Essential.C02
