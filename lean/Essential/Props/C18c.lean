/-
C18 — the hex text layer: `words_from_hex_str ∘ hex_str_from_words` is the identity, `hex::decode`
inverts `hex::encode` (and the upper-case spelling) on every byte string, decoding is injective
up to letter case only in the sense stated, and odd lengths / non-digits are rejected.
-/
import Essential.Model.Hex
import Essential.Props.C18

set_option linter.unusedSimpArgs false
namespace Essential.C18
open Essential

theorem hexVal_hexDigit_fin : ∀ n : Fin 16, hexVal (hexDigit n.val) = some n.val := by decide
theorem hexVal_hexDigitUpper_fin : ∀ n : Fin 16, hexVal (hexDigitUpper n.val) = some n.val := by decide

/-- every nibble's lower-case digit reads back as the nibble -/
theorem hexVal_hexDigit (n : Nat) (h : n < 16) : hexVal (hexDigit n) = some n := hexVal_hexDigit_fin ⟨n, h⟩
/-- … and so does its upper-case digit -/
theorem hexVal_hexDigitUpper (n : Nat) (h : n < 16) : hexVal (hexDigitUpper n) = some n := hexVal_hexDigitUpper_fin ⟨n, h⟩

/-- a digit's value is a nibble -/
theorem hexVal_lt (c : Char) (n : Nat) (h : hexVal c = some n) : n < 16 := by
  unfold hexVal at h
  by_cases h1 : '0' ≤ c ∧ c ≤ '9'
  · rw [if_pos h1] at h
    have h2 : c.toNat ≤ '9'.toNat := h1.2
    have : ('9' : Char).toNat = 57 := by decide
    have : ('0' : Char).toNat = 48 := by decide
    injection h with h; omega
  · rw [if_neg h1] at h
    by_cases h2 : 'a' ≤ c ∧ c ≤ 'f'
    · rw [if_pos h2] at h
      have h3 : c.toNat ≤ 'f'.toNat := h2.2
      have : ('f' : Char).toNat = 102 := by decide
      have : ('a' : Char).toNat = 97 := by decide
      injection h with h; omega
    · rw [if_neg h2] at h
      by_cases h3 : 'A' ≤ c ∧ c ≤ 'F'
      · rw [if_pos h3] at h
        have h4 : c.toNat ≤ 'F'.toNat := h3.2
        have : ('F' : Char).toNat = 70 := by decide
        have : ('A' : Char).toNat = 65 := by decide
        injection h with h; omega
      · rw [if_neg h3] at h; cases h

/-- `hex::decode (hex::encode bs) = bs`, with anything well-formed that follows decoded after it -/
theorem parseHex_hexChars_append (bs : List Nat) (h : AllBytes bs) (rest : List Char) (r : List Nat)
    (hr : parseHex rest = some r) : parseHex (hexChars bs ++ rest) = some (bs ++ r) := by
  induction bs with
  | nil => simpa [hexChars] using hr
  | cons b bs ih =>
    have hb : b < 256 := h b (by simp)
    have ih' := ih (fun x hx => h x (by simp [hx]))
    have e : hexChars (b :: bs) ++ rest = hexDigit (b / 16 % 16) :: hexDigit (b % 16) :: (hexChars bs ++ rest) := by
      simp [hexChars]
    rw [e, parseHex, hexVal_hexDigit _ (by omega), hexVal_hexDigit _ (by omega), ih']
    simp only [List.cons_append, List.cons.injEq, Option.some.injEq, and_true]
    omega

theorem parseHex_hexChars (bs : List Nat) (h : AllBytes bs) : parseHex (hexChars bs) = some bs := by
  simpa using parseHex_hexChars_append bs h [] [] rfl

/-- upper-case input decodes to the same bytes (`words_from_hex_str` is case-insensitive) -/
theorem parseHex_hexCharsUpper (bs : List Nat) (h : AllBytes bs) : parseHex (hexCharsUpper bs) = some bs := by
  induction bs with
  | nil => rfl
  | cons b bs ih =>
    have hb : b < 256 := h b (by simp)
    have ih' := ih (fun x hx => h x (by simp [hx]))
    have e : hexCharsUpper (b :: bs) = hexDigitUpper (b / 16 % 16) :: hexDigitUpper (b % 16) :: hexCharsUpper bs := by
      simp [hexCharsUpper]
    rw [e, parseHex, hexVal_hexDigitUpper _ (by omega), hexVal_hexDigitUpper _ (by omega), ih']
    simp only [List.cons.injEq, Option.some.injEq, and_true]
    omega

/-- whatever `hex::decode` accepts has an even number of digits and yields bytes -/
theorem parseHex_some : ∀ (n : Nat) (cs : List Char) (bs : List Nat), cs.length ≤ n → parseHex cs = some bs →
    cs.length = 2 * bs.length ∧ AllBytes bs := by
  intro n
  induction n with
  | zero =>
    intro cs bs hl h
    have : cs = [] := List.eq_nil_of_length_eq_zero (by omega)
    subst this; simp [parseHex] at h; subst h; exact ⟨rfl, fun _ hx => by cases hx⟩
  | succ n ih =>
    intro cs bs hl h
    match cs, h with
    | [], h => simp [parseHex] at h; subst h; exact ⟨rfl, fun _ hx => by cases hx⟩
    | [_], h => simp [parseHex] at h
    | a :: b :: rest, h =>
      rw [parseHex] at h
      cases ha : hexVal a with
      | none => simp [ha] at h
      | some x =>
        cases hb : hexVal b with
        | none => simp [ha, hb] at h
        | some y =>
          cases hr : parseHex rest with
          | none => simp [ha, hb, hr] at h
          | some r =>
            simp only [ha, hb, hr, Option.some.injEq] at h
            subst h
            have hx := hexVal_lt a x ha
            have hy := hexVal_lt b y hb
            obtain ⟨l, ab⟩ := ih rest r (by simp at hl; omega) hr
            refine ⟨by simp [l]; omega, ?_⟩
            intro z hz
            rcases List.mem_cons.mp hz with rfl | hz
            · omega
            · exact ab z hz

/-- an odd number of digits is rejected (`FromHexError::OddLength`) -/
theorem parseHex_odd (cs : List Char) (h : cs.length % 2 = 1) : parseHex cs = none := by
  cases hp : parseHex cs with
  | none => rfl
  | some bs => have := (parseHex_some cs.length cs bs (Nat.le_refl _) hp).1; omega

/-- a string starting (at an even position) with a non-digit is rejected (`InvalidHexCharacter`) -/
theorem parseHex_bad_digit (bs : List Nat) (h : AllBytes bs) (c : Char) (hc : hexVal c = none) (rest : List Char) :
    parseHex (hexChars bs ++ c :: rest) = none := by
  induction bs with
  | nil =>
    cases rest with
    | nil => simp [hexChars, parseHex]
    | cons d rest => simp [hexChars, parseHex, hc]
  | cons b bs ih =>
    have hb : b < 256 := h b (by simp)
    have ih' := ih (fun x hx => h x (by simp [hx]))
    have e : hexChars (b :: bs) ++ c :: rest = hexDigit (b / 16 % 16) :: hexDigit (b % 16) :: (hexChars bs ++ c :: rest) := by
      simp [hexChars]
    rw [e, parseHex, ih', hexVal_hexDigit _ (by omega), hexVal_hexDigit _ (by omega)]

/-- `hex::encode` is injective on byte strings -/
theorem hexChars_injective (a b : List Nat) (ha : AllBytes a) (hb : AllBytes b) (h : hexChars a = hexChars b) : a = b := by
  have h1 := parseHex_hexChars a ha
  rw [h, parseHex_hexChars b hb] at h1
  exact (Option.some.inj h1).symm

theorem allBytes_bytesOfWords (ws : List Int) : AllBytes (bytesOfWords ws) := by
  intro b hb
  simp only [bytesOfWords, List.mem_flatMap] at hb
  obtain ⟨w, _, hw⟩ := hb
  simp only [bytesOfWord, List.mem_cons, List.not_mem_nil, or_false] at hw
  omega

/-- **`words_from_hex_str (hex_str_from_words ws) = Ok ws`** for every list of words -/
theorem hex_words_roundtrip (ws : List Int) (h : AllI64 ws) : wordsFromHexStr (hexStrFromWords ws) = some ws := by
  unfold wordsFromHexStr hexStrFromWords
  rw [parseHex_hexChars _ (allBytes_bytesOfWords ws)]
  simp only [words_bytes_words ws h]

/-- the hex string of `n` words has `16 n` characters -/
theorem hexStrFromWords_length (ws : List Int) : (hexStrFromWords ws).length = 16 * ws.length := by
  unfold hexStrFromWords hexChars bytesOfWords
  induction ws with
  | nil => rfl
  | cons w ws ih => simp [bytesOfWord, List.flatMap_cons, List.length_append] at ih ⊢; omega

/-- `hex_str_from_words` is injective: distinct word lists have distinct hex strings -/
theorem hexStrFromWords_injective (a b : List Int) (ha : AllI64 a) (hb : AllI64 b)
    (h : hexStrFromWords a = hexStrFromWords b) : a = b := by
  have h1 := hex_words_roundtrip a ha
  rw [h, hex_words_roundtrip b hb] at h1
  exact (Option.some.inj h1).symm

example : wordsFromHexStr (hexStrFromWords [-1, 0, 9223372036854775807]) = some [-1, 0, 9223372036854775807] := by decide
example : hexStrFromWords [-1] = "ffffffffffffffff".toList := by decide
example : parseHex "0G".toList = none := by decide

end Essential.C18
