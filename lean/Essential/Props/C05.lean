/-
C05 — The VM is total: never panics and stays within its resource bounds.

The model (`Model/Vm.lean`) has an explicit `.panic` outcome wherever the Rust code can
panic (indexing, `expect`, `copy_within`, `split_at`, unchecked `+=`/`-=`/`+` on machine
integers) and an `.abort` outcome for the explicit resource model (compute breadth above
`env.maxBreadth`).  `Res.wpA Q` = "no panic; a value satisfies `Q`; aborts allowed".
-/
import Essential.Lemmas.VmExec
import Essential.Lemmas.Codec

namespace Essential.C05
open Essential Spec

/-- the bounds of the statement, read off the invariant -/
theorem bounds_of_inv {d : Nat} {vm : Vm} (h : VmInv d vm) :
    vm.stack.length ≤ 4096 ∧ vm.memory.length ≤ 10240 ∧ vm.rep.length ≤ 4096 ∧ vm.parentMemory.length ≤ 1 ∧
    AllI64 vm.stack ∧ AllI64 vm.memory :=
  ⟨h.stack.len, h.memory.len, h.repLen, by have := h.depth; have := h.depthLe; omega, h.stack.typed, h.memory.typed⟩

/-- the limits proved are the ones in the source (regenerated constants) -/
theorem limits_match_source :
    Consts.stackSizeLimit = 4096 ∧ Consts.memorySizeLimit = 10240 ∧ Consts.maxComputeDepth = 1 := by decide

/-- **one executed operation**: from any state satisfying the invariant, with any typed
environment, executing any op neither panics nor leaves the bounds (compute children
included, through `ChildSpec`) -/
theorem step_total (child : ChildExec) (d : Nat) (env : Env) (hc : d = 0 → ChildSpec child env)
    (he : EnvOk env) (hb : BreadthOk env) (vm : Vm) (hv : VmInv d vm) (hpc : vm.pc < isizeMax)
    (op : Op) (hwf : op.WF) :
    (stepOp child env vm op).wpA (fun r => VmInv d r.1) :=
  stepOp_inv child d env hc he hb vm hv hpc op hwf

/-- **the exec loop**: after every iteration the invariant holds again -/
theorem loop_step_total (fuel : Nat) (env : Env) (he : EnvOk env) (hb : BreadthOk env) (hp : ProgOk env)
    (gas : Nat) (vm : Vm) (hv : VmInv 0 vm) :
    (execStep (execChild fuel) env gas vm).wpA (fun o => VmInv 0 o.vm) :=
  execStep_inv (execChild fuel) 0 env (fun _ => execChild_spec fuel env he hb hp) he hb hp gas vm hv

/-- **`Vm::exec` is total** (no hypothesis on the program beyond typing; any cost function,
any limit, any solution data, any state-read results): it returns a value within the
bounds, or a typed error; it never panics.  (Partial w.r.t. the full statement only in that
`abort` remains possible: known finding K1, see `witness_breadth`.) -/
theorem exec_total_partial (fuel : Nat) (env : Env) (he : EnvOk env) (hb : BreadthOk env) (hp : ProgOk env)
    (vm : Vm) (hv : VmInv 0 vm) :
    (exec fuel env vm).wpA (fun r => ∀ g v, r = some (g, v) →
      v.stack.length ≤ 4096 ∧ v.memory.length ≤ 10240 ∧ v.rep.length ≤ 4096 ∧ v.parentMemory.length ≤ 1 ∧
      AllI64 v.stack ∧ AllI64 v.memory) :=
  Res.wpA_mono (exec_inv fuel env he hb hp vm hv) (fun _ h g v e => bounds_of_inv (h g v e))

/-- compute children run under the same guarantee -/
theorem child_total (fuel : Nat) (env : Env) (he : EnvOk env) (hb : BreadthOk env) (hp : ProgOk env)
    (vm : Vm) (hv : VmInv 1 vm) : (execChild fuel env vm).wpA (fun r => VmInv 1 r.2) :=
  execChild_spec fuel env he hb hp vm hv

/-- any byte string that parses is a well-typed program (so `exec_total_partial` covers
executing arbitrary bytecode) -/
theorem bytecode_prog_ok (bs : List Nat) (hb : AllBytes bs) (ops : List Op) (h : decode bs = .ok ops)
    (hlen : ops.length < isizeMax) (env : Env) (hops : env.ops = fun i => ops[i]?) : ProgOk env := by
  obtain ⟨_, hwf⟩ := Codec.encode_decode bs hb ops h
  constructor
  · intro i op hi
    rw [hops] at hi
    have := (List.getElem?_eq_some_iff.mp hi).1
    omega
  · intro i op hi
    rw [hops] at hi
    exact hwf op (List.mem_of_getElem? hi)

/-! ### non-vacuity: a concrete non-trivial state and environment meet the hypotheses -/

def demoEnv : Env where
  ops := fun i => [Op.stackPush 2, .stackPush 3, .aluMul, .computeCompute][i]?
  cost := fun _ => 1
  limit := 100
  solutions := [{ contract := List.replicate 32 7, predicate := List.replicate 32 9, data := [[1, 2]], mutations := [] }]
  index := 0
  pre := fun _ _ _ => .ok [[5]]
  post := fun _ _ _ => .error 3
  sha256 := fun _ => List.replicate 32 0
  edVerify := fun _ _ _ => some false
  secpRecover := fun _ _ _ => .unrecoverable
  maxBreadth := 1000

example : BreadthOk demoEnv := by unfold BreadthOk demoEnv; decide
example : VmInv 0 { stack := [1, -9223372036854775808], memory := [0, 7] } :=
  ⟨⟨by decide, by intro w hw; simp at hw; rcases hw with rfl | rfl <;> decide⟩,
   ⟨by decide, by intro w hw; simp at hw; rcases hw with rfl | rfl <;> decide⟩,
   by decide, by simp, rfl, by decide, by simp⟩

/-! ### known finding K1: compute breadth is unbounded

For every `n` a three-op program asks for `n` children; whatever the machine's capacity
`maxBreadth`, a breadth above it aborts.  (The real process dies on allocation failure;
replayed on the implementation in a child process.) -/
theorem witness_breadth (child : ChildExec) (env : Env) (n : Nat) (hn : env.maxBreadth < n) (hn1 : 1 ≤ n) :
    stepOp child env { stack := [(n : Int)] } .computeCompute = .abort "compute breadth exhausts memory" := by
  have h1 : ¬ ((n : Int) < 1) := by omega
  have h2 : (n : Int).toNat > env.maxBreadth := by omega
  simp [stepOp, compute, Stack.pop, Res.mapErr, bind, Res.bind, h1, Consts.maxComputeDepth]
  intro h; omega

end Essential.C05
