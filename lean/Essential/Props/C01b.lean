/-
C01 at the level of the solution set: the verdict of `check_set_predicates` in terms of the
per-solution checks (which `Props/C01.lean` relates to the reference evaluation of each graph).
-/
import Essential.Props.C01
import Essential.Props.C04b

set_option linter.unusedSimpArgs false
set_option linter.unusedVariables false
namespace Essential.C01
open Essential Essential.C04

/-- **a pass over the set succeeds exactly when the check of every solution succeeds**; then the
gas is the saturated sum and the data outputs are reported per solution, in index order -/
theorem set_pass_ok_iff (se : SetEnv) (ce : CheckEnv) (sols : List Solution) (mode : RunMode) (caches : List Cache) :
    (∃ r, checkSetPredicates se ce sols mode caches = .ok r) ↔
      ∀ i, i < sols.length → ∃ v, solRes se ce sols mode caches i = .ok v := by
  constructor
  · rintro ⟨⟨g, outs, cs⟩, h⟩
    exact (csp_ok_form se ce sols mode caches g outs cs h).1
  · intro h
    exact ⟨_, csp_of_all_ok se ce sols mode caches h⟩

theorem set_pass_result (se : SetEnv) (ce : CheckEnv) (sols : List Solution) (mode : RunMode) (caches : List Cache)
    (g : Nat) (outs : List (Nat × List Memory)) (cs : List Cache)
    (h : checkSetPredicates se ce sols mode caches = .ok (g, outs, cs)) :
    g = ((List.range sols.length).map fun i => (valOf (solRes se ce sols mode caches i)).1).foldl satAdd 0 ∧
    outs = (List.range sols.length).map (fun i => (i, (valOf (solRes se ce sols mode caches i)).2.1)) :=
  ⟨(csp_ok_form se ce sols mode caches g outs cs h).2.1, (csp_ok_form se ce sols mode caches g outs cs h).2.2.1⟩

/-- **the failing solution indices**: if no check panics or aborts and some solution fails, the error
lists exactly the failing solutions with their errors, in index order -/
theorem set_pass_failed (se : SetEnv) (ce : CheckEnv) (sols : List Solution) (mode : RunMode) (caches : List Cache)
    (hnp : ∀ i, i < sols.length → (∀ m, solRes se ce sols mode caches i ≠ .panic m) ∧ (∀ m, solRes se ce sols mode caches i ≠ .abort m))
    (hbad : ∃ i, i < sols.length ∧ ∃ e, solRes se ce sols mode caches i = .err e) :
    checkSetPredicates se ce sols mode caches = .err (.failed ((List.range sols.length).filterMap fun i =>
      errOfRes (i, solRes se ce sols mode caches i))) := by
  rw [checkSetPredicates_eq]
  unfold finishSet
  have hfind : (((List.range sols.length).map fun i => (i, solRes se ce sols mode caches i)).find?
      fun r => r.2.isPanic || r.2.isAbort) = none := by
    rw [List.find?_eq_none]
    intro x hx
    simp only [List.mem_map, List.mem_range] at hx
    obtain ⟨i, hi, rfl⟩ := hx
    obtain ⟨h1, h2⟩ := hnp i hi
    cases hr : solRes se ce sols mode caches i with
    | ok v => simp [Res.isPanic, Res.isAbort]
    | err e => simp [Res.isPanic, Res.isAbort]
    | panic m => exact absurd hr (h1 m)
    | abort m => exact absurd hr (h2 m)
  simp only [hfind, Option.map_none]
  have hf : ((List.range sols.length).map fun i => (i, solRes se ce sols mode caches i)).filterMap errOfRes =
      (List.range sols.length).filterMap fun i => errOfRes (i, solRes se ce sols mode caches i) := by
    rw [List.filterMap_map]
    rfl
  have hne : ((List.range sols.length).filterMap fun i => errOfRes (i, solRes se ce sols mode caches i)) ≠ [] := by
    obtain ⟨i, hi, e, he⟩ := hbad
    intro hnil
    rw [List.filterMap_eq_nil_iff] at hnil
    have := hnil i (List.mem_range.mpr hi)
    simp [errOfRes, he] at this
  rw [hf, if_pos hne]

end Essential.C01
