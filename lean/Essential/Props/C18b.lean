/-
C18 (binary serde) — every solution, mutation and solution set survives the postcard round
trip: decoding the encoding returns the value and leaves exactly what followed it.
-/
import Essential.Model.Postcard
import Essential.Props.C17

set_option linter.unusedSimpArgs false
set_option linter.unusedVariables false
namespace Essential.C18
open Essential Essential.Postcard

/-! ### varints -/

theorem unvarintGo_varint : ∀ (f i m n : Nat) (rest : List Nat), f + i = 10 → i ≤ 9 → n * 128 ^ i < 2 ^ 64 →
    unvarintGo f i m (varint n ++ rest) = some (n * m, rest) := by
  intro f
  induction f with
  | zero => intro i m n rest hf hi _; omega
  | succ f ih =>
    intro i m n rest hf hi hn
    have e9 : (128 : Nat) ^ 9 = 9223372036854775808 := by decide
    have e64 : (2 : Nat) ^ 64 = 18446744073709551616 := by decide
    rw [varint]
    by_cases h : n < 128
    · simp only [h, if_true, List.cons_append, List.nil_append, unvarintGo]
      have : ¬ (i = 9 ∧ n > 1) := by
        rintro ⟨hi9, hb⟩
        subst hi9
        rw [e9, e64] at hn
        omega
      simp only [this, if_false]
    · simp only [h, if_false, List.cons_append, unvarintGo]
      have hb : ¬ (n % 128 + 128 < 128) := by omega
      simp only [hb, if_false]
      have hi8 : i ≤ 8 := by
        rcases Nat.lt_or_ge i 9 with h' | h'
        · omega
        · have : i = 9 := by omega
          subst this
          rw [e9, e64] at hn
          omega
      have hpow : 128 ^ (i + 1) = 128 ^ i * 128 := Nat.pow_succ ..
      have hle : n / 128 * 128 ^ (i + 1) ≤ n * 128 ^ i := by
        rw [hpow, Nat.mul_comm (128 ^ i) 128, ← Nat.mul_assoc]
        exact Nat.mul_le_mul_right _ (Nat.div_mul_le_self n 128)
      rw [ih (i + 1) (m * 128) (n / 128) rest (by omega) (by omega) (by omega)]
      simp only [Option.some.injEq, Prod.mk.injEq, and_true]
      have : n % 128 + 128 - 128 = n % 128 := by omega
      rw [this]
      have hdm := Nat.div_add_mod n 128
      calc n % 128 * m + n / 128 * (m * 128) = (n % 128 + 128 * (n / 128)) * m := by
            rw [Nat.add_mul, Nat.mul_comm m 128, ← Nat.mul_assoc, Nat.mul_comm (n / 128) 128]
        _ = n * m := by rw [Nat.add_comm, hdm]

/-- **varint round trip**: decoding the encoding of a `u64` returns it and leaves what followed -/
theorem unvarint_varint (n : Nat) (h : n < 2 ^ 64) (rest : List Nat) : unvarint (varint n ++ rest) = some (n, rest) := by
  unfold unvarint
  rw [unvarintGo_varint 10 0 1 n rest rfl (by omega) (by simpa using h)]
  simp

theorem unzigzag_zigzag (w : Int) : unzigzag (zigzag w) = w := by
  unfold unzigzag zigzag
  by_cases h : 0 ≤ w
  · simp only [h, if_true]
    have : 2 * w.toNat % 2 = 0 := by omega
    simp only [this, if_true]
    omega
  · simp only [h, if_false]
    have : (2 * (-w).toNat - 1) % 2 = 1 := by omega
    simp only [this]
    omega

theorem zigzag_lt (w : Int) (h : InI64 w) : zigzag w < 2 ^ 64 := by
  unfold InI64 at h
  unfold zigzag
  have e64 : (2 : Nat) ^ 64 = 18446744073709551616 := by decide
  rw [e64]
  split <;> omega

/-! ### sequences -/

theorem takeN_spec {α : Type} (enc : α → List Nat) (dec : List Nat → Option (α × List Nat)) :
    ∀ (l : List α) (rest : List Nat), (∀ a ∈ l, ∀ r, dec (enc a ++ r) = some (a, r)) →
      takeN dec l.length (l.flatMap enc ++ rest) = some (l, rest) := by
  intro l
  induction l with
  | nil => intro rest _; rfl
  | cons a l ih =>
    intro rest h
    simp only [List.length_cons, List.flatMap_cons, List.append_assoc, takeN]
    rw [h a (by simp)]
    simp only []
    rw [ih rest (fun x hx => h x (by simp [hx]))]

theorem unpcVec_spec {α : Type} (enc : α → List Nat) (dec : List Nat → Option (α × List Nat)) (l : List α) (rest : List Nat)
    (hl : l.length < 2 ^ 64) (h : ∀ a ∈ l, ∀ r, dec (enc a ++ r) = some (a, r)) :
    unpcVec dec (pcVec enc l ++ rest) = some (l, rest) := by
  unfold unpcVec pcVec
  rw [List.append_assoc, unvarint_varint _ hl]
  exact takeN_spec enc dec l rest h

theorem unpcBytes_spec (bs rest : List Nat) (hl : bs.length < 2 ^ 64) : unpcBytes (pcBytes bs ++ rest) = some (bs, rest) := by
  have : pcBytes bs = pcVec (fun b => [b]) bs := by
    unfold pcBytes pcVec
    congr 1
    induction bs with
    | nil => rfl
    | cons b bs ih => simp [List.flatMap_cons] 
  rw [this]
  exact unpcVec_spec _ unbyte bs rest hl (fun a _ r => rfl)

theorem unword_spec (w : Int) (h : InI64 w) (r : List Nat) : unword (varint (zigzag w) ++ r) = some (w, r) := by
  unfold unword
  rw [unvarint_varint _ (zigzag_lt w h)]
  simp only [unzigzag_zigzag]

theorem unpcWords_spec (ws : List Int) (rest : List Nat) (hl : ws.length < 2 ^ 64) (h : AllI64 ws) :
    unpcWords (pcWords ws ++ rest) = some (ws, rest) := by
  have : pcWords ws = pcVec (fun w => varint (zigzag w)) ws := rfl
  rw [this]
  exact unpcVec_spec _ unword ws rest hl (fun w hw r => unword_spec w (h w hw) r)

/-- well-formed mutation: words are `i64`s, lengths fit a `usize` -/
def MutWF (m : List Int × List Int) : Prop :=
  AllI64 m.1 ∧ AllI64 m.2 ∧ m.1.length < 2 ^ 64 ∧ m.2.length < 2 ^ 64

/-- **Mutation** survives the binary round trip -/
theorem unpcMutation_spec (m : List Int × List Int) (h : MutWF m) (rest : List Nat) :
    unpcMutation (pcMutation m ++ rest) = some (m, rest) := by
  unfold unpcMutation pcMutation
  rw [List.append_assoc, unpcWords_spec m.1 _ h.2.2.1 h.1]
  simp only []
  rw [unpcWords_spec m.2 _ h.2.2.2 h.2.1]

def SolWF (s : Solution) : Prop :=
  s.contract.length = 32 ∧ s.predicate.length = 32 ∧
  s.data.length < 2 ^ 64 ∧ (∀ d ∈ s.data, AllI64 d ∧ d.length < 2 ^ 64) ∧
  s.mutations.length < 2 ^ 64 ∧ ∀ m ∈ s.mutations, MutWF m

theorem unaddr_spec (a rest : List Nat) (h : a.length = 32) : unaddr (pcBytes a ++ rest) = some (a, rest) := by
  unfold unaddr
  rw [unpcBytes_spec a rest (by rw [h]; decide)]
  simp [h]

/-- **Solution** survives the binary round trip, and decoding stops exactly at its end -/
theorem unpcSolution_spec (s : Solution) (h : SolWF s) (rest : List Nat) :
    unpcSolution (pcSolution s ++ rest) = some (s, rest) := by
  obtain ⟨h1, h2, h3, h4, h5, h6⟩ := h
  unfold unpcSolution pcSolution
  simp only [List.append_assoc]
  rw [unaddr_spec _ _ h1]
  simp only []
  rw [unaddr_spec _ _ h2]
  simp only []
  rw [unpcVec_spec pcWords unpcWords s.data _ h3 (fun d hd r => unpcWords_spec d r (h4 d hd).2 (h4 d hd).1)]
  simp only []
  rw [unpcVec_spec pcMutation unpcMutation s.mutations _ h5 (fun m hm r => unpcMutation_spec m (h6 m hm) r)]

/-- **SolutionSet** survives the binary round trip -/
theorem unpcSet_spec (sols : List Solution) (hl : sols.length < 2 ^ 64) (h : ∀ s ∈ sols, SolWF s) (rest : List Nat) :
    unpcSet (pcSet sols ++ rest) = some (sols, rest) := by
  unfold unpcSet pcSet
  exact unpcVec_spec pcSolution unpcSolution sols rest hl (fun s hs r => unpcSolution_spec s (h s hs) r)

/-- non-vacuity -/
example : SolWF ⟨List.replicate 32 7, List.replicate 32 9, [[1, -1]], [([3], [])]⟩ := by
  refine ⟨by decide, by decide, by decide, ?_, by decide, ?_⟩
  · intro d hd
    simp only [List.mem_singleton] at hd
    subst hd
    refine ⟨?_, by decide⟩
    intro w hw
    simp only [List.mem_cons, List.not_mem_nil, or_false] at hw
    rcases hw with rfl | rfl <;> (unfold InI64; omega)
  · intro m hm
    simp only [List.mem_singleton] at hm
    subst hm
    refine ⟨?_, ?_, by decide, by decide⟩
    · intro w hw
      simp only [List.mem_singleton] at hw
      subst hw; unfold InI64; omega
    · intro w hw; cases hw

end Essential.C18
