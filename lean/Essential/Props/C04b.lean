/-
C04 — the two-pass check of a reordered solution set: the end-to-end statement.
-/
import Essential.Props.C04
import Essential.Props.C16b

set_option linter.unusedSimpArgs false
set_option linter.unusedVariables false
namespace Essential.C04
open Essential

/-! ### rearranging a list by an index list -/

/-- `l` rearranged by `σ`: position `j` holds element `σ[j]` of `l` -/
def rearr {α : Type} (σ : List Nat) (l : List α) : List α := σ.filterMap fun i => l[i]?

/-- `σ` lists every index of a list of length `n` exactly once -/
def IsPerm (σ : List Nat) (n : Nat) : Prop := σ.Perm (List.range n)

theorem IsPerm.length {σ : List Nat} {n : Nat} (h : IsPerm σ n) : σ.length = n := by
  have := h.length_eq; simpa using this

theorem IsPerm.lt {σ : List Nat} {n : Nat} (h : IsPerm σ n) (i : Nat) (hi : i ∈ σ) : i < n := by
  simpa using h.mem_iff.mp hi

theorem rearr_range {α : Type} (l : List α) : rearr (List.range l.length) l = l := by
  unfold rearr
  have all : ∀ (n : Nat), n ≤ l.length → ((List.range n).filterMap (fun i => l[i]?)) = l.take n := by
    intro n
    induction n with
    | zero => intro _; simp
    | succ n ih =>
      intro hn
      rw [List.range_succ, List.filterMap_append, ih (by omega)]
      simp only [List.filterMap_cons, List.filterMap_nil, List.getElem?_eq_getElem (by omega : n < l.length)]
      rw [List.take_add_one, List.getElem?_eq_getElem (by omega : n < l.length)]
      rfl
  rw [all l.length (Nat.le_refl _), List.take_length]

theorem rearr_perm {α : Type} (σ : List Nat) (l : List α) (hσ : IsPerm σ l.length) : (rearr σ l).Perm l := by
  have h1 : (rearr σ l).Perm (rearr (List.range l.length) l) := hσ.filterMap _
  rw [rearr_range] at h1
  exact h1

theorem rearr_valid {α : Type} (l : List α) : ∀ (τ : List Nat), (∀ i ∈ τ, i < l.length) →
    (rearr τ l).length = τ.length ∧ ∀ (j : Nat) (hj : j < τ.length), (rearr τ l)[j]? = l[τ[j]]? := by
  intro τ
  induction τ with
  | nil => intro _; exact ⟨rfl, fun j hj => by simp at hj⟩
  | cons a τ ih =>
    intro ha
    have hal : a < l.length := ha a (by simp)
    obtain ⟨h1, h2⟩ := ih (fun i hi => ha i (by simp [hi]))
    unfold rearr at *
    simp only [List.filterMap_cons, List.getElem?_eq_getElem hal]
    refine ⟨by simp [h1], ?_⟩
    intro j hj
    cases j with
    | zero => simp [List.getElem?_eq_getElem hal]
    | succ j => simp only [List.getElem?_cons_succ, List.getElem_cons_succ]; exact h2 j (by simpa using hj)

theorem rearr_length {α : Type} (σ : List Nat) (l : List α) (hσ : IsPerm σ l.length) : (rearr σ l).length = l.length := by
  rw [(rearr_valid l σ (fun i hi => hσ.lt i hi)).1, hσ.length]

theorem rearr_get {α : Type} (σ : List Nat) (l : List α) (hσ : IsPerm σ l.length) (j : Nat) (hj : j < σ.length) :
    (rearr σ l)[j]? = l[σ[j]]? := (rearr_valid l σ (fun i hi => hσ.lt i hi)).2 j hj

theorem rearr_map {α β : Type} (σ : List Nat) (l : List α) (f : α → β) : rearr σ (l.map f) = (rearr σ l).map f := by
  unfold rearr
  rw [List.map_filterMap]
  congr 1
  funext i
  simp [List.getElem?_map]

/-! ### `check_set_predicates` in terms of the per-solution results -/

abbrev SolOut := Res PredError (Nat × List Memory × Cache)

/-- the result of the task of solution `i` -/
def solRes (se : SetEnv) (ce : CheckEnv) (sols : List Solution) (mode : RunMode) (caches : List Cache) (i : Nat) : SolOut :=
  match sols[i]? with
  | some s => checkPredicateInner ce sols i (se.predicate s.contract s.predicate) se.collectAll mode (caches.getD i [])
  | none => .panic "unreachable"

def valOf : SolOut → (Nat × List Memory × Cache)
  | .ok v => v
  | _ => (0, [], [])

def errOfRes (r : Nat × SolOut) : Option (Nat × PredError) := match r.2 with | .err e => some (r.1, e) | _ => none
def okOfRes (r : Nat × SolOut) : Option (Nat × (Nat × List Memory × Cache)) := match r.2 with | .ok v => some (r.1, v) | _ => none

/-- the tail of `check_set_predicates`, on the list of per-solution results -/
def finishSet (results : List (Nat × SolOut)) : Res SetError (Nat × List (Nat × List Memory) × List Cache) :=
  match (results.find? fun r => r.2.isPanic || r.2.isAbort).map (·.2) with
  | some (Res.panic m) => .panic m
  | some (Res.abort m) => .abort m
  | _ =>
    let failed := results.filterMap errOfRes
    if failed ≠ [] then .err (.failed failed) else
    let oks := results.filterMap okOfRes
    .ok (oks.foldl (fun g r => satAdd g r.2.1) 0, oks.map fun r => (r.1, r.2.2.1), oks.map fun r => r.2.2.2)

theorem checkSetPredicates_eq (se : SetEnv) (ce : CheckEnv) (sols : List Solution) (mode : RunMode) (caches : List Cache) :
    checkSetPredicates se ce sols mode caches =
      finishSet ((List.range sols.length).map fun i => (i, solRes se ce sols mode caches i)) := by
  have e : ∀ i, (match sols[i]? with
      | some s => (i, checkPredicateInner ce sols i (se.predicate s.contract s.predicate) se.collectAll mode (caches.getD i []))
      | none => (i, (Res.panic "unreachable" : SolOut))) = (i, solRes se ce sols mode caches i) := by
    intro i; unfold solRes; cases sols[i]? <;> rfl
  calc checkSetPredicates se ce sols mode caches
      = finishSet ((List.range sols.length).map fun i => match sols[i]? with
          | some s => (i, checkPredicateInner ce sols i (se.predicate s.contract s.predicate) se.collectAll mode (caches.getD i []))
          | none => (i, (Res.panic "unreachable" : SolOut))) := rfl
    _ = _ := by simp only [e]

theorem finishSet_all_ok : ∀ (rs : List (Nat × SolOut)), (∀ x ∈ rs, ∃ v, x.2 = .ok v) →
    finishSet rs = .ok ((rs.map fun x => (valOf x.2).1).foldl satAdd 0,
      rs.map (fun x => (x.1, (valOf x.2).2.1)), rs.map fun x => (valOf x.2).2.2) := by
  intro rs h
  unfold finishSet
  have h1 : (rs.find? fun r => r.2.isPanic || r.2.isAbort) = none := by
    rw [List.find?_eq_none]
    intro x hx
    obtain ⟨v, hv⟩ := h x hx
    simp [hv, Res.isPanic, Res.isAbort]
  have h2 : rs.filterMap errOfRes = [] := by
    rw [List.filterMap_eq_nil_iff]
    intro x hx
    obtain ⟨v, hv⟩ := h x hx
    simp [errOfRes, hv]
  have h3 : rs.filterMap okOfRes = rs.map fun x => (x.1, valOf x.2) := by
    rw [← List.filterMap_eq_map]
    have gen : ∀ (l : List (Nat × SolOut)), (∀ x ∈ l, ∃ v, x.2 = .ok v) →
        l.filterMap okOfRes = l.filterMap (some ∘ fun x => (x.1, valOf x.2)) := by
      intro l
      induction l with
      | nil => intro _; rfl
      | cons a l ih =>
        intro hl
        obtain ⟨v, hv⟩ := hl a (by simp)
        simp only [List.filterMap_cons, okOfRes, hv, Function.comp, valOf]
        rw [ih (fun x hx => hl x (by simp [hx]))]
        rfl
    exact gen rs h
  simp only [h1, Option.map_none, h2, ne_eq, not_true_eq_false, if_false, h3, List.map_map, Function.comp]
  rw [List.foldl_map, List.foldl_map]
  rfl

theorem finishSet_ok_inv (rs : List (Nat × SolOut)) (x : Nat × List (Nat × List Memory) × List Cache)
    (h : finishSet rs = .ok x) : ∀ y ∈ rs, ∃ v, y.2 = .ok v := by
  intro y hy
  cases hr : y.2 with
  | ok v => exact ⟨v, rfl⟩
  | err e =>
    exfalso
    unfold finishSet at h
    have hf : rs.filterMap errOfRes ≠ [] := by
      intro hn
      rw [List.filterMap_eq_nil_iff] at hn
      have := hn y hy
      simp [errOfRes, hr] at this
    split at h
    · cases h
    · cases h
    · rw [if_pos hf] at h; cases h
  | panic m =>
    exfalso
    unfold finishSet at h
    have hfind : ∃ z, (rs.find? fun r => r.2.isPanic || r.2.isAbort) = some z := by
      cases hf : rs.find? fun r => r.2.isPanic || r.2.isAbort with
      | some z => exact ⟨z, rfl⟩
      | none =>
        rw [List.find?_eq_none] at hf
        have := hf y hy
        simp [hr, Res.isPanic] at this
    obtain ⟨z, hz⟩ := hfind
    have hz2 := List.find?_some hz
    rw [hz] at h
    simp only [Option.map_some] at h
    cases hzr : z.2 with
    | panic m' => rw [hzr] at h; cases h
    | abort m' => rw [hzr] at h; cases h
    | ok v => simp [hzr, Res.isPanic, Res.isAbort] at hz2
    | err e => simp [hzr, Res.isPanic, Res.isAbort] at hz2
  | abort m =>
    exfalso
    unfold finishSet at h
    have hfind : ∃ z, (rs.find? fun r => r.2.isPanic || r.2.isAbort) = some z := by
      cases hf : rs.find? fun r => r.2.isPanic || r.2.isAbort with
      | some z => exact ⟨z, rfl⟩
      | none =>
        rw [List.find?_eq_none] at hf
        have := hf y hy
        simp [hr, Res.isAbort] at this
    obtain ⟨z, hz⟩ := hfind
    have hz2 := List.find?_some hz
    rw [hz] at h
    simp only [Option.map_some] at h
    cases hzr : z.2 with
    | panic m' => rw [hzr] at h; cases h
    | abort m' => rw [hzr] at h; cases h
    | ok v => simp [hzr, Res.isPanic, Res.isAbort] at hz2
    | err e => simp [hzr, Res.isPanic, Res.isAbort] at hz2

theorem csp_ok_form (se : SetEnv) (ce : CheckEnv) (sols : List Solution) (mode : RunMode) (caches : List Cache)
    (g : Nat) (outs : List (Nat × List Memory)) (cs : List Cache)
    (h : checkSetPredicates se ce sols mode caches = .ok (g, outs, cs)) :
    (∀ i, i < sols.length → ∃ v, solRes se ce sols mode caches i = .ok v) ∧
    g = ((List.range sols.length).map fun i => (valOf (solRes se ce sols mode caches i)).1).foldl satAdd 0 ∧
    outs = (List.range sols.length).map (fun i => (i, (valOf (solRes se ce sols mode caches i)).2.1)) ∧
    cs = (List.range sols.length).map fun i => (valOf (solRes se ce sols mode caches i)).2.2 := by
  rw [checkSetPredicates_eq] at h
  have hall := finishSet_ok_inv _ _ h
  have hall' : ∀ i, i < sols.length → ∃ v, solRes se ce sols mode caches i = .ok v := by
    intro i hi
    exact hall (i, solRes se ce sols mode caches i) (List.mem_map.mpr ⟨i, List.mem_range.mpr hi, rfl⟩)
  rw [finishSet_all_ok _ hall] at h
  simp only [Res.ok.injEq, Prod.mk.injEq, List.map_map, Function.comp] at h
  exact ⟨hall', h.1.symm, h.2.1.symm, h.2.2.symm⟩

theorem csp_of_all_ok (se : SetEnv) (ce : CheckEnv) (sols : List Solution) (mode : RunMode) (caches : List Cache)
    (h : ∀ i, i < sols.length → ∃ v, solRes se ce sols mode caches i = .ok v) :
    checkSetPredicates se ce sols mode caches = .ok
      (((List.range sols.length).map fun i => (valOf (solRes se ce sols mode caches i)).1).foldl satAdd 0,
       (List.range sols.length).map (fun i => (i, (valOf (solRes se ce sols mode caches i)).2.1)),
       (List.range sols.length).map fun i => (valOf (solRes se ce sols mode caches i)).2.2) := by
  rw [checkSetPredicates_eq, finishSet_all_ok]
  · simp only [List.map_map]
    rfl
  · intro x hx
    simp only [List.mem_map, List.mem_range] at hx
    obtain ⟨i, hi, rfl⟩ := hx
    exact h i hi

/-- the task of position `j` in the rearranged set is the task of solution `σ[j]` in the original one -/
theorem solRes_rearr (se : SetEnv) (ce : CheckEnv) (sols : List Solution) (mode : RunMode) (caches : List Cache)
    (σ : List Nat) (hσ : IsPerm σ sols.length) (hc : caches.length = sols.length) (j : Nat) (hj : j < sols.length) :
    solRes se ce (rearr σ sols) mode (rearr σ caches) j = solRes se ce sols mode caches (σ.getD j 0) := by
  have hjσ : j < σ.length := by rw [hσ.length]; exact hj
  have hget : σ.getD j 0 = σ[j] := by simp [List.getD, List.getElem?_eq_getElem hjσ]
  have hlt : σ[j] < sols.length := hσ.lt _ (List.getElem_mem hjσ)
  have hs : (rearr σ sols)[j]? = sols[σ[j]]? := rearr_get σ sols hσ j hjσ
  have hcs : (rearr σ caches)[j]? = caches[σ[j]]? := rearr_get σ caches (by rw [hc]; exact hσ) j hjσ
  unfold solRes
  rw [hs, hget, List.getElem?_eq_getElem hlt]
  simp only []
  have hcache : (rearr σ caches).getD j [] = caches.getD σ[j] [] := by
    simp only [List.getD_eq_getElem?_getD, hcs]
  rw [hcache]
  exact check_predicate_reorder ce sols (rearr σ sols) σ[j] j (rearr_perm σ sols hσ)
    (by rw [hs]) _ _ _ _

theorem map_getD_eq (σ : List Nat) {β : Type} (F : Nat → β) :
    (List.range σ.length).map (fun j => F (σ.getD j 0)) = σ.map F := by
  apply List.ext_getElem?
  intro j
  simp only [List.getElem?_map]
  by_cases hj : j < σ.length
  · simp [List.getElem?_range hj, List.getElem?_eq_getElem hj, List.getD]
  · rw [List.getElem?_eq_none (by simpa using hj), List.getElem?_eq_none (by omega)]
    rfl

theorem rearr_range_map (σ : List Nat) (n : Nat) {β : Type} (F : Nat → β) (hσ : IsPerm σ n) :
    rearr σ ((List.range n).map F) = σ.map F := by
  unfold rearr
  have gen : ∀ (τ : List Nat), (∀ i ∈ τ, i < n) →
      τ.filterMap (fun i => ((List.range n).map F)[i]?) = τ.map F := by
    intro τ
    induction τ with
    | nil => intro _; rfl
    | cons a τ ih =>
      intro ha
      have := ha a (by simp)
      rw [List.filterMap_cons, List.map_cons, ih (fun i hi => ha i (by simp [hi]))]
      simp only [List.getElem?_map, List.getElem?_range this, Option.map_some]
  exact gen σ (fun i hi => hσ.lt i hi)

/-- **`check_set_predicates` of a rearranged set**: the same verdict, the same gas, and the data
outputs and caches of each solution, rearranged the same way -/
theorem csp_rearr (se : SetEnv) (ce : CheckEnv) (sols : List Solution) (mode : RunMode) (caches : List Cache)
    (σ : List Nat) (hσ : IsPerm σ sols.length) (hc : caches.length = sols.length)
    (g : Nat) (outs : List (Nat × List Memory)) (cs : List Cache)
    (h : checkSetPredicates se ce sols mode caches = .ok (g, outs, cs)) :
    checkSetPredicates se ce (rearr σ sols) mode (rearr σ caches) = .ok
      (g, (List.range sols.length).map (fun j => (j, ((outs.map (·.2)).getD (σ.getD j 0) []))), rearr σ cs) ∧
    cs.length = sols.length ∧ outs = (List.range sols.length).map (fun i => (i, (outs.map (·.2)).getD i [])) := by
  obtain ⟨hall, hg, ho, hcs⟩ := csp_ok_form se ce sols mode caches g outs cs h
  have hlen : (rearr σ sols).length = sols.length := rearr_length σ sols hσ
  have hall' : ∀ j, j < (rearr σ sols).length → ∃ v, solRes se ce (rearr σ sols) mode (rearr σ caches) j = .ok v := by
    intro j hj
    rw [hlen] at hj
    rw [solRes_rearr se ce sols mode caches σ hσ hc j hj]
    have hjσ : j < σ.length := by rw [hσ.length]; exact hj
    have : σ.getD j 0 = σ[j] := by simp [List.getD, List.getElem?_eq_getElem hjσ]
    rw [this]
    exact hall _ (hσ.lt _ (List.getElem_mem hjσ))
  have hD : ∀ i, i < sols.length → (outs.map (·.2)).getD i [] = (valOf (solRes se ce sols mode caches i)).2.1 := by
    intro i hi
    rw [ho]
    simp [List.getD, List.getElem?_range hi]
  refine ⟨?_, by rw [hcs]; simp, ?_⟩
  · rw [csp_of_all_ok se ce (rearr σ sols) mode (rearr σ caches) hall', hlen]
    -- rewrite every task of the rearranged set
    have e : ∀ {β : Type} (F : SolOut → β), (List.range sols.length).map (fun j => F (solRes se ce (rearr σ sols) mode (rearr σ caches) j)) =
        (List.range sols.length).map (fun j => F (solRes se ce sols mode caches (σ.getD j 0))) := by
      intro β F
      apply List.map_congr_left
      intro j hj
      rw [solRes_rearr se ce sols mode caches σ hσ hc j (List.mem_range.mp hj)]
    have e1 := e (fun r => (valOf r).1)
    have e3 := e (fun r => (valOf r).2.2)
    simp only [Res.ok.injEq, Prod.mk.injEq]
    refine ⟨?_, ?_, ?_⟩
    · rw [hg, e1]
      have hn : sols.length = σ.length := hσ.length.symm
      rw [hn, map_getD_eq σ (fun i => (valOf (solRes se ce sols mode caches i)).1), ← hn]
      exact gas_perm _ _ (hσ.map _)
    · apply List.map_congr_left
      intro j hj
      have hj' := List.mem_range.mp hj
      rw [solRes_rearr se ce sols mode caches σ hσ hc j hj']
      have hjσ : j < σ.length := by rw [hσ.length]; exact hj'
      have : σ.getD j 0 = σ[j] := by simp [List.getD, List.getElem?_eq_getElem hjσ]
      rw [hD _ (by rw [this]; exact hσ.lt _ (List.getElem_mem hjσ))]
    · rw [e3, hcs]
      have hn : sols.length = σ.length := hσ.length.symm
      rw [rearr_range_map σ sols.length _ hσ]
      conv => lhs; rw [hn]
      rw [map_getD_eq σ (fun i => (valOf (solRes se ce sols mode caches i)).2.2)]
  · rw [ho]
    apply List.map_congr_left
    intro i hi
    have hi' := List.mem_range.mp hi
    simp only [List.map_map, Function.comp, List.getD, List.getElem?_map, List.getElem?_range hi', Option.map_some, Option.getD_some]

/-! ### `decode_mutations` of the check crate, functionally -/

/-- all data-output memories of one solution decode: their mutations, in order -/
def decAll : List Memory → Option (List Mutation)
  | [] => some []
  | m :: ms =>
    match decodeMutations m with
    | .ok muts => (decAll ms).map (muts ++ ·)
    | _ => none

def slotsNew (c : List Nat) (muts : List Mutation) : List (List Nat × List Int) := muts.map fun mu => (c, mu.key)

/-- the new slots are pairwise distinct and none of them is taken -/
def FreshOK (new seen : List (List Nat × List Int)) : Prop := new.Nodup ∧ ∀ x ∈ new, x ∉ seen

def addMuts (s : Solution) (muts : List Mutation) : Solution :=
  { s with mutations := s.mutations ++ muts.map fun mu => (mu.key, mu.value) }

theorem addMuts_nil (s : Solution) : addMuts s [] = s := by simp [addMuts]
theorem addMuts_append (s : Solution) (a b : List Mutation) : addMuts (addMuts s a) b = addMuts s (a ++ b) := by
  simp [addMuts, List.append_assoc]
theorem addMuts_contract (s : Solution) (a : List Mutation) : (addMuts s a).contract = s.contract := rfl

theorem freshOK_append (a b seen : List (List Nat × List Int)) :
    FreshOK (a ++ b) seen ↔ FreshOK a seen ∧ FreshOK b (a.reverse ++ seen) := by
  unfold FreshOK
  rw [List.nodup_append]
  constructor
  · rintro ⟨⟨ha, hb, hab⟩, hs⟩
    refine ⟨⟨ha, fun x hx => hs x (by simp [hx])⟩, hb, ?_⟩
    intro x hx hm
    rcases List.mem_append.mp hm with h | h
    · exact hab x (List.mem_reverse.mp h) x hx rfl
    · exact hs x (by simp [hx]) h
  · rintro ⟨⟨ha, hsa⟩, hb, hsb⟩
    refine ⟨⟨ha, hb, ?_⟩, ?_⟩
    · intro x hx y hy hxy
      subst hxy
      exact hsb x hy (by simp [hx])
    · intro x hx
      rcases List.mem_append.mp hx with h | h
      · exact hsa x h
      · intro hm; exact hsb x h (by simp [hm])

theorem goMuts_iff (i : Nat) : ∀ (muts : List Mutation) (s : Solution) (seen : List (List Nat × List Int))
    (s' : Solution) (seen' : List (List Nat × List Int)),
    applyOutputs.goMems.goMuts i muts s seen = .ok (s', seen') ↔
      FreshOK (slotsNew s.contract muts) seen ∧ s' = addMuts s muts ∧ seen' = (slotsNew s.contract muts).reverse ++ seen := by
  intro muts
  induction muts with
  | nil =>
    intro s seen s' seen'
    simp only [applyOutputs.goMems.goMuts, Res.ok.injEq, Prod.mk.injEq, slotsNew, List.map_nil, List.reverse_nil, List.nil_append,
      addMuts_nil, FreshOK, List.nodup_nil, List.not_mem_nil, false_implies, implies_true, and_self, true_and]
    constructor
    · rintro ⟨rfl, rfl⟩; exact ⟨rfl, rfl⟩
    · rintro ⟨rfl, rfl⟩; exact ⟨rfl, rfl⟩
  | cons mu mus ih =>
    intro s seen s' seen'
    simp only [applyOutputs.goMems.goMuts]
    by_cases hc : seen.contains (s.contract, mu.key) = true
    · rw [if_pos hc]
      constructor
      · intro h; cases h
      · rintro ⟨⟨_, hf⟩, _⟩
        exact absurd (by simpa using hc) (hf (s.contract, mu.key) (by simp [slotsNew]))
    · rw [if_neg hc, ih]
      have hfresh : (s.contract, mu.key) ∉ seen := by simpa using hc
      have e1 : slotsNew s.contract (mu :: mus) = [(s.contract, mu.key)] ++ slotsNew s.contract mus := rfl
      have e2 : addMuts { s with mutations := s.mutations ++ [(mu.key, mu.value)] } mus = addMuts s (mu :: mus) := by
        simp [addMuts, List.append_assoc]
      rw [e1, freshOK_append, e2]
      simp only [List.reverse_cons, List.reverse_nil, List.nil_append, List.singleton_append, List.reverse_append, List.append_assoc]
      constructor
      · rintro ⟨h1, h2, h3⟩
        exact ⟨⟨⟨by simp, by simpa using hfresh⟩, h1⟩, h2, h3⟩
      · rintro ⟨⟨_, h1⟩, h2, h3⟩
        exact ⟨h1, h2, h3⟩

theorem goMems_iff (i : Nat) : ∀ (mems : List Memory) (s : Solution) (seen : List (List Nat × List Int))
    (s' : Solution) (seen' : List (List Nat × List Int)),
    applyOutputs.goMems i mems s seen = .ok (s', seen') ↔
      ∃ muts, decAll mems = some muts ∧ FreshOK (slotsNew s.contract muts) seen ∧ s' = addMuts s muts ∧
        seen' = (slotsNew s.contract muts).reverse ++ seen := by
  intro mems
  induction mems with
  | nil =>
    intro s seen s' seen'
    simp only [applyOutputs.goMems, Res.ok.injEq, Prod.mk.injEq, decAll, Option.some.injEq]
    constructor
    · rintro ⟨rfl, rfl⟩; exact ⟨[], rfl, ⟨by simp [slotsNew], by simp [slotsNew]⟩, (addMuts_nil _).symm, by simp [slotsNew]⟩
    · rintro ⟨muts, rfl, _, h2, h3⟩; rw [addMuts_nil] at h2; simp [slotsNew] at h3; exact ⟨h2.symm, h3.symm⟩
  | cons mem ms ih =>
    intro s seen s' seen'
    simp only [applyOutputs.goMems, decAll]
    cases hd : decodeMutations mem with
    | err e => simp
    | panic m => simp
    | abort m => simp
    | ok muts =>
      simp only []
      cases hg : applyOutputs.goMems.goMuts i muts s seen with
      | err e =>
        simp only []
        constructor
        · intro h; cases h
        · rintro ⟨all, hall, hf, _, _⟩
          exfalso
          cases hda : decAll ms with
          | none => rw [hda] at hall; cases hall
          | some rest =>
            rw [hda] at hall
            simp only [Option.map_some, Option.some.injEq] at hall
            subst hall
            have hf1 : FreshOK (slotsNew s.contract muts) seen := by
              have : slotsNew s.contract (muts ++ rest) = slotsNew s.contract muts ++ slotsNew s.contract rest := by simp [slotsNew]
              rw [this, freshOK_append] at hf
              exact hf.1
            have := (goMuts_iff i muts s seen (addMuts s muts) _).mpr ⟨hf1, rfl, rfl⟩
            rw [hg] at this; cases this
      | panic m =>
        simp only []
        constructor
        · intro h; cases h
        · rintro ⟨all, hall, hf, _, _⟩
          exfalso
          cases hda : decAll ms with
          | none => rw [hda] at hall; cases hall
          | some rest =>
            rw [hda] at hall
            simp only [Option.map_some, Option.some.injEq] at hall
            subst hall
            have hf1 : FreshOK (slotsNew s.contract muts) seen := by
              have : slotsNew s.contract (muts ++ rest) = slotsNew s.contract muts ++ slotsNew s.contract rest := by simp [slotsNew]
              rw [this, freshOK_append] at hf
              exact hf.1
            have := (goMuts_iff i muts s seen (addMuts s muts) _).mpr ⟨hf1, rfl, rfl⟩
            rw [hg] at this; cases this
      | abort m =>
        simp only []
        constructor
        · intro h; cases h
        · rintro ⟨all, hall, hf, _, _⟩
          exfalso
          cases hda : decAll ms with
          | none => rw [hda] at hall; cases hall
          | some rest =>
            rw [hda] at hall
            simp only [Option.map_some, Option.some.injEq] at hall
            subst hall
            have hf1 : FreshOK (slotsNew s.contract muts) seen := by
              have : slotsNew s.contract (muts ++ rest) = slotsNew s.contract muts ++ slotsNew s.contract rest := by simp [slotsNew]
              rw [this, freshOK_append] at hf
              exact hf.1
            have := (goMuts_iff i muts s seen (addMuts s muts) _).mpr ⟨hf1, rfl, rfl⟩
            rw [hg] at this; cases this
      | ok v =>
        obtain ⟨s1, seen1⟩ := v
        simp only []
        obtain ⟨g1, g2, g3⟩ := (goMuts_iff i muts s seen s1 seen1).mp hg
        subst g2 g3
        rw [ih]
        simp only [addMuts_contract]
        constructor
        · rintro ⟨rest, hr, hf, h2, h3⟩
          refine ⟨muts ++ rest, by rw [hr]; rfl, ?_, ?_, ?_⟩
          · have : slotsNew s.contract (muts ++ rest) = slotsNew s.contract muts ++ slotsNew s.contract rest := by simp [slotsNew]
            rw [this, freshOK_append]; exact ⟨g1, hf⟩
          · rw [h2, addMuts_append]
          · rw [h3]; simp [slotsNew, List.append_assoc]
        · rintro ⟨all, hall, hf, h2, h3⟩
          cases hda : decAll ms with
          | none => rw [hda] at hall; cases hall
          | some rest =>
            rw [hda] at hall
            simp only [Option.map_some, Option.some.injEq] at hall
            subst hall
            have e : slotsNew s.contract (muts ++ rest) = slotsNew s.contract muts ++ slotsNew s.contract rest := by simp [slotsNew]
            rw [e, freshOK_append] at hf
            refine ⟨rest, rfl, hf.2, ?_, ?_⟩
            · rw [h2, addMuts_append]
            · rw [h3, e]; simp [List.append_assoc]

/-- the mutations computed for solution `i` -/
def Mof (D : Nat → List Memory) (i : Nat) : List Mutation := (decAll (D i)).getD []

def cOf (sols : List Solution) (i : Nat) : List Nat := match sols[i]? with | some s => s.contract | none => []

/-- the slots newly proposed by the data outputs of solution `i` -/
def newSl (sols : List Solution) (D : Nat → List Memory) (i : Nat) : List (List Nat × List Int) :=
  slotsNew (cOf sols i) (Mof D i)

/-- appending the computed mutations to the listed solutions -/
def upd (D : Nat → List Memory) : List Nat → List Solution → List Solution
  | [], sols => sols
  | i :: is, sols =>
    match sols[i]? with
    | some s => upd D is (sols.set i (addMuts s (Mof D i)))
    | none => upd D is sols

theorem cOf_set (sols : List Solution) (i : Nat) (s : Solution) (muts : List Mutation) (hi : sols[i]? = some s) (j : Nat) :
    cOf (sols.set i (addMuts s muts)) j = cOf sols j := by
  unfold cOf
  rw [List.getElem?_set]
  by_cases hij : i = j
  · subst hij
    have hl : i < sols.length := by
      rcases Nat.lt_or_ge i sols.length with h | h
      · exact h
      · rw [List.getElem?_eq_none h] at hi; cases hi
    have hsi : sols[i] = s := by
      have := List.getElem?_eq_getElem hl
      rw [hi] at this; exact (Option.some.inj this).symm
    simp [hl, hi, addMuts_contract, hsi]
  · simp [hij]

/-- **`decode_mutations` succeeds exactly when** every data output of the listed solutions decodes and
the newly proposed slots are pairwise distinct and not yet taken — and then it appends them -/
theorem applyOutputs_iff (D : Nat → List Memory) : ∀ (is : List Nat) (sols : List Solution) (seen : List (List Nat × List Int))
    (sols1 : List Solution), is.Nodup → (∀ i ∈ is, i < sols.length) →
    (applyOutputs (is.map fun i => (i, D i)) sols seen = .ok sols1 ↔
      (∀ i ∈ is, (decAll (D i)).isSome) ∧ FreshOK (is.flatMap (newSl sols D)) seen ∧ sols1 = upd D is sols) := by
  intro is
  induction is with
  | nil =>
    intro sols seen sols1 _ _
    simp only [List.map_nil, applyOutputs, Res.ok.injEq, List.not_mem_nil, false_implies, implies_true, List.flatMap_nil, upd, true_and]
    constructor
    · intro h; exact ⟨⟨List.nodup_nil, by simp⟩, h.symm⟩
    · intro h; exact h.2.symm
  | cons i is ih =>
    intro sols seen sols1 hn hb
    simp only [List.nodup_cons] at hn
    have hi := hb i (by simp)
    have hs : sols[i]? = some sols[i] := List.getElem?_eq_getElem hi
    simp only [List.map_cons, applyOutputs, hs, upd, List.flatMap_cons]
    have hnew : newSl sols D i = slotsNew sols[i].contract (Mof D i) := by
      unfold newSl cOf; rw [hs]
    cases hg : applyOutputs.goMems i (D i) sols[i] seen with
    | ok v =>
      obtain ⟨s1, seen1⟩ := v
      simp only []
      obtain ⟨muts, hd, hf, h2, h3⟩ := (goMems_iff i (D i) sols[i] seen s1 seen1).mp hg
      have hM : Mof D i = muts := by unfold Mof; rw [hd]; rfl
      subst h2 h3
      rw [ih (sols.set i (addMuts sols[i] muts)) _ sols1 hn.2 (fun j hj => by simpa using hb j (by simp [hj]))]
      have hsame : is.flatMap (newSl (sols.set i (addMuts sols[i] muts)) D) = is.flatMap (newSl sols D) := by
        have : newSl (sols.set i (addMuts sols[i] muts)) D = newSl sols D := by
          funext j
          unfold newSl
          rw [cOf_set sols i sols[i] muts hs j]
        rw [this]
      rw [hsame, freshOK_append, hnew, hM]
      constructor
      · rintro ⟨a, b, c⟩
        refine ⟨?_, ⟨hf, b⟩, c⟩
        intro j hj
        rcases List.mem_cons.mp hj with rfl | hj
        · rw [hd]; rfl
        · exact a j hj
      · rintro ⟨a, ⟨_, b⟩, c⟩
        exact ⟨fun j hj => a j (by simp [hj]), b, c⟩
    | err e =>
      simp only []
      constructor
      · intro h; cases h
      · rintro ⟨a, b, _⟩
        exfalso
        have hd := a i (by simp)
        cases hda : decAll (D i) with
        | none => rw [hda] at hd; cases hd
        | some muts =>
          have hM : Mof D i = muts := by unfold Mof; rw [hda]; rfl
          rw [freshOK_append, hnew, hM] at b
          have := (goMems_iff i (D i) sols[i] seen (addMuts sols[i] muts) _).mpr ⟨muts, hda, b.1, rfl, rfl⟩
          rw [hg] at this; cases this
    | panic m =>
      simp only []
      constructor
      · intro h; cases h
      · rintro ⟨a, b, _⟩
        exfalso
        have hd := a i (by simp)
        cases hda : decAll (D i) with
        | none => rw [hda] at hd; cases hd
        | some muts =>
          have hM : Mof D i = muts := by unfold Mof; rw [hda]; rfl
          rw [freshOK_append, hnew, hM] at b
          have := (goMems_iff i (D i) sols[i] seen (addMuts sols[i] muts) _).mpr ⟨muts, hda, b.1, rfl, rfl⟩
          rw [hg] at this; cases this
    | abort m =>
      simp only []
      constructor
      · intro h; cases h
      · rintro ⟨a, b, _⟩
        exfalso
        have hd := a i (by simp)
        cases hda : decAll (D i) with
        | none => rw [hda] at hd; cases hd
        | some muts =>
          have hM : Mof D i = muts := by unfold Mof; rw [hda]; rfl
          rw [freshOK_append, hnew, hM] at b
          have := (goMems_iff i (D i) sols[i] seen (addMuts sols[i] muts) _).mpr ⟨muts, hda, b.1, rfl, rfl⟩
          rw [hg] at this; cases this

/-- what `upd` leaves at every position -/
theorem upd_get (D : Nat → List Memory) : ∀ (is : List Nat) (sols : List Solution), is.Nodup →
    (upd D is sols).length = sols.length ∧
    ∀ k, (upd D is sols)[k]? = (sols[k]?).map fun s => if k ∈ is then addMuts s (Mof D k) else s := by
  intro is
  induction is with
  | nil => intro sols _; exact ⟨rfl, fun k => by simp only [upd]; cases sols[k]? <;> rfl⟩
  | cons i is ih =>
    intro sols hn
    simp only [List.nodup_cons] at hn
    simp only [upd]
    cases hs : sols[i]? with
    | none =>
      simp only []
      obtain ⟨h1, h2⟩ := ih sols hn.2
      refine ⟨h1, fun k => ?_⟩
      rw [h2 k]
      by_cases hk : k = i
      · subst hk; rw [hs]; rfl
      · cases sols[k]? <;> simp [hk]
    | some s =>
      simp only []
      obtain ⟨h1, h2⟩ := ih (sols.set i (addMuts s (Mof D i))) hn.2
      refine ⟨by rw [h1]; simp, fun k => ?_⟩
      rw [h2 k, List.getElem?_set]
      have hl : i < sols.length := by
        rcases Nat.lt_or_ge i sols.length with h | h
        · exact h
        · rw [List.getElem?_eq_none h] at hs; cases hs
      by_cases hk : i = k
      · subst hk
        have hsi : sols[i] = s := by
          have := List.getElem?_eq_getElem hl
          rw [hs] at this; exact (Option.some.inj this).symm
        simp [hl, hs, hn.1, hsi]
      · have hk' : k ≠ i := fun e => hk e.symm
        simp only [hk, if_false]
        cases sols[k]? <;> simp [hk']

theorem freshOK_congr (a b s t : List (List Nat × List Int)) (hab : a.Perm b) (hst : ∀ x, x ∈ s ↔ x ∈ t) :
    FreshOK a s ↔ FreshOK b t := by
  unfold FreshOK
  rw [hab.nodup_iff]
  constructor
  · rintro ⟨h1, h2⟩; exact ⟨h1, fun x hx hm => h2 x (hab.mem_iff.mpr hx) ((hst x).mpr hm)⟩
  · rintro ⟨h1, h2⟩; exact ⟨h1, fun x hx hm => h2 x (hab.mem_iff.mp hx) ((hst x).mp hm)⟩

theorem flatMap_getD_eq (σ : List Nat) {β : Type} (F : Nat → List β) :
    (List.range σ.length).flatMap (fun j => F (σ.getD j 0)) = σ.flatMap F := by
  rw [List.flatMap_def, List.flatMap_def, map_getD_eq σ F]

theorem declaredSlots_perm (a b : List Solution) (h : a.Perm b) : ∀ x, x ∈ declaredSlots a ↔ x ∈ declaredSlots b := by
  intro x
  unfold declaredSlots
  exact (h.flatMap_right _).mem_iff

theorem cOf_rearr (sols : List Solution) (σ : List Nat) (hσ : IsPerm σ sols.length) (j : Nat) (hj : j < sols.length) :
    cOf (rearr σ sols) j = cOf sols (σ.getD j 0) := by
  have hjσ : j < σ.length := by rw [hσ.length]; exact hj
  have hget : σ.getD j 0 = σ[j] := by simp [List.getD, List.getElem?_eq_getElem hjσ]
  unfold cOf
  rw [rearr_get σ sols hσ j hjσ, hget]

/-- **`check_and_compute_solution_set` of a rearranged set** (one pass): the same verdict and gas,
and every solution gets the same computed mutations appended -/
theorem cac_rearr (se : SetEnv) (ce : CheckEnv) (sols : List Solution) (mode : RunMode) (caches : List Cache)
    (σ : List Nat) (hσ : IsPerm σ sols.length) (hc : caches.length = sols.length)
    (g : Nat) (sols1 : List Solution) (cs : List Cache)
    (h : checkAndCompute se ce sols mode caches = .ok (g, sols1, cs)) :
    checkAndCompute se ce (rearr σ sols) mode (rearr σ caches) = .ok (g, rearr σ sols1, rearr σ cs) ∧
    sols1.length = sols.length ∧ cs.length = sols.length := by
  unfold checkAndCompute at h
  cases hcsp : checkSetPredicates se ce sols mode caches with
  | err e => rw [hcsp] at h; cases h
  | panic m => rw [hcsp] at h; cases h
  | abort m => rw [hcsp] at h; cases h
  | ok v =>
    obtain ⟨g0, outs, cs0⟩ := v
    rw [hcsp] at h
    simp only at h
    cases hap : applyOutputs outs sols (declaredSlots sols) with
    | err e => rw [hap] at h; obtain ⟨_, _⟩ := e; cases h
    | panic m => rw [hap] at h; cases h
    | abort m => rw [hap] at h; cases h
    | ok s1 =>
      rw [hap] at h
      simp only [Res.ok.injEq, Prod.mk.injEq] at h
      obtain ⟨rfl, rfl, rfl⟩ := h
      obtain ⟨hcsp', hcl, hform⟩ := csp_rearr se ce sols mode caches σ hσ hc g0 outs cs0 hcsp
      -- the data outputs as a function of the solution index
      let D : Nat → List Memory := fun i => (outs.map (·.2)).getD i []
      have hform' : outs = (List.range sols.length).map fun i => (i, D i) := hform
      rw [hform'] at hap
      have hA := (applyOutputs_iff D (List.range sols.length) sols (declaredSlots sols) s1 List.nodup_range
        (fun i hi => List.mem_range.mp hi)).mp hap
      obtain ⟨hdec, hfresh, hres⟩ := hA
      have hlen' : (rearr σ sols).length = sols.length := rearr_length σ sols hσ
      have hn : sols.length = σ.length := hσ.length.symm
      have hσj : ∀ j, j < sols.length → σ.getD j 0 < sols.length := by
        intro j hj
        have hjσ : j < σ.length := by rw [hσ.length]; exact hj
        have : σ.getD j 0 = σ[j] := by simp [List.getD, List.getElem?_eq_getElem hjσ]
        rw [this]; exact hσ.lt _ (List.getElem_mem hjσ)
      let D' : Nat → List Memory := fun j => D (σ.getD j 0)
      -- the rearranged run of `decode_mutations`
      have hap' : applyOutputs ((List.range sols.length).map fun j => (j, D' j)) (rearr σ sols) (declaredSlots (rearr σ sols))
          = .ok (upd D' (List.range sols.length) (rearr σ sols)) := by
        apply (applyOutputs_iff D' (List.range sols.length) (rearr σ sols) _ _ List.nodup_range
          (fun i hi => by rw [hlen']; exact List.mem_range.mp hi)).mpr
        refine ⟨fun j hj => hdec _ (List.mem_range.mpr (hσj j (List.mem_range.mp hj))), ?_, rfl⟩
        have e1 : (List.range sols.length).flatMap (newSl (rearr σ sols) D') =
            (List.range sols.length).flatMap (fun j => newSl sols D (σ.getD j 0)) := by
          rw [List.flatMap_def, List.flatMap_def]
          congr 1
          apply List.map_congr_left
          intro j hj
          unfold newSl Mof
          rw [cOf_rearr sols σ hσ j (List.mem_range.mp hj)]
        rw [e1]
        have e2 : (List.range sols.length).flatMap (fun j => newSl sols D (σ.getD j 0)) = σ.flatMap (newSl sols D) := by
          conv => lhs; rw [hn]
          exact flatMap_getD_eq σ (newSl sols D)
        rw [e2]
        exact (freshOK_congr _ _ _ _ (hσ.flatMap_right _) (declaredSlots_perm _ _ (rearr_perm σ sols hσ))).mpr hfresh
      -- and its result is the rearranged result
      have hupd : upd D' (List.range sols.length) (rearr σ sols) = rearr σ s1 := by
        rw [hres]
        obtain ⟨l1, g1⟩ := upd_get D (List.range sols.length) sols List.nodup_range
        obtain ⟨l2, g2⟩ := upd_get D' (List.range sols.length) (rearr σ sols) List.nodup_range
        apply List.ext_getElem?
        intro j
        by_cases hj : j < sols.length
        · have hjσ : j < σ.length := by rw [hσ.length]; exact hj
          have hget : σ.getD j 0 = σ[j] := by simp [List.getD, List.getElem?_eq_getElem hjσ]
          have r1 : (rearr σ (upd D (List.range sols.length) sols))[j]? = (upd D (List.range sols.length) sols)[σ[j]]? :=
            rearr_get σ (upd D (List.range sols.length) sols) (by rw [l1]; exact hσ) j hjσ
          have r2 : (rearr σ sols)[j]? = sols[σ[j]]? := rearr_get σ sols hσ j hjσ
          rw [g2 j, r1, g1 σ[j], r2]
          have m1 : j ∈ List.range sols.length := List.mem_range.mpr hj
          have m2 : σ[j] ∈ List.range sols.length := List.mem_range.mpr (by rw [← hget]; exact hσj j hj)
          simp only [m1, m2, if_true, D', Mof, hget]
        · rw [List.getElem?_eq_none (by rw [l2, hlen']; omega),
            List.getElem?_eq_none (by rw [rearr_length σ (upd D (List.range sols.length) sols) (by rw [l1]; exact hσ), l1]; omega)]
      refine ⟨?_, ?_, hcl⟩
      · unfold checkAndCompute
        rw [hcsp']
        simp only []
        have : (List.range sols.length).map (fun j => (j, (outs.map (·.2)).getD (σ.getD j 0) [])) =
            (List.range sols.length).map fun j => (j, D' j) := rfl
        rw [this, hap', hupd]
      · rw [hres]; exact (upd_get D (List.range sols.length) sols List.nodup_range).1

theorem cac_unique (se : SetEnv) (ce : CheckEnv) (sols : List Solution) (mode : RunMode) (caches : List Cache)
    (gas : Nat) (sols' : List Solution) (caches' : List Cache) (hn : (C16.slotsOf sols).Nodup)
    (h : checkAndCompute se ce sols mode caches = .ok (gas, sols', caches')) : (C16.slotsOf sols').Nodup := by
  unfold checkAndCompute at h
  cases hc : checkSetPredicates se ce sols mode caches with
  | err e => rw [hc] at h; cases h
  | panic m => rw [hc] at h; cases h
  | abort m => rw [hc] at h; cases h
  | ok v =>
    obtain ⟨g, outs, cs⟩ := v
    rw [hc] at h
    simp only at h
    cases ha : applyOutputs outs sols (declaredSlots sols) with
    | err e => rw [ha] at h; obtain ⟨_, _⟩ := e; cases h
    | panic m => rw [ha] at h; cases h
    | abort m => rw [ha] at h; cases h
    | ok s1 =>
      rw [ha] at h
      simp only [Res.ok.injEq, Prod.mk.injEq] at h
      obtain ⟨_, rfl, _⟩ := h
      exact C16.applyOutputs_unique outs sols _ s1 ha hn (by rw [C16.declaredSlots_eq]; exact fun x hx => hx)

/-- **C04, end to end**: for a set with at most one mutation per (contract, key) — in particular
every set accepted by `check_set` — and every rearrangement `σ` of its solutions, the two-pass check
of the rearranged set succeeds whenever the original does, with the same total gas and, solution by
solution, the same declared and computed mutations (the result is the original result rearranged
by `σ`).  Since `σ` is arbitrary, the statement also holds in the other direction -/
theorem two_pass_rearr (se : SetEnv) (mkCe : StateView → CheckEnv) (pre : StateView) (sols : List Solution)
    (σ : List Nat) (hσ : IsPerm σ sols.length) (hn : (C16.slotsOf sols).Nodup)
    (g : Nat) (out : List Solution) (h : twoPass se mkCe pre sols = .ok (g, out)) :
    twoPass se mkCe pre (rearr σ sols) = .ok (g, rearr σ out) := by
  unfold twoPass at h ⊢
  simp only at h ⊢
  cases h1 : checkAndCompute se (mkCe (readOrFallback [] pre)) sols .outputs (sols.map fun _ => []) with
  | err e => rw [h1] at h; cases h
  | panic m => rw [h1] at h; cases h
  | abort m => rw [h1] at h; cases h
  | ok v1 =>
    obtain ⟨gas1, sols1, caches⟩ := v1
    rw [h1] at h
    simp only at h
    have hmap : (rearr σ sols).map (fun _ => ([] : Cache)) = rearr σ (sols.map fun _ => ([] : Cache)) := (rearr_map σ sols _).symm
    obtain ⟨p1, l1, lc⟩ := cac_rearr se (mkCe (readOrFallback [] pre)) sols .outputs (sols.map fun _ => []) σ hσ (by simp)
      gas1 sols1 caches h1
    rw [hmap, p1]
    simp only []
    -- the post-state view is the same function
    have hn1 := cac_unique se _ sols .outputs _ gas1 sols1 caches hn h1
    have hσ1 : IsPerm σ sols1.length := by rw [l1]; exact hσ
    have hview : readOrFallback (buildPostState (rearr σ sols1)) pre = readOrFallback (buildPostState sols1) pre :=
      (post_view_perm sols1 (rearr σ sols1) (rearr_perm σ sols1 hσ1).symm pre hn1).symm
    rw [hview]
    cases h2 : checkAndCompute se (mkCe (readOrFallback (buildPostState sols1) pre)) sols1 .checks caches with
    | err e => rw [h2] at h; cases h
    | panic m => rw [h2] at h; cases h
    | abort m => rw [h2] at h; cases h
    | ok v2 =>
      obtain ⟨gas2, sols2, caches2⟩ := v2
      rw [h2] at h
      simp only [Res.ok.injEq, Prod.mk.injEq] at h
      obtain ⟨rfl, rfl⟩ := h
      obtain ⟨p2, _, _⟩ := cac_rearr se _ sols1 .checks caches σ hσ1 (by rw [lc, l1]) gas2 sols2 caches2 h2
      rw [p2]

/-- for an accepted set -/
theorem two_pass_rearr_accepted (se : SetEnv) (mkCe : StateView → CheckEnv) (pre : StateView) (sols : List Solution)
    (σ : List Nat) (hσ : IsPerm σ sols.length) (hacc : checkSet sols = .ok ())
    (g : Nat) (out : List Solution) (h : twoPass se mkCe pre sols = .ok (g, out)) :
    twoPass se mkCe pre (rearr σ sols) = .ok (g, rearr σ out) :=
  two_pass_rearr se mkCe pre sols σ hσ ((C16.check_set_iff sols).mp hacc).2.2.2.2.2 g out h

/-! ### every reordering is a rearrangement by some index list -/

theorem rearr_cons_shift {α : Type} (x : α) (t : List α) (τ : List Nat) :
    rearr (τ.map (· + 1)) (x :: t) = rearr τ t := by
  unfold rearr
  rw [List.filterMap_map]
  congr 1

theorem isPerm_cons (τ : List Nat) (n : Nat) (h : IsPerm τ n) : IsPerm (0 :: τ.map (· + 1)) (n + 1) := by
  unfold IsPerm at *
  rw [List.range_succ_eq_map]
  exact List.Perm.cons 0 (h.map _)

theorem rearr_comp {α : Type} (σ1 σ2 : List Nat) (l : List α) (h1 : ∀ i ∈ σ1, i < l.length) (h2 : ∀ j ∈ σ2, j < σ1.length) :
    rearr σ2 (rearr σ1 l) = rearr (rearr σ2 σ1) l := by
  obtain ⟨len1, get1⟩ := rearr_valid l σ1 h1
  induction σ2 with
  | nil => rfl
  | cons a σ2 ih =>
    have ha : a < σ1.length := h2 a (by simp)
    have ih' := ih (fun j hj => h2 j (by simp [hj]))
    unfold rearr at *
    simp only [List.filterMap_cons]
    rw [get1 a ha, List.getElem?_eq_getElem ha]
    have hl : σ1[a] < l.length := h1 _ (List.getElem_mem ha)
    simp only [List.getElem?_eq_getElem hl, List.filterMap_cons]
    rw [ih']

theorem perm_is_rearr {α : Type} : ∀ (l' l : List α), l'.Perm l → ∃ σ, IsPerm σ l.length ∧ l' = rearr σ l := by
  intro l' l h
  induction h with
  | nil => exact ⟨[], by unfold IsPerm; simp, rfl⟩
  | cons x _ ih =>
    rename_i t1 t2 _
    obtain ⟨τ, hτ, e⟩ := ih
    refine ⟨0 :: τ.map (· + 1), isPerm_cons τ _ hτ, ?_⟩
    have : rearr (0 :: τ.map (· + 1)) (x :: t2) = x :: rearr (τ.map (· + 1)) (x :: t2) := by
      simp [rearr]
    rw [this, rearr_cons_shift, ← e]
  | swap x y t =>
    refine ⟨1 :: 0 :: (List.range t.length).map (· + 2), ?_, ?_⟩
    · unfold IsPerm
      have : List.range (x :: y :: t).length = 0 :: 1 :: (List.range t.length).map (· + 2) := by
        simp only [List.length_cons]
        rw [List.range_succ_eq_map, List.range_succ_eq_map]
        simp [List.map_map, Function.comp]
      rw [this]
      exact List.Perm.swap _ _ _
    · have e2 : rearr ((List.range t.length).map (· + 2)) (x :: y :: t) = t := by
        have : (List.range t.length).map (· + 2) = ((List.range t.length).map (· + 1)).map (· + 1) := by
          simp [List.map_map, Function.comp]
        rw [this, rearr_cons_shift, rearr_cons_shift, rearr_range]
      simp only [rearr, List.filterMap_cons] at e2 ⊢
      simp [e2]
  | trans h1 h2 ih1 ih2 =>
    rename_i l1 l2 l3
    obtain ⟨σ1, hσ1, e1⟩ := ih1
    obtain ⟨σ2, hσ2, e2⟩ := ih2
    -- l1 = rearr σ1 l2, l2 = rearr σ2 l3
    have hl : l2.length = σ2.length := by
      rw [e2, rearr_length σ2 l3 hσ2, hσ2.length]
    refine ⟨rearr σ1 σ2, ?_, ?_⟩
    · have : (rearr σ1 σ2).Perm σ2 := rearr_perm σ1 σ2 (by rw [← hl]; exact hσ1)
      exact this.trans hσ2
    · rw [e1]
      have hj : ∀ j ∈ σ1, j < σ2.length := fun j hj => by rw [← hl]; exact hσ1.lt j hj
      rw [show l2 = rearr σ2 l3 from e2]
      exact rearr_comp σ2 σ1 l3 (fun i hi => hσ2.lt i hi) hj

/-- **C04 for every reordering**: if `sols'` is any permutation of an accepted set `sols` whose
two-pass check succeeds, the check of `sols'` succeeds with the same gas, and its result is the
same permutation of the original result (so every solution keeps its computed mutations) -/
theorem two_pass_perm (se : SetEnv) (mkCe : StateView → CheckEnv) (pre : StateView) (sols sols' : List Solution)
    (hp : sols'.Perm sols) (hacc : checkSet sols = .ok ()) (g : Nat) (out : List Solution)
    (h : twoPass se mkCe pre sols = .ok (g, out)) :
    ∃ out', twoPass se mkCe pre sols' = .ok (g, out') ∧ out'.Perm out := by
  obtain ⟨σ, hσ, e⟩ := perm_is_rearr sols' sols hp
  refine ⟨rearr σ out, by rw [e]; exact two_pass_rearr_accepted se mkCe pre sols σ hσ hacc g out h, ?_⟩
  -- the result has as many solutions as the set
  have hlen : out.length = sols.length := by
    unfold twoPass at h
    simp only at h
    cases h1 : checkAndCompute se (mkCe (readOrFallback [] pre)) sols .outputs (sols.map fun _ => []) with
    | err e => rw [h1] at h; cases h
    | panic m => rw [h1] at h; cases h
    | abort m => rw [h1] at h; cases h
    | ok v1 =>
      obtain ⟨gas1, sols1, caches⟩ := v1
      rw [h1] at h
      simp only at h
      obtain ⟨_, l1, lc⟩ := cac_rearr se _ sols .outputs _ (List.range sols.length) (by unfold IsPerm; exact List.Perm.refl _) (by simp) gas1 sols1 caches h1
      cases h2 : checkAndCompute se (mkCe (readOrFallback (buildPostState sols1) pre)) sols1 .checks caches with
      | err e => rw [h2] at h; cases h
      | panic m => rw [h2] at h; cases h
      | abort m => rw [h2] at h; cases h
      | ok v2 =>
        obtain ⟨gas2, sols2, caches2⟩ := v2
        rw [h2] at h
        simp only [Res.ok.injEq, Prod.mk.injEq] at h
        obtain ⟨_, rfl⟩ := h
        obtain ⟨_, l2, _⟩ := cac_rearr se _ sols1 .checks caches (List.range sols1.length) (by unfold IsPerm; exact List.Perm.refl _) (by rw [lc, l1]) gas2 sols2 caches2 h2
        rw [l2, l1]
  exact rearr_perm σ out (by rw [hlen]; exact hσ)

/-- non-vacuity: reversing a three-element list is a rearrangement -/
example : IsPerm [2, 0, 1] 3 ∧ rearr [2, 0, 1] ["a", "b", "c"] = ["c", "a", "b"] := by
  refine ⟨?_, rfl⟩
  unfold IsPerm
  decide

end Essential.C04
