/-
C16 (last clause) / C04 — the set returned by `check_and_compute_solution_set` still has at
most one mutation per (contract, key): computed mutations are checked against every slot
already mutated anywhere in the set and against each other.
-/
import Essential.Model.Check
import Essential.Props.C16

set_option linter.unusedSimpArgs false
set_option linter.unusedVariables false
namespace Essential.C16
open Essential

/-- the (contract, key) slots mutated by a set -/
def slotsOf (sols : List Solution) : List (List Nat × List Int) := (setMutations sols).map fun x => (x.1, x.2.1)

theorem declaredSlots_eq (sols : List Solution) : declaredSlots sols = slotsOf sols := by
  unfold declaredSlots slotsOf setMutations
  rw [List.map_flatMap]
  congr 1
  funext s
  simp [List.map_map, Function.comp]

/-- what `goMuts` does: it appends mutations with fresh, pairwise distinct slots and records them -/
theorem goMuts_spec (i : Nat) : ∀ (muts : List Mutation) (s : Solution) (seen : List (List Nat × List Int))
    (s' : Solution) (seen' : List (List Nat × List Int)),
    applyOutputs.goMems.goMuts i muts s seen = .ok (s', seen') →
      s'.contract = s.contract ∧
      ∃ ms : List (List Int × List Int), s'.mutations = s.mutations ++ ms ∧
        (ms.map fun m => (s.contract, m.1)).Nodup ∧ (∀ m ∈ ms, (s.contract, m.1) ∉ seen) ∧
        (∀ x, x ∈ seen' ↔ x ∈ seen ∨ x ∈ ms.map fun m => (s.contract, m.1)) := by
  intro muts
  induction muts with
  | nil =>
    intro s seen s' seen' h
    simp only [applyOutputs.goMems.goMuts, Res.ok.injEq, Prod.mk.injEq] at h
    obtain ⟨rfl, rfl⟩ := h
    exact ⟨rfl, [], by simp, by simp, by simp, by simp⟩
  | cons mu mus ih =>
    intro s seen s' seen' h
    simp only [applyOutputs.goMems.goMuts] at h
    by_cases hc : seen.contains (s.contract, mu.key) = true
    · rw [if_pos hc] at h; cases h
    · rw [if_neg hc] at h
      obtain ⟨h1, ms, h2, h3, h4, h5⟩ := ih _ _ _ _ h
      simp only at h1 h2 h3 h4 h5
      have hfresh : (s.contract, mu.key) ∉ seen := by simpa using hc
      refine ⟨h1, (mu.key, mu.value) :: ms, by rw [h2]; simp, ?_, ?_, ?_⟩
      · simp only [List.map_cons, List.nodup_cons]
        refine ⟨?_, h3⟩
        intro hm
        simp only [List.mem_map] at hm
        obtain ⟨m, hm, he⟩ := hm
        exact h4 m hm (by rw [he]; simp)
      · intro m hm
        rcases List.mem_cons.mp hm with rfl | hm
        · exact hfresh
        · intro hs; exact h4 m hm (by simp [hs])
      · intro x
        rw [h5 x]
        simp only [List.mem_cons, List.map_cons]
        constructor
        · rintro ((rfl | h) | h)
          · exact Or.inr (Or.inl rfl)
          · exact Or.inl h
          · exact Or.inr (Or.inr h)
        · rintro (h | rfl | h)
          · exact Or.inl (Or.inr h)
          · exact Or.inl (Or.inl rfl)
          · exact Or.inr h

theorem goMems_spec (i : Nat) : ∀ (mems : List Memory) (s : Solution) (seen : List (List Nat × List Int))
    (s' : Solution) (seen' : List (List Nat × List Int)),
    applyOutputs.goMems i mems s seen = .ok (s', seen') →
      s'.contract = s.contract ∧
      ∃ ms : List (List Int × List Int), s'.mutations = s.mutations ++ ms ∧
        (ms.map fun m => (s.contract, m.1)).Nodup ∧ (∀ m ∈ ms, (s.contract, m.1) ∉ seen) ∧
        (∀ x, x ∈ seen' ↔ x ∈ seen ∨ x ∈ ms.map fun m => (s.contract, m.1)) := by
  intro mems
  induction mems with
  | nil =>
    intro s seen s' seen' h
    simp only [applyOutputs.goMems, Res.ok.injEq, Prod.mk.injEq] at h
    obtain ⟨rfl, rfl⟩ := h
    exact ⟨rfl, [], by simp, by simp, by simp, by simp⟩
  | cons mem ms ih =>
    intro s seen s' seen' h
    simp only [applyOutputs.goMems] at h
    cases hd : decodeMutations mem with
    | err e => rw [hd] at h; cases h
    | panic m => rw [hd] at h; cases h
    | abort m => rw [hd] at h; cases h
    | ok muts =>
      rw [hd] at h
      simp only at h
      cases hg : applyOutputs.goMems.goMuts i muts s seen with
      | err e => rw [hg] at h; cases h
      | panic m => rw [hg] at h; cases h
      | abort m => rw [hg] at h; cases h
      | ok v =>
        obtain ⟨s1, seen1⟩ := v
        rw [hg] at h
        simp only at h
        obtain ⟨a1, m1, a2, a3, a4, a5⟩ := goMuts_spec i muts s seen s1 seen1 hg
        obtain ⟨b1, m2, b2, b3, b4, b5⟩ := ih s1 seen1 s' seen' h
        rw [a1] at b3 b4 b5
        refine ⟨by rw [b1, a1], m1 ++ m2, by rw [b2, a2, List.append_assoc], ?_, ?_, ?_⟩
        · rw [List.map_append, List.nodup_append]
          refine ⟨a3, b3, ?_⟩
          intro x hx y hy hxy
          subst hxy
          simp only [List.mem_map] at hy
          obtain ⟨m, hm, rfl⟩ := hy
          exact b4 m hm ((a5 _).mpr (Or.inr hx))
        · intro m hm
          rcases List.mem_append.mp hm with hm | hm
          · exact a4 m hm
          · intro hs; exact b4 m hm ((a5 _).mpr (Or.inl hs))
        · intro x
          rw [b5 x, a5 x, List.map_append, List.mem_append]
          constructor
          · rintro ((h | h) | h)
            · exact Or.inl h
            · exact Or.inr (Or.inl h)
            · exact Or.inr (Or.inr h)
          · rintro (h | h | h)
            · exact Or.inl (Or.inl h)
            · exact Or.inl (Or.inr h)
            · exact Or.inr h

/-- replacing solution `i` by one with extra mutations adds exactly their slots -/
theorem slotsOf_set (sols : List Solution) (i : Nat) (s s' : Solution) (ms : List (List Int × List Int))
    (hi : sols[i]? = some s) (hc : s'.contract = s.contract) (hm : s'.mutations = s.mutations ++ ms) :
    (slotsOf (sols.set i s')).Perm (slotsOf sols ++ ms.map fun m => (s.contract, m.1)) := by
  unfold slotsOf setMutations
  induction sols generalizing i with
  | nil => simp at hi
  | cons a as ih =>
    cases i with
    | zero =>
      simp only [List.getElem?_cons_zero, Option.some.injEq] at hi
      subst hi
      simp only [List.set_cons_zero, List.flatMap_cons, List.map_append, hm, hc, List.map_map, Function.comp]
      rw [List.append_assoc, List.append_assoc]
      apply List.Perm.append_left
      exact List.perm_append_comm
    | succ j =>
      simp only [List.getElem?_cons_succ] at hi
      simp only [List.set_cons_succ, List.flatMap_cons, List.map_append, List.append_assoc]
      apply List.Perm.append_left
      have := ih j hi
      simpa [List.map_append] using this

/-- **the set returned by `decode_mutations` has unique slots**: if the input set has unique slots,
all of them known to the duplicate set, then so has every set that is returned -/
theorem applyOutputs_unique : ∀ (outs : List (Nat × List Memory)) (sols : List Solution) (seen : List (List Nat × List Int))
    (sols' : List Solution), applyOutputs outs sols seen = .ok sols' →
      (slotsOf sols).Nodup → (∀ x ∈ slotsOf sols, x ∈ seen) → (slotsOf sols').Nodup := by
  intro outs
  induction outs with
  | nil =>
    intro sols seen sols' h hn _
    simp only [applyOutputs, Res.ok.injEq] at h
    subst h; exact hn
  | cons o rest ih =>
    intro sols seen sols' h hn hs
    obtain ⟨i, mems⟩ := o
    simp only [applyOutputs] at h
    cases hi : sols[i]? with
    | none => rw [hi] at h; cases h
    | some s =>
      rw [hi] at h
      simp only at h
      cases hg : applyOutputs.goMems i mems s seen with
      | err e => rw [hg] at h; cases h
      | panic m => rw [hg] at h; cases h
      | abort m => rw [hg] at h; cases h
      | ok v =>
        obtain ⟨s1, seen1⟩ := v
        rw [hg] at h
        simp only at h
        obtain ⟨a1, ms, a2, a3, a4, a5⟩ := goMems_spec i mems s seen s1 seen1 hg
        have hp := slotsOf_set sols i s s1 ms hi a1 a2
        apply ih (sols.set i s1) seen1 sols' h
        · rw [hp.nodup_iff, List.nodup_append]
          refine ⟨hn, a3, ?_⟩
          intro x hx y hy hxy
          subst hxy
          simp only [List.mem_map] at hy
          obtain ⟨m, hm, rfl⟩ := hy
          exact a4 m hm (hs _ hx)
        · intro x hx
          rw [a5 x]
          rcases List.mem_append.mp (hp.mem_iff.mp hx) with h' | h'
          · exact Or.inl (hs x h')
          · exact Or.inr h'

/-- **computed_set_valid**: a set accepted by `check_set`, run through
`check_and_compute_solution_set` in either mode, comes back with at most one mutation per
(contract, key) — declared and computed mutations together -/
theorem computed_set_valid (se : SetEnv) (ce : CheckEnv) (sols : List Solution) (mode : RunMode) (caches : List Cache)
    (gas : Nat) (sols' : List Solution) (caches' : List Cache)
    (hacc : checkSet sols = .ok ()) (h : checkAndCompute se ce sols mode caches = .ok (gas, sols', caches')) :
    (slotsOf sols').Nodup := by
  have hn : (slotsOf sols).Nodup := ((check_set_iff sols).mp hacc).2.2.2.2.2
  unfold checkAndCompute at h
  cases hc : checkSetPredicates se ce sols mode caches with
  | err e => rw [hc] at h; cases h
  | panic m => rw [hc] at h; cases h
  | abort m => rw [hc] at h; cases h
  | ok v =>
    obtain ⟨g, outs, cs⟩ := v
    rw [hc] at h
    simp only at h
    cases ha : applyOutputs outs sols (declaredSlots sols) with
    | err e => rw [ha] at h; obtain ⟨_, _⟩ := e; cases h
    | panic m => rw [ha] at h; cases h
    | abort m => rw [ha] at h; cases h
    | ok s1 =>
      rw [ha] at h
      simp only [Res.ok.injEq, Prod.mk.injEq] at h
      obtain ⟨_, rfl, _⟩ := h
      exact applyOutputs_unique outs sols _ s1 ha hn (by rw [declaredSlots_eq]; exact fun x hx => hx)

end Essential.C16
