/-
C18 — Wire, text and serde codecs round-trip every value (binary / word codecs and
`node_edges`; the serde data-model part is in `Props/C18Serde.lean`).
-/
import Essential.Model.Types
import Essential.Lemmas.Vm

set_option linter.unusedSimpArgs false
namespace Essential.C18
open Essential

/-! ### words ↔ bytes ↔ fixed-width arrays -/

theorem word_bytes_inverse (w : Int) (h : InI64 w) : wordOfBytes (bytesOfWord w) = w :=
  wordOfBytes_bytesOfWord w h

theorem bytes_word_inverse (a b c d e f g h : Nat)
    (ha : a < 256) (hb : b < 256) (hc : c < 256) (hd : d < 256) (he : e < 256) (hf : f < 256)
    (hg : g < 256) (hh : h < 256) :
    bytesOfWord (wordOfBytes [a, b, c, d, e, f, g, h]) = [a, b, c, d, e, f, g, h] :=
  bytesOfWord_wordOfBytes a b c d e f g h ha hb hc hd he hf hg hh

/-- words → bytes → words is the identity (hence `word_4_from_u8_32 ∘ u8_32_from_word_4`,
`word_8_from_u8_64 ∘ u8_64_from_word_8` and `words_from_hex_str ∘ hex_str_from_words`) -/
theorem words_bytes_words (ws : List Int) (h : AllI64 ws) : wordsOfBytes (bytesOfWords ws) = ws := by
  induction ws with
  | nil => rfl
  | cons w ws ih =>
    have hw := h w (by simp)
    have ih' := ih (fun x hx => h x (by simp [hx]))
    simp only [bytesOfWords, List.flatMap_cons] at ih' ⊢
    have : bytesOfWord w = [_, _, _, _, _, _, _, _] := rfl
    rw [this]
    simp only [List.cons_append, List.nil_append, wordsOfBytes, ih']
    rw [← this, wordOfBytes_bytesOfWord w hw]

/-- bytes → words → bytes is the identity on whole words (`u8_32_from_word_4 ∘ word_4_from_u8_32` etc.) -/
theorem bytes_words_bytes : ∀ (n : Nat) (bs : List Nat), bs.length = 8 * n → AllBytes bs →
    bytesOfWords (wordsOfBytes bs) = bs
  | 0, bs, hl, _ => by
    have : bs = [] := List.length_eq_zero_iff.mp (by omega)
    subst this; rfl
  | n+1, bs, hl, hb => by
    match bs, hl with
    | a :: b :: c :: d :: e :: f :: g :: h :: rest, hl =>
      have hr : rest.length = 8 * n := by simp at hl; omega
      have hb' : AllBytes rest := fun x hx => hb x (by simp [hx])
      have ih := bytes_words_bytes n rest hr hb'
      simp only [wordsOfBytes, bytesOfWords, List.flatMap_cons] at ih ⊢
      rw [ih, bytesOfWord_wordOfBytes a b c d e f g h (hb a (by simp)) (hb b (by simp)) (hb c (by simp))
        (hb d (by simp)) (hb e (by simp)) (hb f (by simp)) (hb g (by simp)) (hb h (by simp))]
      simp

theorem u16_bytes_inverse (n : Nat) (h : n < 65536) : u16OfBytes (bytesOfU16 n) = n := by
  simp only [bytesOfU16, u16OfBytes]; omega

/-! ### mutations -/

theorem natCast_lt_zero (n : Nat) : ((n : Int) < 0) = False := by simp

theorem decodeMutation_encode (m : Mutation) (tail : List Int) :
    decodeMutation (encodeMutation m ++ tail) = .ok m := by
  obtain ⟨k, v⟩ := m
  unfold decodeMutation encodeMutation
  simp only [List.cons_append, List.append_assoc]
  have hlen : ((k.length : Int) :: (k ++ ((v.length : Int) :: (v ++ tail)))).length = 2 + k.length + v.length + tail.length := by
    simp only [List.length_cons, List.length_append]; omega
  have h1 : ¬ ((k.length : Int) :: (k ++ ((v.length : Int) :: (v ++ tail)))).length < 2 := by omega
  rw [if_neg h1]
  simp only [List.getElem?_cons_zero, natCast_lt_zero, if_false, Int.toNat_natCast]
  have h2 : ¬ ((k.length : Int) :: (k ++ ((v.length : Int) :: (v ++ tail)))).length ≤ 1 + k.length := by omega
  rw [if_neg h2]
  have h3 : ((k.length : Int) :: (k ++ ((v.length : Int) :: (v ++ tail))))[1 + k.length]? = some (v.length : Int) := by
    rw [Nat.add_comm, List.getElem?_cons_succ, List.getElem?_append_right (Nat.le_refl _)]
    simp
  simp only [h3, natCast_lt_zero, if_false, Int.toNat_natCast]
  have h4 : ¬ ((k.length : Int) :: (k ++ ((v.length : Int) :: (v ++ tail)))).length < 2 + k.length + v.length := by
    omega
  rw [if_neg h4]
  have h5 : (List.drop 1 ((k.length : Int) :: (k ++ ((v.length : Int) :: (v ++ tail))))).take k.length = k := by
    simp
  have h6 : (List.drop (2 + k.length) ((k.length : Int) :: (k ++ ((v.length : Int) :: (v ++ tail))))).take v.length = v := by
    have e : (k.length : Int) :: (k ++ ((v.length : Int) :: (v ++ tail))) =
        ((k.length : Int) :: k ++ [(v.length : Int)]) ++ (v ++ tail) := by simp
    have l : 2 + k.length = ((k.length : Int) :: k ++ [(v.length : Int)]).length := by
      simp only [List.length_cons, List.length_append, List.length_nil]; omega
    rw [e, l, List.drop_left]; simp
  rw [h5, h6]

/-- **decoding the encoding of a mutation returns it** -/
theorem mutation_decode_encode (m : Mutation) : decodeMutation (encodeMutation m) = .ok m := by
  have := decodeMutation_encode m []
  simpa using this

theorem encodeMutation_length (m : Mutation) : (encodeMutation m).length = 2 + m.key.length + m.value.length := by
  simp [encodeMutation]; omega

theorem decodeMutationsFrom_encode (pre : List Int) (ms : List Mutation) : ∀ (fuel : Nat),
    (ms.flatMap encodeMutation).length < fuel →
    decodeMutationsFrom (pre ++ ms.flatMap encodeMutation) fuel pre.length = .ok ms := by
  induction ms generalizing pre with
  | nil =>
    intro fuel hf
    cases fuel with
    | zero => rfl
    | succ f => simp [decodeMutationsFrom]
  | cons m ms ih =>
    intro fuel hf
    cases fuel with
    | zero => simp at hf
    | succ f =>
      unfold decodeMutationsFrom
      have hl := encodeMutation_length m
      have hlt : pre.length < (pre ++ (m :: ms).flatMap encodeMutation).length := by
        simp only [List.flatMap_cons, List.length_append, hl]; omega
      rw [if_pos hlt]
      have hd : (pre ++ (m :: ms).flatMap encodeMutation).drop pre.length =
          encodeMutation m ++ ms.flatMap encodeMutation := by simp [List.flatMap_cons]
      rw [hd, decodeMutation_encode]
      simp only [Res.bind]
      have e : pre ++ (m :: ms).flatMap encodeMutation = (pre ++ encodeMutation m) ++ ms.flatMap encodeMutation := by
        simp [List.flatMap_cons]
      have e2 : pre.length + 2 + m.key.length + m.value.length = (pre ++ encodeMutation m).length := by
        simp only [List.length_append, hl]; omega
      have hf' : (ms.flatMap encodeMutation).length < f := by
        simp only [List.flatMap_cons, List.length_append, hl] at hf; omega
      rw [e, e2, ih (pre ++ encodeMutation m) f hf']

/-- **decoding the encoding of any list of mutations returns the original list** -/
theorem mutations_decode_encode (ms : List Mutation) : decodeMutations (encodeMutations ms) = .ok ms := by
  unfold decodeMutations encodeMutations
  simp only [List.getElem?_cons_zero, natCast_lt_zero, if_false]
  cases ms with
  | nil => simp
  | cons m rest =>
    have : ¬ (((m :: rest).length : Nat) : Int) = 0 := by simp; omega
    rw [if_neg this]
    have := decodeMutationsFrom_encode [((m :: rest).length : Int)] (m :: rest)
      (((m :: rest).length : Int) :: (m :: rest).flatMap encodeMutation).length (by simp)
    simpa using this

/-! ### predicates -/

/-- well-formed predicate: u16 fields are u16s, addresses are 32 bytes -/
structure PredWF (p : Predicate) : Prop where
  nodes : ∀ n ∈ p.nodes, n.edgeStart < 65536 ∧ n.programAddress.length = 32
  edges : ∀ e ∈ p.edges, e < 65536

theorem decodeNodes_encode (ns : List Node) (h : ∀ n ∈ ns, n.edgeStart < 65536 ∧ n.programAddress.length = 32)
    (tail : List Nat) : decodeNodes ns.length (ns.flatMap encodeNode ++ tail) = ns := by
  induction ns with
  | nil => rfl
  | cons n ns ih =>
    obtain ⟨h1, h2⟩ := h n (by simp)
    have ih' := ih (fun x hx => h x (by simp [hx]))
    simp only [List.flatMap_cons, List.length_cons, decodeNodes, encodeNode, bytesOfU16, List.append_assoc,
      List.cons_append, List.nil_append, List.take_succ_cons, List.take_zero, List.drop_succ_cons, List.drop_zero]
    have e1 : u16OfBytes [n.edgeStart / 256 % 256, n.edgeStart % 256] = n.edgeStart := by
      simp only [u16OfBytes]; omega
    have e2 : List.take 32 (n.programAddress ++ (ns.flatMap encodeNode ++ tail)) = n.programAddress := by
      rw [List.take_append_of_le_length (by omega), List.take_of_length_le (by omega)]
    have e3 : List.drop 32 (n.programAddress ++ (ns.flatMap encodeNode ++ tail)) = ns.flatMap encodeNode ++ tail := by
      rw [← h2, List.drop_left]
    rw [e1, e2, e3]
    try simp only [encodeNode, bytesOfU16] at ih'
    rw [ih']

theorem decodeEdges_encode (es : List Nat) (h : ∀ e ∈ es, e < 65536) (tail : List Nat) :
    decodeEdges es.length (es.flatMap bytesOfU16 ++ tail) = es := by
  induction es with
  | nil => rfl
  | cons e es ih =>
    have h1 := h e (by simp)
    have ih' := ih (fun x hx => h x (by simp [hx]))
    simp only [List.flatMap_cons, List.length_cons, decodeEdges, bytesOfU16, List.cons_append, List.nil_append,
      List.take_succ_cons, List.take_zero, List.drop_succ_cons, List.drop_zero, u16OfBytes]
    try simp only [bytesOfU16] at ih'
    rw [ih']
    congr 1; omega

theorem flatMap_encodeNode_length (ns : List Node) (h : ∀ n ∈ ns, n.programAddress.length = 32) :
    (ns.flatMap encodeNode).length = ns.length * 34 := by
  induction ns with
  | nil => rfl
  | cons n ns ih =>
    have := h n (by simp)
    have := ih (fun x hx => h x (by simp [hx]))
    simp [List.flatMap_cons, encodeNode, bytesOfU16] at *; omega

theorem flatMap_u16_length (es : List Nat) : (es.flatMap bytesOfU16).length = es.length * 2 := by
  induction es with
  | nil => rfl
  | cons e es ih => simp [List.flatMap_cons, bytesOfU16] at *; omega

/-- **decoding the encoding of any predicate (within the encoder's limits) returns it**, and
the reported size is the actual length -/
theorem predicate_decode_encode (p : Predicate) (hwf : PredWF p) (bs : List Nat) (h : encodePredicate p = .ok bs) :
    decodePredicate bs = some p ∧ predicateEncodedSize p = bs.length := by
  unfold encodePredicate at h
  have hn : Consts.maxNodes = 1000 := rfl
  have he : Consts.maxEdges = 1000 := rfl
  have hs : Consts.nodeSizeBytes = 34 := rfl
  split at h
  · cases h
  · rename_i hn1
    split at h
    · cases h
    · rename_i he1
      simp only [Except.ok.injEq] at h
      subst h
      have l1 := flatMap_encodeNode_length p.nodes (fun n hn => (hwf.nodes n hn).2)
      have l2 := flatMap_u16_length p.edges
      constructor
      · unfold decodePredicate
        simp only [hs]
        have eN : u16OfBytes (List.take 2 (bytesOfU16 p.nodes.length ++ p.nodes.flatMap encodeNode ++
            bytesOfU16 p.edges.length ++ p.edges.flatMap bytesOfU16)) = p.nodes.length := by
          simp only [bytesOfU16, List.cons_append, List.nil_append, List.append_assoc, List.take_succ_cons,
            List.take_zero, u16OfBytes]
          omega
        have hlen : (bytesOfU16 p.nodes.length ++ p.nodes.flatMap encodeNode ++
            bytesOfU16 p.edges.length ++ p.edges.flatMap bytesOfU16).length =
            2 + p.nodes.length * 34 + 2 + p.edges.length * 2 := by
          simp [bytesOfU16, l1, l2]; omega
        rw [if_neg (by rw [hlen]; omega)]
        simp only [eN]
        rw [if_neg (by rw [hlen]; omega)]
        rw [if_neg (by rw [hlen]; omega)]
        have dropN : List.drop 2 (bytesOfU16 p.nodes.length ++ p.nodes.flatMap encodeNode ++
            bytesOfU16 p.edges.length ++ p.edges.flatMap bytesOfU16) =
            p.nodes.flatMap encodeNode ++ (bytesOfU16 p.edges.length ++ p.edges.flatMap bytesOfU16) := by
          simp [bytesOfU16]
        have dropE : List.drop (p.nodes.length * 34 + 2) (bytesOfU16 p.nodes.length ++ p.nodes.flatMap encodeNode ++
            bytesOfU16 p.edges.length ++ p.edges.flatMap bytesOfU16) =
            bytesOfU16 p.edges.length ++ p.edges.flatMap bytesOfU16 := by
          have : p.nodes.length * 34 + 2 = (bytesOfU16 p.nodes.length ++ p.nodes.flatMap encodeNode).length := by
            simp [bytesOfU16, l1]
          rw [this, List.append_assoc (bytesOfU16 p.nodes.length ++ p.nodes.flatMap encodeNode), List.drop_left]
        have eE : u16OfBytes (List.take 2 (bytesOfU16 p.edges.length ++ p.edges.flatMap bytesOfU16)) = p.edges.length := by
          simp only [bytesOfU16, List.cons_append, List.nil_append, List.take_succ_cons, List.take_zero, u16OfBytes]
          omega
        rw [dropE, eE]
        rw [if_neg (by rw [hlen]; omega)]
        have dropE2 : List.drop (p.nodes.length * 34 + 2 + 2) (bytesOfU16 p.nodes.length ++ p.nodes.flatMap encodeNode ++
            bytesOfU16 p.edges.length ++ p.edges.flatMap bytesOfU16) = p.edges.flatMap bytesOfU16 := by
          have : p.nodes.length * 34 + 2 + 2 = (bytesOfU16 p.nodes.length ++ p.nodes.flatMap encodeNode ++
              bytesOfU16 p.edges.length).length := by simp [bytesOfU16, l1]
          rw [this, List.drop_left]
        rw [dropN, dropE2]
        have tN : List.take (p.nodes.length * 34) (p.nodes.flatMap encodeNode ++
            (bytesOfU16 p.edges.length ++ p.edges.flatMap bytesOfU16)) = p.nodes.flatMap encodeNode ++ [] := by
          rw [← l1, List.take_left]; simp
        have tE : List.take (p.edges.length * 2) (p.edges.flatMap bytesOfU16) = p.edges.flatMap bytesOfU16 ++ [] := by
          rw [← l2, List.take_length]; simp
        rw [tN, tE, decodeNodes_encode p.nodes hwf.nodes [], decodeEdges_encode p.edges hwf.edges []]
      · simp [predicateEncodedSize, hs, bytesOfU16, l1, l2]; omega

/-- beyond the encoder's limits it reports an error instead -/
theorem encode_predicate_limits (p : Predicate) :
    (encodePredicate p).toBool = (decide (p.nodes.length ≤ 1000) && decide (p.edges.length ≤ 1000)) := by
  unfold encodePredicate
  have hn : Consts.maxNodes = 1000 := rfl
  have he : Consts.maxEdges = 1000 := rfl
  by_cases a : p.nodes.length > Consts.maxNodes
  · have : ¬ p.nodes.length ≤ 1000 := by omega
    simp [a, this, Except.toBool]
  · by_cases b : p.edges.length > Consts.maxEdges
    · have : ¬ p.edges.length ≤ 1000 := by omega
      simp [a, b, this, Except.toBool]
    · have h1 : p.nodes.length ≤ 1000 := by omega
      have h2 : p.edges.length ≤ 1000 := by omega
      simp [a, b, h1, h2, Except.toBool]

/-! ### `node_edges`: exactly the documented sub-range -/

/-- leaves have no edges -/
theorem node_edges_leaf (p : Predicate) (i : Nat) (n : Node) (h : p.nodes[i]? = some n) (hl : n.edgeStart = 65535) :
    p.nodeEdges i = some [] := by
  simp [Predicate.nodeEdges, h, hl, edgeMax]

/-- a non-leaf followed by a non-leaf owns the edges from its `edge_start` up to the next
node's `edge_start`; `None` if that range is not inside the edge list -/
theorem node_edges_next_nonleaf (p : Predicate) (i : Nat) (n nx : Node) (h : p.nodes[i]? = some n)
    (hl : n.edgeStart ≠ 65535) (hn : p.nodes[i + 1]? = some nx) (hnl : nx.edgeStart ≠ 65535) :
    p.nodeEdges i =
      if n.edgeStart ≤ nx.edgeStart ∧ nx.edgeStart ≤ p.edges.length
      then some ((p.edges.drop n.edgeStart).take (nx.edgeStart - n.edgeStart)) else none := by
  simp [Predicate.nodeEdges, h, hl, hn, hnl, edgeMax]

/-- a non-leaf followed by a leaf, or the last node, owns the edges from its `edge_start` to the end -/
theorem node_edges_to_end (p : Predicate) (i : Nat) (n : Node) (h : p.nodes[i]? = some n) (hl : n.edgeStart ≠ 65535)
    (hn : p.nodes[i + 1]? = none ∨ ∃ nx, p.nodes[i + 1]? = some nx ∧ nx.edgeStart = 65535) :
    p.nodeEdges i = if n.edgeStart ≤ p.edges.length then some (p.edges.drop n.edgeStart) else none := by
  rcases hn with hn | ⟨nx, hn, hnl⟩
  · simp only [Predicate.nodeEdges, h, hl, hn, edgeMax, if_false, Nat.le_refl, and_true]
    split
    · congr 1; apply List.take_of_length_le; simp
    · rfl
  · simp only [Predicate.nodeEdges, h, hl, hn, hnl, edgeMax, if_false, Nat.le_refl, and_true, ne_eq,
      not_true_eq_false]
    split
    · congr 1; apply List.take_of_length_le; simp
    · rfl

theorem node_edges_out_of_range (p : Predicate) (i : Nat) (h : p.nodes.length ≤ i) : p.nodeEdges i = none := by
  simp [Predicate.nodeEdges, List.getElem?_eq_none h]

/-! non-vacuity -/
example : PredWF { nodes := [⟨0, List.replicate 32 7⟩, ⟨65535, List.replicate 32 9⟩], edges := [1] } :=
  ⟨by intro n hn; simp at hn; rcases hn with rfl | rfl <;> simp, by intro e he; simp at he; omega⟩
example : decodeMutations (encodeMutations [⟨[1, 2], [3]⟩, ⟨[], []⟩]) = .ok [⟨[1, 2], [3]⟩, ⟨[], []⟩] :=
  mutations_decode_encode _

end Essential.C18
