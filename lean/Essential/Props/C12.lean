/-
C12 — Access and crypto ops expose solution data and agree with the hash/sign crates.

The primitives (`sha256`, `edVerify`, `secpRecover`) are parameters of the model; these
theorems are about the *marshalling*: which words are read, how they become bytes, what is
passed to the primitive and how the answer is encoded.
-/
import Essential.Props.C11

set_option linter.unusedSimpArgs false
namespace Essential.C12
open Essential Spec

section access
variable (child : ChildExec) (env : Env) (vm : Vm)

/-- **PredicateData**: exactly words `ix .. ix+len` of slot `slot` of the solution being checked -/
theorem predicate_data_spec (sol : Solution) (hsol : env.solutions[env.index]? = some sol)
    (t : List Int) (slot ix len : Nat) (words : List Int) (hs : vm.stack = t ++ [(slot : Int), (ix : Int), (len : Int)])
    (hw : sol.data[slot]? = some words) (hr : ix + len ≤ words.length) (hl : t.length + len ≤ 4096)
    (hb : words.length ≤ usizeMax) :
    stepOp child env vm .accessPredicateData =
      .ok ({ vm with stack := t ++ (words.drop ix).take len }, .next) := by
  have hs' : vm.stack = ((t ++ [(slot : Int)]) ++ [(ix : Int)]) ++ [(len : Int)] := by rw [hs]; simp
  have h1 : ¬ (ix + len > usizeMax) := by omega
  have h2 : ¬ (ix + len > words.length) := by omega
  have h3 : t.length + ((words.drop ix).take len).length ≤ Stack.sizeLimit := by
    have := sizeLimit_eq; simp; omega
  simp only [stepOp, thisSolution, hsol, C11.Res.bind_ok', stk, Access.predicateData, hs', pop_append_singleton,
    Res.mapErr, Res.bind_eq_bind, Stack.usizeOr, Int.natCast_nonneg, if_true, Int.toNat_natCast, hw,
    C08.natCast_lt_zero, or_self, if_false, h1, h2, extend_ok _ h3]

/-- out-of-range requests fail -/
theorem predicate_data_bad_slot (sol : Solution) (hsol : env.solutions[env.index]? = some sol)
    (t : List Int) (slot ix len : Nat) (hs : vm.stack = t ++ [(slot : Int), (ix : Int), (len : Int)])
    (hw : sol.data[slot]? = none) (hu : ix + len ≤ usizeMax) :
    stepOp child env vm .accessPredicateData = .err .accessSlotIxOutOfBounds := by
  have hs' : vm.stack = ((t ++ [(slot : Int)]) ++ [(ix : Int)]) ++ [(len : Int)] := by rw [hs]; simp
  have h1 : ¬ (ix + len > usizeMax) := by omega
  simp only [stepOp, thisSolution, hsol, C11.Res.bind_ok', stk, Access.predicateData, hs', pop_append_singleton,
    Res.mapErr, Res.bind_eq_bind, Stack.usizeOr, Int.natCast_nonneg, if_true, Int.toNat_natCast, hw,
    C08.natCast_lt_zero, or_self, if_false, h1]
  rfl

theorem predicate_data_bad_range (sol : Solution) (hsol : env.solutions[env.index]? = some sol)
    (t : List Int) (slot ix len : Nat) (words : List Int) (hs : vm.stack = t ++ [(slot : Int), (ix : Int), (len : Int)])
    (hw : sol.data[slot]? = some words) (hr : words.length < ix + len) (hu : ix + len ≤ usizeMax) :
    stepOp child env vm .accessPredicateData = .err .accessValueRangeOutOfBounds := by
  have hs' : vm.stack = ((t ++ [(slot : Int)]) ++ [(ix : Int)]) ++ [(len : Int)] := by rw [hs]; simp
  have h1 : ¬ (ix + len > usizeMax) := by omega
  have h2 : ix + len > words.length := by omega
  simp only [stepOp, thisSolution, hsol, C11.Res.bind_ok', stk, Access.predicateData, hs', pop_append_singleton,
    Res.mapErr, Res.bind_eq_bind, Stack.usizeOr, Int.natCast_nonneg, if_true, Int.toNat_natCast, hw,
    C08.natCast_lt_zero, or_self, if_false, h1, h2]
  rfl

/-- **PredicateDataLen / PredicateDataSlots** -/
theorem predicate_data_len_spec (sol : Solution) (hsol : env.solutions[env.index]? = some sol)
    (t : List Int) (slot : Nat) (words : List Int) (hs : vm.stack = t ++ [(slot : Int)])
    (hw : sol.data[slot]? = some words) (hl : vm.stack.length ≤ 4096) (hb : words.length ≤ 10000) :
    stepOp child env vm .accessPredicateDataLen = .ok ({ vm with stack := t ++ [(words.length : Int)] }, .next) := by
  rw [hs] at hl
  have hlt : t.length < Stack.sizeLimit := by simp at hl; have := sizeLimit_eq; omega
  have h1 : ¬ ((words.length : Int) > i64Max) := by unfold i64Max; omega
  simp only [stepOp, thisSolution, hsol, C11.Res.bind_ok', stk, Access.predicateDataLen, hs, pop_append_singleton,
    Res.mapErr, Res.bind_eq_bind, Stack.usizeOr, Int.natCast_nonneg, if_true, Int.toNat_natCast, hw, h1, if_false,
    push_ok _ hlt]

theorem predicate_data_slots_spec (sol : Solution) (hsol : env.solutions[env.index]? = some sol)
    (hl : vm.stack.length < 4096) (hb : sol.data.length ≤ 100) :
    stepOp child env vm .accessPredicateDataSlots =
      .ok ({ vm with stack := vm.stack ++ [(sol.data.length : Int)] }, .next) := by
  have hlt : vm.stack.length < Stack.sizeLimit := by have := sizeLimit_eq; omega
  have h1 : ¬ ((sol.data.length : Int) > i64Max) := by unfold i64Max; omega
  simp only [stepOp, thisSolution, hsol, C11.Res.bind_ok', stk, Access.predicateDataSlots, h1, if_false,
    push_ok _ hlt]

/-- **ThisAddress / ThisContractAddress** push the address as big-endian words -/
theorem this_address_spec (sol : Solution) (hsol : env.solutions[env.index]? = some sol)
    (hl : vm.stack.length + (wordsOfBytes sol.predicate).length ≤ 4096) :
    stepOp child env vm .accessThisAddress =
      .ok ({ vm with stack := vm.stack ++ wordsOfBytes sol.predicate }, .next) := by
  have h : vm.stack.length + (wordsOfBytes sol.predicate).length ≤ Stack.sizeLimit := by
    have := sizeLimit_eq; omega
  simp only [stepOp, thisSolution, hsol, C11.Res.bind_ok', stk, word4OfBytes32, extend_ok _ h]

theorem this_contract_address_spec (sol : Solution) (hsol : env.solutions[env.index]? = some sol)
    (hl : vm.stack.length + (wordsOfBytes sol.contract).length ≤ 4096) :
    stepOp child env vm .accessThisContractAddress =
      .ok ({ vm with stack := vm.stack ++ wordsOfBytes sol.contract }, .next) := by
  have h : vm.stack.length + (wordsOfBytes sol.contract).length ≤ Stack.sizeLimit := by
    have := sizeLimit_eq; omega
  simp only [stepOp, thisSolution, hsol, C11.Res.bind_ok', stk, word4OfBytes32, extend_ok _ h]

/-- 32 bytes are exactly 4 words, each the big-endian value of its 8 bytes -/
theorem wordsOfBytes_32 (b : List Nat) (h : b.length = 32) :
    wordsOfBytes b = [wordOfBytes (b.take 8), wordOfBytes ((b.drop 8).take 8), wordOfBytes ((b.drop 16).take 8),
      wordOfBytes ((b.drop 24).take 8)] := by
  match b, h with
  | [b0,b1,b2,b3,b4,b5,b6,b7,b8,b9,b10,b11,b12,b13,b14,b15,b16,b17,b18,b19,b20,b21,b22,b23,b24,b25,b26,b27,b28,b29,b30,b31], _ =>
    simp [wordsOfBytes]

/-- **PredicateExists** yields 1 exactly when some solution of the set has
`sha256 (len-prefixed slots ‖ contract ‖ predicate, as big-endian words) = the 4 given words` -/
theorem predicate_exists_spec (t : List Int) (w0 w1 w2 w3 : Int) (hs : vm.stack = t ++ [w0, w1, w2, w3])
    (hl : vm.stack.length ≤ 4096) :
    stepOp child env vm .accessPredicateExists =
      .ok ({ vm with stack := t ++ [if ∃ sol ∈ env.solutions,
          env.sha256 (Access.predExistsPreimage sol) = bytesOfWords [w0, w1, w2, w3] then 1 else 0] }, .next) := by
  rw [hs] at hl
  have hlt : t.length < Stack.sizeLimit := by simp at hl; have := sizeLimit_eq; omega
  have hs' : vm.stack = (((t ++ [w0]) ++ [w1]) ++ [w2]) ++ [w3] := by rw [hs]; simp
  simp only [stepOp, stk, Access.predicateExists, hs', C11.pop4_snoc, Res.bind_eq_bind, C11.Res.bind_ok',
    bytes32OfWord4, push_ok _ hlt, boolWord]
  congr 4
  by_cases h : ∃ sol ∈ env.solutions, env.sha256 (Access.predExistsPreimage sol) = bytesOfWords [w0, w1, w2, w3]
  · have : (env.solutions.any fun sol => env.sha256 (Access.predExistsPreimage sol) == bytesOfWords [w0, w1, w2, w3]) = true := by
      rw [List.any_eq_true]; obtain ⟨sol, h1, h2⟩ := h; exact ⟨sol, h1, by simp [h2]⟩
    simp [this, h]
  · have : (env.solutions.any fun sol => env.sha256 (Access.predExistsPreimage sol) == bytesOfWords [w0, w1, w2, w3]) = false := by
      rw [List.any_eq_false]; intro sol hsol hh; exact h ⟨sol, hsol, by simpa using hh⟩
    simp [this, h]

/-- the pre-image: every slot prefixed by its length, then the contract and predicate addresses -/
theorem pred_exists_preimage (sol : Solution) :
    Access.predExistsPreimage sol =
      bytesOfWords (sol.data.flatMap (fun slot => (slot.length : Int) :: slot)) ++
      bytesOfWords (wordsOfBytes sol.contract) ++ bytesOfWords (wordsOfBytes sol.predicate) := by
  simp [Access.predExistsPreimage, bytesOfWords, word4OfBytes32, List.flatMap_append]

end access

/-! ### crypto marshalling -/

theorem pop4_list (t : List Int) (a b c d : Int) : Stack.pop4 (t ++ [a, b, c, d]) = .ok (t, [a, b, c, d]) := by
  have e : t ++ [a, b, c, d] = (((t ++ [a]) ++ [b]) ++ [c]) ++ [d] := by simp
  rw [e, C11.pop4_snoc]

theorem pop8_list (t : List Int) (a b c d e f g h : Int) :
    Stack.pop8 (t ++ [a, b, c, d, e, f, g, h]) = .ok (t, [a, b, c, d, e, f, g, h]) := by
  have e1 : t ++ [a, b, c, d, e, f, g, h] = (t ++ [a, b, c, d]) ++ [e, f, g, h] := by simp
  unfold Stack.pop8
  rw [e1, pop4_list]
  simp only [Res.bind_eq_bind, C11.Res.bind_ok', pop4_list, Res.pure_eq_ok, List.cons_append, List.nil_append]

section crypto
variable (child : ChildExec) (env : Env) (vm : Vm)

/-- `pop_bytes`: a byte length `L` on top of `ceil(L/8)` words; the bytes are the big-endian
bytes of those words truncated to `L` (so the padding is ignored) -/
theorem pop_bytes_spec (t ws : List Int) (L : Nat) (hw : ws.length = (L + 7) / 8) :
    Crypto.popBytes (t ++ ws ++ [(L : Int)]) = .ok (t, (bytesOfWords ws).take L) := by
  unfold Crypto.popBytes
  rw [pop_append_singleton]
  simp only [Res.bind_eq_bind, C11.Res.bind_ok', Stack.usizeOr, Int.natCast_nonneg, if_true, Int.toNat_natCast,
    Stack.splitLen, List.length_append, hw, Nat.le_add_left, Nat.add_sub_cancel, Res.pure_eq_ok]
  simp [← hw]

/-- **Sha256** hashes exactly those bytes and pushes the digest as 4 big-endian words -/
theorem sha256_op_spec (t ws : List Int) (L : Nat) (hw : ws.length = (L + 7) / 8)
    (hs : vm.stack = t ++ ws ++ [(L : Int)])
    (hl : t.length + (wordsOfBytes (env.sha256 ((bytesOfWords ws).take L))).length ≤ 4096) :
    stepOp child env vm .cryptoSha256 =
      .ok ({ vm with stack := t ++ wordsOfBytes (env.sha256 ((bytesOfWords ws).take L)) }, .next) := by
  have h : t.length + (wordsOfBytes (env.sha256 ((bytesOfWords ws).take L))).length ≤ Stack.sizeLimit := by
    have := sizeLimit_eq; omega
  simp only [stepOp, stk, Crypto.sha256, hs, pop_bytes_spec t ws L hw, Res.bind_eq_bind, C11.Res.bind_ok',
    word4OfBytes32, extend_ok _ h]

/-- whole words: `L = 8·|ws|` hashes all the words' bytes (what `hash_words` does) -/
theorem sha256_whole_words (ws : List Int) : (bytesOfWords ws).take (8 * ws.length) = bytesOfWords ws := by
  have : (bytesOfWords ws).length = 8 * ws.length := by
    induction ws with
    | nil => rfl
    | cons w ws ih => simp [bytesOfWords, List.flatMap_cons, bytesOfWord_length] at ih ⊢; omega
  rw [← this, List.take_length]

/-- **RecoverSecp256k1** passes (hash bytes, 64 signature bytes, id) to the primitive; an id
outside `i32` or outside `0..3`, or a malformed signature, is an error; a well-formed but
unrecoverable signature yields five zero words; a key is pushed in the sign crate's 4+1 word encoding -/
theorem recover_op_spec (t hash sig : List Int) (id : Int) (hh : hash.length = 4) (hsg : sig.length = 8)
    (hs : vm.stack = t ++ hash ++ sig ++ [id]) (hl : t.length + 5 ≤ 4096) :
    stepOp child env vm .cryptoRecoverSecp256k1 =
      if id < -2147483648 ∨ id > 2147483647 then .err .cryptoSecp256k1RecoveryId
      else if id < 0 ∨ id > 3 then .err .cryptoSecp256k1
      else match env.secpRecover (bytesOfWords hash) (bytesOfWords sig) id.toNat with
        | .badSig => .err .cryptoSecp256k1
        | .unrecoverable => .ok ({ vm with stack := t ++ [0, 0, 0, 0, 0] }, .next)
        | .key k => .ok ({ vm with stack := t ++ Crypto.encodePublicKey k }, .next) := by
  match hash, hh, sig, hsg with
  | [h0, h1, h2, h3], _, [s0, s1, s2, s3, s4, s5, s6, s7], _ =>
    have hs' : vm.stack = ((t ++ [h0, h1, h2, h3]) ++ [s0, s1, s2, s3, s4, s5, s6, s7]) ++ [id] := by rw [hs]
    simp only [stepOp, Crypto.recoverSecp256k1, hs', pop_append_singleton, Res.bind_eq_bind, C11.Res.bind_ok',
      pop8_list, pop4_list]
    by_cases c1 : id < -2147483648 ∨ id > 2147483647
    · simp [c1, stk, Res.bind]
    · by_cases c2 : id < 0 ∨ id > 3
      · simp [c1, c2, stk, Res.bind]
      · simp only [c1, c2, if_false]
        have e5 : t.length + [0, 0, 0, 0, (0 : Int)].length ≤ Stack.sizeLimit := by have := sizeLimit_eq; simp; omega
        cases hk : env.secpRecover (bytesOfWords [h0, h1, h2, h3]) (bytesOfWords [s0, s1, s2, s3, s4, s5, s6, s7]) id.toNat with
        | badSig => simp [stk, Res.bind]
        | unrecoverable => simp [stk, Res.bind, extend_ok _ e5]
        | key k =>
          have hk4 : (wordsOfBytes (k.take 32)).length ≤ 4 := by
            have := wordsOfBytes_length_le (k.take 32)
            have : (k.take 32).length ≤ 32 := by simp; omega
            omega
          have e4 : t.length + (word4OfBytes32 (k.take 32)).length ≤ Stack.sizeLimit := by
            have := sizeLimit_eq; unfold word4OfBytes32; omega
          have e1 : (t ++ word4OfBytes32 (k.take 32)).length < Stack.sizeLimit := by
            have := sizeLimit_eq; unfold word4OfBytes32; simp; omega
          simp [stk, Res.bind, extend_ok _ e4, push_ok _ e1, Crypto.encodePublicKey, List.append_assoc]

/-- the 5-word public-key encoding: 32 bytes as 4 words, the 33rd byte in the low byte of the 5th -/
theorem encode_public_key_spec (k : List Nat) :
    Crypto.encodePublicKey k = wordsOfBytes (k.take 32) ++ [wordOfBytes [0, 0, 0, 0, 0, 0, 0, k.getD 32 0]] := rfl

/-- **VerifyEd25519** passes (message bytes truncated to `L`, 64 signature bytes, 32 key bytes) -/
theorem verify_ed25519_spec (t ws sig pk : List Int) (L : Nat) (hw : ws.length = (L + 7) / 8)
    (hsg : sig.length = 8) (hpk : pk.length = 4) (hs : vm.stack = t ++ ws ++ [(L : Int)] ++ sig ++ pk)
    (hl : t.length < 4096) :
    stepOp child env vm .cryptoVerifyEd25519 =
      match env.edVerify (bytesOfWords pk) (bytesOfWords sig) ((bytesOfWords ws).take L) with
      | none => .err .cryptoEd25519
      | some v => .ok ({ vm with stack := t ++ [if v then 1 else 0] }, .next) := by
  match sig, hsg, pk, hpk with
  | [s0, s1, s2, s3, s4, s5, s6, s7], _, [p0, p1, p2, p3], _ =>
    have hs' : vm.stack = ((t ++ ws ++ [(L : Int)]) ++ [s0, s1, s2, s3, s4, s5, s6, s7]) ++ [p0, p1, p2, p3] := by rw [hs]
    have hlt : t.length < Stack.sizeLimit := by have := sizeLimit_eq; omega
    simp only [stepOp, stk, Crypto.verifyEd25519, hs', pop4_list, Res.bind_eq_bind, C11.Res.bind_ok', pop8_list,
      pop_bytes_spec t ws L hw]
    cases env.edVerify (bytesOfWords [p0, p1, p2, p3]) (bytesOfWords [s0, s1, s2, s3, s4, s5, s6, s7])
        ((bytesOfWords ws).take L) with
    | none => simp [Res.bind]
    | some v => cases v <;> simp [Res.bind, push_ok _ hlt, boolWord]

end crypto

end Essential.C12
