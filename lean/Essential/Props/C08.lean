/-
C08 — Stack, predicate, ALU and memory operations compute their documented results.

Each theorem states, for *every* operand value and every surrounding stack / memory
content, what the op produces (declaratively: list positions, integer arithmetic) and its
exact failure set, together with the frame condition: nothing else changes.
-/
import Essential.Lemmas.VmExec

set_option linter.unusedSimpArgs false
namespace Essential.C08
open Essential Spec

@[simp] theorem natCast_lt_zero (n : Nat) : ((n : Int) < 0) = False := by simp

/-! ### frame: what a data op may touch -/

theorem stk_eq_ok {vm : Vm} {r : Res Err Stack} {vm' : Vm} {f : Flow} (h : stk vm r = .ok (vm', f)) :
    ∃ s, r = .ok s ∧ vm' = { vm with stack := s } ∧ f = .next := by
  unfold stk at h
  cases r with
  | ok s => simp [Res.bind] at h; exact ⟨s, rfl, h.1.symm, h.2.symm⟩
  | err e => simp [Res.bind] at h
  | panic m => simp [Res.bind] at h
  | abort m => simp [Res.bind] at h

/-- the ops that act on the stack alone -/
def stackOnly : Op → Bool
  | .stackPush _ | .stackPop | .stackDup | .stackDupFrom | .stackSwap | .stackSwapIndex | .stackSelect
  | .stackSelectRange | .stackReserve | .stackLoad | .stackStore | .stackDrop
  | .predEq | .predEqRange | .predGt | .predLt | .predGte | .predLte | .predAnd | .predOr | .predNot
  | .predEqSet | .predBitAnd | .predBitOr
  | .aluAdd | .aluSub | .aluMul | .aluDiv | .aluMod | .aluShl | .aluShr | .aluShrI
  | .memoryLoad | .memoryLoadRange | .parentMemoryLoad | .parentMemoryLoadRange => true
  | _ => false

/-- **frame condition for stack-only ops** (incl. the memory *reads*): memory, parent
memory, repeat state, pc and halt flag are unchanged and execution continues at the next op -/
theorem stack_only_frame (child : ChildExec) (env : Env) (vm vm' : Vm) (op : Op) (f : Flow)
    (hop : stackOnly op = true) (h : stepOp child env vm op = .ok (vm', f)) :
    vm'.memory = vm.memory ∧ vm'.parentMemory = vm.parentMemory ∧ vm'.rep = vm.rep ∧ vm'.pc = vm.pc ∧
    vm'.halt = vm.halt ∧ f = .next := by
  cases op <;> simp only [stackOnly] at hop <;> (try cases hop) <;> simp only [stepOp] at h <;>
    first
    | (obtain ⟨s, _, rfl, rfl⟩ := stk_eq_ok h; simp)
    | (split at h
       · cases h
       · obtain ⟨s, _, rfl, rfl⟩ := stk_eq_ok h; simp)

/-! ### binary operations: the documented result for every operand pair -/

/-- the documented result of a binary op on `(a, b)` (`b` on top); `Except` = the op fails -/
def binResult : Op → Option (Int → Int → Except Err Int)
  | .aluAdd => some fun a b => if InI64 (a + b) then .ok (a + b) else .error .aluOverflow
  | .aluSub => some fun a b => if InI64 (a - b) then .ok (a - b) else .error .aluUnderflow
  | .aluMul => some fun a b => if InI64 (a * b) then .ok (a * b) else .error .aluOverflow
  | .aluDiv => some fun a b => if b = 0 ∨ (a = -9223372036854775808 ∧ b = -1) then .error .aluDivideByZero else .ok (Int.tdiv a b)
  | .aluMod => some fun a b => if b = 0 ∨ (a = -9223372036854775808 ∧ b = -1) then .error .aluDivideByZero else .ok (Int.tmod a b)
  | .aluShl => some fun a b => if 0 ≤ b ∧ b < 64 then .ok (wrapI64 (a * 2 ^ b.toNat)) else .error .aluOverflow
  | .aluShr => some fun a b =>
      if 0 ≤ b ∧ b < 64 then .ok (wrapI64 (((a % 18446744073709551616).toNat / 2 ^ b.toNat : Nat) : Int)) else .error .aluOverflow
  | .aluShrI => some fun a b => if 0 ≤ b ∧ b < 64 then .ok (a / 2 ^ b.toNat) else .error .aluOverflow
  | .predEq => some fun a b => .ok (if a = b then 1 else 0)
  | .predGt => some fun a b => .ok (if a > b then 1 else 0)
  | .predLt => some fun a b => .ok (if a < b then 1 else 0)
  | .predGte => some fun a b => .ok (if a ≥ b then 1 else 0)
  | .predLte => some fun a b => .ok (if a ≤ b then 1 else 0)
  | .predAnd => some fun a b => .ok (if a ≠ 0 ∧ b ≠ 0 then 1 else 0)
  | .predOr => some fun a b => .ok (if a ≠ 0 ∨ b ≠ 0 then 1 else 0)
  | .predBitAnd => some fun a b => .ok (Alu.bitAnd a b)
  | .predBitOr => some fun a b => .ok (Alu.bitOr a b)
  | _ => none

theorem pop2push1_append (t : List Int) (a b : Int) (f : Int → Int → Res Err Int)
    (hl : (t ++ [a, b]).length ≤ 4096) :
    pop2push1 (t ++ [a, b]) f = (f a b).bind fun x => .ok (t ++ [x]) := by
  have hlt : t.length < Stack.sizeLimit := by simp at hl; have := sizeLimit_eq; omega
  unfold pop2push1
  simp only [pop2_append, Res.bind_eq_bind, Res.bind_ok]
  cases hf : f a b <;> simp [Res.bind, push_ok _ hlt, hf]

/-- **binary op spec**: on a stack `t ++ [a, b]` within the limit, the op replaces `a, b` by
the documented result or fails with the documented error; `t` and everything else is untouched -/
theorem binary_op_spec (child : ChildExec) (env : Env) (vm : Vm) (op : Op) (g : Int → Int → Except Err Int)
    (hop : binResult op = some g) (t : List Int) (a b : Int) (hs : vm.stack = t ++ [a, b])
    (hl : vm.stack.length ≤ 4096) :
    stepOp child env vm op = match g a b with
      | .ok r => .ok ({ vm with stack := t ++ [r] }, .next)
      | .error e => .err e := by
  rw [hs] at hl
  cases op <;> simp only [binResult] at hop
  all_goals (cases hop)
  all_goals (simp only [stepOp, stk, hs, pop2push1_append t a b _ hl])
  all_goals first
    | (simp only [Alu.add, Alu.sub, Alu.mul]; split <;> simp [Res.bind]; done)
    | (simp only [Alu.div, Alu.mod, i64Min]
       by_cases hc : b = 0 ∨ (a = -9223372036854775808 ∧ b = -1) <;> simp [hc, Res.bind]; done)
    | (simp only [Alu.shl, Alu.shr, Alu.shrI, Alu.shiftOk, Alu.toU64, Bool.and_eq_true, decide_eq_true_eq]
       split <;> simp [Res.bind]; done)
    | (simp only [Res.bind, boolWord]; split <;> simp_all; done)
    | (simp [Res.bind]; done)

/-- a binary op on fewer than two words fails with the empty-stack error -/
theorem binary_op_underflow (child : ChildExec) (env : Env) (vm : Vm) (op : Op) (g : Int → Int → Except Err Int)
    (hop : binResult op = some g) (hs : vm.stack.length < 2) :
    stepOp child env vm op = .err .stackEmpty := by
  have hp : ∀ f, pop2push1 vm.stack f = .err .stackEmpty := by
    intro f
    match hst : vm.stack, hs with
    | [], _ => simp [pop2push1, Stack.pop2, Stack.pop, bind, Res.bind]
    | [x], _ =>
      have : Stack.pop [x] = .ok ([], x) := by simpa using pop_append_singleton [] x
      simp [pop2push1, Stack.pop2, this, bind, Res.bind]
  cases op <;> simp only [binResult] at hop <;> (try cases hop) <;> simp [stepOp, stk, hp, Res.bind]

/-! ### shifts accept exactly 0..63 bits; arithmetic fails instead of wrapping -/

theorem shift_amount_range (a b : Int) :
    ((Alu.shl a b).isOk ↔ (0 ≤ b ∧ b < 64)) ∧ ((Alu.shr a b).isOk ↔ (0 ≤ b ∧ b < 64)) ∧
    ((Alu.shrI a b).isOk ↔ (0 ≤ b ∧ b < 64)) := by
  simp only [Alu.shl, Alu.shr, Alu.shrI, Alu.shiftOk, Bool.and_eq_true, decide_eq_true_eq]
  refine ⟨?_, ?_, ?_⟩ <;> split <;> simp_all [Res.isOk]

theorem add_exact (a b : Int) : Alu.add a b = .ok (a + b) ↔ InI64 (a + b) := by
  unfold Alu.add; split <;> simp_all
theorem add_fails_iff (a b : Int) : Alu.add a b = .err .aluOverflow ↔ ¬ InI64 (a + b) := by
  unfold Alu.add; split <;> simp_all
theorem mul_fails_iff (a b : Int) : Alu.mul a b = .err .aluOverflow ↔ ¬ InI64 (a * b) := by
  unfold Alu.mul; split <;> simp_all
theorem sub_fails_iff (a b : Int) : Alu.sub a b = .err .aluUnderflow ↔ ¬ InI64 (a - b) := by
  unfold Alu.sub; split <;> simp_all

/-- division is the truncated quotient, and together with the remainder reconstructs `a` -/
theorem div_mod_reconstruct (a b q r : Int) (hq : Alu.div a b = .ok q) (hr : Alu.mod a b = .ok r) :
    b * q + r = a := by
  unfold Alu.div at hq; unfold Alu.mod at hr
  split at hq
  · cases hq
  · split at hr
    · cases hr
    · cases hq; cases hr; exact Int.mul_tdiv_add_tmod a b

/-- logical right shift of a non-negative word is division by `2^b`; arithmetic shift is floor division -/
theorem shr_nonneg (a b : Int) (ha : 0 ≤ a) (ha' : InI64 a) (hb : 0 ≤ b ∧ b < 64) :
    Alu.shr a b = .ok (a / (2 ^ b.toNat : Int)) := by
  have hs : Alu.shiftOk b = true := by simp [Alu.shiftOk, hb.1, hb.2]
  unfold Alu.shr; rw [if_pos hs]
  unfold InI64 at ha'
  have hmod : a % 18446744073709551616 = a := Int.emod_eq_of_lt ha (by omega)
  have h1 : ((Alu.toU64 a / 2 ^ b.toNat : Nat) : Int) = a / (2 ^ b.toNat : Int) := by
    unfold Alu.toU64; rw [hmod]
    have : ((a.toNat / 2 ^ b.toNat : Nat) : Int) = (a.toNat : Int) / ((2 ^ b.toNat : Nat) : Int) := Int.natCast_ediv _ _
    rw [this, Int.toNat_of_nonneg ha]; simp
  rw [h1]
  have hle : a / (2 ^ b.toNat : Int) ≤ a := Int.ediv_le_self _ ha
  have hge : 0 ≤ a / (2 ^ b.toNat : Int) := Int.ediv_nonneg ha (Int.pow_nonneg (by omega))
  congr 1
  unfold wrapI64
  have hm2 : (a / (2 ^ b.toNat : Int)) % 18446744073709551616 = a / (2 ^ b.toNat : Int) :=
    Int.emod_eq_of_lt hge (by omega)
  simp only [hm2]; rw [if_pos (by omega)]

/-! ### stack manipulation: exactly the addressed positions -/

section stackops
variable (child : ChildExec) (env : Env) (vm : Vm)

theorem push_spec (w : Int) (hl : vm.stack.length < 4096) :
    stepOp child env vm (.stackPush w) = .ok ({ vm with stack := vm.stack ++ [w] }, .next) := by
  simp [stepOp, stk, push_ok w (show vm.stack.length < Stack.sizeLimit by simpa [sizeLimit_eq] using hl), Res.bind]

theorem push_full (w : Int) (hl : 4096 ≤ vm.stack.length) :
    stepOp child env vm (.stackPush w) = .err .stackOverflow := by
  simp [stepOp, stk, push_err w (show Stack.sizeLimit ≤ vm.stack.length by simpa [sizeLimit_eq] using hl), Res.bind]

theorem pop_spec (t : List Int) (w : Int) (hs : vm.stack = t ++ [w]) :
    stepOp child env vm .stackPop = .ok ({ vm with stack := t }, .next) := by
  simp [stepOp, stk, hs, Res.bind]

theorem pop_empty (hs : vm.stack = []) : stepOp child env vm .stackPop = .err .stackEmpty := by
  simp [stepOp, stk, hs, Res.bind]

theorem dup_spec (t : List Int) (w : Int) (hs : vm.stack = t ++ [w]) (hl : vm.stack.length < 4096) :
    stepOp child env vm .stackDup = .ok ({ vm with stack := t ++ [w, w] }, .next) := by
  rw [hs] at hl
  have : t.length + [w, w].length ≤ Stack.sizeLimit := by simp at hl ⊢; have := sizeLimit_eq; omega
  simp [stepOp, stk, hs, Res.bind, extend_ok _ this]

theorem swap_spec (t : List Int) (a b : Int) (hs : vm.stack = t ++ [a, b]) (hl : vm.stack.length ≤ 4096) :
    stepOp child env vm .stackSwap = .ok ({ vm with stack := t ++ [b, a] }, .next) := by
  rw [hs] at hl
  have : t.length + [b, a].length ≤ Stack.sizeLimit := by simp at hl ⊢; have := sizeLimit_eq; omega
  simp [stepOp, stk, hs, Res.bind, extend_ok _ this]

/-- `DupFrom`: index `i` counts from the top of the remaining stack (0 = top) -/
theorem dup_from_spec (t : List Int) (i : Nat) (w : Int) (hs : vm.stack = t ++ [(i : Int)])
    (hi : i < t.length) (hw : t[t.length - 1 - i]? = some w) (hl : vm.stack.length ≤ 4096) :
    stepOp child env vm .stackDupFrom = .ok ({ vm with stack := t ++ [w] }, .next) := by
  rw [hs] at hl
  have hlt : t.length < Stack.sizeLimit := by simp at hl; have := sizeLimit_eq; omega
  have h1 : ¬ (t.length < i + 1) := by omega
  have h2 : t.length - i - 1 = t.length - 1 - i := by omega
  simp [stepOp, stk, hs, Res.bind, Stack.dupFrom, Stack.usizeOr, h1, h2, hw, push_ok _ hlt]

theorem dup_from_out_of_range (t : List Int) (x : Int) (hs : vm.stack = t ++ [x])
    (hi : x < 0 ∨ (t.length : Int) ≤ x) :
    stepOp child env vm .stackDupFrom = .err .stackIndexOutOfBounds := by
  simp only [stepOp, stk, hs, Stack.dupFrom, pop_append_singleton, Res.bind_eq_bind, Res.bind_ok, Stack.usizeOr]
  by_cases hx : 0 ≤ x
  · have : t.length < x.toNat + 1 := by omega
    simp [hx, this, Res.bind]
  · simp [hx, Res.bind]

/-- `SwapIndex` exchanges the top `y` with the word `x` that is `i` positions below it, nothing else -/
theorem swap_index_spec (t : List Int) (i : Nat) (x y : Int) (hs : vm.stack = t ++ [(i : Int)]) (hi : i < t.length)
    (hx : t[t.length - 1 - i]? = some x) (hy : t[t.length - 1]? = some y) :
    stepOp child env vm .stackSwapIndex =
      .ok ({ vm with stack := (t.set (t.length - 1 - i) y).set (t.length - 1) x }, .next) := by
  have h0 : ¬ t.length = 0 := by omega
  have h1 : ¬ (t.length - 1 < i) := by omega
  have hne : t ≠ [] := by intro e; simp [e] at hi
  simp [stepOp, stk, hs, Stack.swapIndex, Stack.usizeOr, h0, h1, hx, hy, Res.bind, hne]

/-- `Select`: keeps `b` (the top) when the condition is 1, `a` when it is 0; any other condition is an error -/
theorem select_spec (t : List Int) (a b c : Int) (hs : vm.stack = t ++ [a, b, c]) (hl : vm.stack.length ≤ 4096) :
    stepOp child env vm .stackSelect =
      if c = 1 then .ok ({ vm with stack := t ++ [b] }, .next)
      else if c = 0 then .ok ({ vm with stack := t ++ [a] }, .next)
      else .err .stackInvalidCondition := by
  rw [hs] at hl
  have hlt : t.length < Stack.sizeLimit := by simp at hl; have := sizeLimit_eq; omega
  have e : t ++ [a, b, c] = (t ++ [a, b]) ++ [c] := by simp
  simp only [stepOp, stk, hs, Stack.select, e, pop_append_singleton, pop2_append, Res.bind_eq_bind, Res.bind_ok,
    boolOfWord?]
  by_cases h1 : c = 1
  · subst h1; simp [Res.bind, push_ok _ hlt]
  · by_cases h0 : c = 0
    · subst h0; simp [Res.bind, push_ok _ hlt]
    · simp [h0, h1, Res.bind]


/-- `Not` -/
theorem not_spec (t : List Int) (a : Int) (hs : vm.stack = t ++ [a]) (hl : vm.stack.length ≤ 4096) :
    stepOp child env vm .predNot = .ok ({ vm with stack := t ++ [if a = 0 then 1 else 0] }, .next) := by
  rw [hs] at hl
  have hlt : t.length < Stack.sizeLimit := by simp at hl; have := sizeLimit_eq; omega
  by_cases h : a = 0 <;> simp [stepOp, stk, hs, pop1push1, Res.bind, push_ok _ hlt, boolWord, h]

/-- `Load` (stack): pushes a copy of the word at absolute index `i` -/
theorem stack_load_spec (t : List Int) (i : Nat) (w : Int) (hs : vm.stack = t ++ [(i : Int)])
    (hw : t[i]? = some w) (hl : vm.stack.length ≤ 4096) :
    stepOp child env vm .stackLoad = .ok ({ vm with stack := t ++ [w] }, .next) := by
  rw [hs] at hl
  have hlt : t.length < Stack.sizeLimit := by simp at hl; have := sizeLimit_eq; omega
  simp [stepOp, stk, hs, Stack.load, Stack.usizeOr, hw, Res.bind, push_ok _ hlt]

/-- `Store` (stack): overwrites exactly the word at absolute index `i` -/
theorem stack_store_spec (t : List Int) (i : Nat) (w : Int) (hs : vm.stack = t ++ [w, (i : Int)]) (hi : i < t.length) :
    stepOp child env vm .stackStore = .ok ({ vm with stack := t.set i w }, .next) := by
  simp [stepOp, stk, hs, Stack.store, Stack.usizeOr, hi, Res.bind]

theorem stack_store_oob (t : List Int) (x w : Int) (hs : vm.stack = t ++ [w, x]) (hi : x < 0 ∨ (t.length : Int) ≤ x) :
    stepOp child env vm .stackStore = .err .stackIndexOutOfBounds := by
  simp only [stepOp, stk, hs, Stack.store, pop2_append, Res.bind_eq_bind, Res.bind_ok, Stack.usizeOr]
  by_cases hx : 0 ≤ x
  · have : ¬ x.toNat < t.length := by omega
    simp [hx, this, Res.bind]
  · simp [hx, Res.bind]

/-- `Drop`: removes the length word and exactly that many words below it -/
theorem drop_spec (t ws : List Int) (hs : vm.stack = t ++ ws ++ [(ws.length : Int)]) :
    stepOp child env vm .stackDrop = .ok ({ vm with stack := t }, .next) := by
  simp [stepOp, stk, hs, Stack.dropLenWords, Stack.splitLenWords, Stack.splitLen, Res.bind]

/-- `Reserve`: appends `n` zero words and pushes the old length -/
theorem reserve_spec (t : List Int) (n : Nat) (hs : vm.stack = t ++ [(n : Int)]) (hl : t.length + n < 4096) :
    stepOp child env vm .stackReserve =
      .ok ({ vm with stack := t ++ List.replicate n 0 ++ [(t.length : Int)] }, .next) := by
  have h1 : ¬ (t.length + n > usizeMax) := by unfold usizeMax; omega
  have h2 : ¬ (t.length + n > Stack.sizeLimit) := by have := sizeLimit_eq; omega
  have h3 : (t ++ List.replicate n (0 : Int)).length < Stack.sizeLimit := by simp; have := sizeLimit_eq; omega
  simp [stepOp, stk, hs, Stack.reserveZeroed, Stack.usizeOr, h1, h2, Res.bind, push_ok _ h3]

end stackops

/-! ### memory: exactly the addressed words, everything else unchanged -/

section memops
variable (child : ChildExec) (env : Env) (vm : Vm)

/-- `Alloc n`: memory grows by `n` zero words at the end; the old length is pushed -/
theorem alloc_spec (t : List Int) (n : Nat) (hs : vm.stack = t ++ [(n : Int)]) (hl : vm.stack.length ≤ 4096)
    (hm : vm.memory.length + n ≤ 10240) :
    stepOp child env vm .memoryAlloc =
      .ok ({ vm with stack := t ++ [(vm.memory.length : Int)], memory := vm.memory ++ List.replicate n 0 }, .next) := by
  rw [hs] at hl
  have hlt : t.length < Stack.sizeLimit := by simp at hl; have := sizeLimit_eq; omega
  have h0 : ¬ ((vm.memory.length : Int) > i64Max) := by unfold i64Max; omega
  have h1 : ¬ (vm.memory.length + n > usizeMax) := by unfold usizeMax; omega
  have h2 : ¬ (vm.memory.length + n > Memory.sizeLimit) := by have := memLimit_eq; omega
  simp [stepOp, hs, Memory.alloc, h0, h1, h2, Res.bind, push_ok _ hlt]

theorem alloc_over_limit (t : List Int) (n : Nat) (hs : vm.stack = t ++ [(n : Int)])
    (hm : vm.memory.length + n > 10240) (hb : vm.memory.length ≤ 10240) :
    stepOp child env vm .memoryAlloc = .err .memoryOverflow := by
  have h0 : ¬ ((vm.memory.length : Int) > i64Max) := by unfold i64Max; omega
  have h2 : vm.memory.length + n > Memory.sizeLimit := by have := memLimit_eq; omega
  by_cases h1 : vm.memory.length + n > usizeMax <;> simp [stepOp, hs, h0, Memory.alloc, h1, h2, Res.bind]

/-- `Free n`: memory is truncated to its first `n` words -/
theorem free_spec (t : List Int) (n : Nat) (hs : vm.stack = t ++ [(n : Int)]) (hn : n ≤ vm.memory.length) :
    stepOp child env vm .memoryFree = .ok ({ vm with stack := t, memory := vm.memory.take n }, .next) := by
  have : ¬ (n > vm.memory.length) := by omega
  simp [stepOp, hs, Memory.free, this, Res.bind]

/-- `Load a` (memory): pushes the addressed word; memory is unchanged (frame theorem above) -/
theorem mem_load_spec (t : List Int) (a : Nat) (w : Int) (hs : vm.stack = t ++ [(a : Int)])
    (hw : vm.memory[a]? = some w) (hl : vm.stack.length ≤ 4096) :
    stepOp child env vm .memoryLoad = .ok ({ vm with stack := t ++ [w] }, .next) := by
  rw [hs] at hl
  have hlt : t.length < Stack.sizeLimit := by simp at hl; have := sizeLimit_eq; omega
  simp [stepOp, stk, hs, pop1push1, Memory.load, hw, Res.bind, push_ok _ hlt]

theorem mem_load_oob (t : List Int) (x : Int) (hs : vm.stack = t ++ [x]) (hx : x < 0 ∨ (vm.memory.length : Int) ≤ x) :
    stepOp child env vm .memoryLoad = .err .memoryIndexOutOfBounds := by
  simp only [stepOp, stk, hs, pop1push1, pop_append_singleton, Res.bind_eq_bind, Res.bind_ok, Memory.load]
  by_cases h0 : x < 0
  · simp [h0, Res.bind]
  · have : vm.memory[x.toNat]? = none := List.getElem?_eq_none (by omega)
    simp [h0, this, Res.bind]

/-- `Store` (memory): exactly the addressed word changes -/
theorem mem_store_spec (t : List Int) (a : Nat) (w : Int) (hs : vm.stack = t ++ [w, (a : Int)])
    (ha : a < vm.memory.length) :
    stepOp child env vm .memoryStore = .ok ({ vm with stack := t, memory := vm.memory.set a w }, .next) := by
  simp [stepOp, hs, Memory.store, ha, Res.bind]

theorem mem_store_frame (m : List Int) (a : Nat) (w : Int) :
    (m.set a w).length = m.length ∧ ∀ j, j ≠ a → (m.set a w)[j]? = m[j]? := by
  refine ⟨by simp, fun j hj => ?_⟩
  simp [List.getElem?_set, Ne.symm hj]

/-- `LoadRange a n`: pushes exactly words `a .. a+n` -/
theorem load_range_spec (t : List Int) (a n : Nat) (hs : vm.stack = t ++ [(a : Int), (n : Int)])
    (hr : a + n ≤ vm.memory.length) (hl : t.length + n ≤ 4096) (hmb : vm.memory.length ≤ 10240) :
    stepOp child env vm .memoryLoadRange =
      .ok ({ vm with stack := t ++ (vm.memory.drop a).take n }, .next) := by
  have h1 : ¬ (a + n > usizeMax) := by unfold usizeMax; omega
  have h2 : ¬ (a + n > vm.memory.length) := by omega
  have h3 : t.length + ((vm.memory.drop a).take n).length ≤ Stack.sizeLimit := by
    simp; have := sizeLimit_eq; omega
  simp [stepOp, stk, hs, Memory.loadRange, h1, h2, Res.bind, extend_ok _ h3]

/-- `StoreRange`: words `a .. a+|ws|` are replaced by `ws`; every other word and the length are unchanged -/
theorem store_range_spec (t ws : List Int) (a : Nat)
    (hs : vm.stack = t ++ ws ++ [(ws.length : Int), (a : Int)]) (hr : a + ws.length ≤ vm.memory.length)
    (hmb : vm.memory.length ≤ 10240) :
    stepOp child env vm .memoryStoreRange =
      .ok ({ vm with stack := t, memory := vm.memory.take a ++ ws ++ vm.memory.drop (a + ws.length) }, .next) := by
  have e : t ++ ws ++ [(ws.length : Int), (a : Int)] = (t ++ ws ++ [(ws.length : Int)]) ++ [(a : Int)] := by simp
  have h1 : ¬ (a + ws.length > usizeMax) := by unfold usizeMax; omega
  have h2 : ¬ (a + ws.length > vm.memory.length) := by omega
  simp only [stepOp, hs, e, pop_append_singleton, Res.bind_ok]
  simp [Stack.splitLenWords, Stack.splitLen, Memory.storeRange, Memory.copyFromSlice, h1, h2, hr, Res.bind]

theorem store_range_frame (m ws : List Int) (a : Nat) (hr : a + ws.length ≤ m.length) :
    (m.take a ++ ws ++ m.drop (a + ws.length)).length = m.length ∧
    (∀ j, j < a → (m.take a ++ ws ++ m.drop (a + ws.length))[j]? = m[j]?) ∧
    (∀ j, a + ws.length ≤ j → (m.take a ++ ws ++ m.drop (a + ws.length))[j]? = m[j]?) ∧
    (∀ j, j < ws.length → (m.take a ++ ws ++ m.drop (a + ws.length))[a + j]? = ws[j]?) := by
  have hta : (m.take a).length = a := by simp; omega
  refine ⟨by simp; omega, ?_, ?_, ?_⟩
  · intro j hj
    rw [List.append_assoc, List.getElem?_append_left (by omega), List.getElem?_take_of_lt hj]
  · intro j hj
    rw [List.getElem?_append_right (by simp; omega)]
    simp only [List.length_append, hta, List.getElem?_drop]
    congr 1; omega
  · intro j hj
    rw [List.append_assoc, List.getElem?_append_right (by omega), hta]
    simp only [Nat.add_sub_cancel_left]
    rw [List.getElem?_append_left hj]

/-- `ParentMemory::Load` reads the parent's memory; without a parent it is an error -/
theorem parent_load_no_parent (hp : vm.parentMemory = []) :
    stepOp child env vm .parentMemoryLoad = .err .parentMemoryNoParent := by
  simp [stepOp, hp]

theorem parent_load_spec (pms : List Memory) (pm : Memory) (t : List Int) (a : Nat) (w : Int)
    (hp : vm.parentMemory = pms ++ [pm]) (hs : vm.stack = t ++ [(a : Int)]) (hw : pm[a]? = some w)
    (hl : vm.stack.length ≤ 4096) :
    stepOp child env vm .parentMemoryLoad = .ok ({ vm with stack := t ++ [w] }, .next) := by
  rw [hs] at hl
  have hlt : t.length < Stack.sizeLimit := by simp at hl; have := sizeLimit_eq; omega
  simp [stepOp, stk, hp, hs, pop1push1, Memory.load, hw, Res.bind, push_ok _ hlt]

end memops

/-! ### set equality compares as sets -/

theorem sameSet_iff (a b : List (List Int)) : Pred.sameSet a b = true ↔ ∀ x, x ∈ a ↔ x ∈ b := by
  simp only [Pred.sameSet, Bool.and_eq_true, List.all_eq_true, List.contains_iff_mem]
  constructor
  · rintro ⟨h1, h2⟩ x; exact ⟨h1 x, h2 x⟩
  · intro h; exact ⟨fun x hx => (h x).mp hx, fun x hx => (h x).mpr hx⟩

/-- a failing op reports the error at its own index and produces no result -/
theorem op_error_index (child : ChildExec) (env : Env) (gas : Nat) (vm : Vm) (op : Op) (e : Err)
    (hop : env.ops vm.pc = some op) (hg : ¬ (gas + env.cost op > u64Max ∨ gas + env.cost op > env.limit))
    (he : stepOp child env vm op = .err e) :
    execStep child env gas vm = .err (vm.pc, e) := by
  unfold execStep
  simp only [hop, hg, if_false, he]

end Essential.C08
