/-
C02 — Validation is deterministic under any thread schedule and pool size.
Every completion order of a parallel section gives the sequential result the model uses.
-/
import Essential.Model.Sched
import Essential.Props.C05
import Essential.Props.C06

set_option linter.unusedSimpArgs false
set_option linter.unusedVariables false
namespace Essential.C02
open Essential Essential.Sched

/-! ### placing by index forgets the completion order -/

theorem filterMap_congr' {α β : Type} (l : List α) (f g : α → Option β) (h : ∀ x ∈ l, f x = g x) :
    l.filterMap f = l.filterMap g := by
  induction l with
  | nil => rfl
  | cons a l ih =>
    simp only [List.filterMap_cons, h a (by simp)]
    rw [ih (fun x hx => h x (by simp [hx]))]

theorem nodup_of_lt (l : List Nat) (h : l.Pairwise (· < ·)) : l.Nodup :=
  List.Pairwise.imp (fun hab => by omega) h

theorem find_arrivals {β : Type} (f : Nat → β) (σ : List Nat) (i : Nat) (h : i ∈ σ) :
    ((arrivals f σ).find? fun e => e.1 == i) = some (i, f i) := by
  unfold arrivals
  induction σ with
  | nil => cases h
  | cons a σ ih =>
    simp only [List.map_cons, List.find?_cons]
    by_cases ha : a = i
    · subst ha; simp
    · have : (a == i) = false := by simp [ha]
      simp only [this]
      rcases List.mem_cons.mp h with h | h
      · exact absurd h.symm ha
      · exact ih h

theorem find_arrivals_none {β : Type} (f : Nat → β) (σ : List Nat) (i : Nat) (h : i ∉ σ) :
    ((arrivals f σ).find? fun e => e.1 == i) = none := by
  unfold arrivals
  rw [List.find?_eq_none]
  intro e he
  simp only [List.mem_map] at he
  obtain ⟨j, hj, rfl⟩ := he
  simp only [beq_iff_eq]
  intro hji; subst hji; exact h hj

/-- **indexed collect**: whatever the completion order, the vector is the sequential one -/
theorem collect_vec_schedule_irrelevant {β : Type} (n : Nat) (f : Nat → β) (σ : List Nat)
    (hσ : σ.Perm (List.range n)) : collectVec n (arrivals f σ) = (List.range n).map f := by
  unfold collectVec
  rw [← List.filterMap_eq_map]
  apply filterMap_congr'
  intro i hi
  rw [find_arrivals f σ i (hσ.mem_iff.mpr hi)]
  rfl

/-- **BTreeMap collect**: for distinct ascending keys `lv`, whatever the completion order, the
iteration is the sequential one -/
theorem collect_map_schedule_irrelevant {β : Type} (bound : Nat) (f : Nat → β) (lv σ : List Nat)
    (hσ : σ.Perm lv) (hb : ∀ k ∈ lv, k < bound) (hs : lv.Pairwise (· < ·)) :
    collectMap bound (arrivals f σ) = lv.map fun k => (k, f k) := by
  unfold collectMap
  have key : ∀ k, ((arrivals f σ).find? fun e => e.1 == k).map (fun e => (k, e.2)) =
      if k ∈ lv then some (k, f k) else none := by
    intro k
    by_cases hk : k ∈ lv
    · rw [find_arrivals f σ k (hσ.mem_iff.mpr hk)]; simp [hk]
    · rw [find_arrivals_none f σ k (fun h => hk (hσ.mem_iff.mp h))]; simp [hk]
  simp only [key]
  -- the ascending keys below `bound` that occur in `lv` are `lv` itself
  have : (List.range bound).filterMap (fun k => if k ∈ lv then some (k, f k) else none) =
      ((List.range bound).filter fun k => decide (k ∈ lv)).map fun k => (k, f k) := by
    rw [← List.filterMap_eq_filter, List.map_filterMap]
    apply filterMap_congr'
    intro k _
    by_cases hk : k ∈ lv <;> simp [hk, Option.guard]
  rw [this]
  congr 1
  -- two strictly ascending lists with the same members are equal
  apply List.Perm.eq_of_pairwise (le := fun a b => a < b)
  · intro a b _ _ h1 h2; omega
  · exact (List.pairwise_lt_range (n := bound)).filter _
  · exact hs
  · rw [List.perm_ext_iff_of_nodup ((nodup_of_lt _ List.pairwise_lt_range).filter _) (nodup_of_lt _ hs)]
    intro a
    simp only [List.mem_filter, List.mem_range, decide_eq_true_eq]
    exact ⟨fun h => h.2, fun h => ⟨hb a h, h⟩⟩

/-! ### the levels of the Kahn sort are strictly ascending lists of nodes -/

theorem levelOf_sorted (d : Deg) : (levelOf d).Pairwise (· < ·) := by
  unfold levelOf; exact List.pairwise_lt_range.filter _

theorem topoLevels_sorted (p : Predicate) (f : Nat) : ∀ (d : Deg) (ls : List (List Nat)),
    topoLevels p f d = some ls → ∀ lv ∈ ls, lv.Pairwise (· < ·) := by
  induction f with
  | zero =>
    intro d ls h
    simp only [topoLevels] at h
    split at h
    · cases h; intro lv hlv; cases hlv
    · cases h
  | succ f ih =>
    intro d ls h
    simp only [topoLevels] at h
    split at h
    · cases h; intro lv hlv; cases hlv
    · split at h
      · cases h
      · cases hr : topoLevels p f ((levelOf d).foldl (removeNode p) d) with
        | none => rw [hr] at h; cases h
        | some rest =>
          rw [hr] at h
          simp only [Option.map_some, Option.some.injEq] at h
          subst h
          intro lv hlv
          simp only [List.mem_cons] at hlv
          rcases hlv with rfl | hlv
          · exact levelOf_sorted d
          · exact ih _ rest hr lv hlv

theorem topoSort_sorted (p : Predicate) (ls : List (List Nat)) (h : topoSort p = .ok ls) :
    ∀ lv ∈ ls, lv.Pairwise (· < ·) := by
  unfold topoSort at h
  split at h
  · rename_i l hl; cases h; exact topoLevels_sorted p _ _ _ hl
  · cases h

theorem modeLevels_sorted (mode : RunMode) (levels : List (List Nat)) (deferred : List Nat)
    (h : ∀ lv ∈ levels, lv.Pairwise (· < ·)) : ∀ lv ∈ modeLevels mode levels deferred, lv.Pairwise (· < ·) := by
  intro lv hlv
  cases mode <;>
  · simp only [modeLevels, removeDeferred, removeNotDeferred, List.mem_filter, List.mem_map] at hlv
    obtain ⟨⟨l0, hl0, rfl⟩, _⟩ := hlv
    exact (h l0 hl0).filter _

/-! ### every schedule gives the sequential result -/

/-- **one level**: the nodes of a level may complete in any order -/
theorem level_schedule_irrelevant (o : Oracle) (ho : o.Fair) (bound : Nat) (p : Predicate) (deferred : List Nat) (ca : Bool)
    (run : Nat → List (Stack × Memory) → Res String (NodeOut × Nat)) :
    ∀ (levels : List (List Nat)) (acc : LevelAcc),
      (∀ lv ∈ levels, lv.Pairwise (· < ·)) → (∀ lv ∈ levels, ∀ k ∈ lv, k < bound) →
      runLevelsSched o bound p deferred ca run levels acc = runLevels p deferred ca run levels acc := by
  intro levels
  induction levels with
  | nil => intro acc _ _; rfl
  | cons lv rest ih =>
    intro acc hs hb
    have e := collect_map_schedule_irrelevant bound (fun node => run node (nodeInputs p acc node)) lv (o.level lv)
      (ho.1 lv) (hb lv (by simp)) (hs lv (by simp))
    simp only [runLevelsSched, runLevels, e]
    cases hpr : processResults p deferred ca (List.map (fun k => (k, run k (nodeInputs p acc k))) lv) acc with
    | ok v =>
      obtain ⟨acc', stop⟩ := v
      cases stop
      · simp only []
        exact ih acc' (fun l hl => hs l (by simp [hl])) (fun l hl => hb l (by simp [hl]))
      · rfl
    | err e => rfl
    | panic m => rfl
    | abort m => rfl

/-- **one predicate**: `check_predicate` gives the sequential result under every schedule -/
theorem check_predicate_schedule_irrelevant (o : Oracle) (ho : o.Fair) (ce : CheckEnv) (sols : List Solution) (solIx : Nat)
    (p : Predicate) (ca : Bool) (mode : RunMode) (cache : Cache) :
    checkPredicateInnerSched o ce sols solIx p ca mode cache = checkPredicateInner ce sols solIx p ca mode cache := by
  unfold checkPredicateInnerSched checkPredicateInner
  cases hb : firstBadNode p with
  | some i => rfl
  | none =>
    cases ht : topoSort p with
    | error e => rfl
    | ok levels =>
      simp only []
      rw [level_schedule_irrelevant o ho _ p _ ca _ _ _
        (modeLevels_sorted mode levels _ (topoSort_sorted p levels ht))
        (C06.modeLevels_lt mode levels _ _ (C06.topoSort_lt p levels ht))]

/-- **all solutions**: `check_set_predicates` gives the sequential result under every schedule -/
theorem solutions_schedule_irrelevant (o : Oracle) (ho : o.Fair) (se : SetEnv) (ce : CheckEnv) (sols : List Solution)
    (mode : RunMode) (caches : List Cache) :
    checkSetPredicatesSched o se ce sols mode caches = checkSetPredicates se ce sols mode caches := by
  unfold checkSetPredicatesSched checkSetPredicates
  rw [collect_vec_schedule_irrelevant sols.length _ _ (ho.2 sols.length)]
  simp only [check_predicate_schedule_irrelevant o ho]
  rfl

/-- **the two-pass entry point**: same `Ok`/`Err`, failing indices, gas, data outputs and computed
mutations in the same order, whatever completion orders the scheduler picks in either pass; and
that result is the sequential one -/
theorem two_pass_schedule_irrelevant (o₁ o₂ : Oracle) (h₁ : o₁.Fair) (h₂ : o₂.Fair) (se : SetEnv)
    (mkCe : StateView → CheckEnv) (pre : StateView) (sols : List Solution) :
    twoPassSched o₁ o₂ se mkCe pre sols = twoPass se mkCe pre sols := by
  unfold twoPassSched twoPass checkAndComputeSched checkAndCompute
  simp only [solutions_schedule_irrelevant o₁ h₁, solutions_schedule_irrelevant o₂ h₂]
  rfl

/-! ### compute children -/

def isOkE {α : Type} : Except Unit α → Bool | .ok _ => true | .error _ => false
def valE {α : Type} : Except Unit α → Option α | .ok r => some r | .error _ => none
theorem isOkE_ok {α : Type} (r : α) : isOkE (.ok r : Except Unit α) = true := rfl
theorem isOkE_error {α : Type} (e : Unit) : isOkE (.error e : Except Unit α) = false := rfl
theorem valE_ok {α : Type} (r : α) : valE (.ok r : Except Unit α) = some r := rfl

/-- no child panics or aborts (C05: a VM satisfying the machine invariant never panics) -/
def NoPanic (child : ChildExec) (env : Env) (mk : Nat → Res Err Vm) (is : List Nat) : Prop :=
  ∀ i ∈ is, (∀ m, mk i ≠ .panic m) ∧ (∀ m, mk i ≠ .abort m) ∧
    ∀ vm, mk i = .ok vm → (∀ m, child env vm ≠ .panic m) ∧ (∀ m, child env vm ≠ .abort m)

theorem runChildren_spec (child : ChildExec) (env : Env) (mk : Nat → Res Err Vm) :
    ∀ (is : List Nat), NoPanic child env mk is →
      runChildren child env mk is =
        if (is.all fun i => isOkE (childTask child env mk i))
        then .ok (is.filterMap fun i => valE (childTask child env mk i))
        else .err .computeExec := by
  intro is
  induction is with
  | nil => intro _; rfl
  | cons i is ih =>
    intro hn
    have hi := hn i (by simp)
    have ih' := ih (fun j hj => hn j (by simp [hj]))
    cases hm : mk i with
    | err e => simp [runChildren, childTask, hm, isOkE_error]
    | panic m => exact absurd hm (hi.1 m)
    | abort m => exact absurd hm (hi.2.1 m)
    | ok vm =>
      obtain ⟨c1, c2⟩ := hi.2.2 vm hm
      cases hc : child env vm with
      | err e => simp [runChildren, childTask, hm, hc, isOkE_error]
      | panic m => exact absurd hc (c1 m)
      | abort m => exact absurd hc (c2 m)
      | ok r =>
        have ht : childTask child env mk i = .ok r := by simp [childTask, hm, hc]
        simp only [runChildren, hm, hc, List.all_cons, List.filterMap_cons, ht, isOkE_ok, valE_ok, Bool.true_and]
        rw [ih']
        by_cases hall : (is.all fun i => isOkE (childTask child env mk i)) = true
        · simp only [hall, if_true]
        · simp only [hall, if_false]; rfl

/-- **compute children**: whatever order the children complete in and whichever child's error
the collection keeps, the parent sees all results in index order, or `Compute.Exec` -/
theorem compute_schedule_irrelevant (child : ChildExec) (env : Env) (mk : Nat → Res Err Vm) (n : Nat) (σ : List Nat)
    (pick : List Unit → Option Unit) (hσ : σ.Perm (List.range n)) (hn : NoPanic child env mk (List.range n)) :
    runChildrenSched child env mk n σ pick = runChildren child env mk (List.range n) := by
  rw [runChildren_spec child env mk _ hn]
  unfold runChildrenSched collectResult
  by_cases hall : ((List.range n).all fun i => isOkE (childTask child env mk i)) = true
  · -- every child succeeded: no error arrives, and the successes are placed by index
    have hok : ∀ i ∈ List.range n, ∃ r, childTask child env mk i = .ok r := by
      intro i hi
      have := List.all_eq_true.mp hall i hi
      cases ht : childTask child env mk i with
      | ok r => exact ⟨r, rfl⟩
      | error e => rw [ht] at this; cases this
    have noerr : (arrivals (childTask child env mk) σ).filterMap errOf = [] := by
      rw [List.filterMap_eq_nil_iff]
      intro e he
      unfold arrivals at he
      simp only [List.mem_map] at he
      obtain ⟨i, hi, rfl⟩ := he
      obtain ⟨r, hr⟩ := hok i (hσ.mem_iff.mp hi)
      simp only [errOf, hr]
    let val : Nat → (Nat × Vm) := fun i => match childTask child env mk i with | .ok r => r | .error _ => (0, {})
    have e1 : (arrivals (childTask child env mk) σ).filterMap okOf = arrivals val σ := by
      unfold arrivals
      rw [List.filterMap_map, ← List.filterMap_eq_map]
      apply filterMap_congr'
      intro i hi
      obtain ⟨r, hr⟩ := hok i (hσ.mem_iff.mp hi)
      simp only [Function.comp, okOf, hr, val]
    simp only [noerr, if_true, hall, e1, collect_vec_schedule_irrelevant n val σ hσ]
    congr 1
    rw [← List.filterMap_eq_map]
    apply filterMap_congr'
    intro i hi
    obtain ⟨r, hr⟩ := hok i hi
    simp only [Function.comp, hr, val, valE_ok]
  · -- some child failed: its error arrives
    have : (arrivals (childTask child env mk) σ).filterMap errOf ≠ [] := by
      intro hnil
      apply hall
      rw [List.all_eq_true]
      intro i hi
      rw [List.filterMap_eq_nil_iff] at hnil
      have := hnil (i, childTask child env mk i) (by unfold arrivals; exact List.mem_map.mpr ⟨i, hσ.mem_iff.mpr hi, rfl⟩)
      cases ht : childTask child env mk i with
      | ok r => rfl
      | error e => rw [ht] at this; simp [errOf] at this
    simp only [this, if_false, hall]
    rfl

/-- non-vacuity: a fair scheduler that completes everything in reverse order -/
example : (⟨List.reverse, fun n => (List.range n).reverse⟩ : Oracle).Fair :=
  ⟨fun lv => List.reverse_perm lv, fun n => List.reverse_perm _⟩

end Essential.C02
