/-
C01 — Solution-set verdict equals the predicate-graph reference semantics.

`R : node ↦ result` is a *reference evaluation* of the graph when every node's result is the
run of its program on the concatenation of its parents' results (ascending parent order, with
multiplicity).  The theorems say that the checker's two passes compute exactly such an `R`:
each node once, after its parents, from exactly those inputs — whatever the numbering.
-/
import Essential.Lemmas.Refine
import Essential.Props.C03
import Essential.Props.C06

set_option linter.unusedSimpArgs false
set_option linter.unusedVariables false
namespace Essential.C01
open Essential Essential.Kahn Essential.Refine

/-! ### the level order: every node exactly once, parents first -/

/-- **each node is scheduled exactly once**: the levels of an accepted graph, flattened, are a
permutation of the node indices -/
theorem levels_perm (p : Predicate) (ls : List (List Nat)) (h : topoSort p = .ok ls) :
    ls.flatten.Perm (List.range p.nodes.length) := by
  obtain ⟨hp, hc⟩ := topoSort_planned p ls h
  have hn : ls.flatten.Nodup := by simpa using planned_nodup p ls [] List.nodup_nil hp
  rw [List.perm_ext_iff_of_nodup hn List.nodup_range]
  intro v
  simp only [List.mem_range]
  constructor
  · intro hv
    obtain ⟨lv, hlv, hv'⟩ := List.mem_flatten.mp hv
    exact C06.topoSort_lt p ls h lv hlv v hv'
  · exact hc v

/-- **after all of its parents**: in the level order, every parent of a node sits in a strictly earlier level -/
theorem parents_earlier (p : Predicate) (ls : List (List Nat)) (h : topoSort p = .ok ls) :
    Planned p [] ls := (topoSort_planned p ls h).1

/-- **ascending parent order, with multiplicity**: the parent list of a node is sorted, and a parent
connected by `k` parallel edges occurs `k` times -/
theorem parents_ascending (p : Predicate) (v : Nat) : (parentsOf p v).Pairwise (· ≤ ·) := by
  unfold parentsOf
  have gen : ∀ (l : List Nat), l.Pairwise (· < ·) →
      (l.flatMap fun u => ((edgesOf p u).filter (· == v)).map fun _ => u).Pairwise (· ≤ ·) := by
    intro l
    induction l with
    | nil => intro _; simp
    | cons a l ih =>
      intro hl
      simp only [List.flatMap_cons, List.pairwise_append]
      have hl' := List.pairwise_cons.mp hl
      refine ⟨?_, ih hl'.2, ?_⟩
      · rw [List.pairwise_map]
        exact List.Pairwise.imp (fun _ => Nat.le_refl a) (List.pairwise_of_forall (fun _ _ => trivial) : List.Pairwise (fun _ _ => True) _)
      · intro x hx y hy
        simp only [List.mem_map] at hx
        obtain ⟨_, _, rfl⟩ := hx
        simp only [List.mem_flatMap, List.mem_map] at hy
        obtain ⟨u, hu, _, _, rfl⟩ := hy
        exact Nat.le_of_lt (hl'.1 u hu)
  exact gen _ List.pairwise_lt_range

theorem parents_multiplicity (p : Predicate) (u v : Nat) (hu : u < p.nodes.length) :
    (parentsOf p v).count u = (edgesOf p u).count v := by
  unfold parentsOf
  rw [List.count_flatMap]
  have : ∀ (l : List Nat), l.Nodup → u ∈ l →
      (l.map (List.count u ∘ fun u' => ((edgesOf p u').filter (· == v)).map fun _ => u')).sum = (edgesOf p u).count v := by
    intro l
    induction l with
    | nil => intro _ h; cases h
    | cons a l ih =>
      intro hn hm
      simp only [List.nodup_cons] at hn
      simp only [List.map_cons, List.sum_cons, Function.comp]
      by_cases hau : a = u
      · subst hau
        have zero : ∀ (l : List Nat), a ∉ l →
            (l.map fun x => List.count a (((edgesOf p x).filter (· == v)).map fun _ => x)).sum = 0 := by
          intro l
          induction l with
          | nil => intro _; rfl
          | cons b l ih =>
            intro hb
            have hba : b ≠ a := fun e => hb (by simp [e])
            have z : (((edgesOf p b).filter (· == v)).map fun _ => b).count a = 0 := by
              rw [List.count_eq_zero]
              intro hmem
              simp only [List.mem_map] at hmem
              obtain ⟨_, _, e⟩ := hmem
              exact hba e
            simp only [List.map_cons, List.sum_cons, z, Nat.zero_add]
            exact ih (fun h => hb (by simp [h]))
        have z0 := zero l hn.1
        have e0 : (List.count a ∘ fun u' => ((edgesOf p u').filter (· == v)).map fun _ => u') =
            fun x => List.count a (((edgesOf p x).filter (· == v)).map fun _ => x) := rfl
        rw [e0, z0, Nat.add_zero]
        have : ∀ (es : List Nat), (es.map fun _ => a).count a = es.length := by
          intro es; induction es with
          | nil => rfl
          | cons e es ih => simp [List.count_cons, ih]
        rw [this, List.count_eq_length_filter]
      · have hm' : u ∈ l := by
          rcases List.mem_cons.mp hm with h | h
          · exact absurd h.symm hau
          · exact h
        have z : (((edgesOf p a).filter (· == v)).map fun _ => a).count u = 0 := by
          rw [List.count_eq_zero]
          intro hmem
          simp only [List.mem_map] at hmem
          obtain ⟨_, _, e⟩ := hmem
          exact hau e
        rw [z, Nat.zero_add]
        exact ih hn.2 hm'
  exact this _ List.nodup_range (List.mem_range.mpr hu)

/-! ### the two passes as plans -/

def ChildClosed (p : Predicate) (D : List Nat) : Prop := ∀ u ∈ D, ∀ c ∈ edgesOf p u, c ∈ D

theorem deferred_closed (ce : CheckEnv) (p : Predicate) : ChildClosed p (deferredOf ce p) := by
  intro u hu c hc
  unfold deferredOf at *
  rw [C03.find_deferred_spec] at *
  exact C03.Reach.step hu hc

theorem planned_filter (p : Predicate) (R : Nat → Res String (NodeOut × Nat)) (c0 : Cache) (q : Nat → Bool)
    (hfresh : ∀ v, q v = true → c0.get v = none)
    (hpar : ∀ v, q v = true → ∀ u ∈ parentsOf p v, q u = true ∨ c0.get u = parentOut (R u)) :
    ∀ (ls : List (List Nat)) (S : List Nat), Planned p S ls →
      PassPlan p R c0 (S.filter q) ((ls.map fun lv => lv.filter q).filter fun lv => lv != []) := by
  intro ls
  induction ls with
  | nil => intro S _; exact trivial
  | cons lv rest ih =>
    intro S hp
    obtain ⟨h1, h2, h3⟩ := hp
    have hrec := ih (S ++ lv) h3
    rw [List.filter_append] at hrec
    simp only [List.map_cons, List.filter_cons]
    by_cases he : lv.filter q = []
    · simp only [he, bne_self_eq_false, Bool.false_eq_true, if_false]
      simpa [he] using hrec
    · have : (lv.filter q != []) = true := by simp [he]
      simp only [this, if_true]
      refine ⟨?_, lt_nodup _ (h2.filter _), hrec⟩
      intro v hv
      obtain ⟨hvl, hq⟩ := List.mem_filter.mp hv
      refine ⟨fun hm => (h1 v hvl).2.1 (List.mem_filter.mp hm).1, hfresh v hq, ?_⟩
      intro u hu
      obtain ⟨hun, hue⟩ := (mem_parentsOf p u v).mp hu
      rcases hpar v hq u hu with hqu | hc
      · exact Or.inl (List.mem_filter.mpr ⟨(h1 v hvl).2.2 u hun hue, hqu⟩)
      · exact Or.inr hc

theorem cacheInv_empty (p : Predicate) (D : List Nat) (R) (c0 : Cache) : CacheInv p D R c0 (emptyAcc c0) [] := by
  constructor
  · intro u; simp [emptyAcc]
  · intro u; simp [emptyAcc, Cache.get]

/-- **one pass of `check_predicate` is the processing of the reference results of its nodes** -/
theorem pass_refines (ce : CheckEnv) (sols : List Solution) (solIx : Nat) (p : Predicate) (ca : Bool) (mode : RunMode)
    (c0 : Cache) (R : Nat → Res String (NodeOut × Nat)) (levels : List (List Nat))
    (hb : firstBadNode p = none) (ht : topoSort p = .ok levels)
    (hplan : PassPlan p R c0 [] (modeLevels mode levels (deferredOf ce p)))
    (hR : ∀ v ∈ (modeLevels mode levels (deferredOf ce p)).flatten, R v = nodeRunner ce sols solIx p v (refInputs p R v)) :
    checkPredicateInner ce sols solIx p ca mode c0 =
      finishInner (processResults p (deferredOf ce p) ca
        ((modeLevels mode levels (deferredOf ce p)).flatten.map fun v => (v, R v)) (emptyAcc c0)) ∧
    ∀ acc', processResults p (deferredOf ce p) ca
        ((modeLevels mode levels (deferredOf ce p)).flatten.map fun v => (v, R v)) (emptyAcc c0) = .ok (acc', false) →
      CacheInv p (deferredOf ce p) R c0 acc' (modeLevels mode levels (deferredOf ce p)).flatten := by
  have := runLevels_eq_process p (deferredOf ce p) ca (nodeRunner ce sols solIx p) R c0
    (modeLevels mode levels (deferredOf ce p)) (emptyAcc c0) [] (cacheInv_empty p _ R c0) (fun u hu => by cases hu) hplan hR
  refine ⟨?_, fun acc' he => by simpa using this.2 acc' he⟩
  unfold checkPredicateInner
  rw [hb, ht]
  simp only [this.1]

/-! ### the verdict in terms of the reference results -/

/-- a node result that lets the predicate pass: no program error, and a leaf ended `[1]` or `[2]` -/
def okNode : Res String (NodeOut × Nat) → Bool
  | .ok (.satisfied false, _) => false
  | .ok _ => true
  | _ => false

def nodeGas : Res String (NodeOut × Nat) → Nat
  | .ok (_, g) => g
  | _ => 0

def nodeData : Res String (NodeOut × Nat) → Option Memory
  | .ok (.data m, _) => some m
  | _ => none

theorem process_all_ok (p : Predicate) (D : List Nat) (ca : Bool) (R : Nat → Res String (NodeOut × Nat)) :
    ∀ (l : List Nat) (acc : LevelAcc), (∀ v ∈ l, okNode (R v) = true) →
      ∃ acc', processResults p D ca (l.map fun v => (v, R v)) acc = .ok (acc', false) ∧
        acc'.failed = acc.failed ∧ acc'.unsatisfied = acc.unsatisfied ∧
        acc'.gas = (l.map fun v => nodeGas (R v)).foldl satAdd acc.gas ∧
        acc'.dataOut = acc.dataOut ++ l.filterMap fun v => nodeData (R v) := by
  intro l
  induction l with
  | nil => intro acc _; exact ⟨acc, rfl, rfl, rfl, rfl, by simp⟩
  | cons v vs ih =>
    intro acc h
    have hv := h v (by simp)
    have hvs : ∀ x ∈ vs, okNode (R x) = true := fun x hx => h x (by simp [hx])
    cases hr : R v with
    | panic m => rw [hr] at hv; cases hv
    | abort m => rw [hr] at hv; cases hv
    | err e => rw [hr] at hv; cases hv
    | ok val =>
      obtain ⟨o, g⟩ := val
      cases o with
      | parent s m =>
        by_cases hs : shouldCache p D v = true
        · obtain ⟨acc', h1, h2, h3, h4, h5⟩ := ih { acc with cache := acc.cache.insert v (s, m), gas := satAdd acc.gas g } hvs
          refine ⟨acc', ?_, h2, h3, ?_, ?_⟩
          · simp only [List.map_cons, hr, processResults, hs, if_true]; exact h1
          · rw [h4]; simp [hr, nodeGas]
          · rw [h5]; simp [List.filterMap_cons, hr, nodeData]
        · obtain ⟨acc', h1, h2, h3, h4, h5⟩ := ih { acc with local_ := acc.local_.insert v (s, m), gas := satAdd acc.gas g } hvs
          refine ⟨acc', ?_, h2, h3, ?_, ?_⟩
          · simp only [List.map_cons, hr, processResults, hs, if_false]; exact h1
          · rw [h4]; simp [hr, nodeGas]
          · rw [h5]; simp [List.filterMap_cons, hr, nodeData]
      | data m =>
        obtain ⟨acc', h1, h2, h3, h4, h5⟩ := ih { acc with dataOut := acc.dataOut ++ [m], gas := satAdd acc.gas g } hvs
        refine ⟨acc', ?_, h2, h3, ?_, ?_⟩
        · simp only [List.map_cons, hr, processResults]; exact h1
        · rw [h4]; simp [hr, nodeGas]
        · rw [h5]; simp [List.filterMap_cons, hr, nodeData]
      | satisfied b =>
        cases b
        · rw [hr] at hv; cases hv
        · obtain ⟨acc', h1, h2, h3, h4, h5⟩ := ih { acc with gas := satAdd acc.gas g } hvs
          refine ⟨acc', ?_, h2, h3, ?_, ?_⟩
          · simp only [List.map_cons, hr, processResults]; exact h1
          · rw [h4]; simp [hr, nodeGas]
          · rw [h5]; simp [List.filterMap_cons, hr, nodeData]

/-- once something failed or is unsatisfied it stays so -/
theorem process_bad_stays (p : Predicate) (D : List Nat) (ca : Bool) :
    ∀ (l : List (Nat × Res String (NodeOut × Nat))) (acc : LevelAcc), (acc.failed ≠ [] ∨ acc.unsatisfied ≠ []) →
      (∀ e ∈ l, (∀ m, e.2 ≠ .panic m) ∧ ∀ m, e.2 ≠ .abort m) →
      ∃ acc' st, processResults p D ca l acc = .ok (acc', st) ∧ (acc'.failed ≠ [] ∨ acc'.unsatisfied ≠ []) := by
  intro l
  induction l with
  | nil => intro acc h _; exact ⟨acc, false, rfl, h⟩
  | cons hd tl ih =>
    intro acc h hnp
    obtain ⟨node, r⟩ := hd
    have hhd := hnp (node, r) (by simp)
    have htl : ∀ e ∈ tl, (∀ m, e.2 ≠ .panic m) ∧ ∀ m, e.2 ≠ .abort m := fun e he => hnp e (by simp [he])
    cases r with
    | panic m => exact absurd rfl (hhd.1 m)
    | abort m => exact absurd rfl (hhd.2 m)
    | err e =>
      cases ca
      · exact ⟨_, true, rfl, Or.inl (by simp)⟩
      · simp only [processResults, if_true]
        exact ih _ (Or.inl (by simp)) htl
    | ok val =>
      obtain ⟨o, g⟩ := val
      cases o with
      | parent s m =>
        simp only [processResults]
        apply ih _ _ htl
        rcases h with h | h
        · left; split <;> exact h
        · right; split <;> exact h
      | data m => simp only [processResults]; exact ih _ h htl
      | satisfied b =>
        cases b
        · simp only [processResults]; exact ih _ (Or.inr (by simp)) htl
        · simp only [processResults]; exact ih _ h htl

theorem process_some_bad (p : Predicate) (D : List Nat) (ca : Bool) (R : Nat → Res String (NodeOut × Nat)) :
    ∀ (l : List Nat) (acc : LevelAcc), (∃ v ∈ l, okNode (R v) = false) →
      (∀ v ∈ l, (∀ m, R v ≠ .panic m) ∧ ∀ m, R v ≠ .abort m) →
      ∃ acc' st, processResults p D ca (l.map fun v => (v, R v)) acc = .ok (acc', st) ∧ (acc'.failed ≠ [] ∨ acc'.unsatisfied ≠ []) := by
  intro l
  induction l with
  | nil => intro acc h _; obtain ⟨v, hv, _⟩ := h; cases hv
  | cons v vs ih =>
    intro acc h hnp
    have hnp' : ∀ e ∈ vs.map fun v => (v, R v), (∀ m, e.2 ≠ .panic m) ∧ ∀ m, e.2 ≠ .abort m := by
      intro e he
      simp only [List.mem_map] at he
      obtain ⟨x, hx, rfl⟩ := he
      exact hnp x (by simp [hx])
    have hnpv := hnp v (by simp)
    by_cases hv : okNode (R v) = true
    · -- this node is fine: the bad one is further on
      have hex : ∃ x ∈ vs, okNode (R x) = false := by
        obtain ⟨x, hx, hb⟩ := h
        rcases List.mem_cons.mp hx with rfl | hx
        · rw [hv] at hb; cases hb
        · exact ⟨x, hx, hb⟩
      have hvs := fun x hx => hnp x (List.mem_cons_of_mem v hx)
      cases hr : R v with
      | panic m => exact absurd hr (hnpv.1 m)
      | abort m => exact absurd hr (hnpv.2 m)
      | err e => rw [hr] at hv; cases hv
      | ok val =>
        obtain ⟨o, g⟩ := val
        cases o with
        | parent s m => simp only [List.map_cons, hr, processResults]; exact ih _ hex hvs
        | data m => simp only [List.map_cons, hr, processResults]; exact ih _ hex hvs
        | satisfied b =>
          cases b
          · rw [hr] at hv; cases hv
          · simp only [List.map_cons, hr, processResults]; exact ih _ hex hvs
    · have hv' : okNode (R v) = false := by simpa using hv
      cases hr : R v with
      | panic m => exact absurd hr (hnpv.1 m)
      | abort m => exact absurd hr (hnpv.2 m)
      | err e =>
        cases ca
        · exact ⟨_, true, by simp only [List.map_cons, hr, processResults]; rfl, Or.inl (by simp)⟩
        · simp only [List.map_cons, hr, processResults, if_true]
          exact process_bad_stays p D true _ _ (Or.inl (by simp)) hnp'
      | ok val =>
        obtain ⟨o, g⟩ := val
        cases o with
        | parent s m => rw [hr] at hv'; cases hv'
        | data m => rw [hr] at hv'; cases hv'
        | satisfied b =>
          cases b
          · simp only [List.map_cons, hr, processResults]
            exact process_bad_stays p D ca _ _ (Or.inr (by simp)) hnp'
          · rw [hr] at hv'; cases hv'

/-- **the verdict of a pass**: it succeeds exactly when no program of the pass fails and every
leaf of it ends with `[1]` or `[2]`; then the gas is the saturated sum over the nodes and the data
outputs are the memories of the `[2]` leaves, in level order -/
theorem pass_verdict (p : Predicate) (D : List Nat) (ca : Bool) (R : Nat → Res String (NodeOut × Nat)) (N : List Nat) (c0 : Cache)
    (hnp : ∀ v ∈ N, (∀ m, R v ≠ .panic m) ∧ ∀ m, R v ≠ .abort m) :
    ((∀ v ∈ N, okNode (R v) = true) →
      ∃ c', finishInner (processResults p D ca (N.map fun v => (v, R v)) (emptyAcc c0)) =
        .ok ((N.map fun v => nodeGas (R v)).foldl satAdd 0, N.filterMap (fun v => nodeData (R v)), c')) ∧
    ((∃ v ∈ N, okNode (R v) = false) →
      ∃ e, finishInner (processResults p D ca (N.map fun v => (v, R v)) (emptyAcc c0)) = .err e) := by
  constructor
  · intro h
    obtain ⟨acc', h1, h2, h3, h4, h5⟩ := process_all_ok p D ca R N (emptyAcc c0) h
    refine ⟨acc'.cache, ?_⟩
    rw [h1]
    simp only [finishInner, h2, h3, emptyAcc, ne_eq, not_true_eq_false, if_false, h4, h5, List.nil_append]
  · intro h
    obtain ⟨acc', st, h1, h2⟩ := process_some_bad p D ca R N (emptyAcc c0) h hnp
    rw [h1]
    simp only [finishInner]
    by_cases hf : acc'.failed ≠ []
    · exact ⟨_, by rw [if_pos hf]⟩
    · rcases h2 with h2 | h2
      · exact absurd h2 hf
      · exact ⟨_, by rw [if_neg hf, if_pos h2]⟩

/-! ### the two passes of one predicate against one reference evaluation -/

/-- `R` is a reference evaluation of the graph for the two-pass check: every node's result is the
run of its program — by the second pass's environment if the node is deferred (it sees the
post-state), by the first pass's otherwise — on the concatenation of its parents' results -/
def IsRef (ce1 ce2 : CheckEnv) (sols : List Solution) (solIx : Nat) (p : Predicate) (R : Nat → Res String (NodeOut × Nat)) : Prop :=
  ∀ v, v < p.nodes.length →
    R v = (if (deferredOf ce1 p).contains v then nodeRunner ce2 sols solIx p v else nodeRunner ce1 sols solIx p v) (refInputs p R v)

theorem process_stop_failed (p : Predicate) (D : List Nat) (ca : Bool) :
    ∀ (l : List (Nat × Res String (NodeOut × Nat))) (acc acc' : LevelAcc),
      processResults p D ca l acc = .ok (acc', true) → acc'.failed ≠ [] := by
  intro l
  induction l with
  | nil => intro acc acc' h; simp [processResults] at h
  | cons hd tl ih =>
    intro acc acc' h
    obtain ⟨node, r⟩ := hd
    cases r with
    | panic m => simp [processResults] at h
    | abort m => simp [processResults] at h
    | err e =>
      cases ca
      · simp only [processResults, Bool.false_eq_true, if_false, Res.ok.injEq, Prod.mk.injEq, and_true] at h
        subst h; simp
      · simp only [processResults, if_true] at h; exact ih _ _ h
    | ok val =>
      obtain ⟨o, g⟩ := val
      cases o with
      | parent s m => simp only [processResults] at h; exact ih _ _ h
      | data m => simp only [processResults] at h; exact ih _ _ h
      | satisfied b => cases b <;> (simp only [processResults] at h; exact ih _ _ h)

theorem deferredOf_program (ce1 ce2 : CheckEnv) (p : Predicate) (h : ce2.program = ce1.program) :
    deferredOf ce2 p = deferredOf ce1 p := by
  unfold deferredOf
  congr 1
  funext i
  unfold isDeferredNode
  rw [h]

/-- **the two passes of `check_predicate` compute the reference evaluation**: every node is run
exactly once over the two passes; the first pass is the processing of the reference results of
the non-deferred nodes; if it succeeds, the second pass — started from the cache the first one
left — is the processing of the reference results of the deferred nodes, each of which got the
outputs of *all* its parents (from the shared cache or from this pass) in ascending order -/
theorem two_pass_predicate_refines (ce1 ce2 : CheckEnv) (hprog : ce2.program = ce1.program) (sols : List Solution) (solIx : Nat)
    (p : Predicate) (ca : Bool) (R : Nat → Res String (NodeOut × Nat)) (levels : List (List Nat))
    (hb : firstBadNode p = none) (ht : topoSort p = .ok levels) (hR : IsRef ce1 ce2 sols solIx p R) :
    ((modeLevels .outputs levels (deferredOf ce1 p)).flatten ++ (modeLevels .checks levels (deferredOf ce1 p)).flatten).Perm
        (List.range p.nodes.length) ∧
    checkPredicateInner ce1 sols solIx p ca .outputs [] =
      finishInner (processResults p (deferredOf ce1 p) ca
        ((modeLevels .outputs levels (deferredOf ce1 p)).flatten.map fun v => (v, R v)) (emptyAcc [])) ∧
    ∀ g1 d1 c1, checkPredicateInner ce1 sols solIx p ca .outputs [] = .ok (g1, d1, c1) →
      checkPredicateInner ce2 sols solIx p ca .checks c1 =
        finishInner (processResults p (deferredOf ce1 p) ca
          ((modeLevels .checks levels (deferredOf ce1 p)).flatten.map fun v => (v, R v)) (emptyAcc c1)) := by
  obtain ⟨hplanned, hcover⟩ := topoSort_planned p levels ht
  have hperm := levels_perm p levels ht
  have hcl := deferred_closed ce1 p
  -- nodes of the first pass
  have hN1 : ∀ v, v ∈ (modeLevels .outputs levels (deferredOf ce1 p)).flatten ↔ v < p.nodes.length ∧ v ∉ deferredOf ce1 p := by
    intro v
    rw [(C03.passes_partition levels (deferredOf ce1 p) v).1, hperm.mem_iff, List.mem_range]
  have hN2 : ∀ v, v ∈ (modeLevels .checks levels (deferredOf ce1 p)).flatten ↔ v < p.nodes.length ∧ v ∈ deferredOf ce1 p := by
    intro v
    rw [(C03.passes_partition levels (deferredOf ce1 p) v).2.1, hperm.mem_iff, List.mem_range]
  -- pass 1
  have plan1 : PassPlan p R [] [] (modeLevels .outputs levels (deferredOf ce1 p)) := by
    have := planned_filter p R [] (fun n => !(deferredOf ce1 p).contains n) (fun _ _ => rfl)
      (by
        intro v hv u hu
        left
        obtain ⟨hun, hue⟩ := (mem_parentsOf p u v).mp hu
        simp only [List.contains_eq_mem, Bool.not_eq_eq_eq_not, Bool.not_true, decide_eq_false_iff_not] at hv ⊢
        exact fun hud => hv (hcl u hud v hue)) levels [] hplanned
    simpa [modeLevels, removeDeferred] using this
  have ref1 := pass_refines ce1 sols solIx p ca .outputs [] R levels hb ht plan1 (by
    intro v hv
    obtain ⟨hvn, hvd⟩ := (hN1 v).mp hv
    rw [hR v hvn]
    have : (deferredOf ce1 p).contains v = false := by simp [hvd]
    simp only [this, Bool.false_eq_true, if_false])
  refine ⟨?_, ref1.1, ?_⟩
  · -- every node exactly once over the two passes
    apply List.Perm.trans _ hperm
    rw [List.perm_iff_count]
    intro a
    rw [List.count_append]
    exact (C03.passes_partition levels (deferredOf ce1 p) a).2.2
  · intro g1 d1 c1 hok
    rw [ref1.1] at hok
    -- the first pass ran to the end, so its caches are in step with `R`
    cases hpr : processResults p (deferredOf ce1 p) ca
        ((modeLevels .outputs levels (deferredOf ce1 p)).flatten.map fun v => (v, R v)) (emptyAcc []) with
    | err e => rw [hpr] at hok; simp [finishInner] at hok
    | panic m => rw [hpr] at hok; simp [finishInner] at hok
    | abort m => rw [hpr] at hok; simp [finishInner] at hok
    | ok val =>
      obtain ⟨acc1, st⟩ := val
      rw [hpr] at hok
      simp only [finishInner] at hok
      have hfail : ¬ (acc1.failed ≠ []) := by
        intro hf; rw [if_pos hf] at hok; cases hok
      rw [if_neg hfail] at hok
      have hst : st = false := by
        cases st
        · rfl
        · exact absurd (process_stop_failed _ _ _ _ _ _ hpr) hfail
      subst hst
      have hc1 : c1 = acc1.cache := by
        by_cases hu : acc1.unsatisfied ≠ []
        · rw [if_pos hu] at hok; cases hok
        · rw [if_neg hu] at hok
          simp only [Res.ok.injEq, Prod.mk.injEq] at hok
          exact hok.2.2.symm
      have inv1 := ref1.2 acc1 hpr
      have hget : ∀ u, c1.get u =
          if (modeLevels .outputs levels (deferredOf ce1 p)).flatten.contains u && shouldCache p (deferredOf ce1 p) u
          then parentOut (R u) else none := by
        intro u; rw [hc1, inv1.1 u]; rfl
      -- pass 2
      have plan2 : PassPlan p R c1 [] (modeLevels .checks levels (deferredOf ce1 p)) := by
        have := planned_filter p R c1 (fun n => (deferredOf ce1 p).contains n)
          (by
            intro v hv
            rw [hget v]
            have : shouldCache p (deferredOf ce1 p) v = false := by
              unfold shouldCache; rw [hv]; rfl
            simp [this])
          (by
            intro v hv u hu
            by_cases hud : (deferredOf ce1 p).contains u = true
            · exact Or.inl hud
            · right
              obtain ⟨hun, hue⟩ := (mem_parentsOf p u v).mp hu
              have hud' : u ∉ deferredOf ce1 p := by simpa using hud
              have hs : shouldCache p (deferredOf ce1 p) u = true := by
                simp only [shouldCache, Bool.and_eq_true, Bool.not_eq_eq_eq_not, Bool.not_true, List.any_eq_true]
                exact ⟨by simpa using hud, v, hue, hv⟩
              have hm : (modeLevels .outputs levels (deferredOf ce1 p)).flatten.contains u = true := by
                simp only [List.contains_eq_mem, decide_eq_true_eq]
                exact (hN1 u).mpr ⟨hun, hud'⟩
              rw [hget u, hm, hs]; rfl) levels [] hplanned
        simpa [modeLevels, removeNotDeferred] using this
      have hd2 := deferredOf_program ce1 ce2 p hprog
      have ref2 := pass_refines ce2 sols solIx p ca .checks c1 R levels hb ht (by rw [hd2]; exact plan2) (by
        rw [hd2]
        intro v hv
        obtain ⟨hvn, hvd⟩ := (hN2 v).mp hv
        rw [hR v hvn]
        have : (deferredOf ce1 p).contains v = true := by simp [hvd]
        simp only [this, if_true])
      rw [hd2] at ref2
      exact ref2.1

/-! ### the reference evaluation exists and is unique (the theorems above are not vacuous) -/

theorem refInputs_congr (p : Predicate) (R R' : Nat → Res String (NodeOut × Nat)) (v : Nat)
    (h : ∀ u ∈ parentsOf p v, R u = R' u) : refInputs p R v = refInputs p R' v := by
  unfold refInputs
  have gen : ∀ (l : List Nat), (∀ u ∈ l, R u = R' u) →
      l.filterMap (fun u => parentOut (R u)) = l.filterMap (fun u => parentOut (R' u)) := by
    intro l
    induction l with
    | nil => intro _; rfl
    | cons a l ih =>
      intro hl
      simp only [List.filterMap_cons, hl a (by simp)]
      rw [ih (fun u hu => hl u (by simp [hu]))]
  exact gen _ h

/-- one more round of evaluating every node from the previous round's results -/
def iter (p : Predicate) (runD : Nat → List (Stack × Memory) → Res String (NodeOut × Nat)) : Nat → Nat → Res String (NodeOut × Nat)
  | 0 => fun _ => .err ""
  | k+1 => fun v => runD v (refInputs p (iter p runD k) v)

theorem iter_stable (p : Predicate) (runD) : ∀ (ls : List (List Nat)) (S : List Nat) (K : Nat), Planned p S ls →
    (∀ u ∈ S, ∀ k, K ≤ k → iter p runD k u = iter p runD K u) →
    ∀ v ∈ S ++ ls.flatten, ∀ k, K + ls.length ≤ k → iter p runD k v = iter p runD (K + ls.length) v := by
  intro ls
  induction ls with
  | nil =>
    intro S K _ hS v hv k hk
    simp only [List.flatten_nil, List.append_nil, List.length_nil, Nat.add_zero] at hv hk ⊢
    exact hS v hv k hk
  | cons lv rest ih =>
    intro S K hp hS v hv k hk
    obtain ⟨h1, h2, h3⟩ := hp
    have step : ∀ u ∈ S ++ lv, ∀ k, K + 1 ≤ k → iter p runD k u = iter p runD (K + 1) u := by
      intro u hu k hk
      rcases List.mem_append.mp hu with hu | hu
      · rw [hS u hu k (by omega), hS u hu (K + 1) (by omega)]
      · obtain ⟨k', rfl⟩ : ∃ k', k = k' + 1 := ⟨k - 1, by omega⟩
        simp only [iter]
        congr 1
        apply refInputs_congr
        intro w hw
        obtain ⟨hwn, hwe⟩ := (mem_parentsOf p w u).mp hw
        exact hS w ((h1 u hu).2.2 w hwn hwe) k' (by omega)
    have := ih (S ++ lv) (K + 1) h3 step v (by simpa [List.append_assoc] using hv) k (by simp only [List.length_cons] at hk; omega)
    have e : K + 1 + rest.length = K + (lv :: rest).length := by simp only [List.length_cons]; omega
    rw [e] at this
    exact this

/-- **a reference evaluation exists** for every accepted (acyclic, well-formed) graph -/
theorem reference_exists (ce1 ce2 : CheckEnv) (sols : List Solution) (solIx : Nat) (p : Predicate) (levels : List (List Nat))
    (ht : topoSort p = .ok levels) : ∃ R, IsRef ce1 ce2 sols solIx p R := by
  obtain ⟨hplanned, hcover⟩ := topoSort_planned p levels ht
  let runD := fun v => if (deferredOf ce1 p).contains v then nodeRunner ce2 sols solIx p v else nodeRunner ce1 sols solIx p v
  refine ⟨iter p runD levels.length, ?_⟩
  intro v hv
  have hs := iter_stable p runD levels [] 0 hplanned (fun u hu => by cases hu) v (by simpa using hcover v hv)
    (levels.length + 1) (by omega)
  simp only [Nat.zero_add] at hs
  rw [← hs]
  rfl

/-- **and it is unique**: the results of all nodes are determined by the edges and the programs -/
theorem reference_unique (ce1 ce2 : CheckEnv) (sols : List Solution) (solIx : Nat) (p : Predicate) (levels : List (List Nat))
    (ht : topoSort p = .ok levels) (R R' : Nat → Res String (NodeOut × Nat))
    (h : IsRef ce1 ce2 sols solIx p R) (h' : IsRef ce1 ce2 sols solIx p R') : ∀ v, v < p.nodes.length → R v = R' v := by
  obtain ⟨hplanned, hcover⟩ := topoSort_planned p levels ht
  have gen : ∀ (ls : List (List Nat)) (S : List Nat), Planned p S ls → (∀ u ∈ S, R u = R' u) → ∀ v ∈ S ++ ls.flatten, R v = R' v := by
    intro ls
    induction ls with
    | nil => intro S _ hS v hv; exact hS v (by simpa using hv)
    | cons lv rest ih =>
      intro S hp hS v hv
      obtain ⟨h1, h2, h3⟩ := hp
      apply ih (S ++ lv) h3 _ v (by simpa [List.append_assoc] using hv)
      intro u hu
      rcases List.mem_append.mp hu with hu | hu
      · exact hS u hu
      · rw [h u (h1 u hu).1, h' u (h1 u hu).1]
        have : refInputs p R u = refInputs p R' u := by
          apply refInputs_congr
          intro w hw
          obtain ⟨hwn, hwe⟩ := (mem_parentsOf p w u).mp hw
          exact hS w ((h1 u hu).2.2 w hwn hwe)
        rw [this]
  intro v hv
  exact gen levels [] hplanned (fun u hu => by cases hu) v (by simpa using hcover v hv)

/-! ### rejected rather than partially evaluated -/

/-- a graph whose edge slices are malformed is rejected whatever the programs are: the result does
not depend on the environment, the programs or the cache, so nothing was evaluated -/
theorem malformed_rejected_unevaluated (ce ce' : CheckEnv) (sols sols' : List Solution) (i i' : Nat) (p : Predicate) (ca ca' : Bool)
    (mode mode' : RunMode) (c c' : Cache) (n : Nat) (h : firstBadNode p = some n) :
    checkPredicateInner ce sols i p ca mode c = .err (.invalidNodeEdges n) ∧
    checkPredicateInner ce' sols' i' p ca' mode' c' = .err (.invalidNodeEdges n) := by
  unfold checkPredicateInner; rw [h]; exact ⟨rfl, rfl⟩

/-- a cyclic graph is rejected the same way -/
theorem cyclic_rejected_unevaluated (ce : CheckEnv) (sols : List Solution) (i : Nat) (p : Predicate) (ca : Bool)
    (mode : RunMode) (c : Cache) (hb : firstBadNode p = none) (e : PredError) (h : topoSort p = .error e) :
    checkPredicateInner ce sols i p ca mode c = .err e := by
  unfold checkPredicateInner; rw [hb, h]

/-- the leaf interpretation: `[2]` reports the memory, `[1]` is satisfied, anything else is not -/
theorem leaf_interpretation (stack : Stack) (mem : Memory) :
    (if stack = [2] then NodeOut.data mem else if stack = [1] then NodeOut.satisfied true else NodeOut.satisfied false) =
      (if stack = [2] then NodeOut.data mem else NodeOut.satisfied (decide (stack = [1]))) := by
  by_cases h2 : stack = [2]
  · simp [h2]
  · by_cases h1 : stack = [1] <;> simp [h1, h2]

/-- The check gives no program a gas budget of its own: `run_program` charges one unit per operation and runs every program with
`GasLimit::UNLIMITED` (`total = u64::MAX`), so "no program fails" in C01 is about what the programs do, not about how long they
take. Both constants are regenerated from `run_program` and `GasLimit::UNLIMITED` on every run (gen/consts_from_rust.py); the
correspondence driver instantiates `CheckEnv.baseEnv` with them. -/
theorem check_gas_unlimited : Consts.checkGasCost = 1 ∧ Consts.checkGasLimit = u64Max := by decide

end Essential.C01
