/-
C01 — Solution-set verdict equals the predicate-graph reference semantics.
-/
import Essential.Model.Check
import Essential.Props.C06
import Essential.Props.C03

namespace Essential.C01
open Essential

end Essential.C01
