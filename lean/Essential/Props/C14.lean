/-
C14 — Mapped bytecode is equivalent to the parsed operation list.
(The execution-equivalence part, `exec_access_congr`, lives with the VM model.)
-/
import Essential.Lemmas.Asm
import Essential.Lemmas.Codec
import Essential.Model.Vm

namespace Essential.C14
open Essential Spec

/-- byte offsets of the ops of a program laid out from offset `off` -/
def offsets : Nat → List Op → List Nat
  | _, [] => []
  | off, op :: ops => off :: offsets (off + (encodeOp op).length) ops

theorem offsets_length (off : Nat) (ops : List Op) : (offsets off ops).length = ops.length := by
  induction ops generalizing off with
  | nil => rfl
  | cons op ops ih => simp [offsets, ih]

theorem mapIndices_nil (off : Nat) : mapIndices off [] = .ok [] := by rw [mapIndices]

theorem mapIndices_encodeOp (off : Nat) (op : Op) (tail : List Nat) :
    mapIndices off (encodeOp op ++ tail) =
      (mapIndices (off + (encodeOp op).length) tail).map (off :: ·) := by
  unfold encodeOp
  cases himm : op.imm with
  | none =>
    simp only [List.cons_append, List.nil_append]
    rw [mapIndices]
    simp [immBytes_opcode, himm]
  | some w =>
    have hl := bytesOfWord_length w
    simp only [List.cons_append]
    rw [mapIndices]
    simp only [immBytes_opcode, himm, List.length_append, hl, List.drop_left' hl, List.length_cons]
    have : ¬ (8 + tail.length < 8) := by omega
    simp only [this, if_false]

theorem mapIndices_encode (off : Nat) (ops : List Op) (tail : List Nat) :
    mapIndices off (encode ops ++ tail) =
      (mapIndices (off + (encode ops).length) tail).map (offsets off ops ++ ·) := by
  induction ops generalizing off with
  | nil => simp [encode, offsets]; cases mapIndices off tail <;> rfl
  | cons op ops ih =>
    simp only [encode, List.flatMap_cons, List.append_assoc, offsets, List.length_append] at ih ⊢
    rw [mapIndices_encodeOp, ih]
    rw [Nat.add_assoc]
    cases mapIndices _ tail <;> simp [Except.map]

/-- **mapping succeeds exactly when parsing succeeds, and fails with the same error** -/
theorem mapped_ok_iff_parse_ok (bs : List Nat) :
    (Mapped.tryFromBytes bs).map (fun _ => ()) = (decode bs).map (fun _ => ()) := by
  unfold Mapped.tryFromBytes decode
  suffices h : ∀ off, (mapIndices off bs).map (fun _ => ()) = (collect (decodeStream bs)).map (fun _ => ()) by
    rw [← h 0]
    cases mapIndices 0 bs <;> rfl
  induction bs using decodeStream.induct with
  | case1 => intro off; rw [mapIndices_nil, decodeStream_nil]; rfl
  | case2 b rest ih =>
    intro off
    rw [decodeStream_cons, mapIndices]
    unfold tryFromBytes at ih ⊢
    cases hk : immBytes b with
    | none => simp [collect, Except.map]
    | some k =>
      simp only [hk] at ih ⊢
      by_cases hlen : rest.length < k
      · simp [hlen, collect, Except.map]
      · simp only [hlen, if_false] at ih ⊢
        have hsome := ofOpcode_isSome_of_immBytes b k (wordOfBytes (List.take k rest)) hk
        cases hop : ofOpcode b (wordOfBytes (List.take k rest)) with
        | none => simp [hop] at hsome
        | some op =>
          simp only [hop] at ih ⊢
          have := ih (off + 1 + k)
          simp only [collect]
          cases hm : mapIndices (off + 1 + k) (List.drop k rest) <;>
            cases hc : collect (decodeStream (List.drop k rest)) <;> simp_all [Except.map]

theorem expectOpAt_at (pre : List Nat) (op : Op) (hwf : op.WF) (tail : List Nat) :
    expectOpAt (pre ++ (encodeOp op ++ tail)) pre.length = .ok op := by
  unfold expectOpAt
  have : ¬ pre.length > (pre ++ (encodeOp op ++ tail)).length := by simp
  simp only [this, if_false, List.drop_left]
  obtain ⟨imm, h1, h2⟩ := tryFromBytes_encodeOp op hwf tail
  rw [h1]; simp only [h2]

theorem expectOpAt_offsets (pre : List Nat) (ops : List Op) (h : ∀ op ∈ ops, op.WF) :
    (offsets pre.length ops).map (expectOpAt (pre ++ encode ops)) = ops.map .ok := by
  induction ops generalizing pre with
  | nil => rfl
  | cons op ops ih =>
    have hwf := h op (by simp)
    simp only [offsets, List.map_cons, encode, List.flatMap_cons] at ih ⊢
    rw [expectOpAt_at pre op hwf]
    congr 1
    have := ih (pre ++ encodeOp op) (fun o ho => h o (by simp [ho]))
    simp only [List.length_append, List.append_assoc] at this
    exact this

theorem allOk_map_ok (ops : List Op) : allOk (ops.map .ok) = .ok ops := by
  induction ops with
  | nil => rfl
  | cons op ops ih => simp [allOk, ih, Res.bind]

/-- whenever a byte string parses to `ops`, the mapping is the list of byte offsets of `ops` -/
theorem mapped_of_decode (bs : List Nat) (hb : AllBytes bs) (ops : List Op) (h : decode bs = .ok ops) :
    Mapped.tryFromBytes bs = .ok { bytecode := bs, opIndices := offsets 0 ops } ∧ ∀ op ∈ ops, op.WF := by
  obtain ⟨henc, hwf⟩ := Essential.Codec.encode_decode bs hb ops h
  refine ⟨?_, hwf⟩
  unfold Mapped.tryFromBytes
  have := mapIndices_encode 0 ops []
  simp only [List.append_nil, mapIndices_nil, Except.map] at this
  rw [← henc, this]; rfl

/-- **the mapped form yields the same operations in the same order** -/
theorem mapped_ops_eq (bs : List Nat) (hb : AllBytes bs) (ops : List Op) (h : decode bs = .ok ops)
    (m : Mapped) (hm : Mapped.tryFromBytes bs = .ok m) : m.ops = .ok ops := by
  obtain ⟨h1, hwf⟩ := mapped_of_decode bs hb ops h
  rw [h1] at hm; cases hm
  obtain ⟨henc, _⟩ := Essential.Codec.encode_decode bs hb ops h
  unfold Mapped.ops
  simp only
  have := expectOpAt_offsets [] ops hwf
  simp only [List.length_nil, List.nil_append] at this
  rw [← henc, this, allOk_map_ok]

/-- **random access by index agrees with the list**, for every index (also past the end) -/
theorem mapped_op_eq_get (bs : List Nat) (hb : AllBytes bs) (ops : List Op) (h : decode bs = .ok ops)
    (m : Mapped) (hm : Mapped.tryFromBytes bs = .ok m) (i : Nat) : m.op i = .ok ops[i]? := by
  obtain ⟨h1, hwf⟩ := mapped_of_decode bs hb ops h
  rw [h1] at hm; cases hm
  obtain ⟨henc, _⟩ := Essential.Codec.encode_decode bs hb ops h
  have hmap := expectOpAt_offsets [] ops hwf
  simp only [List.length_nil, List.nil_append] at hmap
  unfold Mapped.op
  simp only
  by_cases hi : i < ops.length
  · have hi' : i < (offsets 0 ops).length := by rw [offsets_length]; exact hi
    rw [List.getElem?_eq_getElem hi', List.getElem?_eq_getElem hi]
    simp only
    have := congrArg (fun l => l[i]?) hmap
    simp only [List.getElem?_map, List.getElem?_eq_getElem hi', List.getElem?_eq_getElem hi, Option.map_some,
      Option.some.injEq] at this
    rw [← henc, this]; rfl
  · have hi' : ¬ i < (offsets 0 ops).length := by rw [offsets_length]; exact hi
    rw [List.getElem?_eq_none (by omega), List.getElem?_eq_none (by omega)]

theorem fromOps_fold (ops : List Op) (m : Mapped) :
    (ops.foldl (fun (m : Mapped) op => (⟨m.bytecode ++ encodeOp op, m.opIndices ++ [m.bytecode.length]⟩ : Mapped)) m) =
      { bytecode := m.bytecode ++ encode ops, opIndices := m.opIndices ++ offsets m.bytecode.length ops } := by
  induction ops generalizing m with
  | nil => simp [encode, offsets]
  | cons op ops ih =>
    simp only [List.foldl_cons, ih, encode, List.flatMap_cons, offsets, List.length_append, List.append_assoc,
      List.cons_append, List.nil_append]

/-- **building the mapped form from operations reproduces the serialised bytes** (and the
same mapping that `try_from_bytes` computes for those bytes) -/
theorem from_ops_spec (ops : List Op) :
    (Mapped.fromOps ops).bytecode = encode ops ∧
    Mapped.tryFromBytes (encode ops) = .ok (Mapped.fromOps ops) := by
  have hf := fromOps_fold ops { bytecode := [], opIndices := [] }
  simp only [List.nil_append, List.length_nil] at hf
  unfold Mapped.fromOps
  rw [hf]
  refine ⟨rfl, ?_⟩
  unfold Mapped.tryFromBytes
  have := mapIndices_encode 0 ops []
  simp only [List.append_nil, mapIndices_nil, Except.map] at this
  rw [this]; rfl

/-! ### execution through the mapped form -/

/-- `OpAccess for &BytecodeMapped`: `op_access(i) = self.op(i).map(Ok)` -/
def mappedAccess (m : Mapped) : Nat → Option Op := fun i =>
  match m.op i with
  | .ok o => o
  | _ => none

theorem mapped_access_eq (bs : List Nat) (hb : AllBytes bs) (ops : List Op) (h : decode bs = .ok ops)
    (m : Mapped) (hm : Mapped.tryFromBytes bs = .ok m) : mappedAccess m = fun i => ops[i]? := by
  funext i
  simp [mappedAccess, mapped_op_eq_get bs hb ops h m hm i]

/-- **executing the mapped form and executing the operation list from the same machine state
give identical final machine states, gas and errors** (jumps, repeats and compute children
included: every access goes through the same function of the index) -/
theorem exec_bytecode_eq_exec_ops (bs : List Nat) (hb : AllBytes bs) (ops : List Op) (h : decode bs = .ok ops)
    (m : Mapped) (hm : Mapped.tryFromBytes bs = .ok m) (fuel : Nat) (env : Env) (vm : Vm) :
    exec fuel { env with ops := mappedAccess m } vm = exec fuel { env with ops := fun i => ops[i]? } vm ∧
    eval fuel { env with ops := mappedAccess m } vm = eval fuel { env with ops := fun i => ops[i]? } vm := by
  rw [mapped_access_eq bs hb ops h m hm]
  exact ⟨rfl, rfl⟩

/-- more generally: exec only depends on the program through the access function -/
theorem exec_access_congr (env₁ env₂ : Env) (h : env₁.ops = env₂.ops)
    (hrest : { env₁ with ops := env₂.ops } = env₂) (fuel : Nat) (vm : Vm) :
    exec fuel env₁ vm = exec fuel env₂ vm := by
  have : env₁ = env₂ := by rw [← hrest]; cases env₁; simp at h ⊢; exact h
  rw [this]

/-! non-vacuity -/
example : decode [1,0,0,0,0,0,0,0,42,2,3] = .ok [.stackPush 42, .stackPop, .stackDup] := by
  have : [1,0,0,0,0,0,0,0,42,2,3] = encode [.stackPush 42, .stackPop, .stackDup] := by decide
  rw [this]; exact Essential.Codec.decode_encode _ (by decide)

end Essential.C14
