/-
C10 — Compute forks and joins child programs like a sequential loop over indices.
-/
import Essential.Lemmas.VmExec

set_option linter.unusedSimpArgs false
namespace Essential.C10
open Essential Spec

/-- what the join computes from the child results, sequentially in index order -/
def joinMem (rs : List (Nat × Vm)) : List Int := rs.flatMap fun r => r.2.memory
def joinPc (pc : Nat) (rs : List (Nat × Vm)) : Nat := rs.foldl (fun p r => max p r.2.pc) pc
def joinHalt (h : Bool) (rs : List (Nat × Vm)) : Bool := rs.foldl (fun b r => b || r.2.halt) h

theorem joinMem_length (rs : List (Nat × Vm)) :
    (joinMem rs).length = (rs.map fun r => r.2.memory.length).sum := by
  induction rs with
  | nil => rfl
  | cons r rs ih => simp [joinMem, List.flatMap_cons] at ih ⊢

/-- **the single `alloc` followed by one `store_range` per child is list append**: the
`expect("for now")` in `compute_effects` cannot fire -/
theorem store_children_is_append (rs : List (Nat × Vm)) : ∀ (m0 : List Int) (pc : Nat) (halt : Bool),
    m0.length + (joinMem rs).length ≤ 10240 →
    storeChildren (m0 ++ List.replicate (joinMem rs).length 0) (m0.length : Int) pc halt rs =
      .ok (m0 ++ joinMem rs, joinPc pc rs, joinHalt halt rs) := by
  induction rs with
  | nil => intro m0 pc halt _; simp [storeChildren, joinMem, joinPc, joinHalt]
  | cons r rs ih =>
    intro m0 pc halt hb
    have hj : (joinMem (r :: rs)).length = r.2.memory.length + (joinMem rs).length := by
      simp [joinMem, List.flatMap_cons]
    rw [hj] at hb ⊢
    unfold storeChildren
    have hrep : List.replicate (r.2.memory.length + (joinMem rs).length) (0 : Int) =
        List.replicate r.2.memory.length 0 ++ List.replicate (joinMem rs).length 0 := by
      rw [List.replicate_append_replicate]
    have hst : Memory.storeRange (m0 ++ List.replicate (r.2.memory.length + (joinMem rs).length) 0)
        (m0.length : Int) r.2.memory = .ok ((m0 ++ r.2.memory) ++ List.replicate (joinMem rs).length 0) := by
      unfold Memory.storeRange Memory.copyFromSlice
      have h1 : ¬ ((m0.length : Int) < 0) := by omega
      have h2 : ¬ (m0.length + r.2.memory.length > usizeMax) := by unfold usizeMax; omega
      have h3 : ¬ (m0.length + r.2.memory.length > (m0 ++ List.replicate (r.2.memory.length + (joinMem rs).length) 0).length) := by
        simp
      have h4 : m0.length + r.2.memory.length ≤ (m0 ++ List.replicate (r.2.memory.length + (joinMem rs).length) 0).length := by
        simp
      simp only [h1, if_false, Int.toNat_natCast, h2, h3, if_pos h4, Res.ok.injEq]
      rw [hrep]
      simp [List.take_append, List.drop_append]
    rw [hst]
    simp only []
    have hin : InI64 ((m0.length : Int) + (r.2.memory.length : Int)) := by unfold InI64; omega
    simp only [hin, not_true_eq_false, if_false]
    have := ih (m0 ++ r.2.memory) (max pc r.2.pc) (halt || r.2.halt) (by simp; omega)
    simp only [List.length_append, Int.natCast_add] at this
    rw [this]
    simp [joinMem, joinPc, joinHalt, List.flatMap_cons]

/-- **`compute_effects` = append child memories in index order, furthest pc, or-ed halt**, and
fails with `Memory.Overflow` exactly when the combined memory would exceed the limit -/
theorem compute_effects_spec (mem : Memory) (pc : Nat) (halt : Bool) (rs : List (Nat × Vm))
    (hm : mem.length ≤ 10240) :
    computeEffects mem pc halt rs =
      if mem.length + (joinMem rs).length ≤ 10240 then .ok (mem ++ joinMem rs, joinPc pc rs, joinHalt halt rs)
      else if ((joinMem rs).length : Int) > i64Max then .panic "attempt to add with overflow"
      else .err .memoryOverflow := by
  unfold computeEffects
  rw [← joinMem_length]
  by_cases hfit : mem.length + (joinMem rs).length ≤ 10240
  · have h1 : ¬ (((joinMem rs).length : Int) > i64Max) := by unfold i64Max; omega
    have h2 : ¬ ((mem.length : Int) > i64Max) := by unfold i64Max; omega
    have hal : Memory.alloc mem ((joinMem rs).length : Int) = .ok (mem ++ List.replicate (joinMem rs).length 0) := by
      unfold Memory.alloc
      have : ¬ (mem.length + (joinMem rs).length > usizeMax) := by unfold usizeMax; omega
      have h3 : ¬ (mem.length + (joinMem rs).length > Memory.sizeLimit) := by have := memLimit_eq; omega
      simp [this, h3]
    simp only [h1, h2, if_false, hfit, if_true, hal, Res.bind]
    exact store_children_is_append rs mem pc halt hfit
  · simp only [hfit, if_false]
    by_cases h1 : ((joinMem rs).length : Int) > i64Max
    · simp [h1]
    · have h2 : ¬ ((mem.length : Int) > i64Max) := by unfold i64Max; omega
      have hal : Memory.alloc mem ((joinMem rs).length : Int) = .err .memoryOverflow := by
        unfold Memory.alloc
        have h3 : mem.length + (joinMem rs).length > Memory.sizeLimit := by have := memLimit_eq; omega
        simp only [show ¬ (((joinMem rs).length : Int) < 0) by omega, if_false, Int.toNat_natCast]
        split
        · rfl
        · simp [h3]
      simp [h1, h2, hal, Res.bind]

/-- the initial state of child `i`: parent's stack (minus the breadth) plus the word `i`, empty
memory, the parent's repeat state, read access to the parent's memory, starting at the next op -/
theorem child_vm_spec (vm : Vm) (stack : Stack) (i : Nat) (hl : stack.length < 4096) (hpc : vm.pc < isizeMax) :
    childVm vm stack i = .ok ⟨vm.pc + 1, stack ++ [(i : Int)], [], vm.parentMemory ++ [vm.memory], false, vm.rep⟩ := by
  have h1 : stack.length < Stack.sizeLimit := by have := sizeLimit_eq; omega
  have h2 : ¬ (vm.pc + 1 > usizeMax) := by unfold usizeMax isizeMax at *; omega
  simp [childVm, push_ok _ h1, h2, Res.bind]

/-- a full parent stack (after popping the breadth, 4096 words) fails every child -/
theorem child_vm_stack_full (vm : Vm) (stack : Stack) (i : Nat) (hl : 4096 ≤ stack.length) :
    childVm vm stack i = .err .stackOverflow := by
  have h1 : Stack.sizeLimit ≤ stack.length := by have := sizeLimit_eq; omega
  simp [childVm, push_err _ h1, Res.bind]

/-- running the children one after another, in index order: all results, or failure -/
def seqChildren (child : ChildExec) (env : Env) (vm : Vm) (stack : Stack) : List Nat → Option (List (Nat × Vm))
  | [] => some []
  | i :: is =>
    match childVm vm stack i with
    | .ok cvm =>
      match child env cvm with
      | .ok r => (seqChildren child env vm stack is).map (r :: ·)
      | _ => none
    | _ => none

theorem runChildren_eq_seq (child : ChildExec) (env : Env) (vm : Vm) (stack : Stack) (is : List Nat)
    (rs : List (Nat × Vm)) (h : seqChildren child env vm stack is = some rs) :
    runChildren child env (childVm vm stack) is = .ok rs := by
  induction is generalizing rs with
  | nil => simp [seqChildren] at h; subst h; rfl
  | cons i is ih =>
    unfold seqChildren at h
    unfold runChildren
    cases hm : childVm vm stack i with
    | ok cvm =>
      simp only [hm] at h ⊢
      cases hc : child env cvm with
      | ok r =>
        simp only [hc] at h ⊢
        cases hs : seqChildren child env vm stack is with
        | none => simp [hs] at h
        | some rs' =>
          simp only [hs, Option.map_some, Option.some.injEq] at h
          subst h
          rw [ih rs' hs]
      | err e => simp [hc] at h
      | panic m => simp [hc] at h
      | abort m => simp [hc] at h
    | err e => simp [hm] at h
    | panic m => simp [hm] at h
    | abort m => simp [hm] at h

/-- **Compute = a sequential loop over the indices `0 .. n-1`** (success case): the parent's
memory becomes its old memory followed by the children's memories in index order, its stack
loses only the breadth word, it resumes at the furthest pc reached by any child, and the gas
added is the sum of the children's gas -/
theorem compute_spec (child : ChildExec) (env : Env) (vm : Vm) (t : List Int) (n : Nat) (rs : List (Nat × Vm))
    (hs : vm.stack = t ++ [(n : Int)]) (hn : 1 ≤ n) (hb : n ≤ env.maxBreadth) (hd : vm.parentMemory = [])
    (hm : vm.memory.length ≤ 10240) (hseq : seqChildren child env vm t (List.range n) = some rs)
    (hfit : vm.memory.length + (joinMem rs).length ≤ 10240) (total : Nat) (hg : sumGas (rs.map (·.1)) = some total) :
    compute child env vm =
      .ok ({ vm with stack := t, memory := vm.memory ++ joinMem rs },
           .computeResult (joinPc vm.pc rs) total (joinHalt vm.halt rs)) := by
  unfold compute
  have h1 : ¬ ((n : Int) < 1) := by omega
  have h2 : ¬ ¬ (vm.parentMemory.length < Consts.maxComputeDepth) := by simp [hd, Consts.maxComputeDepth]
  have h3 : ¬ ((n : Int).toNat > env.maxBreadth) := by simp; omega
  simp only [hs, pop_append_singleton, Res.mapErr, Res.bind_eq_bind, Res.bind, h1, if_false, h3]
  rw [if_neg h2]
  simp only [Int.toNat_natCast, runChildren_eq_seq child env vm t _ rs hseq, hg,
    compute_effects_spec vm.memory vm.pc vm.halt rs hm, hfit, if_true, Res.pure_eq_ok]

/-- the documented failure cases -/
theorem compute_invalid_breadth (child : ChildExec) (env : Env) (vm : Vm) (t : List Int) (b : Int)
    (hs : vm.stack = t ++ [b]) (hb : b < 1) : compute child env vm = .err .computeInvalidBreadth := by
  simp [compute, hs, Res.mapErr, hb, Res.bind]

theorem compute_nested (child : ChildExec) (env : Env) (vm : Vm) (t : List Int) (b : Int)
    (hs : vm.stack = t ++ [b]) (hb : 1 ≤ b) (hd : vm.parentMemory.length ≥ 1) :
    compute child env vm = .err .computeDepthReached := by
  have h1 : ¬ (b < 1) := by omega
  have h2 : ¬ (vm.parentMemory.length < Consts.maxComputeDepth) := by
    have : Consts.maxComputeDepth = 1 := rfl
    omega
  simp [compute, hs, Res.mapErr, h1, h2, Res.bind]

theorem compute_empty_stack (child : ChildExec) (env : Env) (vm : Vm) (hs : vm.stack = []) :
    compute child env vm = .err .computeStackEmpty := by
  simp [compute, hs, Res.mapErr, Res.bind]

/-- any failing child fails the parent -/
theorem compute_child_error (child : ChildExec) (env : Env) (mk : Nat → Res Err Vm) (is : List Nat) (i : Nat) (cvm : Vm)
    (e : Nat × Err) (hi : i ∈ is) (hmk : ∀ j ∈ is, ∃ v, mk j = .ok v) (hm : mk i = .ok cvm) (hc : child env cvm = .err e)
    (hnp : ∀ j ∈ is, ∀ v, mk j = .ok v → (∃ r, child env v = .ok r) ∨ (∃ e', child env v = .err e')) :
    runChildren child env mk is = .err .computeExec := by
  induction is with
  | nil => cases hi
  | cons j js ih =>
    unfold runChildren
    obtain ⟨v, hv⟩ := hmk j (by simp)
    simp only [hv]
    rcases hnp j (by simp) v hv with ⟨r, hr⟩ | ⟨e', he'⟩
    · simp only [hr]
      have hij : i ∈ js := by
        simp only [List.mem_cons] at hi
        rcases hi with rfl | hi
        · rw [hm] at hv; cases hv; rw [hc] at hr; cases hr
        · exact hi
      rw [ih hij (fun k hk => hmk k (by simp [hk])) (fun k hk => hnp k (by simp [hk]))]
    · simp only [he']

/-- a child ends *after* a `ComputeEnd`, *at* a `Halt`, or where the program ends -/
theorem child_stops_at (child : ChildExec) (env : Env) (gas : Nat) (vm : Vm)
    (hfit : ∀ op, env.ops vm.pc = some op → ¬ (gas + env.cost op > u64Max ∨ gas + env.cost op > env.limit)) :
    (env.ops vm.pc = some .computeComputeEnd →
      execStep child env gas vm = .ok (.done (gas + env.cost .computeComputeEnd) { vm with pc := vm.pc + 1 })) ∧
    (env.ops vm.pc = some .totalControlFlowHalt →
      execStep child env gas vm = .ok (.done (gas + env.cost .totalControlFlowHalt) vm)) ∧
    (env.ops vm.pc = none → execStep child env gas vm = .ok (.done gas vm)) := by
  refine ⟨?_, ?_, ?_⟩
  · intro h; have := hfit _ h; unfold execStep; simp only [h, this, if_false, stepOp]
  · intro h; have := hfit _ h; unfold execStep; simp only [h, this, if_false, stepOp]
  · intro h; unfold execStep; simp [h]

end Essential.C10
