/-
C04 — A solution set is a set: results do not depend on solution order.
-/
import Essential.Model.Check
import Essential.Props.C16
import Essential.Props.C17
import Essential.Props.C03

set_option linter.unusedSimpArgs false
set_option linter.unusedVariables false
namespace Essential.C04
open Essential

/-! ### the VM sees the solution set only through "this solution" and "does a predicate exist" -/

/-- the same environment with the solutions reordered (and this solution's index moved along) -/
def reorder (E : Env) (sols' : List Solution) (i' : Nat) : Env := { E with solutions := sols', index := i' }

/-- the reordered set shows the VM the same things -/
structure SameView (E : Env) (sols' : List Solution) (i' : Nat) : Prop where
  this : sols'[i']? = E.solutions[E.index]?
  perm : sols'.Perm E.solutions

theorem thisSolution_reorder (E : Env) (sols' : List Solution) (i' : Nat) (h : SameView E sols' i') :
    thisSolution (reorder E sols' i') = thisSolution E := by
  unfold thisSolution reorder
  simp only [h.this]

theorem predicateExists_reorder (E : Env) (sols' : List Solution) (i' : Nat) (h : SameView E sols' i') (s : Stack) :
    Access.predicateExists (reorder E sols' i') s = Access.predicateExists E s := by
  unfold Access.predicateExists reorder
  have : ∀ (f : Solution → Bool), sols'.any f = E.solutions.any f := by
    intro f
    rw [Bool.eq_iff_iff, List.any_eq_true, List.any_eq_true]
    constructor
    · rintro ⟨x, hx, hf⟩; exact ⟨x, h.perm.mem_iff.mp hx, hf⟩
    · rintro ⟨x, hx, hf⟩; exact ⟨x, h.perm.mem_iff.mpr hx, hf⟩
  simp only [this]

theorem runChildren_reorder (child : ChildExec) (E : Env) (sols' : List Solution) (i' : Nat)
    (hc : ∀ vm, child (reorder E sols' i') vm = child E vm) (mk : Nat → Res Err Vm) (is : List Nat) :
    runChildren child (reorder E sols' i') mk is = runChildren child E mk is := by
  induction is with
  | nil => rfl
  | cons i is ih => simp only [runChildren, hc, ih]

theorem compute_reorder (child : ChildExec) (E : Env) (sols' : List Solution) (i' : Nat)
    (hc : ∀ vm, child (reorder E sols' i') vm = child E vm) (vm : Vm) :
    compute child (reorder E sols' i') vm = compute child E vm := by
  unfold compute
  simp only [runChildren_reorder child E sols' i' hc]
  rfl

theorem stepOp_reorder (child : ChildExec) (E : Env) (sols' : List Solution) (i' : Nat) (h : SameView E sols' i')
    (hc : ∀ vm, child (reorder E sols' i') vm = child E vm) (vm : Vm) (op : Spec.Op) :
    stepOp child (reorder E sols' i') vm op = stepOp child E vm op := by
  cases op <;> first
    | rfl
    | (simp only [stepOp, thisSolution_reorder E sols' i' h, predicateExists_reorder E sols' i' h,
        compute_reorder child E sols' i' hc]; done)
    | (simp only [stepOp, thisSolution_reorder E sols' i' h, predicateExists_reorder E sols' i' h,
        compute_reorder child E sols' i' hc]; rfl)

theorem execStep_reorder (child : ChildExec) (E : Env) (sols' : List Solution) (i' : Nat) (h : SameView E sols' i')
    (hc : ∀ vm, child (reorder E sols' i') vm = child E vm) (gas : Nat) (vm : Vm) :
    execStep child (reorder E sols' i') gas vm = execStep child E gas vm := by
  unfold execStep
  simp only [stepOp_reorder child E sols' i' h hc]
  rfl

theorem execWith_reorder (child : ChildExec) (E : Env) (sols' : List Solution) (i' : Nat) (h : SameView E sols' i')
    (hc : ∀ vm, child (reorder E sols' i') vm = child E vm) : ∀ (fuel gas : Nat) (vm : Vm),
    execWith child (reorder E sols' i') fuel gas vm = execWith child E fuel gas vm := by
  intro fuel
  induction fuel with
  | zero => intro gas vm; rfl
  | succ f ih =>
    intro gas vm
    simp only [execWith, execStep_reorder child E sols' i' h hc, ih]

/-- **`Vm::exec` does not depend on the order of the solution set**: with the solutions permuted
and this solution's index moved along, every run gives the same result, gas and final state -/
theorem exec_reorder (fuel : Nat) (E : Env) (sols' : List Solution) (i' : Nat) (h : SameView E sols' i') (vm : Vm) :
    exec fuel (reorder E sols' i') vm = exec fuel E vm := by
  unfold exec
  apply execWith_reorder _ E sols' i' h
  intro vm
  unfold execChild
  rw [execWith_reorder noChild E sols' i' h (fun _ => rfl)]

/-! ### one solution's predicate check -/

theorem vmEnv_reorder (ce : CheckEnv) (sols sols' : List Solution) (i i' : Nat) (ops : Nat → Option Spec.Op) :
    ce.vmEnv sols' i' ops = reorder (ce.vmEnv sols i ops) sols' i' := rfl

theorem runProgram_reorder (ce : CheckEnv) (sols sols' : List Solution) (i i' : Nat)
    (hp : sols'.Perm sols) (hi : sols'[i']? = sols[i]?) (bytes : List Nat) (parents : List (Stack × Memory)) (leaf : Bool) :
    runProgram ce sols' i' bytes parents leaf = runProgram ce sols i bytes parents leaf := by
  unfold runProgram
  have : ∀ ops vm, exec ce.fuel (ce.vmEnv sols' i' ops) vm = exec ce.fuel (ce.vmEnv sols i ops) vm := by
    intro ops vm
    rw [vmEnv_reorder ce sols sols' i i' ops]
    exact exec_reorder ce.fuel _ sols' i' ⟨hi, hp⟩ vm
  simp only [this]

/-- **the check of one solution does not depend on where it stands in the set** (nor on the order
of the others): same verdict, failing nodes, gas, data outputs and cache -/
theorem check_predicate_reorder (ce : CheckEnv) (sols sols' : List Solution) (i i' : Nat)
    (hp : sols'.Perm sols) (hi : sols'[i']? = sols[i]?) (p : Predicate) (collectAll : Bool) (mode : RunMode) (cache : Cache) :
    checkPredicateInner ce sols' i' p collectAll mode cache = checkPredicateInner ce sols i p collectAll mode cache := by
  unfold checkPredicateInner
  have : nodeRunner ce sols' i' p = nodeRunner ce sols i p := by
    funext node inputs
    unfold nodeRunner
    simp only [runProgram_reorder ce sols sols' i i' hp hi]
  simp only [this]

/-! ### set validation, content address, post-state -/

theorem setMutations_perm (a b : List Solution) (h : a.Perm b) : (setMutations a).Perm (setMutations b) := by
  unfold setMutations
  exact h.flatMap_right _

/-- **set validation gives the same verdict for every order** -/
theorem check_set_perm (a b : List Solution) (h : a.Perm b) : checkSet a = .ok () ↔ checkSet b = .ok () := by
  have one : ∀ (a b : List Solution), a.Perm b → checkSet a = .ok () → checkSet b = .ok () := by
    intro a b h ha
    obtain ⟨h1, h2, h3, h4, h5, h6⟩ := (C16.check_set_iff a).mp ha
    have hm := setMutations_perm a b h
    refine (C16.check_set_iff b).mpr ⟨by rw [← h.length_eq]; exact h1, by rw [← h.length_eq]; exact h2, ?_, ?_, ?_, ?_⟩
    · intro s hs; exact h3 s (h.mem_iff.mpr hs)
    · rw [← (h.map _).sum_nat]; exact h4
    · intro x hx; exact h5 x (hm.mem_iff.mpr hx)
    · exact ((hm.map _).nodup_iff).mp h6
  exact ⟨one a b h, one b a h.symm⟩

/-- **the content address is the same for every order** -/
theorem content_addr_perm (sha : List Nat → List Nat) (a b : List Solution) (h : a.Perm b) :
    setAddr sha a = setAddr sha b := C17.set_addr_perm sha a b h

/-- **an accepted set proposes at most one value per contract and key** -/
theorem accepted_unique_slots (sols : List Solution) (h : checkSet sols = .ok ()) :
    ((setMutations sols).map fun x => (x.1, x.2.1)).Nodup := ((C16.check_set_iff sols).mp h).2.2.2.2.2

/-- **the post-state of a set with unique slots is well defined**: every order builds a
post-state with the same value for every contract and key -/
theorem post_state_perm (a b : List Solution) (h : a.Perm b)
    (hn : ((setMutations a).map fun x => (x.1, x.2.1)).Nodup) (c : List Nat) (k : List Int) :
    C03.lookup (buildPostState a) c k = C03.lookup (buildPostState b) c k := by
  have hm := setMutations_perm a b h
  have hn' : ((setMutations b).map fun x => (x.1, x.2.1)).Nodup := ((hm.map _).nodup_iff).mp hn
  rw [C03.post_state_spec, C03.post_state_spec]
  apply Option.ext
  intro v
  rw [C03.proposed_unique _ hn, C03.proposed_unique _ hn']
  exact hm.mem_iff

theorem contract_isSome_iff (ps : PostState) (c : List Nat) : (ps.contract c).isSome ↔ ∃ e ∈ ps, e.1 = c := by
  unfold PostState.contract
  by_cases hn : (ps.filter fun e => e.1 == c).map (·.2) = []
  · simp only [hn, if_true, Option.isSome_none, Bool.false_eq_true, false_iff]
    rintro ⟨e, he, hc⟩
    have : e ∈ ps.filter fun e => e.1 == c := List.mem_filter.mpr ⟨he, by simp [hc]⟩
    have h2 := List.map_eq_nil_iff.mp hn
    rw [h2] at this; cases this
  · simp only [hn, if_false, Option.isSome_some, true_iff]
    cases hf : ps.filter fun e => e.1 == c with
    | nil => rw [hf] at hn; exact absurd rfl hn
    | cons e es =>
      have : e ∈ ps.filter fun e => e.1 == c := by rw [hf]; simp
      have := List.mem_filter.mp this
      exact ⟨e, this.1, by simpa using this.2⟩

theorem readLoop_congr (kvs kvs' : List (List Int × List Int)) (pre : StateView) (c : List Nat)
    (h : ∀ k, kvGet kvs k = kvGet kvs' k) : ∀ (n : Nat) (key : List Int), readLoop kvs pre c n key = readLoop kvs' pre c n key := by
  intro n
  induction n with
  | zero => intro key; rfl
  | succ n ih => intro key; simp only [readLoop, h, ih]

/-- two post-states with the same contracts and the same value for every slot are the same view -/
theorem readOrFallback_congr (ps ps' : PostState) (pre : StateView)
    (hc : ∀ c, (ps.contract c).isSome = (ps'.contract c).isSome)
    (hl : ∀ c k, C03.lookup ps c k = C03.lookup ps' c k) : readOrFallback ps pre = readOrFallback ps' pre := by
  funext c key n
  unfold readOrFallback
  have h1 := hc c
  cases e1 : ps.contract c with
  | none =>
    cases e2 : ps'.contract c with
    | none => rfl
    | some k2 => rw [e1, e2] at h1; cases h1
  | some k1 =>
    cases e2 : ps'.contract c with
    | none => rw [e1, e2] at h1; cases h1
    | some k2 =>
      simp only []
      apply readLoop_congr
      intro k
      have := hl c k
      unfold C03.lookup at this
      rw [e1, e2] at this
      exact this

/-- **post-state reads do not depend on the order of an accepted set**: the whole view
(`PostStateArc::key_range`, for every contract, key and count) is the same function -/
theorem post_view_perm (a b : List Solution) (h : a.Perm b) (pre : StateView)
    (hn : ((setMutations a).map fun x => (x.1, x.2.1)).Nodup) :
    readOrFallback (buildPostState a) pre = readOrFallback (buildPostState b) pre := by
  apply readOrFallback_congr
  · intro c
    rw [Bool.eq_iff_iff, contract_isSome_iff, contract_isSome_iff, C03.buildPostState_eq, C03.buildPostState_eq]
    have hm := setMutations_perm a b h
    constructor
    · rintro ⟨e, he, hc⟩; exact ⟨e, List.mem_reverse.mpr (hm.mem_iff.mp (List.mem_reverse.mp he)), hc⟩
    · rintro ⟨e, he, hc⟩; exact ⟨e, List.mem_reverse.mpr (hm.mem_iff.mpr (List.mem_reverse.mp he)), hc⟩
  · exact post_state_perm a b h hn

/-! ### gas -/

theorem satAdd_fold (l : List Nat) : ∀ (g : Nat), g ≤ u64Max → l.foldl satAdd g = min (g + l.sum) u64Max := by
  induction l with
  | nil => intro g hg; simp [Nat.min_eq_left hg]
  | cons x xs ih =>
    intro g hg
    simp only [List.foldl_cons, List.sum_cons]
    have hs : satAdd g x ≤ u64Max := by unfold satAdd; split <;> omega
    rw [ih _ hs]
    unfold satAdd
    split <;> omega

/-- **the total gas is the saturated sum of the per-solution gas, in any order** -/
theorem gas_perm (a b : List Nat) (h : a.Perm b) : a.foldl satAdd 0 = b.foldl satAdd 0 := by
  rw [satAdd_fold a 0 (by unfold u64Max; omega), satAdd_fold b 0 (by unfold u64Max; omega), h.sum_nat]

/-- non-vacuity: a two-solution set accepted by `check_set`, and its reversal -/
example : checkSet [⟨[1], [2], [], [([1], [5])]⟩, ⟨[1], [3], [], [([2], [6])]⟩] = .ok () := by rfl
example : ([⟨[1], [2], [], [([1], [5])]⟩, ⟨[1], [3], [], [([2], [6])]⟩] : List Solution).Perm
    [⟨[1], [3], [], [([2], [6])]⟩, ⟨[1], [2], [], [([1], [5])]⟩] := List.Perm.swap _ _ _

end Essential.C04
