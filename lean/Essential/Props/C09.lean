/-
C09 — Control flow, repeat loops and evaluation results follow the specification.
-/
import Essential.Lemmas.VmExec

set_option linter.unusedSimpArgs false
namespace Essential.C09
open Essential Spec

/-! ### JumpIf / HaltIf / Halt / PanicIf -/

section tcf
variable (child : ChildExec) (env : Env) (vm : Vm)

/-- **JumpIf**: with condition 1 the pc moves forward or backward by the non-zero distance;
condition 0 falls through; any other condition, distance 0, or leaving `0..usize::MAX` is an error -/
theorem jump_if_spec (t : List Int) (d c : Int) (hs : vm.stack = t ++ [d, c]) :
    stepOp child env vm .totalControlFlowJumpIf =
      if c = 0 then .ok ({ vm with stack := t }, .next)
      else if c ≠ 1 then .err .tcfInvalidJumpIfCondition
      else if d = 0 then .err .tcfJumpedToSelf
      else if d < 0 then
        (if vm.pc < d.natAbs then .err .pcOverflow else .ok ({ vm with stack := t }, .pc (vm.pc - d.natAbs)))
      else
        (if vm.pc + d.natAbs > usizeMax then .err .pcOverflow else .ok ({ vm with stack := t }, .pc (vm.pc + d.natAbs))) := by
  simp only [stepOp, hs, Tcf.jumpIf, pop2_append, Res.bind_eq_bind, Res.bind_ok, boolOfWord?]
  by_cases h0 : c = 0
  · subst h0; simp [Res.bind]
  · by_cases h1 : c = 1
    · subst h1
      simp only [h0, if_false, if_true, Int.natAbs_eq_zero, ne_eq, not_true_eq_false]
      by_cases hd : d = 0
      · simp [hd, Res.bind]
      · simp only [hd, if_false]
        by_cases hn : d < 0
        · by_cases hp : vm.pc < d.natAbs <;> simp [hn, hd, hp, Res.bind]
        · by_cases hp : vm.pc + d.natAbs > usizeMax <;> simp [hn, hd, hp, Res.bind]
    · simp [h0, h1, Res.bind]

/-- the jump target of a taken jump is `pc + d` as an integer -/
theorem jump_target (pc : Nat) (d : Int) (hd : d ≠ 0) :
    (d < 0 → ¬ pc < d.natAbs → ((pc - d.natAbs : Nat) : Int) = pc + d) ∧
    (¬ d < 0 → ((pc + d.natAbs : Nat) : Int) = pc + d) := by
  constructor <;> intros <;> omega

theorem jump_if_underflow (hs : vm.stack.length < 2) :
    stepOp child env vm .totalControlFlowJumpIf = .err .stackEmpty := by
  match hst : vm.stack, hs with
  | [], _ => simp [stepOp, hst, Tcf.jumpIf, Stack.pop2, Stack.pop, bind, Res.bind]
  | [x], _ =>
    have : Stack.pop [x] = .ok ([], x) := by simpa using pop_append_singleton [] x
    simp [stepOp, hst, Tcf.jumpIf, Stack.pop2, this, bind, Res.bind]

theorem halt_spec : stepOp child env vm .totalControlFlowHalt = .ok (vm, .halt) := rfl

theorem halt_if_spec (t : List Int) (c : Int) (hs : vm.stack = t ++ [c]) :
    stepOp child env vm .totalControlFlowHaltIf =
      if c = 1 then .ok ({ vm with stack := t }, .halt)
      else if c = 0 then .ok ({ vm with stack := t }, .next)
      else .err .tcfInvalidHaltIfCondition := by
  simp only [stepOp, hs, Tcf.haltIf, pop_append_singleton, Res.bind_eq_bind, Res.bind_ok, boolOfWord?]
  by_cases h0 : c = 0
  · subst h0; simp [Res.bind]
  · by_cases h1 : c = 1
    · subst h1; simp [Res.bind]
    · simp [h0, h1, Res.bind]

theorem panic_if_spec (t : List Int) (c : Int) (hs : vm.stack = t ++ [c]) :
    stepOp child env vm .totalControlFlowPanicIf =
      if c = 1 then .err .tcfPanic
      else if c = 0 then .ok ({ vm with stack := t }, .next)
      else .err .tcfInvalidPanicIfCondition := by
  simp only [stepOp, stk, hs, Tcf.panicIf, pop_append_singleton, Res.bind_eq_bind, Res.bind_ok, boolOfWord?]
  by_cases h0 : c = 0
  · subst h0; simp [Res.bind]
  · by_cases h1 : c = 1
    · subst h1; simp [Res.bind]
    · simp [h0, h1, Res.bind]

end tcf

/-! ### where execution ends -/

/-- **execution ends exactly at `Halt` (pc stays on it), at a `ComputeEnd`, or when the pc
leaves the program**; every other successful step continues -/
theorem exec_ends (child : ChildExec) (env : Env) (gas : Nat) (vm : Vm) (g : Nat) (vm' : Vm)
    (h : execStep child env gas vm = .ok (.done g vm')) :
    env.ops vm.pc = none ∨
    (∃ op v f, env.ops vm.pc = some op ∧ stepOp child env vm op = .ok (v, f) ∧
      (f = .halt ∨ f = .computeEnd ∨ ∃ p gg hh, f = .computeResult p gg hh ∧ (v.halt || hh) = true)) := by
  unfold execStep at h
  cases hop : env.ops vm.pc with
  | none => left; rfl
  | some op =>
    right
    simp only [hop] at h
    split at h
    · cases h
    · cases hs : stepOp child env vm op with
      | err e => simp [hs] at h
      | panic m => simp [hs] at h
      | abort m => simp [hs] at h
      | ok r =>
        obtain ⟨v, f⟩ := r
        refine ⟨op, v, f, rfl, hs, ?_⟩
        rw [hs] at h
        cases f with
        | next => cases h
        | pc n => cases h
        | halt => left; rfl
        | computeEnd => right; left; rfl
        | computeResult p gg hh =>
          right; right
          simp only [] at h
          split at h
          · cases h
          · split at h
            · rename_i hh2; exact ⟨p, gg, hh, rfl, by simpa using hh2⟩
            · cases h

theorem pc_past_end_stops (child : ChildExec) (env : Env) (gas : Nat) (vm : Vm) (h : env.ops vm.pc = none) :
    execStep child env gas vm = .ok (.done gas vm) := by
  unfold execStep; simp [h]

/-! ### Repeat: trip counts and counter values -/

/-- `Repeat` with `(n, 1)` opens a count-up loop at `pc + 1` with counter 0; with `(n, 0)` a
count-down loop with counter `n`; any other direction word is an error -/
theorem repeat_start_spec (pc : Nat) (t : List Int) (n d : Int) (r : List Slot) (hr : r.length < 4096)
    (hpc : pc + 1 ≤ usizeMax) :
    Repeat.start pc (t ++ [n, d]) r =
      if d = 1 then .ok (t, r ++ [{ counter := 0, limit := .up n, repeatIndex := pc + 1 }])
      else if d = 0 then .ok (t, r ++ [{ counter := n, limit := .down, repeatIndex := pc + 1 }])
      else .err .repeatInvalidCountDirection := by
  have hl : ¬ (r.length ≥ Stack.sizeLimit) := by have := sizeLimit_eq; omega
  have hp : ¬ (pc + 1 > usizeMax) := by omega
  simp only [Repeat.start, pop2_append, Res.bind_eq_bind, Res.bind_ok, boolOfWord?]
  by_cases h0 : d = 0
  · subst h0; simp [hp, Repeat.repeatFrom, hl, Res.bind]
  · by_cases h1 : d = 1
    · subst h1; simp [hp, Repeat.repeatTo, hl, Res.bind]
    · simp [h0, h1, Res.bind]

theorem repeat_start_overflow (pc : Nat) (t : List Int) (n d : Int) (r : List Slot) (hr : 4096 ≤ r.length)
    (hd : d = 0 ∨ d = 1) (hpc : pc + 1 ≤ usizeMax) :
    Repeat.start pc (t ++ [n, d]) r = .err .repeatOverflow := by
  have hl : r.length ≥ Stack.sizeLimit := by have := sizeLimit_eq; omega
  have hp : ¬ (pc + 1 > usizeMax) := by omega
  rcases hd with rfl | rfl <;>
    simp [Repeat.start, boolOfWord?, hp, Repeat.repeatFrom, Repeat.repeatTo, hl, Res.bind]

/-- the counter values seen by successive runs of a loop body: start from the slot that
`Repeat` pushed and apply `RepeatEnd` until the slot is popped -/
def counters (slot : Slot) : (fuel : Nat) → List Int
  | 0 => []
  | fuel+1 =>
    match Repeat.stepEnd [slot] with
    | .ok ([s'], some _) => slot.counter :: counters s' fuel
    | _ => [slot.counter]

theorem satSub1_eq (n : Int) (hn : InI64 n) : Repeat.satSub1 n = if n = i64Min then i64Min else n - 1 := by
  unfold Repeat.satSub1 InI64 i64Min at *
  split <;> split <;> omega

/-- **count-up**: the body runs `max n 1` times and sees the counters `c, c+1, …, max n 1 - 1` -/
theorem counters_up (n : Int) (hn : InI64 n) (idx : Nat) (k : Nat) :
    ∀ (c : Int), 0 ≤ c → (c : Int) + k + 1 = max n 1 → ∀ fuel, k < fuel →
    counters { counter := c, limit := .up n, repeatIndex := idx } fuel
      = (List.range (k + 1)).map (fun (i : Nat) => c + (i : Int)) := by
  induction k with
  | zero =>
    intro c hc he fuel hf
    obtain ⟨fuel, rfl⟩ : ∃ f, fuel = f + 1 := ⟨fuel - 1, by omega⟩
    have : c ≥ Repeat.satSub1 n := by rw [satSub1_eq n hn]; unfold i64Min InI64 at *; split <;> omega
    simp [counters, Repeat.stepEnd, this]
  | succ k ih =>
    intro c hc he fuel hf
    obtain ⟨fuel, rfl⟩ : ∃ f, fuel = f + 1 := ⟨fuel - 1, by omega⟩
    have h1 : ¬ (c ≥ Repeat.satSub1 n) := by rw [satSub1_eq n hn]; unfold i64Min InI64 at *; split <;> omega
    have h2 : InI64 (c + 1) := by unfold InI64 at *; omega
    have := ih (c + 1) (by omega) (by omega) fuel (by omega)
    have e : (List.range (k + 1 + 1)).map (fun (i : Nat) => c + (i : Int)) =
        c :: (List.range (k + 1)).map (fun (i : Nat) => c + 1 + (i : Int)) := by
      rw [List.range_succ_eq_map]
      simp only [List.map_cons, List.map_map, Int.natCast_zero, Int.add_zero, List.cons.injEq, true_and]
      apply List.map_congr_left
      intro i _
      simp only [Function.comp_apply, Nat.succ_eq_add_one, Int.natCast_add, Int.natCast_one]
      omega
    rw [e]
    simp [counters, Repeat.stepEnd, h1, h2, this]

/-- count-up from 0: counters `0 .. max n 1 - 1` — `max n 1` runs -/
theorem repeat_up_counters (n : Int) (hn : InI64 n) (idx : Nat) (fuel : Nat) (hf : (max n 1).toNat ≤ fuel) :
    counters { counter := 0, limit := .up n, repeatIndex := idx } fuel
      = (List.range (max n 1).toNat).map (fun (i : Nat) => (i : Int)) := by
  have hk : ((max n 1).toNat - 1) + 1 = (max n 1).toNat := by omega
  have := counters_up n hn idx ((max n 1).toNat - 1) 0 (by omega) (by omega) fuel (by omega)
  rw [this, hk]; simp

/-- **count-down**: for `n ≥ 1` the body sees `n, n-1, …, 1`; for `n ≤ 0` it runs once and sees `n` -/
theorem counters_down (idx : Nat) (k : Nat) :
    ∀ (c : Int), InI64 c → c = (k : Int) + 1 → ∀ fuel, k < fuel →
    counters { counter := c, limit := .down, repeatIndex := idx } fuel
      = (List.range (k + 1)).map (fun (i : Nat) => c - (i : Int)) := by
  induction k with
  | zero =>
    intro c hc he fuel hf
    obtain ⟨fuel, rfl⟩ : ∃ f, fuel = f + 1 := ⟨fuel - 1, by omega⟩
    have : c ≤ 1 := by omega
    simp [counters, Repeat.stepEnd, this]
  | succ k ih =>
    intro c hc he fuel hf
    obtain ⟨fuel, rfl⟩ : ∃ f, fuel = f + 1 := ⟨fuel - 1, by omega⟩
    have h1 : ¬ (c ≤ 1) := by omega
    have h2 : InI64 (c - 1) := by unfold InI64 at *; omega
    have := ih (c - 1) h2 (by omega) fuel (by omega)
    have e : (List.range (k + 1 + 1)).map (fun (i : Nat) => c - (i : Int)) =
        c :: (List.range (k + 1)).map (fun (i : Nat) => c - 1 - (i : Int)) := by
      rw [List.range_succ_eq_map]
      simp only [List.map_cons, List.map_map, Int.natCast_zero, Int.sub_zero, List.cons.injEq, true_and]
      apply List.map_congr_left
      intro i _
      simp only [Function.comp_apply, Nat.succ_eq_add_one, Int.natCast_add, Int.natCast_one]
      omega
    rw [e]
    simp [counters, Repeat.stepEnd, h1, h2, this]

theorem repeat_down_single (n : Int) (hn : n ≤ 0) (idx : Nat) (fuel : Nat) :
    counters { counter := n, limit := .down, repeatIndex := idx } (fuel + 1) = [n] := by
  have : n ≤ 1 := by omega
  simp [counters, Repeat.stepEnd, this]

/-- `RepeatEnd` resumes at the op after the matching `Repeat`, and only touches the innermost loop:
the enclosing loops' slots `r` are untouched (nested loops resume at the right place) -/
theorem repeat_end_inner_only (r : List Slot) (s : Slot) (r' : List Slot) (j : Option Nat)
    (h : Repeat.stepEnd (r ++ [s]) = .ok (r', j)) :
    (j = none ∧ r' = r) ∨ (j = some s.repeatIndex ∧ ∃ s', r' = r ++ [s'] ∧ s'.limit = s.limit ∧ s'.repeatIndex = s.repeatIndex) := by
  unfold Repeat.stepEnd at h
  simp only [List.getLast?_append, List.getLast?_singleton, Option.some_or, List.dropLast_concat] at h
  split at h
  · split at h
    · cases h; left; exact ⟨rfl, rfl⟩
    · split at h
      · cases h
      · cases h; right; exact ⟨rfl, _, rfl, rfl, rfl⟩
  · split at h
    · cases h; left; exact ⟨rfl, rfl⟩
    · split at h
      · cases h
      · cases h; right; exact ⟨rfl, _, rfl, rfl, rfl⟩

theorem repeat_end_without_loop : Repeat.stepEnd [] = .err .repeatEmpty := rfl
theorem repeat_counter_without_loop : Repeat.counter [] = .err .repeatNoCounter := rfl
theorem repeat_counter_is_innermost (r : List Slot) (s : Slot) : Repeat.counter (r ++ [s]) = .ok s.counter := by
  simp [Repeat.counter]

/-! ### evaluation -/

/-- **`eval`**: true/false exactly when the top of the final stack is 1/0, invalid otherwise
(including the empty stack) -/
theorem eval_spec (fuel : Nat) (env : Env) (vm : Vm) (g : Nat) (vm' : Vm)
    (h : exec fuel env vm = .ok (some (g, vm'))) :
    eval fuel env vm = .ok (some (
      match vm'.stack.getLast? with
      | some 1 => .bool true
      | some 0 => .bool false
      | _ => .invalid)) := by
  unfold eval; rw [h]
  simp only [Res.ok.injEq, Option.some.injEq]
  cases hl : vm'.stack.getLast? with
  | none => rfl
  | some w =>
    simp only [boolOfWord?]
    by_cases h0 : w = 0
    · subst h0; rfl
    · by_cases h1 : w = 1
      · subst h1; rfl
      · simp only [h0, h1, if_false]
        split <;> simp_all

theorem eval_error_passthrough (fuel : Nat) (env : Env) (vm : Vm) (e : Nat × Err)
    (h : exec fuel env vm = .err e) : eval fuel env vm = .err e := by
  unfold eval; rw [h]

end Essential.C09
