/-
C09 (continued) — a total-correctness rule for `Repeat … RepeatEnd` loops at the level of `Vm::exec`:
the body is executed once per counter value, in order, and execution continues after the `RepeatEnd`.
-/
import Essential.Props.C09

set_option linter.unusedSimpArgs false
namespace Essential.C09
open Essential Spec

/-! ### runs of continuing steps -/

/-- `k` iterations of the exec loop, none of which ends execution -/
def runK (child : ChildExec) (env : Env) : Nat → Nat → Vm → Option (Nat × Vm)
  | 0, g, vm => some (g, vm)
  | k+1, g, vm =>
    match execStep child env g vm with
    | .ok (.cont g' vm') => runK child env k g' vm'
    | _ => none

theorem runK_succ (child : ChildExec) (env : Env) (k g : Nat) (vm : Vm) :
    runK child env (k + 1) g vm = match execStep child env g vm with
      | .ok (.cont g' vm') => runK child env k g' vm'
      | _ => none := rfl

theorem execWith_succ (child : ChildExec) (env : Env) (fuel g : Nat) (vm : Vm) :
    execWith child env (fuel + 1) g vm = match execStep child env g vm with
      | .err e => .err e
      | .panic m => .panic m
      | .abort m => .abort m
      | .ok (.done g vm') => .ok (some (g, vm'))
      | .ok (.cont g vm') => execWith child env fuel g vm' := rfl

/-- a run of continuing steps is a prefix of `exec`: whatever `exec` does afterwards it does from the reached state -/
theorem execWith_runK (child : ChildExec) (env : Env) : ∀ (k : Nat) (g : Nat) (vm : Vm) (g' : Nat) (vm' : Vm),
    runK child env k g vm = some (g', vm') → ∀ fuel, execWith child env (k + fuel) g vm = execWith child env fuel g' vm'
  | 0, g, vm, g', vm', h, fuel => by
    simp only [runK, Option.some.injEq, Prod.mk.injEq] at h
    obtain ⟨rfl, rfl⟩ := h
    simp
  | k+1, g, vm, g', vm', h, fuel => by
    have e : k + 1 + fuel = (k + fuel) + 1 := by omega
    rw [e, execWith_succ]
    rw [runK_succ] at h
    cases hs : execStep child env g vm with
    | err x => rw [hs] at h; cases h
    | panic x => rw [hs] at h; cases h
    | abort x => rw [hs] at h; cases h
    | ok o =>
      cases o with
      | done a b => rw [hs] at h; cases h
      | cont a b =>
        rw [hs] at h
        exact execWith_runK child env k a b g' vm' h fuel

theorem runK_add (child : ChildExec) (env : Env) : ∀ (a b : Nat) (g : Nat) (vm : Vm) (g1 : Nat) (vm1 : Vm),
    runK child env a g vm = some (g1, vm1) → runK child env (a + b) g vm = runK child env b g1 vm1
  | 0, b, g, vm, g1, vm1, h => by
    simp only [runK, Option.some.injEq, Prod.mk.injEq] at h
    obtain ⟨rfl, rfl⟩ := h
    simp
  | a+1, b, g, vm, g1, vm1, h => by
    have e : a + 1 + b = (a + b) + 1 := by omega
    rw [e, runK_succ]
    rw [runK_succ] at h
    cases hs : execStep child env g vm with
    | err x => rw [hs] at h; cases h
    | panic x => rw [hs] at h; cases h
    | abort x => rw [hs] at h; cases h
    | ok o =>
      cases o with
      | done a' b' => rw [hs] at h; cases h
      | cont a' b' =>
        rw [hs] at h
        exact runK_add child env a b a' b' g1 vm1 h

/-- gas is available for an op costing `c` after `g` has been spent -/
def GasOk (env : Env) (g c : Nat) : Prop := g + c ≤ u64Max ∧ g + c ≤ env.limit

/-! ### the two loop ops as exec steps -/

theorem step_repeat (child : ChildExec) (env : Env) (g : Nat) (vm : Vm) (t : List Int) (n d : Int) (slot : Slot)
    (hop : env.ops vm.pc = some .stackRepeat) (hs : vm.stack = t ++ [n, d]) (hr : vm.rep.length < 4096)
    (hpc : vm.pc + 1 ≤ usizeMax) (hg : GasOk env g (env.cost .stackRepeat))
    (hd : (d = 1 ∧ slot = { counter := 0, limit := .up n, repeatIndex := vm.pc + 1 }) ∨
          (d = 0 ∧ slot = { counter := n, limit := .down, repeatIndex := vm.pc + 1 })) :
    execStep child env g vm =
      .ok (.cont (g + env.cost .stackRepeat) { vm with stack := t, rep := vm.rep ++ [slot], pc := vm.pc + 1 }) := by
  have hgas : ¬ (g + env.cost .stackRepeat > u64Max ∨ g + env.cost .stackRepeat > env.limit) := by
    unfold GasOk at hg; omega
  have hst := repeat_start_spec vm.pc t n d vm.rep hr hpc
  unfold execStep
  rw [hop]
  simp only [hgas, if_false, stepOp, hs, hst]
  rcases hd with ⟨rfl, rfl⟩ | ⟨rfl, rfl⟩ <;> simp [Res.bind]

/-- `RepeatEnd` on a loop that continues: back to the op after the `Repeat` with the next slot -/
theorem step_repeat_end_back (child : ChildExec) (env : Env) (g : Nat) (vm : Vm) (r : List Slot) (s s' : Slot)
    (hop : env.ops vm.pc = some .stackRepeatEnd) (hr : vm.rep = r ++ [s])
    (hg : GasOk env g (env.cost .stackRepeatEnd))
    (hend : Repeat.stepEnd (r ++ [s]) = .ok (r ++ [s'], some s.repeatIndex)) :
    execStep child env g vm =
      .ok (.cont (g + env.cost .stackRepeatEnd) { vm with rep := r ++ [s'], pc := s.repeatIndex }) := by
  have hgas : ¬ (g + env.cost .stackRepeatEnd > u64Max ∨ g + env.cost .stackRepeatEnd > env.limit) := by
    unfold GasOk at hg; omega
  unfold execStep
  rw [hop]
  simp only [hgas, if_false, stepOp, hr, hend, Res.bind]

/-- `RepeatEnd` on a loop that is done: the slot is popped, execution continues after the `RepeatEnd` -/
theorem step_repeat_end_exit (child : ChildExec) (env : Env) (g : Nat) (vm : Vm) (r : List Slot) (s : Slot)
    (hop : env.ops vm.pc = some .stackRepeatEnd) (hr : vm.rep = r ++ [s])
    (hg : GasOk env g (env.cost .stackRepeatEnd))
    (hend : Repeat.stepEnd (r ++ [s]) = .ok (r, none)) :
    execStep child env g vm =
      .ok (.cont (g + env.cost .stackRepeatEnd) { vm with rep := r, pc := vm.pc + 1 }) := by
  have hgas : ¬ (g + env.cost .stackRepeatEnd > u64Max ∨ g + env.cost .stackRepeatEnd > env.limit) := by
    unfold GasOk at hg; omega
  unfold execStep
  rw [hop]
  simp only [hgas, if_false, stepOp, hr, hend, Res.bind]

/-! ### what `RepeatEnd` does to the two kinds of slot -/

theorem stepEnd_up (r : List Slot) (n : Int) (hn : InI64 n) (idx : Nat) (i : Nat) (hi : (i : Int) + 1 ≤ max n 1) :
    Repeat.stepEnd (r ++ [{ counter := i, limit := .up n, repeatIndex := idx }]) =
      if (i : Int) + 1 = max n 1 then .ok (r, none)
      else .ok (r ++ [{ counter := (i + 1 : Nat), limit := .up n, repeatIndex := idx }], some idx) := by
  have hs := satSub1_eq n hn
  unfold Repeat.stepEnd
  simp only [List.getLast?_append, List.getLast?_singleton, Option.some_or, List.dropLast_concat]
  by_cases h : (i : Int) + 1 = max n 1
  · have : (i : Int) ≥ Repeat.satSub1 n := by rw [hs]; unfold i64Min InI64 at *; split <;> omega
    simp [h, this]
  · have h1 : ¬ ((i : Int) ≥ Repeat.satSub1 n) := by rw [hs]; unfold i64Min InI64 at *; split <;> omega
    have h2 : InI64 ((i : Int) + 1) := by unfold InI64 at *; omega
    simp [h, h1, h2]

theorem stepEnd_down (r : List Slot) (n : Int) (hn : InI64 n) (hn1 : 1 ≤ n) (idx : Nat) (i : Nat) (hi : (i : Int) + 1 ≤ n) :
    Repeat.stepEnd (r ++ [{ counter := n - i, limit := .down, repeatIndex := idx }]) =
      if (i : Int) + 1 = n then .ok (r, none)
      else .ok (r ++ [{ counter := n - (i + 1 : Nat), limit := .down, repeatIndex := idx }], some idx) := by
  unfold Repeat.stepEnd
  simp only [List.getLast?_append, List.getLast?_singleton, Option.some_or, List.dropLast_concat]
  by_cases h : (i : Int) + 1 = n
  · have : n - (i : Int) ≤ 1 := by omega
    simp [h, this]
  · have h1 : ¬ (n - (i : Int) ≤ 1) := by omega
    have h2 : InI64 (n - (i : Int) - 1) := by unfold InI64 at *; omega
    have h3 : InI64 (n - ((i : Int) + 1)) := by unfold InI64 at *; omega
    have e : n - (i : Int) - 1 = n - ((i : Int) + 1) := by omega
    simp [h, h1, h2, h3, e]

/-! ### the loop rule -/

/-- What a loop needs from its surroundings: `p` holds the `Repeat`, `e` the matching `RepeatEnd`; `slot i` is the slot during the
`i`-th run of the body and `N ≥ 1` the number of runs. `Q i g vm` describes the machine (gas spent `g`) at the start of run `i`
and, for `i = N`, after the loop; it must not talk about the pc or the repeat stack, which the rule tracks itself. -/
structure LoopCtx (child : ChildExec) (env : Env) where
  p : Nat
  e : Nat
  r : List Slot
  N : Nat
  slot : Nat → Slot
  Q : Nat → Nat → Vm → Prop
  hN : 1 ≤ N
  hend : env.ops e = some .stackRepeatEnd
  hidx : ∀ i, (slot i).repeatIndex = p + 1
  hback : ∀ i, i + 1 < N → Repeat.stepEnd (r ++ [slot i]) = .ok (r ++ [slot (i + 1)], some (p + 1))
  hexit : Repeat.stepEnd (r ++ [slot (N - 1)]) = .ok (r, none)
  hQ : ∀ i g vm pc rp, Q i g vm → Q i g { vm with pc := pc, rep := rp }
  /-- one run of the body: from the op after the `Repeat` to the `RepeatEnd`, leaving the repeat stack as it found it, with gas
  left for the `RepeatEnd`, and establishing `Q (i+1)` -/
  body : ∀ i g vm, i < N → Q i g vm → vm.pc = p + 1 → vm.rep = r ++ [slot i] →
    ∃ k g' vm', runK child env k g vm = some (g', vm') ∧ vm'.pc = e ∧ vm'.rep = r ++ [slot i] ∧
      GasOk env g' (env.cost .stackRepeatEnd) ∧ Q (i + 1) (g' + env.cost .stackRepeatEnd) vm'

/-- from the start of run `i` the remaining runs are executed and the loop is left -/
theorem loop_from (child : ChildExec) (env : Env) (L : LoopCtx child env) :
    ∀ (j i : Nat), i + j + 1 = L.N → ∀ g vm, L.Q i g vm → vm.pc = L.p + 1 → vm.rep = L.r ++ [L.slot i] →
    ∃ k g' vm', runK child env k g vm = some (g', vm') ∧ vm'.pc = L.e + 1 ∧ vm'.rep = L.r ∧ L.Q L.N g' vm' := by
  intro j
  induction j with
  | zero =>
    intro i hi g vm hq hpc hrep
    obtain ⟨k, g1, vm1, hrun, hpc1, hrep1, hgas, hq1⟩ := L.body i g vm (by omega) hq hpc hrep
    have hiN : i = L.N - 1 := by omega
    have hop : env.ops vm1.pc = some .stackRepeatEnd := by rw [hpc1]; exact L.hend
    have hstep := step_repeat_end_exit child env g1 vm1 L.r (L.slot i) hop hrep1 hgas (by rw [hiN]; exact L.hexit)
    refine ⟨k + 1, g1 + env.cost .stackRepeatEnd, { vm1 with rep := L.r, pc := vm1.pc + 1 }, ?_, ?_, rfl, ?_⟩
    · rw [runK_add child env k 1 g vm g1 vm1 hrun]
      simp [runK, hstep]
    · simp [hpc1]
    · have : i + 1 = L.N := by omega
      rw [this] at hq1
      exact L.hQ _ _ _ _ _ hq1
  | succ j ih =>
    intro i hi g vm hq hpc hrep
    obtain ⟨k, g1, vm1, hrun, hpc1, hrep1, hgas, hq1⟩ := L.body i g vm (by omega) hq hpc hrep
    have hop : env.ops vm1.pc = some .stackRepeatEnd := by rw [hpc1]; exact L.hend
    have hb := L.hback i (by omega)
    rw [← L.hidx i] at hb
    have hstep := step_repeat_end_back child env g1 vm1 L.r (L.slot i) (L.slot (i + 1)) hop hrep1 hgas hb
    obtain ⟨k2, g2, vm2, hrun2, hpc2, hrep2, hq2⟩ :=
      ih (i + 1) (by omega) (g1 + env.cost .stackRepeatEnd) { vm1 with rep := L.r ++ [L.slot (i + 1)], pc := (L.slot i).repeatIndex }
        (L.hQ _ _ _ _ _ hq1) (by simp [L.hidx]) rfl
    refine ⟨k + 1 + k2, g2, vm2, ?_, hpc2, hrep2, hq2⟩
    have h1 : runK child env (k + 1) g vm = some (g1 + env.cost .stackRepeatEnd,
        { vm1 with rep := L.r ++ [L.slot (i + 1)], pc := (L.slot i).repeatIndex }) := by
      rw [runK_add child env k 1 g vm g1 vm1 hrun]
      simp [runK, hstep]
    rw [runK_add child env (k + 1) k2 g vm _ _ h1]
    exact hrun2

/-- **the loop rule**: started at the `Repeat` with `[.., n, d]` on the stack (`d = 1`: count up, `d = 0`: count down; `N` runs),
execution performs run 0, run 1, …, run `N - 1` of the body in this order and then stands at the op after the `RepeatEnd`, the
repeat stack as before the loop, in a state satisfying `Q N`. -/
theorem repeat_loop (child : ChildExec) (env : Env) (L : LoopCtx child env) (g : Nat) (vm : Vm) (t : List Int) (n d : Int)
    (hop : env.ops L.p = some .stackRepeat) (hpc : vm.pc = L.p) (hs : vm.stack = t ++ [n, d]) (hrep : vm.rep = L.r)
    (hr : L.r.length < 4096) (hp : L.p + 1 ≤ usizeMax) (hg : GasOk env g (env.cost .stackRepeat))
    (hd : (d = 1 ∧ L.slot 0 = { counter := 0, limit := .up n, repeatIndex := L.p + 1 }) ∨
          (d = 0 ∧ L.slot 0 = { counter := n, limit := .down, repeatIndex := L.p + 1 }))
    (hq : L.Q 0 (g + env.cost .stackRepeat) { vm with stack := t }) :
    ∃ k g' vm', runK child env k g vm = some (g', vm') ∧ vm'.pc = L.e + 1 ∧ vm'.rep = L.r ∧ L.Q L.N g' vm' := by
  have hstep := step_repeat child env g vm t n d (L.slot 0) (by rw [hpc]; exact hop) hs (by rw [hrep]; exact hr)
    (by rw [hpc]; exact hp) hg (by rw [hpc]; exact hd)
  obtain ⟨k, g', vm', hrun, h1, h2, h3⟩ := loop_from child env L (L.N - 1) 0 (by have := L.hN; omega)
    (g + env.cost .stackRepeat) { vm with stack := t, rep := vm.rep ++ [L.slot 0], pc := vm.pc + 1 }
    (L.hQ _ _ _ _ _ hq) (by simp [hpc]) (by simp [hrep])
  refine ⟨1 + k, g', vm', ?_, h1, h2, h3⟩
  have h0 : runK child env 1 g vm = some (g + env.cost .stackRepeat,
      { vm with stack := t, rep := vm.rep ++ [L.slot 0], pc := vm.pc + 1 }) := by
    simp [runK, hstep]
  rw [runK_add child env 1 k g vm _ _ h0]
  exact hrun

/-- … and `exec` continues from there: the result of executing the program from the `Repeat` is the result of executing it
from the op after the `RepeatEnd` in the state the loop produced (given enough fuel for the model's loop). -/
theorem repeat_loop_exec (child : ChildExec) (env : Env) (L : LoopCtx child env) (g : Nat) (vm : Vm) (t : List Int) (n d : Int)
    (hop : env.ops L.p = some .stackRepeat) (hpc : vm.pc = L.p) (hs : vm.stack = t ++ [n, d]) (hrep : vm.rep = L.r)
    (hr : L.r.length < 4096) (hp : L.p + 1 ≤ usizeMax) (hg : GasOk env g (env.cost .stackRepeat))
    (hd : (d = 1 ∧ L.slot 0 = { counter := 0, limit := .up n, repeatIndex := L.p + 1 }) ∨
          (d = 0 ∧ L.slot 0 = { counter := n, limit := .down, repeatIndex := L.p + 1 }))
    (hq : L.Q 0 (g + env.cost .stackRepeat) { vm with stack := t }) :
    ∃ k g' vm', vm'.pc = L.e + 1 ∧ vm'.rep = L.r ∧ L.Q L.N g' vm' ∧
      ∀ fuel, execWith child env (k + fuel) g vm = execWith child env fuel g' vm' := by
  obtain ⟨k, g', vm', hrun, h1, h2, h3⟩ := repeat_loop child env L g vm t n d hop hpc hs hrep hr hp hg hd hq
  exact ⟨k, g', vm', h1, h2, h3, execWith_runK child env k g vm g' vm' hrun⟩

/-! ### the slots of the two directions fit the rule -/

/-- count-up loops: `max n 1` runs with counters `0, 1, …` -/
theorem up_slots (r : List Slot) (n : Int) (hn : InI64 n) (idx : Nat) :
    let slot : Nat → Slot := fun i => { counter := (i : Int), limit := .up n, repeatIndex := idx }
    let N := (max n 1).toNat
    (∀ i, i + 1 < N → Repeat.stepEnd (r ++ [slot i]) = .ok (r ++ [slot (i + 1)], some idx)) ∧
    Repeat.stepEnd (r ++ [slot (N - 1)]) = .ok (r, none) := by
  intro slot N
  constructor
  · intro i hi
    have := stepEnd_up r n hn idx i (by omega)
    have hne : ¬ ((i : Int) + 1 = max n 1) := by omega
    simpa [hne, slot] using this
  · have := stepEnd_up r n hn idx (N - 1) (by omega)
    have he : ((N - 1 : Nat) : Int) + 1 = max n 1 := by omega
    simpa [he, slot] using this

/-- count-down loops with `n ≥ 1`: `n` runs with counters `n, n - 1, …, 1` -/
theorem down_slots (r : List Slot) (n : Int) (hn : InI64 n) (hn1 : 1 ≤ n) (idx : Nat) :
    let slot : Nat → Slot := fun i => { counter := n - (i : Int), limit := .down, repeatIndex := idx }
    let N := n.toNat
    (∀ i, i + 1 < N → Repeat.stepEnd (r ++ [slot i]) = .ok (r ++ [slot (i + 1)], some idx)) ∧
    Repeat.stepEnd (r ++ [slot (N - 1)]) = .ok (r, none) := by
  intro slot N
  constructor
  · intro i hi
    have := stepEnd_down r n hn hn1 idx i (by omega)
    have hne : ¬ ((i : Int) + 1 = n) := by omega
    simpa [hne, slot] using this
  · have := stepEnd_down r n hn hn1 idx (N - 1) (by omega)
    have he : ((N - 1 : Nat) : Int) + 1 = n := by omega
    simpa [he, slot] using this

/-- non-vacuity of the two slot lemmas: a count-up loop over 3 and a count-down loop from 3 pass through the slots the rule expects -/
example : Repeat.stepEnd [{ counter := 1, limit := .up 3, repeatIndex := 7 }] =
    .ok ([{ counter := 2, limit := .up 3, repeatIndex := 7 }], some 7) := by decide
example : Repeat.stepEnd [{ counter := 2, limit := .up 3, repeatIndex := 7 }] = .ok ([], none) := by decide
example : Repeat.stepEnd [{ counter := 3, limit := .down, repeatIndex := 7 }] =
    .ok ([{ counter := 2, limit := .down, repeatIndex := 7 }], some 7) := by decide
example : Repeat.stepEnd [{ counter := 1, limit := .down, repeatIndex := 7 }] = .ok ([], none) := by decide

/-! ### the rule applied: a program that sums its loop counters, for every trip count

`… PUSH 0, PUSH n, PUSH 1, REP, REPC, ADD, REPE` (the loop at pc 3 … 6): after the loop the stack holds `0 + 1 + … + (n - 1)` and
`1 + 3 n` gas has been spent — for every `n` from 1 to 2^31, not for sampled ones. (Non-vacuity of `LoopCtx`.) -/

def tri : Nat → Int
  | 0 => 0
  | i+1 => tri i + i

theorem tri_bound : ∀ i : Nat, i ≤ 2147483648 → 0 ≤ tri i ∧ tri i ≤ (i : Int) * 2147483648
  | 0, _ => by simp [tri]
  | i+1, h => by
    have := tri_bound i (by omega)
    simp only [tri]
    push_cast
    omega

def sumLoop (child : ChildExec) (env : Env) (n : Nat) (hn1 : 1 ≤ n) (hn : n ≤ 2147483648)
    (h4 : env.ops 4 = some .accessRepeatCounter) (h5 : env.ops 5 = some .aluAdd) (h6 : env.ops 6 = some .stackRepeatEnd)
    (hc : ∀ op, env.cost op = 1) (hl : env.limit = u64Max) : LoopCtx child env where
  p := 3
  e := 6
  r := []
  N := n
  slot := fun i => { counter := (i : Int), limit := .up n, repeatIndex := 4 }
  Q := fun i g vm => vm.stack = [tri i] ∧ g = 1 + 3 * i
  hN := hn1
  hend := h6
  hidx := fun _ => rfl
  hback := by
    intro i hi
    have h := (up_slots [] (n : Int) (by unfold InI64; omega) 4).1 i (by omega)
    simpa using h
  hexit := by
    have h := (up_slots [] (n : Int) (by unfold InI64; omega) 4).2
    have e : (max (n : Int) 1).toNat = n := by omega
    simpa [e] using h
  hQ := by
    intro i g vm pc rp h
    exact h
  body := by
    intro i g vm hi hq hpc hrep
    obtain ⟨hst, hg⟩ := hq
    have hb := tri_bound i (by omega)
    have hu : u64Max = 18446744073709551615 := rfl
    have gas1 : ¬ (g + 1 > u64Max ∨ g + 1 > env.limit) := by rw [hl, hu]; omega
    have gas2 : ¬ (g + 1 + 1 > u64Max ∨ g + 1 + 1 > env.limit) := by rw [hl, hu]; omega
    have hsl := sizeLimit_eq
    -- REPC
    have s1 : execStep child env g vm = .ok (.cont (g + 1) { vm with stack := [tri i, (i : Int)], pc := 5 }) := by
      unfold execStep
      rw [hpc, h4]
      simp only [hc, gas1, if_false, stepOp, stk, hrep, Repeat.counter, List.nil_append, List.getLast?_singleton, Res.bind, hst,
        Stack.push]
      have : ¬ ([tri i].length ≥ Stack.sizeLimit) := by simp; omega
      simp [hsl, hpc, hrep]
    -- ADD
    have hin : InI64 (tri i + (i : Int)) := by unfold InI64; omega
    have s2 : execStep child env (g + 1) { vm with stack := [tri i, (i : Int)], pc := 5 } =
        .ok (.cont (g + 1 + 1) { vm with stack := [tri i + (i : Int)], pc := 6 }) := by
      unfold execStep
      simp only [h5, hc, gas2, if_false, stepOp, stk, pop2push1]
      have e : ([tri i, (i : Int)] : List Int) = [] ++ [tri i, (i : Int)] := rfl
      rw [e, pop2_append]
      have : ¬ (([] : List Int).length ≥ Stack.sizeLimit) := by simp; omega
      simp [Res.bind, Alu.add, hin, Stack.push, hsl]
    refine ⟨2, g + 1 + 1, { vm with stack := [tri i + (i : Int)], pc := 6 }, ?_, rfl, by simpa using hrep, ?_, ?_, ?_⟩
    · simp [runK, s1, s2]
    · unfold GasOk; rw [hc, hl, hu]; omega
    · simp [tri]
    · rw [hc]; omega

theorem sum_loop (child : ChildExec) (env : Env) (n : Nat) (hn1 : 1 ≤ n) (hn : n ≤ 2147483648)
    (h3 : env.ops 3 = some .stackRepeat) (h4 : env.ops 4 = some .accessRepeatCounter) (h5 : env.ops 5 = some .aluAdd)
    (h6 : env.ops 6 = some .stackRepeatEnd) (hc : ∀ op, env.cost op = 1) (hl : env.limit = u64Max)
    (vm : Vm) (hpc : vm.pc = 3) (hs : vm.stack = [0, (n : Int), 1]) (hrep : vm.rep = []) :
    ∃ k vm', vm'.pc = 7 ∧ vm'.rep = [] ∧ vm'.stack = [tri n] ∧
      ∀ fuel, execWith child env (k + fuel) 0 vm = execWith child env fuel (1 + 3 * n) vm' := by
  have hu : u64Max = 18446744073709551615 := rfl
  have hum : usizeMax = 18446744073709551615 := rfl
  obtain ⟨k, g', vm', h1, h2, ⟨h3', h4'⟩, h5'⟩ :=
    repeat_loop_exec child env (sumLoop child env n hn1 hn h4 h5 h6 hc hl) 0 vm [0] (n : Int) 1 h3 hpc hs hrep
      (by simp [sumLoop]) (by simp [sumLoop, hum]) (by unfold GasOk; rw [hc, hl, hu]; omega) (Or.inl ⟨rfl, by simp [sumLoop]⟩)
      (by simp [sumLoop, tri, hc])
  subst h4'
  exact ⟨k, vm', h1, h2, h3', h5'⟩

/-- the loop is the end of the program: `exec` (with enough fuel for the model's loop) returns the sum and the gas -/
theorem sum_loop_result (child : ChildExec) (env : Env) (n : Nat) (hn1 : 1 ≤ n) (hn : n ≤ 2147483648)
    (h3 : env.ops 3 = some .stackRepeat) (h4 : env.ops 4 = some .accessRepeatCounter) (h5 : env.ops 5 = some .aluAdd)
    (h6 : env.ops 6 = some .stackRepeatEnd) (h7 : env.ops 7 = none) (hc : ∀ op, env.cost op = 1) (hl : env.limit = u64Max)
    (vm : Vm) (hpc : vm.pc = 3) (hs : vm.stack = [0, (n : Int), 1]) (hrep : vm.rep = []) :
    ∃ k vm', vm'.stack = [tri n] ∧ ∀ fuel, execWith child env (k + (fuel + 1)) 0 vm = .ok (some (1 + 3 * n, vm')) := by
  obtain ⟨k, vm', h1, _, h3', h4'⟩ := sum_loop child env n hn1 hn h3 h4 h5 h6 hc hl vm hpc hs hrep
  refine ⟨k, vm', h3', fun fuel => ?_⟩
  rw [h4' (fuel + 1), execWith_succ]
  simp [execStep, h1, h7]

end Essential.C09
