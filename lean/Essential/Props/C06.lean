/-
C06 — Checker and decoders are total on untrusted input.

Every Rust panic site of the decoders and of the checker (indexing, `expect`, `unwrap`,
pre-allocation from an untrusted count) is a `.panic` / `.abort` branch of the model; the
theorems show those branches are unreachable for *every* input.
-/
import Essential.Model.Check
import Essential.Props.C14

set_option linter.unusedSimpArgs false
namespace Essential.C06
open Essential Spec

/-! ### the mutation decoders never index out of bounds -/

/-- **`decode_mutation` is total**: any word string yields a mutation or a typed error
(the fixed length check `len <= key_end` is what makes the second index safe) -/
theorem decode_mutation_total (ws : List Int) : (decodeMutation ws).Total := by
  unfold decodeMutation Res.Total
  split
  · simp
  · rename_i hlen
    have h0 : 0 < ws.length := by omega
    rw [List.getElem?_eq_getElem h0]
    simp only []
    split
    · simp
    · split
      · simp
      · rename_i hke
        have : 1 + (ws[0]).toNat < ws.length := by omega
        rw [List.getElem?_eq_getElem this]
        simp only []
        split
        · simp
        · split <;> simp

/-- `[1, 1, 5]` (the input that panicked before the fix) is now a typed error -/
example : decodeMutations [1, 1, 5] = .err .wordsTooShort := by decide
example : decodeMutation [1, 5] = .err .wordsTooShort := by decide

theorem decodeMutationsFrom_total (ws : List Int) (fuel : Nat) : ∀ i, (decodeMutationsFrom ws fuel i).Total := by
  induction fuel with
  | zero => intro i; simp [decodeMutationsFrom, Res.Total]
  | succ f ih =>
    intro i
    unfold decodeMutationsFrom Res.Total
    split
    · rw [Res.wp_bind']
      apply Res.wp_mono (decode_mutation_total _)
      intro m _
      rw [Res.wp_bind']
      apply Res.wp_mono (ih _)
      intro rest _
      simp
    · simp

/-- **`decode_mutations` is total** for every word string — in particular for any memory a
data-output program can produce (no pre-allocation from the untrusted count any more) -/
theorem decode_mutations_total (ws : List Int) : (decodeMutations ws).Total := by
  unfold decodeMutations
  split
  · simp [Res.Total]
  · split
    · simp [Res.Total]
    · split
      · simp [Res.Total]
      · exact decodeMutationsFrom_total ws _ 1

/-- `[i64::MAX]` (capacity overflow before the fix) is now a typed error -/
example : decodeMutations [9223372036854775807] = .ok [] := by decide

/-! ### predicate decoder, edge slicing, bytecode: total by construction
(`decodePredicate`, `Predicate.nodeEdges`, `decode` return `Option` / `Except`; the one
re-parse that could panic, `BytecodeMapped::op`, is shown panic-free in C14) -/

theorem mapped_access_total (bs : List Nat) (hb : AllBytes bs) (ops : List Op) (h : decode bs = .ok ops)
    (m : Mapped) (hm : Mapped.tryFromBytes bs = .ok m) (i : Nat) : (m.op i).Total := by
  rw [C14.mapped_op_eq_get bs hb ops h m hm i]; simp [Res.Total]

/-! ### the graph scheduler only ever schedules existing nodes -/

theorem levelOf_lt (d : Deg) : ∀ k ∈ levelOf d, k < d.length := by
  intro k hk
  simp only [levelOf, List.mem_filter, List.mem_range] at hk
  exact hk.1

theorem reduceOne_length (d : Deg) (c : Nat) : (reduceOne d c).length = d.length := by
  unfold reduceOne; split <;> simp

theorem reduceDeg_length (d : Deg) (cs : List Nat) : (reduceDeg d cs).length = d.length := by
  induction cs generalizing d with
  | nil => rfl
  | cons c cs ih => simp only [reduceDeg, List.foldl_cons] at ih ⊢; rw [ih, reduceOne_length]

theorem removeNode_length (p : Predicate) (d : Deg) (u : Nat) : (removeNode p d u).length = d.length := by
  simp [removeNode, reduceDeg_length]

theorem foldl_removeNode_length (p : Predicate) (lv : List Nat) (d : Deg) :
    (lv.foldl (removeNode p) d).length = d.length := by
  induction lv generalizing d with
  | nil => rfl
  | cons u us ih => simp only [List.foldl_cons]; rw [ih, removeNode_length]

/-- every node in every level of the Kahn sort is a node of the predicate -/
theorem topoLevels_lt (p : Predicate) (f : Nat) : ∀ (d : Deg) (ls : List (List Nat)),
    topoLevels p f d = some ls → ∀ lv ∈ ls, ∀ k ∈ lv, k < d.length := by
  induction f with
  | zero =>
    intro d ls h
    simp only [topoLevels] at h
    split at h
    · cases h; intro lv hlv; cases hlv
    · cases h
  | succ f ih =>
    intro d ls h
    simp only [topoLevels] at h
    split at h
    · cases h; intro lv hlv; cases hlv
    · split at h
      · cases h
      · cases hr : topoLevels p f ((levelOf d).foldl (removeNode p) d) with
        | none => rw [hr] at h; cases h
        | some rest =>
          rw [hr] at h
          simp only [Option.map_some, Option.some.injEq] at h
          subst h
          intro lv hlv k hk
          simp only [List.mem_cons] at hlv
          rcases hlv with rfl | hlv
          · exact levelOf_lt d k hk
          · have := ih _ rest hr lv hlv k hk
            rwa [foldl_removeNode_length] at this

theorem topoSort_lt (p : Predicate) (ls : List (List Nat)) (h : topoSort p = .ok ls) :
    ∀ lv ∈ ls, ∀ k ∈ lv, k < p.nodes.length := by
  unfold topoSort at h
  split at h
  · rename_i l hl
    cases h
    have := topoLevels_lt p _ _ _ hl
    simpa [inDegrees] using this
  · cases h

/-! ### the checker itself has no reachable panic site -/

/-- ok or resource abort: neither a panic nor (for the internal `Res Unit` plumbing) an error -/
def Fine {ε α} (r : Res ε α) : Prop := match r with | .ok _ => True | .abort _ => True | _ => False

theorem processResults_fine (p : Predicate) (deferred : List Nat) (ca : Bool)
    (rs : List (Nat × Res String (NodeOut × Nat))) (h : ∀ r ∈ rs, r.2.wpA (fun _ => True)) :
    ∀ acc, Fine (processResults p deferred ca rs acc) := by
  induction rs with
  | nil => intro acc; simp [processResults, Fine]
  | cons r rest ih =>
    intro acc
    obtain ⟨node, res⟩ := r
    have hr := h (node, res) (by simp)
    have ih' := ih (fun x hx => h x (by simp [hx]))
    unfold processResults
    cases res with
    | panic m => simp [Res.wpA] at hr
    | abort m => simp [Fine]
    | err e =>
      simp only []
      split
      · exact ih' _
      · simp [Fine]
    | ok v =>
      obtain ⟨o, g⟩ := v
      cases o with
      | parent s m => exact ih' _
      | satisfied b => cases b <;> exact ih' _
      | data m => exact ih' _

theorem runLevels_fine (p : Predicate) (deferred : List Nat) (ca : Bool)
    (run : Nat → List (Stack × Memory) → Res String (NodeOut × Nat)) (levels : List (List Nat))
    (h : ∀ lv ∈ levels, ∀ k ∈ lv, ∀ inputs, (run k inputs).wpA (fun _ => True)) :
    ∀ acc, Fine (runLevels p deferred ca run levels acc) := by
  induction levels with
  | nil => intro acc; simp [runLevels, Fine]
  | cons lv rest ih =>
    intro acc
    unfold runLevels
    have hp := processResults_fine p deferred ca (lv.map fun node => (node, run node (nodeInputs p acc node)))
      (by
        intro r hr
        simp only [List.mem_map] at hr
        obtain ⟨k, hk, rfl⟩ := hr
        exact h lv (by simp) k hk _) acc
    simp only []
    cases hpr : processResults p deferred ca (lv.map fun node => (node, run node (nodeInputs p acc node))) acc with
    | ok v =>
      obtain ⟨acc', stop⟩ := v
      cases stop
      · exact ih (fun l hl => h l (by simp [hl])) acc'
      · simp [Fine]
    | err e => rw [hpr] at hp; simp [Fine] at hp
    | panic m => rw [hpr] at hp; simp [Fine] at hp
    | abort m => simp [Fine]

theorem filter_levels_lt (levels : List (List Nat)) (f : Nat → Bool) (n : Nat)
    (h : ∀ lv ∈ levels, ∀ k ∈ lv, k < n) :
    ∀ lv ∈ (levels.map fun lv => lv.filter f).filter (fun lv => lv != []), ∀ k ∈ lv, k < n := by
  intro lv hlv k hk
  simp only [List.mem_filter, List.mem_map] at hlv
  obtain ⟨⟨l0, hl0, rfl⟩, _⟩ := hlv
  exact h l0 hl0 k (List.mem_filter.mp hk).1

theorem finishInner_total (r : Res Unit (LevelAcc × Bool)) (h : Fine r) : (finishInner r).wpA (fun _ => True) := by
  cases r with
  | ok v => simp only [finishInner]; split <;> (try split) <;> simp
  | err e => simp [Fine] at h
  | panic m => simp [Fine] at h
  | abort m => simp [finishInner]

theorem modeLevels_lt (mode : RunMode) (levels : List (List Nat)) (deferred : List Nat) (n : Nat)
    (h : ∀ lv ∈ levels, ∀ k ∈ lv, k < n) : ∀ lv ∈ modeLevels mode levels deferred, ∀ k ∈ lv, k < n := by
  cases mode
  · exact filter_levels_lt levels _ n h
  · exact filter_levels_lt levels _ n h

/-- **`check_predicate` never panics**: for any predicate (cyclic, dangling or malformed edge
lists included), any programs, any cache, both run modes and both config values — provided
executing a node program does not panic (which is C05's theorem for the VM) -/
theorem check_predicate_total (ce : CheckEnv) (sols : List Solution) (solIx : Nat) (p : Predicate)
    (ca : Bool) (mode : RunMode) (cache : Cache)
    (hrun : ∀ bytes parents leaf, (runProgram ce sols solIx bytes parents leaf).wpA (fun _ => True)) :
    (checkPredicateInner ce sols solIx p ca mode cache).wpA (fun _ => True) := by
  unfold checkPredicateInner
  split
  · simp
  · cases hts : topoSort p with
    | error e => simp
    | ok levels =>
      simp only []
      apply finishInner_total
      apply runLevels_fine
      intro lv hlv k hk inputs
      have := modeLevels_lt mode levels (deferredOf ce p) _ (topoSort_lt p levels hts) lv hlv k hk
      unfold nodeRunner
      rw [List.getElem?_eq_getElem this]
      exact hrun _ _ _

/-- malformed edge lists and cycles are rejected before any program runs -/
theorem malformed_rejected (ce : CheckEnv) (sols : List Solution) (solIx : Nat) (p : Predicate)
    (ca : Bool) (mode : RunMode) (cache : Cache) (i : Nat) (h : firstBadNode p = some i) :
    checkPredicateInner ce sols solIx p ca mode cache = .err (.invalidNodeEdges i) := by
  simp [checkPredicateInner, h]

theorem cyclic_rejected (ce : CheckEnv) (sols : List Solution) (solIx : Nat) (p : Predicate)
    (ca : Bool) (mode : RunMode) (cache : Cache) (h : firstBadNode p = none)
    (hc : topoLevels p (p.nodes.length + 1) (inDegrees p) = none) :
    checkPredicateInner ce sols solIx p ca mode cache = .err (.invalidNodeEdges 0) := by
  simp [checkPredicateInner, h, topoSort, hc]

end Essential.C06
