/-
C17 — Content addresses are canonical, order-independent and injective up to SHA-256.
-/
import Essential.Model.Hash
import Essential.Props.C18

set_option linter.unusedSimpArgs false
namespace Essential.C17
open Essential

/-! ### order independence -/

theorem addrLe_trans (a b c : List Nat) (h1 : addrLe a b = true) (h2 : addrLe b c = true) : addrLe a c = true := by
  simp only [addrLe, decide_eq_true_eq] at *; exact List.le_trans h1 h2

theorem addrLe_total (a b : List Nat) : (addrLe a b || addrLe b a) = true := by
  simp only [addrLe, Bool.or_eq_true, decide_eq_true_eq]; exact List.le_total a b

/-- sorting is a function of the multiset -/
theorem sortAddrs_perm (l₁ l₂ : List (List Nat)) (h : l₁.Perm l₂) : sortAddrs l₁ = sortAddrs l₂ := by
  unfold sortAddrs
  apply List.Perm.eq_of_pairwise (le := fun a b => addrLe a b = true)
  · intro a b _ _ h1 h2
    simp only [addrLe, decide_eq_true_eq] at h1 h2
    exact List.le_antisymm h1 h2
  · exact List.pairwise_mergeSort addrLe_trans addrLe_total l₁
  · exact List.pairwise_mergeSort addrLe_trans addrLe_total l₂
  · exact ((List.mergeSort_perm l₁ addrLe).trans h).trans (List.mergeSort_perm l₂ addrLe).symm

/-- **the address of a contract does not depend on the order of its predicates** -/
theorem contract_addr_perm (sha : List Nat → List Nat) (ps₁ ps₂ : List Predicate) (salt : List Nat)
    (h : ps₁.Perm ps₂) : contractAddr sha ps₁ salt = contractAddr sha ps₂ salt := by
  unfold contractAddr contractPreimage
  rw [sortAddrs_perm _ _ (h.map (predicateAddr sha))]

/-- **the address of a solution set does not depend on the order of its solutions** -/
theorem set_addr_perm (sha : List Nat → List Nat) (s₁ s₂ : List Solution) (h : s₁.Perm s₂) :
    setAddr sha s₁ = setAddr sha s₂ := by
  unfold setAddr setPreimage
  rw [sortAddrs_perm _ _ (h.map (solutionAddr sha))]

/-! ### injectivity of the pre-hash encodings -/

/-- an encoder whose output can be split off any continuation unambiguously -/
def PrefixInj {α} (enc : α → List Nat) : Prop :=
  ∀ a b t₁ t₂, enc a ++ t₁ = enc b ++ t₂ → a = b ∧ t₁ = t₂

theorem PrefixInj.injective {α} {enc : α → List Nat} (h : PrefixInj enc) (a b : α) (e : enc a = enc b) : a = b :=
  (h a b [] [] (by simp [e])).1

theorem varint_prefix_inj : PrefixInj varint := by
  intro a
  induction a using Nat.strongRecOn with
  | _ a ih =>
    intro b t₁ t₂ h
    rw [varint.eq_1 a, varint.eq_1 b] at h
    by_cases ha : a < 128 <;> by_cases hb : b < 128 <;> simp only [ha, hb, if_true, if_false] at h
    · simp only [List.cons_append, List.nil_append, List.cons.injEq] at h; exact ⟨h.1, h.2⟩
    · simp only [List.cons_append, List.nil_append, List.cons.injEq] at h; omega
    · simp only [List.cons_append, List.nil_append, List.cons.injEq] at h; omega
    · simp only [List.cons_append, List.cons.injEq] at h
      obtain ⟨h1, h2⟩ := h
      obtain ⟨e, et⟩ := ih (a / 128) (by omega) (b / 128) t₁ t₂ h2
      exact ⟨by omega, et⟩

theorem zigzag_injective (a b : Int) (h : zigzag a = zigzag b) : a = b := by
  unfold zigzag at h
  split at h <;> split at h <;> omega

theorem PrefixInj.comp {α β} {enc : β → List Nat} (h : PrefixInj enc) (f : α → β) (hf : ∀ a b, f a = f b → a = b) :
    PrefixInj (fun a => enc (f a)) := by
  intro a b t₁ t₂ e
  obtain ⟨h1, h2⟩ := h (f a) (f b) t₁ t₂ e
  exact ⟨hf a b h1, h2⟩

theorem PrefixInj.pair {α β} {e₁ : α → List Nat} {e₂ : β → List Nat} (h₁ : PrefixInj e₁) (h₂ : PrefixInj e₂) :
    PrefixInj (fun (p : α × β) => e₁ p.1 ++ e₂ p.2) := by
  intro a b t₁ t₂ e
  simp only [List.append_assoc] at e
  obtain ⟨x1, x2⟩ := h₁ a.1 b.1 _ _ e
  obtain ⟨y1, y2⟩ := h₂ a.2 b.2 _ _ x2
  exact ⟨Prod.ext x1 y1, y2⟩

theorem flatMap_prefix_inj {α} {enc : α → List Nat} (h : PrefixInj enc) :
    ∀ (l₁ l₂ : List α), l₁.length = l₂.length → ∀ t₁ t₂, l₁.flatMap enc ++ t₁ = l₂.flatMap enc ++ t₂ → l₁ = l₂ ∧ t₁ = t₂
  | [], [], _, t₁, t₂, e => ⟨rfl, by simpa using e⟩
  | a :: as, b :: bs, hl, t₁, t₂, e => by
    simp only [List.flatMap_cons, List.append_assoc] at e
    obtain ⟨x1, x2⟩ := h a b _ _ e
    obtain ⟨y1, y2⟩ := flatMap_prefix_inj h as bs (by simpa using hl) t₁ t₂ x2
    exact ⟨by rw [x1, y1], y2⟩
  | [], _ :: _, hl, _, _, _ => by simp at hl
  | _ :: _, [], hl, _, _, _ => by simp at hl

theorem pcVec_prefix_inj {α} {enc : α → List Nat} (h : PrefixInj enc) : PrefixInj (pcVec enc) := by
  intro a b t₁ t₂ e
  unfold pcVec at e
  simp only [List.append_assoc] at e
  obtain ⟨hl, e2⟩ := varint_prefix_inj a.length b.length _ _ e
  exact flatMap_prefix_inj h a b hl t₁ t₂ e2

theorem pcWords_prefix_inj : PrefixInj pcWords := by
  have := pcVec_prefix_inj (varint_prefix_inj.comp zigzag zigzag_injective)
  exact this

theorem pcBytes_prefix_inj : PrefixInj pcBytes := by
  intro a b t₁ t₂ e
  unfold pcBytes at e
  simp only [List.append_assoc] at e
  obtain ⟨hl, e2⟩ := varint_prefix_inj a.length b.length _ _ e
  exact List.append_inj e2 hl

theorem pcMutation_prefix_inj : PrefixInj pcMutation := PrefixInj.pair pcWords_prefix_inj pcWords_prefix_inj

/-- **the pre-hash encoding of a solution is injective**: two solutions with the same
serialisation are the same solution (every field is recovered) -/
theorem postcard_solution_injective (a b : Solution) (h : pcSolution a = pcSolution b) : a = b := by
  unfold pcSolution at h
  simp only [List.append_assoc] at h
  obtain ⟨h1, r1⟩ := pcBytes_prefix_inj a.contract b.contract _ _ h
  obtain ⟨h2, r2⟩ := pcBytes_prefix_inj a.predicate b.predicate _ _ r1
  obtain ⟨h3, r3⟩ := pcVec_prefix_inj pcWords_prefix_inj a.data b.data _ _ r2
  have r3' : pcVec pcMutation a.mutations ++ [] = pcVec pcMutation b.mutations ++ [] := by simpa using r3
  obtain ⟨h4, _⟩ := pcVec_prefix_inj pcMutation_prefix_inj a.mutations b.mutations _ _ r3'
  cases a; cases b; simp_all

/-- **the binary encoding of a predicate is injective** on well-formed predicates within the limits -/
theorem encode_predicate_injective (p q : Predicate) (hp : C18.PredWF p) (hq : C18.PredWF q) (bs : List Nat)
    (h1 : encodePredicate p = .ok bs) (h2 : encodePredicate q = .ok bs) : p = q := by
  have a := (C18.predicate_decode_encode p hp bs h1).1
  have b := (C18.predicate_decode_encode q hq bs h2).1
  rw [a] at b
  exact Option.some.inj b

/-- the reported size equals the actual length of the encoding -/
theorem encoded_size_eq_length (p : Predicate) (hp : C18.PredWF p) (bs : List Nat) (h : encodePredicate p = .ok bs) :
    predicateEncodedSize p = bs.length := (C18.predicate_decode_encode p hp bs h).2

/-- concatenation of 32-byte blocks is injective -/
theorem flatten_32_inj : ∀ (l₁ l₂ : List (List Nat)), (∀ a ∈ l₁, a.length = 32) → (∀ a ∈ l₂, a.length = 32) →
    l₁.flatten = l₂.flatten → l₁ = l₂
  | [], [], _, _, _ => rfl
  | [], b :: bs, _, h2, e => by
    have := h2 b (by simp)
    have : (b :: bs).flatten.length ≥ 32 := by simp; omega
    rw [← e] at this; simp at this
  | a :: as, [], h1, _, e => by
    have := h1 a (by simp)
    have : (a :: as).flatten.length ≥ 32 := by simp; omega
    rw [e] at this; simp at this
  | a :: as, b :: bs, h1, h2, e => by
    simp only [List.flatten_cons] at e
    have ha := h1 a (by simp)
    have hb := h2 b (by simp)
    obtain ⟨x, y⟩ := List.append_inj e (by omega)
    rw [x, flatten_32_inj as bs (fun c hc => h1 c (by simp [hc])) (fun c hc => h2 c (by simp [hc])) y]

/-- **the bytes hashed for a contract determine the multiset of predicate addresses and the
salt** (so a change to a predicate, or to the salt, changes the hashed bytes unless the
predicate's own SHA-256 collides) -/
theorem contract_preimage_injective (a₁ a₂ : List (List Nat)) (s₁ s₂ : List Nat)
    (h1 : ∀ a ∈ a₁, a.length = 32) (h2 : ∀ a ∈ a₂, a.length = 32) (hs : s₁.length = s₂.length) (hl : a₁.length = a₂.length)
    (h : contractPreimage a₁ s₁ = contractPreimage a₂ s₂) : a₁.Perm a₂ ∧ s₁ = s₂ := by
  unfold contractPreimage at h
  have p1 := List.mergeSort_perm a₁ addrLe
  have p2 := List.mergeSort_perm a₂ addrLe
  have m1 : ∀ a ∈ sortAddrs a₁, a.length = 32 := fun a ha => h1 a (p1.mem_iff.mp ha)
  have m2 : ∀ a ∈ sortAddrs a₂, a.length = 32 := fun a ha => h2 a (p2.mem_iff.mp ha)
  have len : ∀ (l : List (List Nat)), (∀ a ∈ l, a.length = 32) → l.flatten.length = 32 * l.length := by
    intro l; induction l with
    | nil => intro _; rfl
    | cons x xs ih => intro hx; simp [hx x (by simp), ih (fun a ha => hx a (by simp [ha]))]; omega
  have hlen : (sortAddrs a₁).flatten.length = (sortAddrs a₂).flatten.length := by
    rw [len _ m1, len _ m2]
    unfold sortAddrs; rw [p1.length_eq, p2.length_eq, hl]
  obtain ⟨x, y⟩ := List.append_inj h hlen
  have := flatten_32_inj _ _ m1 m2 x
  have this' : a₁.mergeSort addrLe = a₂.mergeSort addrLe := this
  exact ⟨(p1.symm.trans (by rw [this'])).trans p2, y⟩

theorem set_preimage_injective (a₁ a₂ : List (List Nat))
    (h1 : ∀ a ∈ a₁, a.length = 32) (h2 : ∀ a ∈ a₂, a.length = 32) (h : setPreimage a₁ = setPreimage a₂) : a₁.Perm a₂ := by
  unfold setPreimage at h
  have p1 := List.mergeSort_perm a₁ addrLe
  have p2 := List.mergeSort_perm a₂ addrLe
  have m1 : ∀ a ∈ sortAddrs a₁, a.length = 32 := fun a ha => h1 a (p1.mem_iff.mp ha)
  have m2 : ∀ a ∈ sortAddrs a₂, a.length = 32 := fun a ha => h2 a (p2.mem_iff.mp ha)
  have := flatten_32_inj _ _ m1 m2 h
  have this' : a₁.mergeSort addrLe = a₂.mergeSort addrLe := this
  exact (p1.symm.trans (by rw [this'])).trans p2

/-! non-vacuity -/
example : contractPreimage [[2, 1], [1, 9]] [7] = contractPreimage [[1, 9], [2, 1]] [7] := by
  unfold contractPreimage; rw [sortAddrs_perm _ _ (List.Perm.swap _ _ _)]
example : varint 300 = [172, 2] := by
  rw [varint]; simp only [show ¬ (300 < 128) by omega, if_false]
  rw [varint]; simp

end Essential.C17
