/-
C15 — Effect analysis reports exactly the effects a program contains.
-/
import Essential.Lemmas.Asm
import Essential.Lemmas.Codec

namespace Essential.C15
open Essential Spec

/-- an op has one of the effects in `E` (the declarative reading: the op's own flag is
non-empty and contained in `E`) -/
def opHasEffect (E : Nat) (op : Op) : Bool := effectOf op != 0 && effContains E (effectOf op)

theorem bytesContainsAny_nil (E : Nat) : bytesContainsAny E [] = false := by
  rw [bytesContainsAny]

/-- the scan on the encoding of one op followed by `tail` -/
theorem bytesContainsAny_encodeOp (E : Nat) (op : Op) (tail : List Nat) :
    bytesContainsAny E (encodeOp op ++ tail) = (opHasEffect E op || bytesContainsAny E tail) := by
  cases op with
  | stackPush w =>
    have hl := bytesOfWord_length w
    simp only [encodeOp, Op.imm, Op.opcode, List.cons_append]
    rw [bytesContainsAny]
    simp [Op.opcode, List.drop_left' hl, opHasEffect, effectOf]
  | stateReadKeyRange | stateReadKeyRangeExtern | stateReadPostKeyRange | stateReadPostKeyRangeExtern
  | accessThisAddress | accessThisContractAddress =>
    simp only [encodeOp, Op.imm, Op.opcode, List.cons_append, List.nil_append]
    rw [bytesContainsAny]
    simp [Op.opcode, opHasEffect, effectOf, effContains, Consts.effKeyRange, Consts.effKeyRangeExtern,
      Consts.effPostKeyRange, Consts.effPostKeyRangeExtern, Consts.effThisAddress, Consts.effThisContractAddress]
    apply Bool.eq_iff_iff.mpr; simp
  | _ =>
    simp only [encodeOp, Op.imm, Op.opcode, List.cons_append, List.nil_append]
    rw [bytesContainsAny]
    simp [Op.opcode, opHasEffect, effectOf]

/-- **byte-level query is exact**: for well-formed bytecode (the encoding of any op list) and
any effect set, the scan answers true exactly when some op has one of those effects —
immediates never count, ops after a Push are never skipped -/
theorem bytes_contains_any_spec (E : Nat) (ops : List Op) :
    bytesContainsAny E (encode ops) = ops.any (opHasEffect E) := by
  induction ops with
  | nil => simp [encode, bytesContainsAny_nil]
  | cons op ops ih =>
    simp only [encode, List.flatMap_cons, List.any_cons] at ih ⊢
    rw [bytesContainsAny_encodeOp, ih]

/-- stated for parsed byte strings: whenever a byte string parses, the scan equals the fold
over the parsed ops -/
theorem bytes_contains_any_parsed (E : Nat) (bs : List Nat) (hb : AllBytes bs) (ops : List Op)
    (h : decode bs = .ok ops) : bytesContainsAny E bs = ops.any (opHasEffect E) := by
  have := Essential.Codec.encode_decode bs hb ops h
  rw [← this.1, bytes_contains_any_spec]

/-- the union of the effect flags of all ops -/
def effectsOf (ops : List Op) : Nat := ops.foldl (fun a op => a ||| effectOf op) 0

theorem analyzeStep_eq (op : Op) : analyzeStep op = effectOf op := by
  cases op <;> rfl

theorem effectOf_le_all (op : Op) : effectOf op ||| effAll = effAll := by
  cases op <;> first | decide | simp [effectOf]

theorem foldl_or_all (ops : List Op) : ops.foldl (fun a op => a ||| effectOf op) effAll = effAll := by
  induction ops with
  | nil => rfl
  | cons op ops ih =>
    simp only [List.foldl_cons]
    rw [Nat.or_comm, effectOf_le_all, ih]

theorem analyzeFrom_eq (acc : Nat) (ops : List Op) :
    analyzeFrom acc ops = ops.foldl (fun a op => a ||| effectOf op) acc := by
  induction ops generalizing acc with
  | nil => rfl
  | cons op ops ih =>
    simp only [analyzeFrom, analyzeStep_eq, List.foldl_cons]
    split
    · rename_i h; rw [h, foldl_or_all]
    · exact ih _

/-- **op-level analysis is exact**: it returns exactly the union of the effects present
(the early exit never loses a flag) -/
theorem analyze_spec (ops : List Op) : analyze ops = effectsOf ops := analyzeFrom_eq 0 ops

/-- membership reading of `analyze_spec`: a defined flag is reported iff some op has it -/
theorem analyze_reports_iff (ops : List Op) (op : Op) (h : op ∈ ops) :
    effContains (analyze ops) (effectOf op) = true := by
  rw [analyze_spec, effectsOf]
  have gen : ∀ (l : List Op) (acc : Nat), (op ∈ l ∨ acc &&& effectOf op = effectOf op) →
      (l.foldl (fun a o => a ||| effectOf o) acc) &&& effectOf op = effectOf op := by
    intro l
    induction l with
    | nil => intro acc h; simpa using h
    | cons o l ih =>
      intro acc h
      simp only [List.foldl_cons]
      apply ih
      rcases h with h | h
      · simp only [List.mem_cons] at h
        rcases h with rfl | h
        · right; rw [Nat.and_comm, Nat.and_or_distrib_left]; simp [Nat.or_comm]
          apply Nat.eq_of_testBit_eq; intro i
          simp only [Nat.testBit_or, Nat.testBit_and]
          cases (effectOf op).testBit i <;> simp
        · left; exact h
      · right
        apply Nat.eq_of_testBit_eq; intro i
        have := congrArg (fun n => n.testBit i) h
        simp only [Nat.testBit_and] at this
        simp only [Nat.testBit_or, Nat.testBit_and]
        cases hb : (effectOf op).testBit i <;> simp_all
  have := gen ops 0 (Or.inl h)
  simp [effContains, this]

/-! non-vacuity and the two ops the unfixed code missed -/
example : analyze [.stateReadPostKeyRange, .stateReadPostKeyRangeExtern] = 48 := by decide
example : bytesContainsAny 16 (encode [.stackPush 8070450532247928832, .stateReadPostKeyRange]) = true := by
  rw [bytes_contains_any_spec]; decide
example : bytesContainsAny 16 (encode [.stackPush 8070450532247928832]) = false := by
  rw [bytes_contains_any_spec]; decide

end Essential.C15
