/-
C20 — The lock serialises closures: no lost updates under contention.

The model is `Essential/Model/Lock.lean`; `apply` performs the steps listed in the generated
`LockGen.applyShape`.  All theorems below are about `init LockGen.applyShape sys`, for every
system `sys` (any number of locks and threads, scripts of any length) and every schedule.

Trusted, not proved: `std::sync::Mutex` (acquire blocks unless free, release frees), and that a
guard temporary in a call argument lives until the call returned (Rust drop order); the
translator `gen/lock_from_rust.py` (shape extraction).  Closures in the model cannot call
`apply`, i.e. the non-re-entrant use of the lock which `no_deadlock` is stated for.
-/
import Essential.Model.Lock

namespace Essential.C20
open Essential Essential.Lock Essential.LockGen

/-! ### the tie to the source -/

/-- **`apply` is: take the lock, call the closure on the guarded value, drop the guard** -/
theorem shape_is_lock_call_unlock : LockGen.applyShape = [.acquire, .call, .release] := by decide

theorem uses_std_mutex : LockGen.usesStdMutex = true := by decide

/-- the shape the proofs are carried out for -/
abbrev good : List Step := [.acquire, .call, .release]

theorem compile_cons (c : Closure) (rest : List Closure) :
    compile good (c :: rest) =
      .acquire c.lock :: .read c.lock :: .write c.lock c.f :: .release c.lock :: compile good rest := by
  simp [compile, expand, expandStep]

theorem compile_eq_nil {todo : List Closure} (h : compile good todo = []) : todo = [] := by
  cases todo with
  | nil => rfl
  | cons c r => rw [compile_cons] at h; cases h

@[simp] theorem upd_same {α : Type} (f : Nat → α) (i : Nat) (a : α) : upd f i a i = a := by simp [upd]
@[simp] theorem upd_other {α : Type} (f : Nat → α) {i j : Nat} (a : α) (h : j ≠ i) : upd f i a j = f j := by
  simp [upd, h]

/-! ### the invariant -/

/-- thread `t` holds lock `l` and no other lock -/
def Owns (s : State) (t l : Nat) : Prop := s.owner l = some t ∧ ∀ l', s.owner l' = some t → l' = l

/-- Where thread `t` is, relative to the serial execution `S` of all closures in acquisition order.
`S` has already run the closure `t` is working on (if any): until `t` has written, `S` is ahead of
the concurrent state by exactly that closure. -/
inductive ThreadOk (s : State) (S : SState) (t : Nat) : Prop
  | idle (hp : (s.thr t).prog = compile good (S.todo t)) (ho : ∀ l, s.owner l ≠ some t)
      (hr : S.rets t = (s.thr t).rets)
  | acquired (c : Closure)
      (hp : (s.thr t).prog = .read c.lock :: .write c.lock c.f :: .release c.lock :: compile good (S.todo t))
      (ho : Owns s t c.lock) (hv : S.vals c.lock = c.f.app (s.vals c.lock))
      (hr : S.rets t = (s.thr t).rets ++ [s.vals c.lock])
  | readDone (c : Closure)
      (hp : (s.thr t).prog = .write c.lock c.f :: .release c.lock :: compile good (S.todo t))
      (ho : Owns s t c.lock) (hreg : (s.thr t).reg = s.vals c.lock)
      (hv : S.vals c.lock = c.f.app (s.vals c.lock)) (hr : S.rets t = (s.thr t).rets ++ [s.vals c.lock])
  | written (l : Nat) (hp : (s.thr t).prog = .release l :: compile good (S.todo t))
      (ho : Owns s t l) (hv : S.vals l = s.vals l) (hr : S.rets t = (s.thr t).rets)

structure Inv (sys : Sys) (s : State) : Prop where
  thr : ∀ t, ThreadOk s (serial (sinit sys) s.acqs) t
  free : ∀ l, s.owner l = none → (serial (sinit sys) s.acqs).vals l = s.vals l

theorem inv_init (sys : Sys) : Inv sys (init good sys) where
  thr t := .idle rfl (by intro l h; cases h) rfl
  free _ _ := rfl

/-- a step that touches only lock `l0`, which `t` neither held before nor holds after, and that
leaves `t`'s own thread state alone, preserves `t`'s part of the invariant -/
theorem ThreadOk.frame {s s' : State} {S S' : SState} {t : Nat} (h : ThreadOk s S t) (l0 : Nat)
    (hthr : s'.thr t = s.thr t) (htodo : S'.todo t = S.todo t) (hrets : S'.rets t = S.rets t)
    (hown : ∀ l, l ≠ l0 → s'.owner l = s.owner l) (hvals : ∀ l, l ≠ l0 → s'.vals l = s.vals l)
    (hSv : ∀ l, l ≠ l0 → S'.vals l = S.vals l)
    (h0 : s.owner l0 ≠ some t) (h0' : s'.owner l0 ≠ some t) : ThreadOk s' S' t := by
  have owns : ∀ l, Owns s t l → Owns s' t l ∧ l ≠ l0 := by
    intro l ⟨h1, h2⟩
    have hne : l ≠ l0 := by intro e; subst e; exact h0 h1
    refine ⟨⟨by rw [hown l hne]; exact h1, ?_⟩, hne⟩
    intro l' hl'
    have : l' ≠ l0 := by intro e; subst e; exact h0' hl'
    rw [hown l' this] at hl'; exact h2 l' hl'
  cases h with
  | idle hp ho hr =>
    refine .idle (by rw [hthr, htodo]; exact hp) ?_ (by rw [hthr, hrets]; exact hr)
    intro l hl
    by_cases e : l = l0
    · subst e; exact h0' hl
    · rw [hown l e] at hl; exact ho l hl
  | acquired c hp ho hv hr =>
    obtain ⟨ho', hne⟩ := owns _ ho
    exact .acquired c (by rw [hthr, htodo]; exact hp) ho' (by rw [hSv _ hne, hvals _ hne]; exact hv)
      (by rw [hthr, hrets, hvals _ hne]; exact hr)
  | readDone c hp ho hreg hv hr =>
    obtain ⟨ho', hne⟩ := owns _ ho
    exact .readDone c (by rw [hthr, htodo]; exact hp) ho' (by rw [hthr, hvals _ hne]; exact hreg)
      (by rw [hSv _ hne, hvals _ hne]; exact hv) (by rw [hthr, hrets, hvals _ hne]; exact hr)
  | written l hp ho hv hr =>
    obtain ⟨ho', hne⟩ := owns _ ho
    exact .written l (by rw [hthr, htodo]; exact hp) ho' (by rw [hSv _ hne, hvals _ hne]; exact hv)
      (by rw [hthr, hrets]; exact hr)

/-- the holder of a lock is in one of the three holding phases, for that lock -/
theorem ThreadOk.of_owner {s : State} {S : SState} {t l : Nat} (h : ThreadOk s S t) (ho : s.owner l = some t) :
    ∃ rest, (s.thr t).prog = .read l :: rest ∨ (∃ f, (s.thr t).prog = .write l f :: rest) ∨
      (s.thr t).prog = .release l :: rest := by
  cases h with
  | idle hp ho' hr => exact absurd ho (ho' l)
  | acquired c hp ho' hv hr => have := ho'.2 l ho; subst this; exact ⟨_, .inl hp⟩
  | readDone c hp ho' hreg hv hr => have := ho'.2 l ho; subst this; exact ⟨_, .inr (.inl ⟨_, hp⟩)⟩
  | written l' hp ho' hv hr => have := ho'.2 l ho; subst this; exact ⟨_, .inr (.inr hp)⟩

theorem serial_snoc (S : SState) (order : List Nat) (t : Nat) :
    serial S (order ++ [t]) = sstep (serial S order) t := by
  simp [serial, List.foldl_append]

/-- **every micro-step preserves the invariant** -/
theorem inv_step {sys : Sys} {s s' : State} {t0 : Nat} (hI : Inv sys s) (h : step s t0 = some s') :
    Inv sys s' := by
  obtain ⟨hthr, hfree⟩ := hI
  have hT := hthr t0
  unfold step at h
  split at h
  · cases h
  · -- acquire
    rename_i l rest hprog
    split at h
    · cases h
    · rename_i hnone
      cases h
      cases hT with
      | idle hp ho hr =>
        rw [hprog] at hp
        cases htodo : (serial (sinit sys) s.acqs).todo t0 with
        | nil => rw [htodo] at hp; cases hp
        | cons c todo' =>
          rw [htodo, compile_cons] at hp
          injection hp with h1 h2
          injection h1 with h1
          subst h1
          have hS : serial (sinit sys) (s.acqs ++ [t0]) =
              { vals := upd (serial (sinit sys) s.acqs).vals c.lock (c.f.app ((serial (sinit sys) s.acqs).vals c.lock)),
                todo := upd (serial (sinit sys) s.acqs).todo t0 todo',
                rets := upd (serial (sinit sys) s.acqs).rets t0
                  ((serial (sinit sys) s.acqs).rets t0 ++ [(serial (sinit sys) s.acqs).vals c.lock]) } := by
            rw [serial_snoc]; unfold sstep; rw [htodo]
          constructor
          · intro t
            by_cases ht : t = t0
            · subst ht
              refine .acquired c ?_ ⟨?_, ?_⟩ ?_ ?_
              · simp [hS, h2]
              · simp
              · intro l' hl'
                by_cases e : l' = c.lock
                · exact e
                · simp [upd_other _ _ e] at hl'; exact absurd hl' (ho l')
              · simp [hS, hfree _ hnone]
              · simp [hS, hfree _ hnone, hr]
            · refine (hthr t).frame c.lock ?_ ?_ ?_ ?_ ?_ ?_ ?_ ?_
              · simp [upd_other _ _ ht]
              · simp [hS, upd_other _ _ ht]
              · simp [hS, upd_other _ _ ht]
              · intro l' hl'; simp [upd_other _ _ hl']
              · intro l' hl'; rfl
              · intro l' hl'; simp [hS, upd_other _ _ hl']
              · rw [hnone]; intro e; cases e
              · simp; intro e; exact ht e.symm
          · intro l' hl'
            by_cases e : l' = c.lock
            · subst e; simp at hl'
            · simp [upd_other _ _ e] at hl'
              simp [hS, upd_other _ _ e, hfree _ hl']
      | acquired c hp ho hv hr => rw [hprog] at hp; cases hp
      | readDone c hp ho hreg hv hr => rw [hprog] at hp; cases hp
      | written l' hp ho hv hr => rw [hprog] at hp; cases hp
  · -- read
    rename_i l rest hprog
    cases h
    cases hT with
    | idle hp ho hr =>
      rw [hprog] at hp
      cases htodo : (serial (sinit sys) s.acqs).todo t0 with
      | nil => rw [htodo] at hp; cases hp
      | cons c todo' => rw [htodo, compile_cons] at hp; cases hp
    | acquired c hp ho hv hr =>
      rw [hprog] at hp
      injection hp with h1 h2
      injection h1 with h1
      subst h1
      constructor
      · intro t
        by_cases ht : t = t0
        · subst ht
          exact .readDone c (by simp [h2]) ho (by simp) hv (by simpa using hr)
        · exact (hthr t).frame c.lock (by simp [upd_other _ _ ht]) rfl rfl (fun _ _ => rfl) (fun _ _ => rfl)
            (fun _ _ => rfl) (by rw [ho.1]; intro e; injection e with e; exact ht e.symm)
            (by show s.owner c.lock ≠ some t; rw [ho.1]; intro e; injection e with e; exact ht e.symm)
      · exact hfree
    | readDone c hp ho hreg hv hr => rw [hprog] at hp; cases hp
    | written l' hp ho hv hr => rw [hprog] at hp; cases hp
  · -- write
    rename_i l f rest hprog
    cases h
    cases hT with
    | idle hp ho hr =>
      rw [hprog] at hp
      cases htodo : (serial (sinit sys) s.acqs).todo t0 with
      | nil => rw [htodo] at hp; cases hp
      | cons c todo' => rw [htodo, compile_cons] at hp; cases hp
    | acquired c hp ho hv hr => rw [hprog] at hp; cases hp
    | readDone c hp ho hreg hv hr =>
      rw [hprog] at hp
      injection hp with h1 h2
      injection h1 with h1 h1'
      subst h1 h1'
      constructor
      · intro t
        by_cases ht : t = t0
        · subst ht
          refine .written c.lock (by simp [h2]) ho ?_ ?_
          · simp [hv, hreg]
          · simp [hr, hreg]
        · refine (hthr t).frame c.lock (by simp [upd_other _ _ ht]) rfl rfl (fun _ _ => rfl) ?_
            (fun _ _ => rfl) (by rw [ho.1]; intro e; injection e with e; exact ht e.symm)
            (by show s.owner c.lock ≠ some t; rw [ho.1]; intro e; injection e with e; exact ht e.symm)
          intro l' hl'; simp [upd_other _ _ hl']
      · intro l' hl'
        have e : l' ≠ c.lock := by intro e; subst e; rw [ho.1] at hl'; cases hl'
        simp [upd_other _ _ e, hfree _ hl']
    | written l' hp ho hv hr => rw [hprog] at hp; cases hp
  · -- release
    rename_i l rest hprog
    split at h
    · rename_i hown
      cases h
      cases hT with
      | idle hp ho hr => exact absurd hown (ho l)
      | acquired c hp ho hv hr => rw [hprog] at hp; cases hp
      | readDone c hp ho hreg hv hr => rw [hprog] at hp; cases hp
      | written l' hp ho hv hr =>
        rw [hprog] at hp
        injection hp with h1 h2
        injection h1 with h1
        subst h1
        constructor
        · intro t
          by_cases ht : t = t0
          · subst ht
            refine .idle (by simp [h2]) ?_ (by simpa using hr)
            intro l' hl'
            by_cases e : l' = l
            · subst e; simp at hl'
            · simp [upd_other _ _ e] at hl'; exact e (ho.2 l' hl')
          · refine (hthr t).frame l (by simp [upd_other _ _ ht]) rfl rfl ?_ (fun _ _ => rfl)
              (fun _ _ => rfl) (by rw [hown]; intro e; injection e with e; exact ht e.symm) (by simp)
            intro l' hl'; simp [upd_other _ _ hl']
        · intro l' hl'
          by_cases e : l' = l
          · subst e; exact hv
          · simp [upd_other _ _ e] at hl'; exact hfree _ hl'
    · cases h

theorem inv_exec {sys : Sys} {s : State} (t : Nat) (hI : Inv sys s) : Inv sys (exec s t) := by
  unfold exec
  cases h : step s t with
  | none => exact hI
  | some s' => exact inv_step hI h

theorem inv_run {sys : Sys} (sched : List Nat) : ∀ {s : State}, Inv sys s → Inv sys (run s sched) := by
  induction sched with
  | nil => intro s h; exact h
  | cons t r ih => intro s h; exact ih (inv_exec t h)

/-- the invariant holds in every reachable state -/
theorem inv_reachable (sys : Sys) (sched : List Nat) : Inv sys (run (init good sys) sched) :=
  inv_run sched (inv_init sys)

/-! ### mutual exclusion -/

/-- a thread inside a call on lock `l` holds `l` -/
theorem inCall_owner {s : State} {S : SState} {t l : Nat} (h : ThreadOk s S t) (hc : inCall s t l = true) :
    s.owner l = some t := by
  unfold inCall at hc
  cases h with
  | idle hp ho hr =>
    rw [hp] at hc
    cases htodo : S.todo t with
    | nil => rw [htodo] at hc; simp [compile] at hc
    | cons c r => rw [htodo, compile_cons] at hc; simp at hc
  | acquired c hp ho hv hr => rw [hp] at hc; simp at hc; subst hc; exact ho.1
  | readDone c hp ho hreg hv hr => rw [hp] at hc; simp at hc; subst hc; exact ho.1
  | written l' hp ho hv hr => rw [hp] at hc; simp at hc

/-- **in every reachable state, a thread that is inside a call on a lock holds that lock** -/
theorem in_call_holds_lock (sys : Sys) (sched : List Nat) (t l : Nat) :
    let s := run (init LockGen.applyShape sys) sched
    inCall s t l = true → s.owner l = some t := by
  rw [shape_is_lock_call_unlock]
  intro s hc
  exact inCall_owner ((inv_reachable sys sched).thr t) hc

/-- **mutual exclusion: in every reachable state at most one thread is inside a call per lock**
(any system, any schedule) -/
theorem mutual_exclusion (sys : Sys) (sched : List Nat) (t1 t2 l : Nat) :
    let s := run (init LockGen.applyShape sys) sched
    inCall s t1 l = true → inCall s t2 l = true → t1 = t2 := by
  rw [shape_is_lock_call_unlock]
  intro s h1 h2
  have o1 := inCall_owner ((inv_reachable sys sched).thr t1) h1
  have o2 := inCall_owner ((inv_reachable sys sched).thr t2) h2
  rw [o1] at o2
  injection o2

/-! ### serialisability -/

theorem step_thr_other {s s' : State} {t t' : Nat} (h : step s t' = some s') (hne : t ≠ t') :
    s'.thr t = s.thr t := by
  unfold step at h
  split at h
  · cases h
  · split at h
    · cases h
    · cases h; simp [upd_other _ _ hne]
  · cases h; simp [upd_other _ _ hne]
  · cases h; simp [upd_other _ _ hne]
  · split at h
    · cases h; simp [upd_other _ _ hne]
    · cases h

theorem step_nil {s : State} {t : Nat} (h : (s.thr t).prog = []) : step s t = none := by
  unfold step; rw [h]

theorem exec_prog_nil {s : State} {t : Nat} (t' : Nat) (h : (s.thr t).prog = []) :
    ((exec s t').thr t).prog = [] := by
  unfold exec
  cases hs : step s t' with
  | none => exact h
  | some s' =>
    by_cases e : t = t'
    · subst e; rw [step_nil h] at hs; cases hs
    · simp [step_thr_other hs e, h]

theorem run_prog_nil (sched : List Nat) : ∀ {s : State} {t : Nat}, (s.thr t).prog = [] →
    ((run s sched).thr t).prog = [] := by
  induction sched with
  | nil => intro s t h; exact h
  | cons t' r ih => intro s t h; exact ih (exec_prog_nil t' h)

/-- threads that do not exist never have anything to do -/
theorem absent_thread (sys : Sys) (sched : List Nat) (t : Nat) (ht : sys.scripts.length ≤ t) :
    ((run (init good sys) sched).thr t).prog = [] := by
  apply run_prog_nil
  simp [init, List.getD, List.getElem?_eq_none ht, compile]

theorem finished_all {sys : Sys} {sched : List Nat}
    (hF : Finished sys.scripts.length (run (init good sys) sched)) (t : Nat) :
    ((run (init good sys) sched).thr t).prog = [] := by
  by_cases h : t < sys.scripts.length
  · exact hF t h
  · exact absent_thread sys sched t (Nat.le_of_not_lt h)

/-- in a state in which no thread has anything left to do, every lock is free -/
theorem free_of_finished {s : State} {S : SState} (hthr : ∀ t, ThreadOk s S t)
    (hdone : ∀ t, (s.thr t).prog = []) (l : Nat) : s.owner l = none := by
  cases ho : s.owner l with
  | none => rfl
  | some t =>
    obtain ⟨rest, h | ⟨f, h⟩ | h⟩ := (hthr t).of_owner ho <;> (rw [hdone t] at h; cases h)

/-- **Serialisability.**  For every system and every schedule that runs all scripts to completion:
the final value of every lock and every value returned to every thread are those of the *serial*
execution that runs the closures atomically, one at a time, in the order in which the threads
acquired the lock(s) (`s.acqs`); that serial execution runs every closure of every script, and
all locks are free at the end. -/
theorem serialisable (sys : Sys) (sched : List Nat) :
    let s := run (init LockGen.applyShape sys) sched
    let S := serial (sinit sys) s.acqs
    Finished sys.scripts.length s →
      (∀ l, s.vals l = S.vals l) ∧ (∀ t, (s.thr t).rets = S.rets t) ∧ (∀ t, S.todo t = []) ∧
      (∀ l, s.owner l = none) := by
  rw [shape_is_lock_call_unlock]
  intro s S hF
  have hI := inv_reachable sys sched
  have hdone := finished_all hF
  have hfree := free_of_finished hI.thr hdone
  have hidle : ∀ t, S.rets t = (s.thr t).rets ∧ S.todo t = [] := by
    intro t
    cases hI.thr t with
    | idle hp ho hr =>
      refine ⟨hr, compile_eq_nil ?_⟩
      rw [← hp]; exact hdone t
    | acquired c hp ho hv hr => rw [hdone t] at hp; cases hp
    | readDone c hp ho hreg hv hr => rw [hdone t] at hp; cases hp
    | written l' hp ho hv hr => rw [hdone t] at hp; cases hp
  exact ⟨fun l => (hI.free l (hfree l)).symm, fun t => (hidle t).1.symm, fun t => (hidle t).2, hfree⟩

/-- the same, in the finite view compared by the driver (`lockcheck`): the observed outcome of a
completed run is the outcome of the serial execution in acquisition order -/
theorem serialisable_outcome (sys : Sys) (sched : List Nat) :
    let s := run (init LockGen.applyShape sys) sched
    Finished sys.scripts.length s → serialOutcome sys s.acqs = some (outcome sys s) := by
  intro s hF
  obtain ⟨hv, hr, ht, _⟩ := serialisable sys sched hF
  unfold serialOutcome outcome
  rw [if_pos]
  · congr 2
    · apply List.map_congr_left; intro t _; exact (hr t).symm
    · apply List.map_congr_left; intro l _; exact (hv l).symm
  · simp only [List.all_eq_true]
    intro t _
    rw [ht t]; rfl

/-- **each closure sees the effects of all closures completed before it**: whenever a lock is free,
its value is the one left by the serial execution of *all* closures that ever acquired a lock;
in particular the next thread to acquire it reads exactly that value … -/
theorem free_lock_has_serial_value (sys : Sys) (sched : List Nat) (l : Nat) :
    let s := run (init LockGen.applyShape sys) sched
    s.owner l = none → s.vals l = (serial (sinit sys) s.acqs).vals l := by
  rw [shape_is_lock_call_unlock]
  intro s h
  exact ((inv_reachable sys sched).free l h).symm

/-- … and nobody changes it between the acquisition and the closure's own write: the value the
closure has read (and is going to return) is still the value of the lock -/
theorem read_value_is_current (sys : Sys) (sched : List Nat) (t l : Nat) (f : Rmw) (rest : List Micro) :
    let s := run (init LockGen.applyShape sys) sched
    (s.thr t).prog = .write l f :: rest → (s.thr t).reg = s.vals l := by
  rw [shape_is_lock_call_unlock]
  intro s hprog
  cases (inv_reachable sys sched).thr t with
  | idle hp ho hr =>
    rw [hprog] at hp
    cases htodo : (serial (sinit sys) s.acqs).todo t with
    | nil => rw [htodo] at hp; cases hp
    | cons c r => rw [htodo, compile_cons] at hp; cases hp
  | acquired c hp ho hv hr => rw [hprog] at hp; cases hp
  | readDone c hp ho hreg hv hr =>
    rw [hprog] at hp; injection hp with h1 _; injection h1 with h1 _; subst h1; exact hreg
  | written l' hp ho hv hr => rw [hprog] at hp; cases hp

/-! ### no deadlock -/

/-- **No deadlock.**  In every reachable state in which some thread has not finished its script,
some thread can make a step.  (Closures of the model cannot call `apply`: this is the statement
for non-re-entrant use — a closure that calls `apply` on the lock it runs under blocks forever
on `std::sync::Mutex`, and nested use of several locks can deadlock in the usual way.  With
closures that do not call `apply`, several locks are harmless: a thread never waits for one
lock while holding another.) -/
theorem no_deadlock (sys : Sys) (sched : List Nat) :
    let s := run (init LockGen.applyShape sys) sched
    ¬ Finished sys.scripts.length s → ∃ t, (step s t).isSome = true := by
  rw [shape_is_lock_call_unlock]
  intro s hnf
  have hI := inv_reachable sys sched
  by_cases hex : ∃ l t, s.owner l = some t
  · obtain ⟨l, t, ho⟩ := hex
    refine ⟨t, ?_⟩
    obtain ⟨rest, h | ⟨f, h⟩ | h⟩ := (hI.thr t).of_owner ho <;> (unfold step; rw [h]; simp [ho])
  · have hnone : ∀ l, s.owner l = none := by
      intro l
      cases ho : s.owner l with
      | none => rfl
      | some t => exact absurd ⟨l, t, ho⟩ hex
    have : ∃ t, (s.thr t).prog ≠ [] := by
      apply Classical.byContradiction
      intro hall
      apply hnf
      intro t _
      apply Classical.byContradiction
      intro hne
      exact hall ⟨t, hne⟩
    obtain ⟨t, hne⟩ := this
    refine ⟨t, ?_⟩
    cases hI.thr t with
    | idle hp ho hr =>
      cases htodo : (serial (sinit sys) s.acqs).todo t with
      | nil => rw [htodo] at hp; exact absurd hp hne
      | cons c r =>
        rw [htodo, compile_cons] at hp
        unfold step; rw [hp]; simp [hnone c.lock]
    | acquired c hp ho hv hr => have := ho.1; rw [hnone] at this; cases this
    | readDone c hp ho hreg hv hr => have := ho.1; rw [hnone] at this; cases this
    | written l' hp ho hv hr => have := ho.1; rw [hnone] at this; cases this

end Essential.C20
